//@unit props=C10,C13 tier=quick rlimit=40
//@file src/algo/johnson_75.rs
// C10 for Johnson75 (src/algo/johnson_75.rs: `new`, `is_blocked`, the recursive `unblock` and `circuit`, `circuits`) and the
// memory-safety part of C13 (the three raw-pointer accesses `b_ptr.add(id)` into `self.b`), verified against the opaque
// digraph `Dgj` (prelude/dg_johnson.rs: arbitrary finite vertex set, `contiguous()` = 0..order, trait contracts of Order /
// Vertices / OutNeighbors / FilterVertices). `circuits` calls Tarjan: Tarjan's three functions are re-extracted here with the
// contracts of units/tarjan.rs (props=C09; its spec functions and lemmas are copied verbatim, Dga := Dgj).
//
// `circuits` has one ensures clause per stage:
//   stage 1 (safety, termination): every `self.b[..]` index is in bounds (b.len() == a.ord(), every blocked id and every
//            vertex of a sub-digraph is < a.ord() because `a` is contiguous and filter_vertices only removes vertices);
//            `unblock` terminates (measure |blocked|, its pop loop: |B(u)|), `circuit` terminates (measure |V(scc)| - |stack|:
//            the stack is duplicate-free).
//   stage 2 (soundness): every returned sequence is an elementary circuit of `a` written from its smallest vertex.
//   stage 3 (no duplicates): no sequence is returned twice.
//   stage 4 (completeness): every elementary circuit of `a` (written from its smallest vertex) is returned.
// Proof (speclib/johnson_lemmas.rs, all lemmas proved). State of one `circuit(start, start, &component, ..)` run: JS = (blocked,
// B-lists, stack) relative to the component (has / ink).
//   jinv  = the stack is a simple path from s of BLOCKED vertices; B-lists of unblocked vertices are empty; B-list entries are
//           predecessors; a blocked vertex off the stack has only blocked successors and sits on the B-list of each of them;
//           + a ghost labelling d (existentially quantified): for a blocked vertex u off the stack, d(u) <= |stack| bounds the
//           stack positions that u reaches through blocked vertices off the stack, and a stale B-list entry that is on the
//           stack lies at a position >= d.  This is what shows that the cascade of `unblock(top)` never unblocks a vertex that
//           is still on the stack (lemma_top_closed): hence no vertex is entered twice, the stack stays duplicate-free.
//   ub_rel = contract of `unblock`: only blocked vertices are unblocked, exactly their B-lists are emptied, an unblocked
//           vertex unblocks its whole (old) B-list, and the unblocked set lies inside every set closed under blocked B-list
//           entries that contains u.
//   jblk  = Johnson's blocking property: every path from a blocked vertex off the stack to s passes through a stack entry
//           other than s (kept by push / pop after failure / pop after `unblock`: lemma_hpush, lemma_hfail, lemma_hsucc).
//   seg_ok / comp_ok = what one `circuit(v, ..)` call appends: pairwise different circuits through s that extend stack + [v]
//           (stages 2, 3), and all of them (stage 4: a circuit continuing with a blocked vertex contradicts jblk).
//   `circuits`: the component chosen by `min_by_key(|scc| scc.iter().min())` is the strongly connected component of s in
//           a[{u >= s}] (lemma_min_scc, so start == s); an elementary circuit with smallest vertex s lies inside it
//           (lemma_circ_in_comp, from Tarjan's completeness clause); rounds for different s emit different first vertices.
// Assumptions: prelude/dg_johnson.rs (trait contracts), prelude/tarjan_std.rs (see units/tarjan.rs), prelude/johnson_std.rs
//   (BTreeSet::pop_first, `btree_set::Iter::min`, E12 wrapper vx_min_by_key). No @manual replacement.
#![feature(allocator_api)]
use vstd::prelude::*;
use vstd::std_specs::iter::IteratorSpec;
use vstd::slice::SliceIndexSpec;
use std::collections::BTreeMap;
use std::collections::BTreeSet;
use std::collections::btree_set;
use std::alloc::Allocator;
use core::borrow::Borrow;
verus! {
global size_of usize == 8;
broadcast use {vstd::std_specs::btree::group_btree_axioms, jbt::lemma_btree_min};
//@include prelude/std_contracts.rs
//@include prelude/tarjan_std.rs
//@include prelude/johnson_std.rs
//@include prelude/dg_johnson.rs
//@include speclib/graph.rs
//@include speclib/tarjan_lemmas.rs
//@include speclib/johnson_lemmas.rs

// =============================================================================================
// Tarjan (src/algo/tarjan.rs): directives, spec functions and lemmas of units/tarjan.rs (verbatim copy, Dga := Dgj)
// =============================================================================================
//@file src/algo/tarjan.rs
/*@struct name=Tarjan subst=D=>Dgj drop=D @*/

/// arc relation of the digraph as a spec closure (for speclib/graph.rs)
spec fn arcs_of(dg: &Dgj) -> ArcRel { |u: int, v: int| dg.has(u, v) }

// ---- abstraction: usize-keyed containers -> integer-keyed mathematical ones ----
spec fn a_seq(s: Seq<usize>) -> Seq<int> { Seq::new(s.len(), |i: int| s[i] as int) }
spec fn a_set(s: Set<usize>) -> Set<int> { s.map(|x: usize| x as int) }
spec fn a_map(m: Map<usize, usize>) -> Map<int, int> { Map::new(a_set(m.dom()), |k: int| m[k as usize] as int) }
spec fn a_comps(c: Seq<BTreeSet<usize>>) -> Seq<Set<int>> { Seq::new(c.len(), |j: int| a_set(c[j]@)) }

broadcast proof fn lemma_a_set_contains(s: Set<usize>, x: int)
    ensures #[trigger] a_set(s).contains(x) == (0 <= x <= usize::MAX && s.contains(x as usize)),
{
    if a_set(s).contains(x) {
        let k = choose|k: usize| s.contains(k) && k as int == x;
        assert(k == x as usize);
    }
    if 0 <= x <= usize::MAX && s.contains(x as usize) {
        assert(s.contains(x as usize) && (x as usize) as int == x);
    }
}

broadcast proof fn lemma_a_map_contains(m: Map<usize, usize>, x: int)
    ensures #[trigger] a_map(m).contains_key(x) == (0 <= x <= usize::MAX && m.contains_key(x as usize)),
{
    lemma_a_set_contains(m.dom(), x);
}

proof fn lemma_a_insert(m: Map<usize, usize>, s: Set<usize>, q: Seq<usize>, k: usize, v: usize)
    ensures
        a_map(m.insert(k, v)) == a_map(m).insert(k as int, v as int),
        a_set(s.insert(k)) == a_set(s).insert(k as int),
        a_set(s.remove(k)) == a_set(s).remove(k as int),
        a_seq(q.push(k)) == a_seq(q).push(k as int),
{
    broadcast use lemma_a_set_contains, lemma_a_map_contains;
    assert(a_map(m.insert(k, v)) =~= a_map(m).insert(k as int, v as int));
    assert(a_set(s.insert(k)) =~= a_set(s).insert(k as int));
    assert(a_set(s.remove(k)) =~= a_set(s).remove(k as int));
    assert(a_seq(q.push(k)) =~= a_seq(q).push(k as int));
}


/// the concrete facts the pop loop starts from
proof fn lemma_pop_facts(has: ArcRel, verts: Set<int>, s0: TS, s: TS, u: int, nb: Seq<int>)
    requires cinv(has, verts, s0, s, u, nb, nb.len() as int),
    ensures s.stk.len() > s0.stk.len(), s.stk[s0.stk.len() as int] == u, s.stk.no_duplicates(),
{
    reveal(cinv); reveal(tinv);
}

/// the iterator of out_neighbors(u) yields every out-neighbour
spec fn nb_complete(dg: &Dgj, u: usize, nbu: Seq<usize>) -> bool {
    forall|y: usize| dg.has(u as int, y as int) ==> nbu.contains(y)
}

proof fn lemma_nb_complete(dg: &Dgj, u: usize, nbu: Seq<usize>)
    requires dg.wf(), nb_complete(dg, u, nbu),
    ensures forall|y: int| #[trigger] arcs_of(dg)(u as int, y) ==> a_seq(nbu).contains(y),
{
    assert forall|y: int| #[trigger] arcs_of(dg)(u as int, y) implies a_seq(nbu).contains(y) by {
        assert(dg.has(u as int, y));
        let yu = y as usize;
        assert(nbu.contains(yu));
        let j = choose|j: int| 0 <= j < nbu.len() && nbu[j] == yu;
        assert(a_seq(nbu)[j] == y);
    }
}

proof fn lemma_a_seq_nodup(q: Seq<usize>)
    requires a_seq(q).no_duplicates(),
    ensures q.no_duplicates(),
{
    assert forall|i: int, j: int| 0 <= i < q.len() && 0 <= j < q.len() && i != j implies q[i] != q[j] by {
        assert(a_seq(q)[i] != a_seq(q)[j]);
    }
}

impl<'a> Tarjan<'a> {
    /// the abstract state
    spec fn abs(&self) -> TS {
        TS { i: self.i as int, stk: a_seq(self.stack@), ons: a_set(self.on_stack@), idx: a_map(self.index@), low: a_map(self.low_link@), comps: a_comps(self.components@) }
    }

    /// between top-level calls: the invariant holds and the stack is empty
    spec fn ready(&self) -> bool {
        &&& self.digraph.wf()
        &&& tinv(arcs_of(self.digraph), self.digraph.verts(), self.abs())
        &&& self.stack@.len() == 0
    }

    /*@fn impl=Tarjan name=new subst=D=>Dgj drop=D dropwhere=D props=C09
    requires
        digraph.wf(),
    ensures
        r.digraph == digraph,
        r.abs() == ts_init(),
        r.ready(),
    @fn_start
        proof {
            broadcast use lemma_a_set_contains, lemma_a_map_contains;
            lemma_init(arcs_of(digraph), digraph.verts());
            assert(a_seq(Seq::<usize>::empty()) =~= Seq::<int>::empty());
            assert(a_set(Set::<usize>::empty()) =~= Set::<int>::empty());
            assert(a_map(Map::<usize, usize>::empty()) =~= Map::<int, int>::empty());
            assert(a_comps(Seq::<BTreeSet<usize>>::empty()) =~= Seq::<Set<int>>::empty());
        }
    @*/

    /*@fn impl=Tarjan name=connect subst=D=>Dgj drop=D dropwhere=D wrap=min props=C09
    requires
        old(self).digraph.wf(),
        tpre(arcs_of(old(self).digraph), old(self).digraph.verts(), old(self).abs(), u as int),
    ensures
        final(self).digraph == old(self).digraph,
        tpost(arcs_of(old(self).digraph), old(self).digraph.verts(), old(self).abs(), final(self).abs(), u as int),
    decreases
        old(self).digraph.verts().len() - old(self).i,
    @fn_start
        broadcast use axiom_btree_map_index_req;
        let ghost s0 = self.abs();
        let ghost has = arcs_of(self.digraph);
        let ghost verts = self.digraph.verts();
        proof {
            broadcast use lemma_a_set_contains, lemma_a_map_contains;
            lemma_pre_facts(has, verts, s0, u as int);
        }
    @before `for v in self.digraph.out_neighbors(u)`
        proof {
            lemma_a_insert(old(self).index@, old(self).on_stack@, old(self).stack@, u, old(self).i);
            lemma_a_insert(old(self).low_link@, old(self).on_stack@, old(self).stack@, u, old(self).i);
            assert(self.abs() == pushed(s0, u as int));
            assert forall|nb: Seq<int>| (forall|j: int| 0 <= j < nb.len() ==> has(u as int, #[trigger] nb[j])) implies #[trigger] cinv(has, verts, s0, pushed(s0, u as int), u as int, nb, 0) by {
                lemma_push(has, verts, s0, u as int, nb);
            }
        }
    @loop 1
    invariant
        it1.iter.obeys_prophetic_iter_laws(),
        it1.iter.decrease() is Some,
        self.digraph == old(self).digraph,
        self.digraph.wf(),
        s0 == old(self).abs(),
        has == arcs_of(self.digraph),
        verts == self.digraph.verts(),
        nb_complete(self.digraph, u, it1.seq()),
        cinv(has, verts, s0, self.abs(), u as int, a_seq(it1.seq()), it1.index() as int),
    @loop_start 1
        broadcast use axiom_btree_map_index_req;
        let ghost sk = self.abs();
        let ghost nb = a_seq(it1.seq());
        let ghost k = it1.index() as int;
        let ghost low_k = self.low_link@;
        proof {
            broadcast use lemma_a_set_contains, lemma_a_map_contains;
            lemma_cinv_facts(has, verts, s0, sk, u as int, nb, k);
            assert(nb[k] == v as int);
            assert(self.low_link@.contains_key(u));
        }
    @after `let _ = self.low_link.insert(u, self.low_link[&u]`
        proof {
            broadcast use lemma_a_set_contains, lemma_a_map_contains;
            lemma_edge_onstack(has, verts, s0, sk, u as int, nb, k);
            lemma_a_insert(low_k, self.on_stack@, self.stack@, u, vx_min_spec(low_k[u], w));
            assert(self.abs() == with_low(sk, u as int, imin(sk.low[u as int], sk.idx[v as int])));
        }
    @before `self.connect(v);`
        proof {
            broadcast use lemma_a_set_contains, lemma_a_map_contains;
            lemma_call_pre(has, verts, s0, sk, u as int, nb, k);
        }
    @after `self.connect(v);`
        let ghost s2 = self.abs();
        let ghost low_2 = self.low_link@;
        proof {
            broadcast use lemma_a_set_contains, lemma_a_map_contains;
            lemma_after_call(has, verts, s0, sk, s2, u as int, nb, k);
            assert(self.low_link@.contains_key(u) && self.low_link@.contains_key(v));
        }
    @after `let _ = self .low_link`
        proof {
            broadcast use lemma_a_set_contains, lemma_a_map_contains;
            lemma_a_insert(low_2, self.on_stack@, self.stack@, u, vx_min_spec(low_2[u], low_2[v]));
            assert(self.abs() == with_low(s2, u as int, imin(s2.low[u as int], s2.low[v as int])));
        }
    @before `if self.index`
        let ghost sm = self.abs();
        let ghost (nbu, kf) = choose|nbu: Seq<usize>, kf: int| #[trigger] cinv(has, verts, s0, sm, u as int, a_seq(nbu), kf) && kf == nbu.len() && nb_complete(self.digraph, u, nbu);
        let ghost nbf = a_seq(nbu);
        let ghost stk_m = self.stack@;
        let ghost ons_m = self.on_stack@;
        let ghost n0 = old(self).stack@.len() as int;
        let ghost pre_m = *self;
        proof {
            broadcast use lemma_a_set_contains, lemma_a_map_contains;
            assert(cinv(has, verts, s0, sm, u as int, a_seq(nbu), kf) && kf == nbu.len() && nb_complete(self.digraph, u, nbu));
            lemma_nb_complete(self.digraph, u, nbu);
            lemma_cinv_facts(has, verts, s0, sm, u as int, nbf, nbf.len() as int);
            assert(self.index@.contains_key(u) && self.low_link@.contains_key(u));
            assert(sm.idx[u as int] == self.index@[u] as int && sm.low[u as int] == self.low_link@[u] as int);
            if sm.low[u as int] != sm.idx[u as int] {
                lemma_no_emit(has, verts, s0, sm, u as int, nbf);
            }
            lemma_pop_facts(has, verts, s0, sm, u as int, nbf);
            lemma_a_seq_nodup(stk_m);
            assert(n0 == s0.stk.len() && sm.stk.len() == stk_m.len());
            assert(sm.stk[n0] == stk_m[n0] as int);
            assert(stk_m.len() > n0 && stk_m[n0] == u && stk_m.no_duplicates());
        }
    @loop 2
    invariant_except_break
        self.stack@.len() > n0,
    invariant
        self.digraph == pre_m.digraph,
        self.i == pre_m.i,
        self.index == pre_m.index,
        self.low_link == pre_m.low_link,
        self.components == pre_m.components,
        stk_m == pre_m.stack@,
        ons_m == pre_m.on_stack@,
        0 <= n0 <= self.stack@.len() <= stk_m.len(),
        n0 < stk_m.len(),
        stk_m[n0] == u,
        stk_m.no_duplicates(),
        self.stack@ == stk_m.take(self.stack@.len() as int),
        forall|x: usize| #![trigger component@.contains(x)] component@.contains(x) <==> exists|p: int| self.stack@.len() <= p < stk_m.len() && #[trigger] stk_m[p] == x,
        forall|x: usize| #[trigger] self.on_stack@.contains(x) <==> ons_m.contains(x) && !component@.contains(x),
    ensures
        self.stack@.len() == n0,
    decreases
        self.stack@.len(),
    @loop_start 2
        let ghost len_before = self.stack@.len() + 1;
        proof {
            assert(v == stk_m[len_before - 1]);
        }
    @loop_end 2
        proof {
            assert forall|x: usize| #![trigger component@.contains(x)] component@.contains(x) <==> exists|p: int| self.stack@.len() <= p < stk_m.len() && #[trigger] stk_m[p] == x by {
                if x == v { assert(stk_m[len_before - 1] == x); }
            }
        }
    @after `self.components.push(component);`
        proof {
            broadcast use lemma_a_set_contains, lemma_a_map_contains;
            lemma_emitted(pre_m, *self, n0, component@);
            lemma_emit(has, verts, s0, sm, self.abs(), u as int, nbf, a_set(component@));
        }
    @loop_end 1
        proof {
            broadcast use lemma_a_set_contains, lemma_a_map_contains;
            if sk.idx.contains_key(v as int) && !sk.ons.contains(v as int) {
                lemma_edge_done(has, verts, s0, sk, u as int, nb, k);
            }
        }
    @*/

    /*@fn impl=Tarjan name=components subst=D=>Dgj drop=D dropwhere=D props=C09
    requires
        old(self).ready(),
    ensures
        final(self).digraph == old(self).digraph,
        final(self).ready(),
        // ---- stage 2, PARTITION: the returned sets are pairwise disjoint, non-empty, and their union is exactly V
        forall|j: int, k: int, x: usize| 0 <= j < k < r@.len() && #[trigger] r@[j]@.contains(x) ==> !#[trigger] r@[k]@.contains(x),
        forall|j: int| 0 <= j < r@.len() ==> has_member(#[trigger] r@[j]@),
        forall|x: usize| #![trigger old(self).digraph.verts().contains(x as int)] old(self).digraph.verts().contains(x as int) <==> exists|j: int| 0 <= j < r@.len() && (#[trigger] r@[j])@.contains(x),
        // ---- stage 3, SOUNDNESS: two vertices in the same set are reachable from each other
        forall|j: int, a: usize, b: usize| 0 <= j < r@.len() && #[trigger] r@[j]@.contains(a) && #[trigger] r@[j]@.contains(b) ==> reachable(arcs_of(old(self).digraph), set![a as int], b as int),
        // ---- stage 4, COMPLETENESS: two vertices reachable from each other lie in the same set
        forall|j: int, k: int, a: usize, b: usize| 0 <= j < r@.len() && 0 <= k < r@.len() && #[trigger] r@[j]@.contains(a) && #[trigger] r@[k]@.contains(b)
            && reachable(arcs_of(old(self).digraph), set![a as int], b as int) && reachable(arcs_of(old(self).digraph), set![b as int], a as int) ==> j == k,
    @fn_start
        let ghost has = arcs_of(self.digraph);
        let ghost verts = self.digraph.verts();
    @loop 1
    invariant
        it1.iter.obeys_prophetic_iter_laws(),
        it1.iter.decrease() is Some,
        self.digraph == old(self).digraph,
        has == arcs_of(self.digraph),
        verts == self.digraph.verts(),
        self.ready(),
        forall|v: usize| verts.contains(v as int) ==> it1.seq().contains(v),
        forall|i: int| 0 <= i < it1.seq().len() ==> verts.contains(#[trigger] it1.seq()[i] as int),
        forall|i: int| 0 <= i < it1.index() ==> self.index@.contains_key(#[trigger] it1.seq()[i]),
    @loop_start 1
        let ghost sk = self.abs();
        let ghost idx_k = self.index@;
        proof {
            broadcast use lemma_a_set_contains, lemma_a_map_contains;
            if !sk.idx.contains_key(u as int) {
                lemma_top_pre(has, verts, sk, u as int);
            }
        }
    @loop_end 1
        proof {
            broadcast use lemma_a_set_contains, lemma_a_map_contains;
            if !sk.idx.contains_key(u as int) {
                lemma_top_post(has, verts, sk, self.abs(), u as int);
                assert forall|x: usize| idx_k.contains_key(x) implies self.index@.contains_key(x) by {
                    assert(sk.idx.contains_key(x as int));
                }
            }
        }
    @fn_end
        proof {
            broadcast use lemma_a_set_contains, lemma_a_map_contains;
            let ghost s = self.abs();
            assert forall|x: int| #[trigger] verts.contains(x) implies s.idx.contains_key(x) by {
                let xu = x as usize;
                assert(verts.contains(xu as int));
            }
            lemma_final(has, verts, s);
            lemma_result(has, verts, self.components@);
        }
    @*/
}

/// the pop loop and `components.push(component)` perform the abstract emission step
proof fn lemma_emitted(a: Tarjan, b: Tarjan, n0: int, c: Set<usize>)
    requires
        b.i == a.i, b.index == a.index, b.low_link == a.low_link,
        b.components@ == a.components@.push(b.components@.last()),
        b.components@.len() == a.components@.len() + 1,
        b.components@.last()@ == c,
        0 <= n0 < a.stack@.len(),
        b.stack@ == a.stack@.take(n0),
        forall|x: usize| #![trigger c.contains(x)] c.contains(x) <==> exists|p: int| n0 <= p < a.stack@.len() && #[trigger] a.stack@[p] == x,
        forall|x: usize| #[trigger] b.on_stack@.contains(x) <==> a.on_stack@.contains(x) && !c.contains(x),
    ensures
        emitted(a.abs(), b.abs(), n0, a_set(c)),
{
    broadcast use lemma_a_set_contains, lemma_a_map_contains;
    let s = a.abs();
    let s1 = b.abs();
    assert(s1.stk =~= s.stk.take(n0));
    assert(s1.comps =~= s.comps.push(a_set(c)));
    assert forall|x: int| #![trigger a_set(c).contains(x)] #![trigger on_stk_from(s.stk, n0, x)] a_set(c).contains(x) <==> on_stk_from(s.stk, n0, x) by {
        if a_set(c).contains(x) {
            let p = choose|p: int| n0 <= p < a.stack@.len() && #[trigger] a.stack@[p] == x as usize;
            assert(s.stk[p] == x);
        }
        if on_stk_from(s.stk, n0, x) {
            let p = choose|p: int| n0 <= p < s.stk.len() && #[trigger] s.stk[p] == x;
            assert(a.stack@[p] == x as usize);
        }
    }
}

/// the set is not empty
spec fn has_member(s: Set<usize>) -> bool { exists|x: usize| s.contains(x) }

/// the clauses of C09 over the concrete result
proof fn lemma_result(has: ArcRel, verts: Set<int>, r: Seq<BTreeSet<usize>>)
    requires
        forall|x: int| #[trigger] verts.contains(x) ==> 0 <= x <= usize::MAX,
        is_partition(verts, a_comps(r)),
        sound(has, a_comps(r)),
        complete(has, a_comps(r)),
    ensures
        forall|j: int, k: int, x: usize| 0 <= j < k < r.len() && #[trigger] r[j]@.contains(x) ==> !#[trigger] r[k]@.contains(x),
        forall|j: int| 0 <= j < r.len() ==> has_member(#[trigger] r[j]@),
        forall|x: usize| #![trigger verts.contains(x as int)] verts.contains(x as int) <==> exists|j: int| 0 <= j < r.len() && (#[trigger] r[j])@.contains(x),
        forall|j: int, a: usize, b: usize| 0 <= j < r.len() && #[trigger] r[j]@.contains(a) && #[trigger] r[j]@.contains(b) ==> reachable(has, set![a as int], b as int),
        forall|j: int, k: int, a: usize, b: usize| 0 <= j < r.len() && 0 <= k < r.len() && #[trigger] r[j]@.contains(a) && #[trigger] r[k]@.contains(b)
            && reachable(has, set![a as int], b as int) && reachable(has, set![b as int], a as int) ==> j == k,
{
    broadcast use lemma_a_set_contains;
    let c = a_comps(r);
    assert forall|j: int, k: int, x: usize| 0 <= j < k < r.len() && #[trigger] r[j]@.contains(x) implies !#[trigger] r[k]@.contains(x) by {
        assert(c[j].contains(x as int));
        assert(!c[k].contains(x as int));
    }
    assert forall|j: int| 0 <= j < r.len() implies has_member(#[trigger] r[j]@) by {
        assert(nonempty(c[j]));
        let x = choose|x: int| c[j].contains(x);
        assert(r[j]@.contains(x as usize));
    }
    assert forall|x: usize| #![trigger verts.contains(x as int)] verts.contains(x as int) <==> exists|j: int| 0 <= j < r.len() && (#[trigger] r[j])@.contains(x) by {
        if verts.contains(x as int) {
            assert(in_comps(c, x as int));
            let j = choose|j: int| 0 <= j < c.len() && (#[trigger] c[j]).contains(x as int);
            assert(r[j]@.contains(x));
        }
        if exists|j: int| 0 <= j < r.len() && (#[trigger] r[j])@.contains(x) {
            let j = choose|j: int| 0 <= j < r.len() && (#[trigger] r[j])@.contains(x);
            assert(c[j].contains(x as int));
            assert(in_comps(c, x as int));
        }
    }
    assert forall|j: int, a: usize, b: usize| 0 <= j < r.len() && #[trigger] r[j]@.contains(a) && #[trigger] r[j]@.contains(b) implies reachable(has, set![a as int], b as int) by {
        assert(c[j].contains(a as int) && c[j].contains(b as int));
        assert(reach(has, a as int, b as int));
    }
    assert forall|j: int, k: int, a: usize, b: usize| 0 <= j < r.len() && 0 <= k < r.len() && #[trigger] r[j]@.contains(a) && #[trigger] r[k]@.contains(b)
            && reachable(has, set![a as int], b as int) && reachable(has, set![b as int], a as int) implies j == k by {
        assert(c[j].contains(a as int) && c[k].contains(b as int));
        assert(reach(has, a as int, b as int) && reach(has, b as int, a as int));
    }
}

// =============================================================================================
// Johnson75
// =============================================================================================
//@file src/algo/johnson_75.rs
/*@struct name=Johnson75 subst=D=>Dgj drop=D @*/

// ---- abstraction ----
/// arc relation / vertex predicate of a digraph over usize ids (for speclib/johnson_lemmas.rs)
spec fn jhas(g: &Dgj) -> JArc { |u: usize, v: usize| g.has(u as int, v as int) }
spec fn jin(g: &Dgj) -> JIn { |x: usize| g.verts().contains(x as int) }
/// the B-lists / the emitted sequences as mathematical values
spec fn bsets(b: Seq<BTreeSet<usize>>) -> Seq<Set<usize>> { Seq::new(b.len(), |i: int| b[i]@) }
spec fn rv(r: Seq<Vec<usize>>) -> Seq<Seq<usize>> { Seq::new(r.len(), |i: int| r[i]@) }

proof fn lemma_jg(g: &Dgj, n: int)
    requires g.wf(), forall|x: int| #[trigger] g.verts().contains(x) ==> x < n,
    ensures jg(jhas(g), jin(g), n),
{
}

/// a duplicate-free sequence of vertices is at most as long as the vertex set is large
proof fn lemma_stack_bound(verts: Set<int>, stk: Seq<usize>)
    requires stk.no_duplicates(), forall|p: int| 0 <= p < stk.len() ==> verts.contains(#[trigger] stk[p] as int),
    ensures stk.len() <= verts.len(),
{
    let q = a_seq(stk);
    assert(q.no_duplicates()) by {
        assert forall|i: int, j: int| 0 <= i < q.len() && 0 <= j < q.len() && i != j implies q[i] != q[j] by { assert(stk[i] != stk[j]); }
    }
    q.unique_seq_to_set();
    assert(q.to_set().subset_of(verts)) by {
        assert forall|x: int| q.to_set().contains(x) implies verts.contains(x) by {
            let i = choose|i: int| 0 <= i < q.len() && q[i] == x;
            assert(verts.contains(stk[i] as int));
        }
    }
    vstd::set_lib::lemma_len_subset(q.to_set(), verts);
}

/// x is among the out-neighbours still to come
spec fn later(nb: Seq<usize>, idx: int, x: usize) -> bool { exists|i: int| idx <= i < nb.len() && #[trigger] nb[i] == x }

// ---- C10: what `circuits` promises ----
spec fn arc_at(a: &Dgj, c: Seq<usize>, i: int) -> bool { a.has(c[i] as int, c[i + 1] as int) }

/// c is an elementary circuit of `a` (a closed walk of length c.len() >= 2 through pairwise distinct vertices), written as
/// its vertex sequence starting at its smallest vertex and following the arcs (the arc from the last vertex closes it)
spec fn elem_circuit(a: &Dgj, c: Seq<usize>) -> bool {
    &&& c.len() >= 2
    &&& c.no_duplicates()
    &&& forall|i: int| 0 <= i < c.len() - 1 ==> #[trigger] arc_at(a, c, i)
    &&& a.has(c.last() as int, c[0] as int)
    &&& forall|i: int| 0 <= i < c.len() ==> c[0] <= #[trigger] c[i]
}

/// ... which is a closed walk in the sense of speclib/graph.rs: c[0], ..., c[last], c[0] is a walk of c.len() arcs
proof fn lemma_elem_circuit_closed_walk(a: &Dgj, c: Seq<usize>)
    requires elem_circuit(a, c),
    ensures is_walk(arcs_of(a), a_seq(c).push(c[0] as int)), a_seq(c).push(c[0] as int).len() == c.len() + 1,
{
    let w = a_seq(c).push(c[0] as int);
    assert forall|i: int| 0 <= i < w.len() - 1 implies #[trigger] step_ok(arcs_of(a), w, i) by {
        if i < c.len() - 1 { assert(arc_at(a, c, i)); }
    }
}

/// g is the sub-digraph of `a` induced by the vertices that satisfy `keep`
spec fn induced(a: &Dgj, g: &Dgj, keep: spec_fn(int) -> bool) -> bool {
    &&& forall|x: int| #[trigger] g.verts().contains(x) <==> a.verts().contains(x) && keep(x)
    &&& forall|u: int, v: int| #[trigger] g.has(u, v) <==> a.has(u, v) && keep(u) && keep(v)
}

proof fn lemma_induced_wf(a: &Dgj, g: &Dgj, keep: spec_fn(int) -> bool)
    requires a.wf(), induced(a, g, keep),
    ensures g.wf(), g.verts().subset_of(a.verts()),
{
    vstd::set_lib::lemma_len_subset(g.verts(), a.verts());
}

// The minimum of a BTreeSet through its ascending iterator. In a module of its own because the lemma is used by broadcast
// (the closure `|scc| scc.iter().min()` becomes a fn item whose body cannot take hints) and a module-level `broadcast use`
// may not name a lemma of the same module.
mod jbt {
    use vstd::prelude::*;
    /// postcondition of the key closure `|scc| scc.iter().min()`: None for the empty set, else its smallest element
    pub open spec fn key_ok(set: Set<usize>, k: Option<&usize>) -> bool {
        match k {
            None => forall|y: usize| !set.contains(y),
            Some(m) => set.contains(*m) && forall|y: usize| set.contains(y) ==> *m <= y,
        }
    }
    pub open spec fn first_of<'a>(rem: Seq<&'a usize>) -> Option<&'a usize> { if rem.len() == 0 { None } else { Some(rem[0]) } }

    /// the first item of an ascending sequence is the minimum of its items
    pub broadcast proof fn lemma_btree_min(rem: Seq<&usize>)
        requires #[trigger] vstd::std_specs::btree::increasing_seq(rem),
        ensures key_ok(rem.unref().to_set(), first_of(rem)),
    {
        broadcast use vstd::std_specs::btree::group_btree_axioms;
        broadcast use vstd::laws_cmp::group_laws_cmp;
        vstd::std_specs::btree::axiom_increasing_seq_meaning(rem);
        let set = rem.unref().to_set();
        assert forall|y: usize| set.contains(y) implies rem.len() > 0 && *rem[0] <= y by {
            assert(rem.unref().contains(y));
            let i = choose|i: int| 0 <= i < rem.unref().len() && rem.unref()[i] == y;
            assert(*rem[i] == y);
            if i > 0 { assert(vstd::std_specs::cmp::OrdSpec::cmp_spec(&rem[0], &rem[i]) is Less); assert(*rem[0] < *rem[i]); }
        }
        if rem.len() > 0 {
            assert(rem.unref()[0] == *rem[0]);
            assert(rem.unref().contains(*rem[0]));
        }
    }
}
use jbt::{key_ok, first_of};

/// ms contains s, and only vertices >= s of the sub-digraph
spec fn ms_ok(ms: Set<usize>, sub: &Dgj, s: usize) -> bool {
    ms.contains(s) && forall|x: usize| #[trigger] ms.contains(x) ==> x >= s && sub.verts().contains(x as int)
}

/// the component chosen by `min_by_key(|scc| scc.iter().min())` among the strongly connected components of the sub-digraph
/// induced by { u >= s } is the one that contains s
proof fn lemma_min_scc(sub: &Dgj, s: usize, comps: Seq<BTreeSet<usize>>, keys: Seq<Option<&usize>>, i0: int)
    requires
        sub.verts().contains(s as int),
        forall|x: int| #[trigger] sub.verts().contains(x) ==> x >= s,
        forall|j: int| 0 <= j < comps.len() ==> has_member(#[trigger] comps[j]@),
        forall|x: usize| #![trigger sub.verts().contains(x as int)] sub.verts().contains(x as int) <==> exists|j: int| 0 <= j < comps.len() && (#[trigger] comps[j])@.contains(x),
        keys.len() == comps.len(),
        forall|j: int| 0 <= j < comps.len() ==> key_ok(comps[j]@, #[trigger] keys[j]),
        0 <= i0 < comps.len(),
        min_key_at(keys, i0),
    ensures
        ms_ok(comps[i0]@, sub, s),
{
    let j = choose|j: int| 0 <= j < comps.len() && (#[trigger] comps[j])@.contains(s);
    assert(key_ok(comps[j]@, keys[j]));
    assert(key_ok(comps[i0]@, keys[i0]));
    assert(opt_le(keys[i0], keys[j]));
    assert(has_member(comps[i0]@));
    let z = choose|z: usize| comps[i0]@.contains(z);
    assert forall|x: usize| #[trigger] comps[i0]@.contains(x) implies x >= s && sub.verts().contains(x as int) by {
        assert(sub.verts().contains(x as int));
    }
    match keys[j] {
        None => { assert(false); }
        Some(mj) => {
            assert(sub.verts().contains(*mj as int));
            match keys[i0] {
                None => { assert(false); }
                Some(m0) => { assert(sub.verts().contains(*m0 as int)); }
            }
        }
    }
}

/// everything emitted so far: elementary circuits of `a`, pairwise different, whose first vertex comes before the
/// vertices still to be handled (seq[idx..])
spec fn all_ok(a: &Dgj, r: Seq<Seq<usize>>, seq: Seq<usize>, idx: int) -> bool {
    &&& forall|i: int| 0 <= i < r.len() ==> elem_circuit(a, #[trigger] r[i])
    &&& forall|i: int, j: int| 0 <= i < j < r.len() ==> #[trigger] r[i] != #[trigger] r[j]
    &&& forall|i: int, j: int| 0 <= i < r.len() && idx <= j < seq.len() ==> (#[trigger] r[i])[0] < #[trigger] seq[j]
}

/// one round of `circuits`: the circuits through start = seq[idx] found in the component are appended
proof fn lemma_all_ok_step(a: &Dgj, comp: &Dgj, r0: Seq<Seq<usize>>, r1: Seq<Seq<usize>>, seq: Seq<usize>, idx: int, start: usize)
    requires
        all_ok(a, r0, seq, idx),
        0 <= idx < seq.len(),
        forall|i: int, j: int| 0 <= i < j < seq.len() ==> #[trigger] seq[i] < #[trigger] seq[j],
        seq[idx] == start,
        seg_ok(jhas(comp), jin(comp), start, seq![start], r0, r1),
        forall|u: int, v: int| #[trigger] comp.has(u, v) ==> a.has(u, v),
        forall|x: int| #[trigger] comp.verts().contains(x) ==> x >= start,
    ensures
        all_ok(a, r1, seq, idx + 1),
{
    let has = jhas(comp);
    let ink = jin(comp);
    let pre = seq![start];
    assert forall|i: int| r0.len() <= i < r1.len() implies elem_circuit(a, #[trigger] r1[i]) && r1[i][0] == start by {
        let c = r1[i];
        assert(circ_in(has, ink, start, c) && is_prefix(pre, c));
        assert forall|k: int| 0 <= k < c.len() - 1 implies #[trigger] arc_at(a, c, k) by { assert(stk_arc(has, c, k)); }
        assert forall|k: int| 0 <= k < c.len() implies c[0] <= #[trigger] c[k] by { assert(ink(c[k])); }
    }
    assert forall|i: int| 0 <= i < r1.len() implies elem_circuit(a, #[trigger] r1[i]) by {
        if i < r0.len() { assert(r1[i] == r0[i]); }
    }
    assert forall|i: int, j: int| 0 <= i < j < r1.len() implies #[trigger] r1[i] != #[trigger] r1[j] by {
        if i < r0.len() {
            assert(r1[i] == r0[i]);
            if j < r0.len() { assert(r1[j] == r0[j]); } else { assert(r0[i][0] < seq[idx]); }
        }
    }
    assert forall|i: int, j: int| 0 <= i < r1.len() && idx + 1 <= j < seq.len() implies (#[trigger] r1[i])[0] < #[trigger] seq[j] by {
        if i < r0.len() { assert(r1[i] == r0[i]); } else { assert(seq[idx] < seq[j]); }
    }
}

/// every out-neighbour of v is among nbs
spec fn nb_all(has: JArc, v: usize, nbs: Seq<usize>) -> bool { forall|y: usize| #[trigger] has(v, y) ==> nbs.contains(y) }
/// every vertex of a is among sq
spec fn vs_all(a: &Dgj, sq: Seq<usize>) -> bool { forall|v: usize| #![trigger a.verts().contains(v as int)] a.verts().contains(v as int) ==> sq.contains(v) }

// ---- stage 4 at the level of `circuits` ----
proof fn lemma_reach_fwd(has: ArcRel, c: Seq<int>, i: int)
    requires forall|k: int| 0 <= k < c.len() - 1 ==> #[trigger] step_ok(has, c, k), 0 <= i < c.len(),
    ensures reach(has, c[0], c[i]),
    decreases i,
{
    if i == 0 { lemma_reach_refl(has, c[0]); } else {
        lemma_reach_fwd(has, c, i - 1);
        assert(step_ok(has, c, i - 1));
        lemma_reach_then_arc(has, c[0], c[i - 1], c[i]);
    }
}

proof fn lemma_reach_back(has: ArcRel, c: Seq<int>, i: int)
    requires forall|k: int| 0 <= k < c.len() - 1 ==> #[trigger] step_ok(has, c, k), has(c.last(), c[0]), 0 <= i < c.len(),
    ensures reach(has, c[i], c[0]),
    decreases c.len() - i,
{
    if i == c.len() - 1 { lemma_reach_arc(has, c.last(), c[0]); } else {
        lemma_reach_back(has, c, i + 1);
        assert(step_ok(has, c, i));
        lemma_reach_arc(has, c[i], c[i + 1]);
        lemma_reach_trans(has, c[i], c[i + 1], c[0]);
    }
}

/// membership in the chosen component, as a predicate on ids
spec fn keep_of(m: Set<usize>) -> spec_fn(int) -> bool { |x: int| 0 <= x <= usize::MAX && m.contains(x as usize) }

/// an elementary circuit of `a` whose smallest vertex is s lies inside the strongly connected component of s in the
/// sub-digraph induced by { u >= s } (its vertices are pairwise reachable there), hence in `comp`
proof fn lemma_circ_in_comp(a: &Dgj, sub: &Dgj, comp: &Dgj, comps: Seq<BTreeSet<usize>>, i0: int, s: usize, c: Seq<usize>)
    requires
        a.wf(),
        induced(a, sub, |x: int| x >= s),
        0 <= i0 < comps.len(),
        comps[i0]@.contains(s),
        induced(a, comp, keep_of(comps[i0]@)),
        forall|x: usize| #![trigger sub.verts().contains(x as int)] sub.verts().contains(x as int) <==> exists|j: int| 0 <= j < comps.len() && (#[trigger] comps[j])@.contains(x),
        forall|j: int, k: int, x: usize, y: usize| 0 <= j < comps.len() && 0 <= k < comps.len() && #[trigger] comps[j]@.contains(x) && #[trigger] comps[k]@.contains(y)
            && reachable(arcs_of(sub), set![x as int], y as int) && reachable(arcs_of(sub), set![y as int], x as int) ==> j == k,
        elem_circuit(a, c),
        c[0] == s,
    ensures
        circ_in(jhas(comp), jin(comp), s, c),
{
    let has = arcs_of(sub);
    let ci = a_seq(c);
    let keep = keep_of(comps[i0]@);
    assert forall|k: int| 0 <= k < c.len() implies a.verts().contains(c[k] as int) && sub.verts().contains(#[trigger] c[k] as int) by {
        if k < c.len() - 1 { assert(arc_at(a, c, k)); } else { assert(a.has(c.last() as int, c[0] as int)); }
        assert(c[0] <= c[k]);
    }
    assert forall|k: int| 0 <= k < ci.len() - 1 implies #[trigger] step_ok(has, ci, k) by {
        assert(arc_at(a, c, k));
        assert(c[0] <= c[k] && c[0] <= c[k + 1]);
        assert(sub.has(c[k] as int, c[k + 1] as int));
    }
    assert(has(ci.last(), ci[0])) by {
        assert(c[0] <= c[c.len() - 1]);
        assert(sub.has(c.last() as int, c[0] as int));
    }
    assert forall|k: int| 0 <= k < c.len() implies comps[i0]@.contains(#[trigger] c[k]) by {
        lemma_reach_fwd(has, ci, k);
        lemma_reach_back(has, ci, k);
        assert(ci[0] == s as int && ci[k] == c[k] as int);
        assert(sub.verts().contains(c[k] as int));
        let j = choose|j: int| 0 <= j < comps.len() && (#[trigger] comps[j])@.contains(c[k]);
        assert(comps[i0]@.contains(s) && comps[j]@.contains(c[k]));
        assert(reachable(has, set![s as int], c[k] as int) && reachable(has, set![c[k] as int], s as int));
    }
    let hc = jhas(comp);
    let ic = jin(comp);
    assert forall|k: int| 0 <= k < c.len() implies ic(#[trigger] c[k]) by {
        assert(comps[i0]@.contains(c[k]));
        assert(keep(c[k] as int));
    }
    assert forall|k: int| 0 <= k < c.len() - 1 implies #[trigger] stk_arc(hc, c, k) by {
        assert(arc_at(a, c, k));
        assert(comps[i0]@.contains(c[k]) && comps[i0]@.contains(c[k + 1]));
        assert(keep(c[k] as int) && keep(c[k + 1] as int));
    }
    assert(hc(c.last(), s)) by {
        assert(comps[i0]@.contains(c[c.len() - 1]) && comps[i0]@.contains(c[0]));
        assert(keep(c.last() as int) && keep(c[0] as int));
    }
}

/// the first vertex x of a circuit was handled in one of the first idx rounds
spec fn starts_before(seq: Seq<usize>, idx: int, x: usize) -> bool { exists|j: int| 0 <= j < idx && #[trigger] seq[j] == x }

/// every elementary circuit whose first (= smallest) vertex was handled already has been emitted
spec fn done_ok(a: &Dgj, r: Seq<Seq<usize>>, seq: Seq<usize>, idx: int) -> bool {
    forall|c: Seq<usize>| #![trigger elem_circuit(a, c)] elem_circuit(a, c) && starts_before(seq, idx, c[0]) ==> found(Seq::<Seq<usize>>::empty(), r, c)
}

proof fn lemma_done_step(a: &Dgj, comp: &Dgj, r0: Seq<Seq<usize>>, r1: Seq<Seq<usize>>, seq: Seq<usize>, idx: int, s: usize)
    requires
        done_ok(a, r0, seq, idx),
        ext_by(r0, r1),
        0 <= idx < seq.len(),
        seq[idx] == s,
        comp_ok(jhas(comp), jin(comp), s, seq![s], r0, r1),
        forall|c: Seq<usize>| #![trigger elem_circuit(a, c)] elem_circuit(a, c) && c[0] == s ==> circ_in(jhas(comp), jin(comp), s, c),
    ensures
        done_ok(a, r1, seq, idx + 1),
{
    let e = Seq::<Seq<usize>>::empty();
    assert forall|c: Seq<usize>| #![trigger elem_circuit(a, c)] elem_circuit(a, c) && starts_before(seq, idx + 1, c[0]) implies found(e, r1, c) by {
        if starts_before(seq, idx, c[0]) {
            assert(found(e, r0, c));
            lemma_found_ext(e, r0, r1, c);
        } else {
            let j = choose|j: int| 0 <= j < idx + 1 && #[trigger] seq[j] == c[0];
            assert(j == idx);
            assert(circ_in(jhas(comp), jin(comp), s, c));
            assert(is_prefix(seq![s], c));
            assert(found(r0, r1, c));
            let i = choose|i: int| r0.len() <= i < r1.len() && #[trigger] r1[i] == c;
            assert(0 <= i < r1.len() && r1[i] == c);
        }
    }
}

/// every vertex handled: every elementary circuit has been emitted
proof fn lemma_done_all(a: &Dgj, r: Seq<Seq<usize>>, seq: Seq<usize>, c: Seq<usize>)
    requires a.wf(), done_ok(a, r, seq, seq.len() as int), vs_all(a, seq), elem_circuit(a, c),
    ensures exists|i: int| 0 <= i < r.len() && #[trigger] r[i] == c,
{
    assert(arc_at(a, c, 0));
    assert(a.verts().contains(c[0] as int));
    assert(seq.contains(c[0]));
    let j = choose|j: int| 0 <= j < seq.len() && seq[j] == c[0];
    assert(0 <= j < seq.len() && seq[j] == c[0]);
    assert(starts_before(seq, seq.len() as int, c[0]));
    assert(found(Seq::<Seq<usize>>::empty(), r, c));
}

/// what `circuits` knows about the chosen component (ms = its members, comp = a[ms]) when `circuit` is started
spec fn comp_ctx(a: &Dgj, comp: &Dgj, ms: Set<usize>, s: usize) -> bool {
    &&& ms.contains(s)
    &&& forall|x: usize| #[trigger] ms.contains(x) ==> x >= s
    &&& induced(a, comp, keep_of(ms))
    &&& comp.wf()
    &&& comp.verts().subset_of(a.verts())
    &&& forall|x: usize| #![trigger comp.verts().contains(x as int)] comp.verts().contains(x as int) <==> ms.contains(x)
    &&& forall|x: int| #[trigger] comp.verts().contains(x) ==> x >= s && x < a.ord()
    &&& forall|u: int, v: int| #[trigger] comp.has(u, v) ==> a.has(u, v)
}

proof fn lemma_comp_ctx(a: &Dgj, sub: &Dgj, comp: &Dgj, ms: Set<usize>, s: usize)
    requires
        a.wf(),
        a.contiguous(),
        induced(a, sub, |x: int| x >= s),
        induced(a, comp, keep_of(ms)),
        ms_ok(ms, sub, s),
    ensures
        comp_ctx(a, comp, ms, s),
{
    let keep = keep_of(ms);
    lemma_induced_wf(a, comp, keep);
    assert forall|x: usize| #![trigger comp.verts().contains(x as int)] comp.verts().contains(x as int) <==> ms.contains(x) by {
        if ms.contains(x) {
            assert(sub.verts().contains(x as int));
            assert(a.verts().contains(x as int));
            assert(keep(x as int));
        }
        if comp.verts().contains(x as int) { assert(keep(x as int)); }
    }
    assert forall|x: int| #[trigger] comp.verts().contains(x) implies x >= s && x < a.ord() by {
        assert(a.verts().contains(x) && keep(x));
        assert(ms.contains(x as usize));
    }
}

/// `*min_scc.iter().min().unwrap()` is s: the iterator is ascending, so its first item is the minimum of ms, and the
/// minimum of ms is s
proof fn lemma_start_is_s(ms: Set<usize>, s: usize, start: usize, rem: Seq<&usize>)
    requires
        ms.contains(s),
        forall|x: usize| #[trigger] ms.contains(x) ==> x >= s,
        vstd::std_specs::btree::increasing_seq(rem),
        rem.unref().to_set() == ms,
        rem.len() > 0,
        *rem[0] == start,
    ensures
        start == s,
{
    jbt::lemma_btree_min(rem);
    assert(key_ok(ms, first_of(rem)));
    assert(first_of(rem) == Some(rem[0]));
    assert(ms.contains(start));
    assert(start <= s);
}

/// every vertex of the component was unblocked and its B-list emptied
spec fn cleared(comp: &Dgj, blk: Set<usize>, b: Seq<BTreeSet<usize>>) -> bool {
    forall|x: usize| #![trigger comp.verts().contains(x as int)] comp.verts().contains(x as int) ==> !blk.contains(x) && x < b.len() && b[x as int]@ == Set::<usize>::empty()
}

/// ... which is the start state of `circuit(start, start, &comp, ..)`
proof fn lemma_cleared_init(comp: &Dgj, st: JS, blk: Set<usize>, b: Seq<BTreeSet<usize>>, start: usize)
    requires
        cleared(comp, blk, b),
        st == (JS { blk: blk, b: bsets(b), stk: Seq::<usize>::empty() }),
        comp.verts().contains(start as int),
    ensures
        jinv(jhas(comp), jin(comp), b.len() as int, start, st),
        jblk(jhas(comp), jin(comp), start, st),
        !blk.contains(start),
{
    let hc = jhas(comp);
    let ic = jin(comp);
    assert forall|x: usize| #[trigger] ic(x) implies !st.blk.contains(x) by { assert(comp.verts().contains(x as int)); }
    assert forall|x: usize, y: usize| ic(x) implies !#[trigger] inb(st, x, y) by {
        assert(comp.verts().contains(x as int));
        assert(b[x as int]@ == Set::<usize>::empty());
    }
    lemma_jinv_init(hc, ic, b.len() as int, start, st);
    lemma_hinit(hc, ic, start, st);
}

/// one round of `circuits` (stages 2-4 together), from what the call `circuit(s, s, &comp, ..)` ensures
proof fn lemma_round(a: &Dgj, sub: &Dgj, comp: &Dgj, comps: Seq<BTreeSet<usize>>, i0: int, r0: Seq<Seq<usize>>, r1: Seq<Seq<usize>>, seq: Seq<usize>, idx: int, s: usize)
    requires
        a.wf(),
        induced(a, sub, |x: int| x >= s),
        0 <= i0 < comps.len(),
        comp_ctx(a, comp, comps[i0]@, s),
        forall|x: usize| #![trigger sub.verts().contains(x as int)] sub.verts().contains(x as int) <==> exists|j: int| 0 <= j < comps.len() && (#[trigger] comps[j])@.contains(x),
        forall|j: int, k: int, x: usize, y: usize| 0 <= j < comps.len() && 0 <= k < comps.len() && #[trigger] comps[j]@.contains(x) && #[trigger] comps[k]@.contains(y)
            && reachable(arcs_of(sub), set![x as int], y as int) && reachable(arcs_of(sub), set![y as int], x as int) ==> j == k,
        all_ok(a, r0, seq, idx),
        done_ok(a, r0, seq, idx),
        0 <= idx < seq.len(),
        forall|i: int, j: int| 0 <= i < j < seq.len() ==> #[trigger] seq[i] < #[trigger] seq[j],
        seq[idx] == s,
        seg_ok(jhas(comp), jin(comp), s, seq![s], r0, r1),
        comp_ok(jhas(comp), jin(comp), s, seq![s], r0, r1),
    ensures
        all_ok(a, r1, seq, idx + 1),
        done_ok(a, r1, seq, idx + 1),
{
    lemma_all_ok_step(a, comp, r0, r1, seq, idx, s);
    assert forall|c: Seq<usize>| #![trigger elem_circuit(a, c)] elem_circuit(a, c) && c[0] == s implies circ_in(jhas(comp), jin(comp), s, c) by {
        lemma_circ_in_comp(a, sub, comp, comps, i0, s, c);
    }
    lemma_done_step(a, comp, r0, r1, seq, idx, s);
}

impl<'a> Johnson75<'a> {
    /// the abstract state
    spec fn abs(&self) -> JS { JS { blk: self.blocked@, b: bsets(self.b@), stk: self.stack@ } }

    /// C13: every blocked id indexes the B-lists (`unblock` dereferences `b_ptr.add(u)` for blocked u)
    spec fn bounded(&self) -> bool { forall|x: usize| #[trigger] self.blocked@.contains(x) ==> x < self.b@.len() }

    /// between calls of `circuits`: one B-list per vertex of the contiguous digraph, the stack is empty
    spec fn ready(&self) -> bool {
        &&& self.a.wf()
        &&& self.a.contiguous()
        &&& self.b@.len() == self.a.ord()
        &&& self.bounded()
        &&& self.stack@.len() == 0
    }

    /*@fn impl=Johnson75 name=new subst=D=>Dgj drop=D dropwhere=D
    requires
        a.wf(),
    ensures
        r.a == a,
        r.b@.len() == a.ord(),
        r.blocked@ == Set::<usize>::empty(),
        r.stack@.len() == 0,
        a.contiguous() ==> r.ready(),
    @*/

    /*@fn impl=Johnson75 name=is_blocked subst=D=>Dgj drop=D dropwhere=D
    ensures
        r == self.blocked@.contains(u),
    @*/

    /*@fn impl=Johnson75 name=unblock subst=D=>Dgj drop=D dropwhere=D
    requires
        old(self).bounded(),
    ensures
        final(self).a == old(self).a,
        final(self).b@.len() == old(self).b@.len(),
        final(self).bounded(),
        ub_rel(old(self).abs(), final(self).abs(), u),
    decreases
        old(self).blocked@.len(),
    @fn_start
        let ghost st0 = self.abs();
        let ghost mut cur = self.abs();
        proof { if !self.blocked@.contains(u) { lemma_ub_noop(st0, u); } }
    @before `while let Some(v)`
        proof {
            cur = self.abs();
            lemma_ub_init(st0, cur, u);
        }
    @loop 1
    invariant_except_break
        cur == self.abs(),
    invariant
        self.a == old(self).a,
        self.b@.len() == old(self).b@.len(),
        u < self.b@.len(),
        st0 == old(self).abs(),
        old(self).bounded(),
        ub_loop(st0, cur, u),
    ensures
        ub_loop(st0, cur, u),
        self.blocked@ == cur.blk,
        self.stack@ == cur.stk,
        bsets(self.b@) =~~= cur.b,
        forall|y: usize| !inb(cur, u, y),
    decreases
        self.b@[u as int]@.len(),
    @loop_start 1
        let ghost sp = self.abs();
        let ghost bu = self.b@[u as int]@;
        proof {
            assert(inb(cur, u, v));
            assert forall|x: usize, y: usize| #[trigger] inb(sp, x, y) <==> inb(cur, x, y) && !(x == u && y == v) by {}
            vstd::set_lib::lemma_len_subset(self.blocked@, st0.blk.remove(u));
        }
    @loop_end 1
        proof {
            lemma_ub_step(st0, cur, sp, self.abs(), u, v);
            assert(!freed(sp, self.abs(), u));
            assert(self.b@[u as int]@ =~= bu) by {
                assert forall|y: usize| self.b@[u as int]@.contains(y) == bu.contains(y) by {
                    assert(inb(self.abs(), u, y) == inb(sp, u, y));
                }
            }
            cur = self.abs();
        }
    @after `while let Some(v)`
        proof {
            assert(self.abs() == cur);
            lemma_ub_final(st0, cur, u);
        }
    @*/

    /*@fn impl=Johnson75 name=circuit subst=D=>Dgj drop=D dropwhere=D
    requires
        old(self).bounded(),
        scc.wf(),
        forall|x: int| #[trigger] scc.verts().contains(x) ==> x < old(self).b@.len(),
        jinv(jhas(scc), jin(scc), old(self).b@.len() as int, s, old(self).abs()),
        jblk(jhas(scc), jin(scc), s, old(self).abs()),
        scc.verts().contains(v as int),
        !old(self).blocked@.contains(v),
        old(self).stack@.len() == 0 ==> v == s,
        old(self).stack@.len() > 0 ==> scc.has(old(self).stack@.last() as int, v as int),
    ensures
        final(self).a == old(self).a,
        final(self).b@.len() == old(self).b@.len(),
        final(self).bounded(),
        final(self).stack@ == old(self).stack@,
        jinv(jhas(scc), jin(scc), old(self).b@.len() as int, s, final(self).abs()),
        !r ==> old(self).blocked@.subset_of(final(self).blocked@) && final(self).blocked@.contains(v),
        // stages 2 + 3: what was appended are circuits of scc through s that extend the stack, no two equal
        seg_ok(jhas(scc), jin(scc), s, old(self).stack@.push(v), rv(old(result)@), rv(final(result)@)),
        // stage 4: the blocking property is kept, and every circuit of scc through s that extends the stack was appended
        old(self).stack@.len() > 0 ==> jblk(jhas(scc), jin(scc), s, final(self).abs()),
        comp_ok(jhas(scc), jin(scc), s, old(self).stack@.push(v), rv(old(result)@), rv(final(result)@)),
    decreases
        scc.verts().len() - old(self).stack@.len(),
    @fn_start
        let ghost has = jhas(scc);
        let ghost ink = jin(scc);
        let ghost n = self.b@.len() as int;
        let ghost st0 = self.abs();
        let ghost pre = self.stack@.push(v);
        let ghost r0 = rv(result@);
        proof { lemma_jg(scc, n); }
    @before #1 `for w in scc.out_neighbors(v)`
        let ghost blk1 = self.blocked@;
        proof {
            lemma_jpush(has, ink, n, s, st0, v);
            lemma_hpush(has, ink, n, s, st0, v);
            assert(self.abs() == push_st(st0, v));
            lemma_jinv_facts(has, ink, n, s, self.abs());
            lemma_stack_bound(scc.verts(), self.stack@);
        }
    @loop 1
    invariant
        it1.iter.obeys_prophetic_iter_laws(),
        it1.iter.decrease() is Some,
        self.a == old(self).a,
        self.b@.len() == n,
        n == old(self).b@.len(),
        self.bounded(),
        self.stack@ == pre,
        pre == old(self).stack@.push(v),
        pre.len() <= scc.verts().len(),
        has == jhas(scc),
        ink == jin(scc),
        jg(has, ink, n),
        scc.wf(),
        forall|x: int| #[trigger] scc.verts().contains(x) ==> x < n,
        jinv(has, ink, n, s, self.abs()),
        jblk(has, ink, s, self.abs()),
        comp_loop(has, ink, s, pre, r0, rv(result@), it1.seq(), it1.index() as int),
        nb_all(has, v, it1.seq()),
        it1.seq().no_duplicates(),
        forall|y: usize| scc.has(v as int, y as int) ==> it1.seq().contains(y),
        forall|j: int| 0 <= j < it1.seq().len() ==> scc.has(v as int, #[trigger] it1.seq()[j] as int),
        blk1.contains(v),
        !f ==> blk1.subset_of(self.blocked@),
        !f ==> forall|j: int| 0 <= j < it1.index() ==> self.blocked@.contains(#[trigger] it1.seq()[j]) && it1.seq()[j] != s,
        seg_loop(has, ink, s, pre, r0, rv(result@), it1.seq(), it1.index() as int),
        seg_ok(has, ink, s, pre, r0, rv(result@)),
        it1.index() == it1.seq().len() ==> (!f ==> forall|y: usize| scc.has(v as int, y as int) ==> self.blocked@.contains(y) && y != s),
    @loop_start 1
        let ghost k = it1.index() as int;
        let ghost nbs = it1.seq();
        let ghost r1 = rv(result@);
        let ghost blk_k = self.blocked@;
        let ghost sk1 = self.abs();
        proof {
            assert(nbs[k] == w);
            assert(scc.has(v as int, w as int));
            assert(pre.last() == v);
        }
    @after `result.push(self.stack.clone());`
        proof {
            assert(has(self.abs().stk.last(), s));
            lemma_stack_circuit(has, ink, n, s, self.abs());
            assert(rv(result@) =~= r1.push(pre));
            lemma_seg_emit(has, ink, s, pre, r0, r1, nbs, k);
        }
    @loop_end 1
        proof {
            if w != s {
                if !blk_k.contains(w) {
                    lemma_seg_call(has, ink, s, pre, r0, r1, rv(result@), nbs, k);
                } else {
                    lemma_seg_skip(has, ink, s, pre, r0, r1, nbs, k);
                }
            }
            assert forall|y: usize| !f && k + 1 == nbs.len() && scc.has(v as int, y as int) implies self.blocked@.contains(y) && y != s by {
                assert(nbs.contains(y));
                let j = choose|j: int| 0 <= j < nbs.len() && nbs[j] == y;
                assert(self.blocked@.contains(nbs[j]));
            }
            lemma_comp_step(has, ink, n, s, sk1, r0, r1, rv(result@), nbs, k);
        }
    @before `if f {`
        let ghost stf = self.abs();
        let ghost mut st1 = self.abs();
        let ghost (nbf, kf) = choose|nbf: Seq<usize>, kf: int| #[trigger] comp_loop(has, ink, s, pre, r0, rv(result@), nbf, kf) && kf == nbf.len() && nb_all(has, v, nbf);
        proof {
            assert(!f ==> forall|y: usize| #[trigger] has(v, y) ==> stf.blk.contains(y) && y != s);
            assert(comp_loop(has, ink, s, pre, r0, rv(result@), nbf, kf) && kf == nbf.len() && nb_all(has, v, nbf));
            lemma_comp_done(has, ink, n, s, stf, r0, rv(result@), nbf);
        }
    @after `self.unblock(v);`
        proof { st1 = self.abs(); }
    @loop 2
    invariant
        it2.iter.obeys_prophetic_iter_laws(),
        it2.iter.decrease() is Some,
        self.a == old(self).a,
        self.b@.len() == n,
        self.blocked@ == stf.blk,
        self.stack@ == pre,
        has == jhas(scc),
        scc.wf(),
        forall|x: int| #[trigger] scc.verts().contains(x) ==> x < n,
        it2.seq().no_duplicates(),
        forall|y: usize| scc.has(v as int, y as int) ==> it2.seq().contains(y),
        forall|j: int| 0 <= j < it2.seq().len() ==> scc.has(v as int, #[trigger] it2.seq()[j] as int),
        forall|x: usize, y: usize| #[trigger] inb(self.abs(), x, y) <==> inb(stf, x, y) || (y == v && scc.has(v as int, x as int) && !later(it2.seq(), it2.index() as int, x)),
        it2.index() == it2.seq().len() ==> forall|x: usize, y: usize| #[trigger] inb(self.abs(), x, y) <==> inb(stf, x, y) || (has(v, x) && y == v),
    @loop_start 2
        let ghost k2 = it2.index() as int;
        let ghost nb2 = it2.seq();
        let ghost sk = self.abs();
        proof {
            assert(nb2[k2] == w);
            assert(scc.has(v as int, w as int));
        }
    @loop_end 2
        proof {
            assert forall|x: usize, y: usize| #[trigger] inb(self.abs(), x, y) <==> inb(stf, x, y) || (y == v && scc.has(v as int, x as int) && !later(nb2, k2 + 1, x)) by {
                if x == w {
                    assert(later(nb2, k2, w));
                    if later(nb2, k2 + 1, w) {
                        let i = choose|i: int| k2 + 1 <= i < nb2.len() && #[trigger] nb2[i] == w;
                        assert(nb2[i] == nb2[k2]);
                    }
                    assert(inb(self.abs(), x, y) <==> inb(sk, x, y) || y == v);
                } else {
                    assert(inb(self.abs(), x, y) == inb(sk, x, y));
                    if later(nb2, k2, x) {
                        let i = choose|i: int| k2 <= i < nb2.len() && #[trigger] nb2[i] == x;
                        assert(k2 + 1 <= i < nb2.len() && nb2[i] == x);
                    }
                    if later(nb2, k2 + 1, x) {
                        let i = choose|i: int| k2 + 1 <= i < nb2.len() && #[trigger] nb2[i] == x;
                        assert(k2 <= i < nb2.len() && nb2[i] == x);
                    }
                }
            }
            assert forall|x: usize, y: usize| k2 + 1 == nb2.len() implies (#[trigger] inb(self.abs(), x, y) <==> inb(stf, x, y) || (has(v, x) && y == v)) by {
                if later(nb2, k2 + 1, x) {
                    let i = choose|i: int| k2 + 1 <= i < nb2.len() && #[trigger] nb2[i] == x;
                }
            }
        }
    @before `let _ = self.stack.pop();`
        let ghost sb = self.abs();
        proof {
            assert(!f ==> sb.blk == stf.blk && sb.stk == stf.stk && sb.b.len() == stf.b.len());
            assert(!f ==> forall|x: usize, y: usize| #[trigger] inb(sb, x, y) <==> inb(stf, x, y) || (has(v, x) && y == v));
        }
    @fn_end
        proof {
            assert(self.stack@ =~= old(self).stack@);
            assert(self.abs().b == sb.b && self.abs().blk == sb.blk);
            assert forall|x: usize, y: usize| #[trigger] inb(self.abs(), x, y) == inb(sb, x, y) by {}
            if f {
                lemma_jsucc(has, ink, n, s, stf, st1, self.abs(), v);
                if old(self).stack@.len() > 0 { lemma_hsucc(has, ink, n, s, stf, st1, self.abs(), v); }
            } else {
                assert(self.abs().stk =~= stf.stk.drop_last());
                assert(fail_rel(has, stf, self.abs(), v));
                lemma_jfail(has, ink, n, s, stf, self.abs(), v);
                if old(self).stack@.len() > 0 { lemma_hfail(has, ink, n, s, stf, self.abs(), v); }
            }
        }
    @*/

    /*@fn impl=Johnson75 name=circuits subst=D=>Dgj drop=D dropwhere=D wrap=min_by_key
    requires
        old(self).ready(),
    ensures
        final(self).a == old(self).a,
        final(self).ready(),
        // ---- stage 2, SOUNDNESS: everything returned is an elementary circuit written from its smallest vertex
        forall|i: int| 0 <= i < r@.len() ==> elem_circuit(old(self).a, #[trigger] r@[i]@),
        // ---- stage 3, NO DUPLICATES: no sequence is returned twice
        forall|i: int, j: int| 0 <= i < j < r@.len() ==> #[trigger] r@[i]@ != #[trigger] r@[j]@,
        // ---- stage 4, COMPLETENESS: every elementary circuit (written from its smallest vertex) is returned
        forall|c: Seq<usize>| #![trigger elem_circuit(old(self).a, c)] elem_circuit(old(self).a, c) ==> exists|i: int| 0 <= i < r@.len() && #[trigger] r@[i]@ == c,
    @hoist 2 fn scc_key<'b>(scc: &&'b BTreeSet<usize>) -> (k: Option<&'b usize>)
    ensures
        key_ok(scc@, k),
    @closure 1 |u: usize| -> (b: bool)
    ensures b == (u >= s)
    @closure 3 |u: usize| -> (b: bool)
    ensures b == min_scc@.contains(u)
    @fn_start
        let ghost a = self.a;
        let ghost n = self.b@.len();
    @loop 1
    invariant
        it1.iter.obeys_prophetic_iter_laws(),
        it1.iter.decrease() is Some,
        self.a == old(self).a,
        a == self.a,
        n == self.b@.len(),
        self.ready(),
        forall|i: int, j: int| 0 <= i < j < it1.seq().len() ==> #[trigger] it1.seq()[i] < #[trigger] it1.seq()[j],
        forall|i: int| 0 <= i < it1.seq().len() ==> a.verts().contains(#[trigger] it1.seq()[i] as int),
        all_ok(a, rv(result@), it1.seq(), it1.index() as int),
        vs_all(a, it1.seq()),
        done_ok(a, rv(result@), it1.seq(), it1.index() as int),
    @loop_start 1
        let ghost idx = it1.index() as int;
        let ghost vs = it1.seq();
        let ghost r0 = rv(result@);
        let ghost mut i0g: int = 0;
        proof { assert(vs[idx] == s); }
    @after `let subgraph = self.a.filter_vertices`
        proof {
            assert(induced(a, &subgraph, |x: int| x >= s));
            lemma_induced_wf(a, &subgraph, |x: int| x >= s);
        }
    @after `let components = tarjan.components();`
        let ghost comps = components@;
        proof {
            // s is a vertex of the sub-digraph, so there is at least one component
            assert(subgraph.verts().contains(s as int));
            let j0 = choose|j: int| 0 <= j < comps.len() && (#[trigger] comps[j])@.contains(s);
            assert(comps.len() > 0);
            assert(components@.as_ref().len() > 0);
        }
    @after `let component = self.a.filter_vertices`
        let ghost ms = min_scc@;
        proof {
            let rem = components@.as_ref();
            let (keys, i0) = choose|keys: Seq<Option<&usize>>, i0: int| {
                &&& keys.len() == rem.len()
                &&& forall|j: int| 0 <= j < keys.len() ==> #[trigger] key_says(Self::scc_key, rem[j], keys[j])
                &&& 0 <= i0 < keys.len()
                &&& #[trigger] min_key_at(keys, i0)
                &&& min_scc == rem[i0]
            };
            assert(keys.len() == comps.len() && 0 <= i0 < comps.len() && min_key_at(keys, i0) && min_scc == rem[i0]);
            assert forall|j: int| 0 <= j < comps.len() implies key_ok(comps[j]@, #[trigger] keys[j]) by {
                assert(key_says(Self::scc_key, rem[j], keys[j]));
            }
            assert(*min_scc == comps[i0]);
            i0g = i0;
            assert(ms == comps[i0g]@);
            lemma_min_scc(&subgraph, s, comps, keys, i0);
            assert(ms_ok(ms, &subgraph, s));
            assert(induced(a, &component, keep_of(ms)));
            lemma_comp_ctx(a, &subgraph, &component, ms, s);
        }
    @before `for vertex in component.vertices()`
        proof {
            // start == s, from the ascending iterator `min_scc.iter()` (hidden temporary: its item sequence is chosen)
            let rem = choose|rem: Seq<&usize>| #[trigger] vstd::std_specs::btree::increasing_seq(rem) && rem.unref().to_set() == ms && rem.len() > 0 && *rem[0] == start;
            assert(vstd::std_specs::btree::increasing_seq(rem) && rem.unref().to_set() == ms && rem.len() > 0 && *rem[0] == start);
            assert(comp_ctx(a, &component, ms, s));
            lemma_start_is_s(ms, s, start, rem);
            assert(start == s);
            assert(component.verts().contains(start as int));
        }
    @loop 2
    invariant
        it2.iter.obeys_prophetic_iter_laws(),
        it2.iter.decrease() is Some,
        self.a == old(self).a,
        a == self.a,
        n == self.b@.len(),
        self.ready(),
        comp_ctx(a, &component, ms, s),
        forall|i: int| 0 <= i < it2.seq().len() ==> component.verts().contains(#[trigger] it2.seq()[i] as int),
        forall|v: usize| #![trigger component.verts().contains(v as int)] component.verts().contains(v as int) ==> it2.seq().contains(v),
        forall|i: int| 0 <= i < it2.index() ==> !self.blocked@.contains(#[trigger] it2.seq()[i]) && self.b@[it2.seq()[i] as int]@ == Set::<usize>::empty(),
        it2.index() == it2.seq().len() ==> cleared(&component, self.blocked@, self.b@),
    @loop_start 2
        let ghost k2 = it2.index() as int;
        let ghost vs2 = it2.seq();
        proof {
            assert(vs2[k2] == vertex);
            assert(component.verts().contains(vertex as int));
            assert(vertex < a.ord());
        }
    @loop_end 2
        proof {
            assert forall|x: usize| #![trigger component.verts().contains(x as int)] k2 + 1 == vs2.len() && component.verts().contains(x as int)
                implies !self.blocked@.contains(x) && x < self.b@.len() && self.b@[x as int]@ == Set::<usize>::empty() by {
                assert(vs2.contains(x));
                let i = choose|i: int| 0 <= i < vs2.len() && vs2[i] == x;
                assert(!self.blocked@.contains(vs2[i]));
                assert((x as int) < a.ord());
            }
        }
    @before `let _ = self.circuit(`
        let ghost hc = jhas(&component);
        let ghost ic = jin(&component);
        proof {
            // every precondition of the call, one by one
            assert(cleared(&component, self.blocked@, self.b@));
            assert(self.stack@ =~= Seq::<usize>::empty());
            lemma_cleared_init(&component, self.abs(), self.blocked@, self.b@, start);
            assert(self.bounded());
            assert(component.wf());
            assert(forall|x: int| #[trigger] component.verts().contains(x) ==> x < self.b@.len());
            assert(jinv(hc, ic, self.b@.len() as int, start, self.abs()));
            assert(jblk(hc, ic, start, self.abs()));
            assert(component.verts().contains(start as int));
            assert(!self.blocked@.contains(start));
            assert(self.stack@.len() == 0);
        }
    @after `let _ = self.circuit(`
        proof {
            assert(self.stack@.push(start) =~= seq![s]);
            assert(seg_ok(hc, ic, s, seq![s], r0, rv(result@)));
            assert(comp_ok(hc, ic, s, seq![s], r0, rv(result@)));
            assert(comp_ctx(a, &component, comps[i0g]@, s));
            lemma_round(a, &subgraph, &component, comps, i0g, r0, rv(result@), vs, idx, s);
        }
    @fn_end
        proof {
            let rr = rv(result@);
            assert forall|i: int| 0 <= i < result@.len() implies elem_circuit(a, #[trigger] result@[i]@) by { assert(elem_circuit(a, rr[i])); }
            assert forall|i: int, j: int| 0 <= i < j < result@.len() implies #[trigger] result@[i]@ != #[trigger] result@[j]@ by { assert(rr[i] != rr[j]); }
        }
    @*/
}
} // verus!
fn main() {}
