//@unit props=C02,C11,C12,C14,C13 tier=quick rlimit=30
//@file src/repr/adjacency_list/mod.rs
#![feature(allocator_api)]
use vstd::prelude::*;
use vstd::set_lib::*;
use vstd::slice::SliceIndexSpec;
use vstd::std_specs::iter::IteratorSpec;
use std::collections::BTreeSet;
use std::collections::btree_set;
use core::cmp::Ordering;
verus! {
global size_of usize == 8;
//@include prelude/std_contracts.rs
//@include prelude/list_core_std.rs
//@include prelude/list_ops_std.rs
//@include prelude/iter_wrappers.rs
//@include prelude/blanket_std.rs
//@include prelude/list_more_std.rs

//@import units/inc/list_core.inc.rs
//@import units/inc/list_ops.inc.rs

//@include units/inc/list_more.inc.rs
} // verus!
fn main() {}
