//@unit props=C15,C13 tier=quick rlimit=30
//@file src/repr/adjacency_list/mod.rs
#![feature(allocator_api)]
use vstd::prelude::*;
use vstd::slice::SliceIndexSpec;
use vstd::std_specs::iter::IteratorSpec;
use std::collections::BTreeSet;
use std::collections::btree_set;
use core::cmp::Ordering;
verus! {
global size_of usize == 8;
//@include prelude/std_contracts.rs
//@include prelude/iter_wrappers.rs
//@include prelude/conversions_std.rs
//@include prelude/random_more_std.rs
//@include prelude/list_core_std.rs
//@include prelude/list_ops_std.rs
//@include prelude/list_random_std.rs

//@import units/inc/list_core.inc.rs
//@import units/inc/list_ops.inc.rs

//@include units/inc/list_random.inc.rs
} // verus!
fn main() {}
