//@file src/repr/edge_list/mod.rs
// ---- C02: read-only queries of EdgeList, each equal to its definition over (V, A) = (0..order, has) ----
// Under contract here: has_walk, is_sink, is_source.  (order, size, has_arc, has_edge, vertices, is_simple: edge_list_core;
// converse, union, is_semicomplete, is_tournament: edge_list_ops.)
// Not under contract: out_neighbors / in_neighbors (`filter_map`), arcs (`copied`), indegree / outdegree (`count`),
// the degree sequences (trait default `degree` + `count`), is_regular (semidegree_sequence), is_complete (`complete` is
// flat_map + chain).

/// the walk predicate of C02: at least two vertices and every consecutive pair is an arc
spec fn edge_walk(g: EdgeList, w: Seq<usize>) -> bool {
    w.len() >= 2 && forall|i: int| 0 <= i < w.len() - 1 ==> #[trigger] g.has(w[i] as int, w[i + 1] as int)
}

/// the item sequence of `walk.iter().zip(walk.iter().skip(1))`: the consecutive pairs of the walk
proof fn lemma_edge_walk_pairs(w: Seq<usize>)
    requires w.len() > 1,
    ensures ({
        let a = w.as_ref();
        let z = a.zip_truncate(a.skip(1));
        &&& z.len() == w.len() - 1
        &&& forall|i: int| 0 <= i < w.len() - 1 ==> *(#[trigger] z[i]).0 == w[i] && *z[i].1 == w[i + 1]
    })
{
}

/// the items of `self.arcs.iter()` (a sequence of references whose values form the stored set) are exactly the arcs
spec fn edge_items(g: EdgeList, src: Seq<&(usize, usize)>) -> bool {
    &&& forall|k: int| 0 <= k < src.len() ==> g.has((#[trigger] src[k]).0 as int, src[k].1 as int)
    &&& forall|a: int, b: int| #[trigger] g.has(a, b) ==> exists|k: int| 0 <= k < src.len() && (#[trigger] src[k]).0 == a && src[k].1 == b
}

proof fn lemma_edge_iter_items(g: EdgeList, src: Seq<&(usize, usize)>)
    requires src.unref().to_set() == g.arcs@,
    ensures edge_items(g, src),
{
    assert forall|k: int| 0 <= k < src.len() implies g.has((#[trigger] src[k]).0 as int, src[k].1 as int) by {
        assert(src.unref()[k] == *src[k]);
        assert(src.unref().to_set().contains(src.unref()[k]));
    }
    assert forall|a: int, b: int| g.has(a, b) implies exists|k: int| 0 <= k < src.len() && (#[trigger] src[k]).0 == a && src[k].1 == b by {
        let q = (a as usize, b as usize);
        assert(src.unref().to_set().contains(q));
        let k = choose|k: int| 0 <= k < src.unref().len() && src.unref()[k] == q;
        assert(*src[k] == q);
    }
}

impl EdgeList {
    /*@fn impl=EdgeList trait=HasWalk name=has_walk
    ensures
        r == edge_walk(*self, walk@),
    @closure 1 |p: (&usize, &usize)| -> (b: bool)
    ensures
        b == self.has(*p.0 as int, *p.1 as int),
    @fn_start
        broadcast use vstd::std_specs::iter::group_iter_axioms;
        proof {
            if walk@.len() > 1 {
                lemma_edge_walk_pairs(walk@);
                let a = walk@.as_ref();
                let z = a.zip_truncate(a.skip(1));
                assert forall|i: int| 0 <= i < walk@.len() - 1 implies
                    #[trigger] self.has(walk@[i] as int, walk@[i + 1] as int) == self.has(*z[i].0 as int, *z[i].1 as int) by {}
            }
        }
    @*/

    /*@fn impl=EdgeList trait=Outdegree name=is_sink
    ensures
        u < self.ord(),
        r == (forall|b: int| !self.has(u as int, b)),
    @closure 1 |a: &(usize, usize)| -> (b: bool)
    ensures
        b == (a.0 != u),
    @fn_start
        proof {
            // the iterator is consumed in the tail expression: state the meaning of its item sequence for every candidate
            assert forall|src: Seq<&(usize, usize)>| #[trigger] src.unref().to_set() == self.arcs@ implies edge_items(*self, src) by {
                lemma_edge_iter_items(*self, src);
            }
        }
    @*/

    /*@fn impl=EdgeList trait=Indegree name=is_source
    ensures
        r == (forall|a: int| !self.has(a, v as int)),
    @closure 1 |a: &(usize, usize)| -> (b: bool)
    ensures
        b == (a.1 != v),
    @fn_start
        proof {
            assert forall|src: Seq<&(usize, usize)>| #[trigger] src.unref().to_set() == self.arcs@ implies edge_items(*self, src) by {
                lemma_edge_iter_items(*self, src);
            }
        }
    @*/
}
