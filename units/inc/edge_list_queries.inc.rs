//@file src/repr/edge_list/mod.rs
// ---- C02: read-only queries of EdgeList, each equal to its definition over (V, A) = (0..order, has) ----
// Under contract here: has_walk, is_sink, is_source, and the src/op blanket impls is_isolated, sinks, sources.  (order, size, has_arc, has_edge, vertices, is_simple: edge_list_core;
// converse, union, is_semicomplete, is_tournament: edge_list_ops.)
// Not under contract: out_neighbors / in_neighbors (`filter_map`), arcs (`copied`), indegree / outdegree (`count`),
// the degree sequences (trait default `degree` + `count`), is_regular (semidegree_sequence), is_complete (`complete` is
// flat_map + chain).

/// the walk predicate of C02: at least two vertices and every consecutive pair is an arc
spec fn edge_walk(g: EdgeList, w: Seq<usize>) -> bool {
    w.len() >= 2 && forall|i: int| 0 <= i < w.len() - 1 ==> #[trigger] g.has(w[i] as int, w[i + 1] as int)
}

/// the item sequence of `walk.iter().zip(walk.iter().skip(1))`: the consecutive pairs of the walk
proof fn lemma_edge_walk_pairs(w: Seq<usize>)
    requires w.len() > 1,
    ensures ({
        let a = w.as_ref();
        let z = a.zip_truncate(a.skip(1));
        &&& z.len() == w.len() - 1
        &&& forall|i: int| 0 <= i < w.len() - 1 ==> *(#[trigger] z[i]).0 == w[i] && *z[i].1 == w[i + 1]
    })
{
}

/// the items of `self.arcs.iter()` (a sequence of references whose values form the stored set) are exactly the arcs
spec fn edge_items(g: EdgeList, src: Seq<&(usize, usize)>) -> bool {
    &&& forall|k: int| 0 <= k < src.len() ==> g.has((#[trigger] src[k]).0 as int, src[k].1 as int)
    &&& forall|a: int, b: int| #[trigger] g.has(a, b) ==> exists|k: int| 0 <= k < src.len() && (#[trigger] src[k]).0 == a && src[k].1 == b
}

proof fn lemma_edge_iter_items(g: EdgeList, src: Seq<&(usize, usize)>)
    requires src.unref().to_set() == g.arcs@,
    ensures edge_items(g, src),
{
    assert forall|k: int| 0 <= k < src.len() implies g.has((#[trigger] src[k]).0 as int, src[k].1 as int) by {
        assert(src.unref()[k] == *src[k]);
        assert(src.unref().to_set().contains(src.unref()[k]));
    }
    assert forall|a: int, b: int| g.has(a, b) implies exists|k: int| 0 <= k < src.len() && (#[trigger] src[k]).0 == a && src[k].1 == b by {
        let q = (a as usize, b as usize);
        assert(src.unref().to_set().contains(q));
        let k = choose|k: int| 0 <= k < src.unref().len() && src.unref()[k] == q;
        assert(*src[k] == q);
    }
}

impl EdgeList {
    /*@fn impl=EdgeList trait=HasWalk name=has_walk
    ensures
        r == edge_walk(*self, walk@),
    @closure 1 |p: (&usize, &usize)| -> (b: bool)
    ensures
        b == self.has(*p.0 as int, *p.1 as int),
    @fn_start
        broadcast use vstd::std_specs::iter::group_iter_axioms;
        proof {
            if walk@.len() > 1 {
                lemma_edge_walk_pairs(walk@);
                let a = walk@.as_ref();
                let z = a.zip_truncate(a.skip(1));
                assert forall|i: int| 0 <= i < walk@.len() - 1 implies
                    #[trigger] self.has(walk@[i] as int, walk@[i + 1] as int) == self.has(*z[i].0 as int, *z[i].1 as int) by {}
            }
        }
    @*/

    /*@fn impl=EdgeList trait=Outdegree name=is_sink
    ensures
        u < self.ord(),
        r == (forall|b: int| !self.has(u as int, b)),
    @closure 1 |a: &(usize, usize)| -> (b: bool)
    ensures
        b == (a.0 != u),
    @fn_start
        proof {
            // the iterator is consumed in the tail expression: state the meaning of its item sequence for every candidate
            assert forall|src: Seq<&(usize, usize)>| #[trigger] src.unref().to_set() == self.arcs@ implies edge_items(*self, src) by {
                lemma_edge_iter_items(*self, src);
            }
        }
    @*/

    /*@fn impl=EdgeList trait=Indegree name=is_source
    ensures
        r == (forall|a: int| !self.has(a, v as int)),
    @closure 1 |a: &(usize, usize)| -> (b: bool)
    ensures
        b == (a.1 != v),
    @fn_start
        proof {
            assert forall|src: Seq<&(usize, usize)>| #[trigger] src.unref().to_set() == self.arcs@ implies edge_items(*self, src) by {
                lemma_edge_iter_items(*self, src);
            }
        }
    @*/
}

// ---- blanket impls of src/op (`impl<D> Trait for D`), instantiated at D = EdgeList ----

/// C02: u is a sink (no arc leaves it) / a source (no arc enters it)
spec fn edge_sink(g: EdgeList, u: int) -> bool { forall|b: int| !g.has(u, b) }
spec fn edge_source(g: EdgeList, v: int) -> bool { forall|a: int| !g.has(a, v) }
/// `out` selects the sink predicate, `!out` the source predicate
spec fn edge_end(g: EdgeList, out: bool, x: int) -> bool { if out { edge_sink(g, x) } else { edge_source(g, x) } }

/// the sinks (out) / sources (!out) among the vertices below k, ascending: the defining value of `sinks` / `sources` (k = order)
spec fn ends_below(g: EdgeList, out: bool, k: int) -> Seq<usize>
    decreases k
{
    if k <= 0 { Seq::empty() }
    else if edge_end(g, out, k - 1) { ends_below(g, out, k - 1).push((k - 1) as usize) }
    else { ends_below(g, out, k - 1) }
}

/// `ends_below` is exactly the sinks / sources below k, strictly ascending (hence no repeats)
proof fn lemma_ends_below(g: EdgeList, out: bool, k: int)
    requires 0 <= k <= usize::MAX + 1,
    ensures
        forall|i: int| 0 <= i < ends_below(g, out, k).len() ==> (#[trigger] ends_below(g, out, k)[i]) < k && edge_end(g, out, ends_below(g, out, k)[i] as int),
        forall|i: int, j: int| 0 <= i < j < ends_below(g, out, k).len() ==> ends_below(g, out, k)[i] < ends_below(g, out, k)[j],
        forall|v: int| 0 <= v < k && edge_end(g, out, v) ==> ends_below(g, out, k).contains(v as usize),
        ends_below(g, out, k).no_duplicates(),
    decreases k
{
    if k > 0 {
        lemma_ends_below(g, out, k - 1);
        let p = ends_below(g, out, k - 1);
        let s = ends_below(g, out, k);
        assert forall|v: int| 0 <= v < k && edge_end(g, out, v) implies s.contains(v as usize) by {
            if v < k - 1 {
                assert(p.contains(v as usize));
                let i = choose|i: int| 0 <= i < p.len() && p[i] == v as usize;
                assert(s[i] == v as usize);
            } else {
                assert(s[s.len() - 1] == v as usize);
            }
        }
    }
}

/// the vertex sequence 0, 1, .., n-1 (the items of `vertices()`, as stated by its contract in edge_list_core)
spec fn evseq(n: nat) -> Seq<usize> { Seq::new(n, |i: int| i as usize) }

/// trigger tag: names the pair (g, out) for `lemma_filter_ends`
spec fn end_tag(g: EdgeList, out: bool) -> bool { true }

/// vstd's model of `Filter`: the items are `filter_index` of a prefix of the source; over the vertex range with a
/// predicate that decides `edge_end(g, out, .)` this is `ends_below`.  Broadcast because the filter iterator is the tail
/// expression of `sinks` / `sources` and cannot be named in a hint.
broadcast proof fn lemma_filter_ends(g: EdgeList, out: bool, n: int, pred: spec_fn(int) -> bool)
    requires
        0 <= n <= g.order,
        forall|j: int| 0 <= j < n ==> pred(j) == edge_end(g, out, j),
    ensures
        #![trigger evseq(g.order as nat).take(n).filter_index(pred), end_tag(g, out)]
        evseq(g.order as nat).take(n).filter_index(pred) == ends_below(g, out, n),
    decreases n
{
    let rem = evseq(g.order as nat);
    if n > 0 {
        lemma_filter_ends(g, out, n - 1, pred);
        assert(rem.take(n).drop_last() =~= rem.take(n - 1));
        reveal_with_fuel(Seq::filter_index, 2);
    }
}

impl EdgeList {
    /*@fn impl=D trait=IsIsolated name=is_isolated file=src/op/is_isolated.rs
    ensures
        u < self.ord(),
        r == (edge_sink(*self, u as int) && edge_source(*self, u as int)),
    @*/

    /*@fn impl=D trait=Sinks name=sinks file=src/op/sinks.rs
    ensures
        r.obeys_prophetic_iter_laws(),
        r.decrease() is Some,
        exists|k: int| 0 <= k <= self.ord() && r.remaining() == #[trigger] ends_below(*self, true, k),
        r.will_return_none() ==> r.remaining() == ends_below(*self, true, self.ord()),
    @closure 1 |x: &usize| -> (b: bool)
    ensures
        b == edge_sink(*self, *x as int),
    @fn_start
        broadcast use vstd::std_specs::iter::group_iter_axioms;
        broadcast use lemma_filter_ends;
        proof { assert(end_tag(*self, true)); assert(evseq(self.order as nat) == Seq::new(self.ord() as nat, |i: int| i as usize)); }
    @*/

    /*@fn impl=D trait=Sources name=sources file=src/op/sources.rs
    ensures
        r.obeys_prophetic_iter_laws(),
        r.decrease() is Some,
        exists|k: int| 0 <= k <= self.ord() && r.remaining() == #[trigger] ends_below(*self, false, k),
        r.will_return_none() ==> r.remaining() == ends_below(*self, false, self.ord()),
    @closure 1 |x: &usize| -> (b: bool)
    ensures
        b == edge_source(*self, *x as int),
    @fn_start
        broadcast use vstd::std_specs::iter::group_iter_axioms;
        broadcast use lemma_filter_ends;
        proof { assert(end_tag(*self, false)); assert(evseq(self.order as nat) == Seq::new(self.ord() as nat, |i: int| i as usize)); }
    @*/
}
