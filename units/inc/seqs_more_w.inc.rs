//@file src/repr/adjacency_list_weighted/mod.rs
// ---- C02: AdjacencyListWeighted degree_sequence / indegree_sequence: item i is the (in)degree of vertex i, one item per
// vertex (V = 0..ord).  Stated at the instance W = isize, where `indegree` is under contract (weighted_more).
// `degree` is the blanket impl of src/op/degree.rs (`impl<D> Degree for D`), instantiated at D = AdjacencyListWeighted<isize>. ----

/// the degree of u defined from (V, A): indegree + outdegree
spec fn wseq_deg(g: AdjacencyListWeighted<isize>, u: int) -> nat { g.indeg(u) + g.outdeg(u) }

impl AdjacencyListWeighted<isize> {
    // `degree` computes `indegree + outdegree` in usize: its result can equal the degree only if that fits
    // (otherwise the sum panics (debug) or wraps (release)).  Same precondition as in ops_blanket / edge_list_more.
    /*@fn impl=D trait=Degree name=degree file=src/op/degree.rs props=C02,C13
    requires
        wseq_deg(*self, u as int) <= usize::MAX,
    ensures
        u < self.ord(),
        r == wseq_deg(*self, u as int),
    @*/

    /*@fn impl=AdjacencyListWeighted trait=DegreeSequence name=degree_sequence props=C02,C13
    requires
        forall|u: int| 0 <= u < self.ord() ==> wseq_deg(*self, u) <= usize::MAX,
    ensures
        r.obeys_prophetic_iter_laws(),
        r.decrease() is Some,
        r.remaining().len() <= self.ord(),
        forall|k: int| 0 <= k < r.remaining().len() ==> #[trigger] r.remaining()[k] == wseq_deg(*self, k),
        r.will_return_none() ==> r.remaining().len() == self.ord(),
    @closure 1 |v: usize| -> (d: usize)
    requires
        v < self.ord(),
    ensures
        d == wseq_deg(*self, v as int),
    @fn_start
        broadcast use vstd::std_specs::iter::group_iter_axioms;
        proof { assert(self.arcs@.len() == self.arcs.len()); }
    @*/

    /*@fn impl=AdjacencyListWeighted trait=IndegreeSequence name=indegree_sequence props=C02,C13
    ensures
        r.obeys_prophetic_iter_laws(),
        r.decrease() is Some,
        r.remaining().len() <= self.ord(),
        forall|k: int| 0 <= k < r.remaining().len() ==> #[trigger] r.remaining()[k] == self.indeg(k),
        r.will_return_none() ==> r.remaining().len() == self.ord(),
    @closure 1 |v: usize| -> (d: usize)
    requires
        v < self.ord(),
    ensures
        d == self.indeg(v as int),
    @fn_start
        broadcast use vstd::std_specs::iter::group_iter_axioms;
        proof { assert(self.arcs@.len() == self.arcs.len()); }
    @*/
}
