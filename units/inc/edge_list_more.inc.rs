//@file src/repr/edge_list/mod.rs
// ---- EdgeList functions built on std adapters that vstd cannot specify (copied, filter_map, count, chain), brought into
// reach through E12 wrappers (prelude/iter_wrappers.rs, prelude/blanket_std.rs, prelude/edge_list_more_std.rs).
// Everything is stated over (V, A) = (0..ord, has). ----

// ---- C01: `arcs()` lists every arc exactly once in ascending lexicographic order ----

/// lexicographic order on arcs (the words of prelude/dg.rs)
spec fn lex_lt(a: (usize, usize), b: (usize, usize)) -> bool { a.0 < b.0 || (a.0 == b.0 && a.1 < b.1) }

spec fn lex_sorted(s: Seq<(usize, usize)>) -> bool {
    forall|i: int, j: int| 0 <= i < j < s.len() ==> lex_lt(#[trigger] s[i], #[trigger] s[j])
}

/// s lists A exactly once, ascending: every item is an arc, every arc is an item, strictly ascending (hence no repeats),
/// as many items as arcs
spec fn arc_listing(g: EdgeList, s: Seq<(usize, usize)>) -> bool {
    &&& lex_sorted(s)
    &&& s.no_duplicates()
    &&& forall|i: int| 0 <= i < s.len() ==> g.has((#[trigger] s[i]).0 as int, s[i].1 as int)
    &&& forall|a: int, b: int| #[trigger] g.has(a, b) ==> s.contains((a as usize, b as usize))
    &&& s.len() == g.arc_set().len()
}

/// vstd's contract of `BTreeSet::iter` (items are the set, no repeats, increasing for `Ord`) gives `arc_listing`:
/// `Ord` on pairs is lexicographic (vstd: `cmp_spec` of tuples)
proof fn lemma_arc_listing(g: EdgeList, src: Seq<&(usize, usize)>)
    requires
        src.unref().to_set() == g.arcs@,
        src.no_duplicates(),
        src.len() == g.arcs@.len(),
        vstd::std_specs::btree::increasing_seq(src),
    ensures
        arc_listing(g, src.unref()),
{
    let s = src.unref();
    assert forall|i: int, j: int| 0 <= i < j < s.len() implies lex_lt(#[trigger] s[i], #[trigger] s[j]) by {
        assert(<&(usize, usize) as vstd::std_specs::cmp::OrdSpec>::cmp_spec(&src[i], &src[j]) is Less);
    }
    assert forall|i: int| 0 <= i < s.len() implies g.has((#[trigger] s[i]).0 as int, s[i].1 as int) by {
        assert(s.to_set().contains(s[i]));
    }
    assert forall|a: int, b: int| #[trigger] g.has(a, b) implies s.contains((a as usize, b as usize)) by {
        assert(s.to_set().contains((a as usize, b as usize)));
    }
    lemma_edge_arc_set(g);
}

// ---- C02: neighbours.  One set of definitions for both directions: `out` selects out-neighbours (x is the tail), `!out`
// in-neighbours (x is the head) ----

/// y is an out-neighbour (out) / in-neighbour (!out) of x
spec fn nb(g: EdgeList, out: bool, x: int, y: int) -> bool { if out { g.has(x, y) } else { g.has(y, x) } }

/// the arc joining x and its neighbour y
spec fn mk_arc(out: bool, x: usize, y: usize) -> (usize, usize) { if out { (x, y) } else { (y, x) } }
/// the endpoint of p on x's side / on the neighbour's side
spec fn arc_key(out: bool, p: (usize, usize)) -> usize { if out { p.0 } else { p.1 } }
spec fn arc_val(out: bool, p: (usize, usize)) -> usize { if out { p.1 } else { p.0 } }

/// the neighbours of x among the vertices below k, ascending: the defining value of `out_neighbors` / `in_neighbors`
/// (k = order); same definition as `row_below` in units/inc/matrix_queries.inc.rs
spec fn nb_below(g: EdgeList, out: bool, x: int, k: int) -> Seq<usize>
    decreases k
{
    if k <= 0 { Seq::empty() }
    else if nb(g, out, x, k - 1) { nb_below(g, out, x, k - 1).push((k - 1) as usize) }
    else { nb_below(g, out, x, k - 1) }
}

spec fn strictly_ascending(s: Seq<usize>) -> bool {
    forall|i: int, j: int| 0 <= i < j < s.len() ==> #[trigger] s[i] < #[trigger] s[j]
}

/// `nb_below` is exactly the neighbours below k, strictly ascending (hence no repeats)
proof fn lemma_nb_below(g: EdgeList, out: bool, x: int, k: int)
    requires 0 <= k <= usize::MAX + 1,
    ensures
        forall|i: int| 0 <= i < nb_below(g, out, x, k).len() ==> (#[trigger] nb_below(g, out, x, k)[i]) < k && nb(g, out, x, nb_below(g, out, x, k)[i] as int),
        strictly_ascending(nb_below(g, out, x, k)),
        forall|y: int| 0 <= y < k && nb(g, out, x, y) ==> nb_below(g, out, x, k).contains(y as usize),
        nb_below(g, out, x, k).no_duplicates(),
    decreases k
{
    if k > 0 {
        lemma_nb_below(g, out, x, k - 1);
        let p = nb_below(g, out, x, k - 1);
        let s = nb_below(g, out, x, k);
        assert forall|y: int| 0 <= y < k && nb(g, out, x, y) implies s.contains(y as usize) by {
            if y < k - 1 {
                assert(p.contains(y as usize));
                let i = choose|i: int| 0 <= i < p.len() && p[i] == y as usize;
                assert(s[i] == y as usize);
            } else {
                assert(s[s.len() - 1] == y as usize);
            }
        }
    }
}

/// a strictly ascending sequence whose items are exactly the neighbours below k IS `nb_below(.., k)`
proof fn lemma_asc_is_nb_below(rem: Seq<usize>, g: EdgeList, out: bool, x: int, k: int)
    requires
        0 <= k <= usize::MAX + 1,
        strictly_ascending(rem),
        forall|i: int| 0 <= i < rem.len() ==> (#[trigger] rem[i]) < k && nb(g, out, x, rem[i] as int),
        forall|y: int| 0 <= y < k && nb(g, out, x, y) ==> rem.contains(y as usize),
    ensures
        rem == nb_below(g, out, x, k),
    decreases k
{
    if k <= 0 {
        if rem.len() > 0 { assert(rem[0] < k); }
        assert(rem =~= Seq::<usize>::empty());
    } else {
        let y = k - 1;
        if nb(g, out, x, y) {
            assert(rem.contains(y as usize));
            let i = choose|i: int| 0 <= i < rem.len() && rem[i] == y as usize;
            let l = rem.len() - 1;
            if i < l { assert(rem[i] < rem[l]); assert(rem[l] < k); }
            let pre = rem.drop_last();
            assert forall|j: int| 0 <= j < pre.len() implies (#[trigger] pre[j]) < k - 1 && nb(g, out, x, pre[j] as int) by {
                assert(pre[j] == rem[j]);
                assert(rem[j] < rem[l]);
            }
            assert forall|z: int| 0 <= z < k - 1 && nb(g, out, x, z) implies pre.contains(z as usize) by {
                assert(rem.contains(z as usize));
                let j = choose|j: int| 0 <= j < rem.len() && rem[j] == z as usize;
                assert(pre[j] == z as usize);
            }
            assert forall|a: int, b: int| 0 <= a < b < pre.len() implies #[trigger] pre[a] < #[trigger] pre[b] by {
                assert(pre[a] == rem[a] && pre[b] == rem[b]);
            }
            lemma_asc_is_nb_below(pre, g, out, x, k - 1);
            assert(rem =~= pre.push(y as usize));
        } else {
            assert forall|j: int| 0 <= j < rem.len() implies (#[trigger] rem[j]) < k - 1 by {
                assert(nb(g, out, x, rem[j] as int));
            }
            lemma_asc_is_nb_below(rem, g, out, x, k - 1);
        }
    }
}

/// what `filter_map` yields on the first n items of s with the closure of out_neighbors (out, x = u: `(a == u).then_some(b)`)
/// or in_neighbors (!out, x = v: `(v == b).then_some(a)`)
spec fn fm_seq(s: Seq<(usize, usize)>, out: bool, x: usize, n: int) -> Seq<usize>
    decreases n
{
    if n <= 0 { Seq::empty() }
    else if arc_key(out, s[n - 1]) == x { fm_seq(s, out, x, n - 1).push(arc_val(out, s[n - 1])) }
    else { fm_seq(s, out, x, n - 1) }
}

/// the closure's result on one item
spec fn fm_out(out: bool, x: usize, p: (usize, usize)) -> Option<usize> {
    if arc_key(out, p) == x { Some(arc_val(out, p)) } else { None }
}

proof fn lemma_somes_is_fm(s: Seq<(usize, usize)>, out: bool, x: usize, outs: Seq<Option<usize>>)
    requires
        outs.len() <= s.len(),
        forall|j: int| 0 <= j < outs.len() ==> #[trigger] outs[j] == fm_out(out, x, s[j]),
    ensures
        seq_somes(outs) == fm_seq(s, out, x, outs.len() as int),
    decreases outs.len()
{
    if outs.len() > 0 {
        let pre = outs.drop_last();
        assert forall|j: int| 0 <= j < pre.len() implies #[trigger] pre[j] == fm_out(out, x, s[j]) by { assert(pre[j] == outs[j]); }
        lemma_somes_is_fm(s, out, x, pre);
        assert(outs.last() == outs[outs.len() - 1]);
    }
}

/// y was produced from one of the first n items
spec fn fm_from(s: Seq<(usize, usize)>, out: bool, x: usize, n: int, y: usize) -> bool {
    exists|j: int| 0 <= j < n && #[trigger] s[j] == mk_arc(out, x, y)
}

proof fn lemma_fm_props(s: Seq<(usize, usize)>, out: bool, x: usize, n: int)
    requires
        lex_sorted(s),
        0 <= n <= s.len(),
    ensures
        forall|i: int| 0 <= i < fm_seq(s, out, x, n).len() ==> fm_from(s, out, x, n, #[trigger] fm_seq(s, out, x, n)[i]),
        strictly_ascending(fm_seq(s, out, x, n)),
        forall|j: int| 0 <= j < n && arc_key(out, #[trigger] s[j]) == x ==> fm_seq(s, out, x, n).contains(arc_val(out, s[j])),
    decreases n
{
    if n > 0 {
        lemma_fm_props(s, out, x, n - 1);
        let p = fm_seq(s, out, x, n - 1);
        let f = fm_seq(s, out, x, n);
        let last = s[n - 1];
        assert forall|i: int| 0 <= i < p.len() implies fm_from(s, out, x, n, #[trigger] p[i]) by {
            assert(fm_from(s, out, x, n - 1, p[i]));
            let j = choose|j: int| 0 <= j < n - 1 && #[trigger] s[j] == mk_arc(out, x, p[i]);
            assert(0 <= j < n && s[j] == mk_arc(out, x, p[i]));
        }
        if arc_key(out, last) == x {
            let y = arc_val(out, last);
            assert(last == mk_arc(out, x, y));
            assert(fm_from(s, out, x, n, y));
            assert forall|i: int| 0 <= i < p.len() implies #[trigger] p[i] < y by {
                assert(fm_from(s, out, x, n - 1, p[i]));
                let j = choose|j: int| 0 <= j < n - 1 && #[trigger] s[j] == mk_arc(out, x, p[i]);
                assert(lex_lt(s[j], s[n - 1]));
            }
            assert forall|i: int| 0 <= i < f.len() implies fm_from(s, out, x, n, #[trigger] f[i]) by {
                if i < p.len() { assert(f[i] == p[i]); }
            }
            assert forall|a: int, b: int| 0 <= a < b < f.len() implies #[trigger] f[a] < #[trigger] f[b] by {
                assert(f[a] == p[a]);
                if b < p.len() { assert(f[b] == p[b]); }
            }
            assert forall|j: int| 0 <= j < n && arc_key(out, #[trigger] s[j]) == x implies f.contains(arc_val(out, s[j])) by {
                if j < n - 1 {
                    assert(p.contains(arc_val(out, s[j])));
                    let i = choose|i: int| 0 <= i < p.len() && p[i] == arc_val(out, s[j]);
                    assert(f[i] == arc_val(out, s[j]));
                } else {
                    assert(f[f.len() - 1] == y);
                }
            }
        }
    }
}

/// the neighbour characterisation of `fm_seq` over a listing of the arcs: the items pulled so far are the neighbours below
/// some k, and all neighbours once the whole listing has been consumed
proof fn lemma_fm_is_nb_below(g: EdgeList, s: Seq<(usize, usize)>, out: bool, x: usize, n: int)
    requires
        g.wf(),
        arc_listing(g, s),
        0 <= n <= s.len(),
    ensures
        exists|k: int| 0 <= k <= g.ord() && fm_seq(s, out, x, n) == #[trigger] nb_below(g, out, x as int, k),
        n == s.len() ==> fm_seq(s, out, x, n) == nb_below(g, out, x as int, g.ord()),
{
    let f = fm_seq(s, out, x, n);
    lemma_fm_props(s, out, x, n);
    assert forall|i: int| 0 <= i < f.len() implies nb(g, out, x as int, (#[trigger] f[i]) as int) && f[i] < g.ord() by {
        assert(fm_from(s, out, x, n, f[i]));
        let j = choose|j: int| 0 <= j < n && #[trigger] s[j] == mk_arc(out, x, f[i]);
        assert(g.has(s[j].0 as int, s[j].1 as int));
        assert(g.arcs@.contains(s[j]));
    }
    let k: int = if f.len() == 0 { 0 } else { f.last() + 1 };
    assert forall|i: int| 0 <= i < f.len() implies (#[trigger] f[i]) < k by {
        if i < f.len() - 1 { assert(f[i] < f[f.len() - 1]); }
    }
    assert forall|y: int| 0 <= y < k && nb(g, out, x as int, y) implies f.contains(y as usize) by {
        let l = f.len() - 1;
        if y == f[l] {
        } else {
            let q = mk_arc(out, x, y as usize);
            assert(g.has(q.0 as int, q.1 as int));
            assert(s.contains(q));
            let j1 = choose|j1: int| 0 <= j1 < s.len() && s[j1] == q;
            assert(fm_from(s, out, x, n, f[l]));
            let j2 = choose|j2: int| 0 <= j2 < n && #[trigger] s[j2] == mk_arc(out, x, f[l]);
            assert(lex_lt(s[j1], s[j2]));
            if j2 < j1 { assert(lex_lt(s[j2], s[j1])); }
            assert(j1 < j2);
            assert(arc_key(out, s[j1]) == x);
            assert(f.contains(arc_val(out, s[j1])));
        }
    }
    lemma_asc_is_nb_below(f, g, out, x as int, k);
    if f.len() > 0 { assert(f[f.len() - 1] < g.ord()); }
    if n == s.len() {
        assert forall|y: int| 0 <= y < g.ord() && nb(g, out, x as int, y) implies f.contains(y as usize) by {
            let q = mk_arc(out, x, y as usize);
            assert(g.has(q.0 as int, q.1 as int));
            assert(s.contains(q));
            let j1 = choose|j1: int| 0 <= j1 < s.len() && s[j1] == q;
            assert(arc_key(out, s[j1]) == x);
            assert(f.contains(arc_val(out, s[j1])));
        }
        lemma_asc_is_nb_below(f, g, out, x as int, g.ord());
    }
}

/// the contract-level statement about the item sequence `rem` of a neighbour iterator
spec fn nb_items(g: EdgeList, out: bool, x: int, rem: Seq<usize>, whole: bool) -> bool {
    &&& exists|k: int| 0 <= k <= g.ord() && rem == #[trigger] nb_below(g, out, x, k)
    &&& whole ==> rem == nb_below(g, out, x, g.ord())
}

/// `filter_map` (contract of vx_filter_map: `outs` = closure results on a prefix of the source) over a listing of the arcs
proof fn lemma_filter_map_nb(g: EdgeList, s: Seq<(usize, usize)>, out: bool, x: usize, outs: Seq<Option<usize>>)
    requires
        g.wf(),
        arc_listing(g, s),
        outs.len() <= s.len(),
        forall|j: int| 0 <= j < outs.len() ==> #[trigger] outs[j] == fm_out(out, x, s[j]),
    ensures
        nb_items(g, out, x as int, seq_somes(outs), outs.len() == s.len()),
{
    lemma_somes_is_fm(s, out, x, outs);
    lemma_fm_is_nb_below(g, s, out, x, outs.len() as int);
}

impl EdgeList {
    /*@fn impl=EdgeList trait=Arcs name=arcs wrap=copied props=C01,C13
    ensures
        r.obeys_prophetic_iter_laws(),
        r.decrease() is Some,
        arc_listing(*self, r.remaining()),
    @fn_start
        proof {
            // the iterator is the tail expression: state the meaning of the item sequence of `self.arcs.iter()` for every candidate
            assert forall|src: Seq<&(usize, usize)>| #[trigger] src.unref().to_set() == self.arcs@ && src.no_duplicates()
                && src.len() == self.arcs@.len() && vstd::std_specs::btree::increasing_seq(src) implies arc_listing(*self, src.unref()) by {
                lemma_arc_listing(*self, src);
            }
        }
    @*/

    /*@fn impl=EdgeList trait=OutNeighbors name=out_neighbors wrap=filter_map props=C02,C13
    requires
        self.wf(),
    ensures
        u < self.ord(),
        r.obeys_prophetic_iter_laws(),
        r.decrease() is Some,
        exists|k: int| 0 <= k <= self.ord() && r.remaining() == #[trigger] nb_below(*self, true, u as int, k),
        r.will_return_none() ==> r.remaining() == nb_below(*self, true, u as int, self.ord()),
    @closure 1 |t: &(usize, usize)| -> (o: Option<usize>)
    ensures
        o == fm_out(true, u, *t),
    @fn_start
        proof {
            assert forall|src: Seq<&(usize, usize)>, outs: Seq<Option<usize>>|
                #![trigger seq_somes(outs), src.unref()]
                src.unref().to_set() == self.arcs@ && src.no_duplicates() && src.len() == self.arcs@.len()
                && vstd::std_specs::btree::increasing_seq(src) && outs.len() <= src.len()
                && (forall|j: int| 0 <= j < outs.len() ==> #[trigger] outs[j] == fm_out(true, u, *src[j]))
                implies nb_items(*self, true, u as int, seq_somes(outs), outs.len() == src.len()) by {
                lemma_arc_listing(*self, src);
                lemma_filter_map_nb(*self, src.unref(), true, u, outs);
            }
        }
    @*/

    /*@fn impl=EdgeList trait=InNeighbors name=in_neighbors wrap=filter_map props=C02,C13
    requires
        self.wf(),
    ensures
        r.obeys_prophetic_iter_laws(),
        r.decrease() is Some,
        exists|k: int| 0 <= k <= self.ord() && r.remaining() == #[trigger] nb_below(*self, false, v as int, k),
        r.will_return_none() ==> r.remaining() == nb_below(*self, false, v as int, self.ord()),
    @closure 1 |p: (usize, usize)| -> (o: Option<usize>)
    ensures
        o == fm_out(false, v, p),
    @fn_start
        proof {
            assert forall|s: Seq<(usize, usize)>, outs: Seq<Option<usize>>|
                #![trigger seq_somes(outs), arc_listing(*self, s)]
                arc_listing(*self, s) && outs.len() <= s.len()
                && (forall|j: int| 0 <= j < outs.len() ==> #[trigger] outs[j] == fm_out(false, v, s[j]))
                implies nb_items(*self, false, v as int, seq_somes(outs), outs.len() == s.len()) by {
                lemma_filter_map_nb(*self, s, false, v, outs);
            }
        }
    @*/
}

// ---- C02: indegree / outdegree equal the degrees DEFINED from (V, A) as set cardinalities (the words of `Dgo::indeg` /
// `Dgo::outdeg` in prelude/dg_ops.rs) ----

impl EdgeList {
    /// the in-neighbours / out-neighbours of a vertex, as sets of vertices
    spec fn in_set(&self, v: int) -> Set<int> { Set::range(0, self.ord()).filter(|a: int| self.has(a, v)) }
    spec fn out_set(&self, u: int) -> Set<int> { Set::range(0, self.ord()).filter(|b: int| self.has(u, b)) }
    /// indegree / outdegree defined from (V, A): the number of vertices a with (a, v) in A / b with (u, b) in A
    spec fn indeg(&self, v: int) -> nat { self.in_set(v).len() }
    spec fn outdeg(&self, u: int) -> nat { self.out_set(u).len() }
}

spec fn nb_set(g: EdgeList, out: bool, x: int) -> Set<int> { if out { g.out_set(x) } else { g.in_set(x) } }

/// faithfulness of the neighbour sets: exactly the neighbours; at most |V| of them
proof fn lemma_nb_set(g: EdgeList, out: bool, x: int)
    ensures
        forall|y: int| #[trigger] nb_set(g, out, x).contains(y) == (0 <= y < g.ord() && nb(g, out, x, y)),
        nb_set(g, out, x).finite(),
        nb_set(g, out, x).len() <= g.ord(),
{
    let r = Set::<int>::range(0, g.ord());
    range_set_properties::<int>(0, g.ord());
    lemma_len_subset(nb_set(g, out, x), r);
}

/// the neighbours of x found among the first n items of s, as a set
spec fn val_set(s: Seq<(usize, usize)>, out: bool, x: usize, n: int) -> Set<int>
    decreases n
{
    if n <= 0 { Set::empty() }
    else if arc_key(out, s[n - 1]) == x { val_set(s, out, x, n - 1).insert(arc_val(out, s[n - 1]) as int) }
    else { val_set(s, out, x, n - 1) }
}

/// vstd's model of `Filter` (the items are `filter_index` of a prefix of the source) over a repeat-free listing with a
/// predicate that decides "the arc is incident with x on x's side": as many items as neighbours found
proof fn lemma_filter_count(src: Seq<&(usize, usize)>, out: bool, x: usize, n: int, pred: spec_fn(int) -> bool)
    requires
        src.no_duplicates(),
        0 <= n <= src.len(),
        forall|j: int| 0 <= j < n ==> pred(j) == (arc_key(out, *#[trigger] src[j]) == x),
    ensures
        src.take(n).filter_index(pred).len() == val_set(src.unref(), out, x, n).len(),
        val_set(src.unref(), out, x, n).finite(),
        forall|y: int| #[trigger] val_set(src.unref(), out, x, n).contains(y)
            == (0 <= y <= usize::MAX && exists|j: int| 0 <= j < n && #[trigger] src.unref()[j] == mk_arc(out, x, y as usize)),
    decreases n
{
    let s = src.unref();
    if n > 0 {
        lemma_filter_count(src, out, x, n - 1, pred);
        assert(src.take(n).drop_last() =~= src.take(n - 1));
        reveal_with_fuel(Seq::filter_index, 2);
        let p = val_set(s, out, x, n - 1);
        let w = val_set(s, out, x, n);
        let last = s[n - 1];
        assert(last == *src[n - 1]);
        let yl = arc_val(out, last) as int;
        if arc_key(out, last) == x {
            assert(last == mk_arc(out, x, yl as usize));
            if p.contains(yl) {
                let j = choose|j: int| 0 <= j < n - 1 && #[trigger] s[j] == mk_arc(out, x, yl as usize);
                assert(*src[j] == *src[n - 1]);
                assert(src[j] == src[n - 1]);
            }
            assert(w == p.insert(yl));
        }
        assert forall|y: int| #[trigger] w.contains(y)
            == (0 <= y <= usize::MAX && exists|j: int| 0 <= j < n && #[trigger] s[j] == mk_arc(out, x, y as usize)) by {
            if 0 <= y <= usize::MAX && exists|j: int| 0 <= j < n && #[trigger] s[j] == mk_arc(out, x, y as usize) {
                let j = choose|j: int| 0 <= j < n && #[trigger] s[j] == mk_arc(out, x, y as usize);
                if j < n - 1 { assert(p.contains(y)); } else { assert(arc_key(out, last) == x && y == yl); }
            }
            if p.contains(y) {
                let j = choose|j: int| 0 <= j < n - 1 && #[trigger] s[j] == mk_arc(out, x, y as usize);
                assert(0 <= j < n && s[j] == mk_arc(out, x, y as usize));
            }
            if arc_key(out, last) == x && y == yl {
                assert(0 <= n - 1 < n && s[n - 1] == mk_arc(out, x, y as usize));
            }
        }
    }
}

/// over a listing of ALL arcs of a valid digraph the neighbours found are all the neighbours
proof fn lemma_count_is_degree(g: EdgeList, src: Seq<&(usize, usize)>, out: bool, x: usize, pred: spec_fn(int) -> bool)
    requires
        g.wf(),
        src.unref().to_set() == g.arcs@,
        src.no_duplicates(),
        forall|j: int| 0 <= j < src.len() ==> pred(j) == (arc_key(out, *#[trigger] src[j]) == x),
    ensures
        src.take(src.len() as int).filter_index(pred).len() == nb_set(g, out, x as int).len(),
        nb_set(g, out, x as int).len() <= usize::MAX,
{
    let s = src.unref();
    let n = src.len() as int;
    lemma_filter_count(src, out, x, n, pred);
    lemma_nb_set(g, out, x as int);
    let w = val_set(s, out, x, n);
    let t = nb_set(g, out, x as int);
    assert forall|y: int| w.contains(y) == t.contains(y) by {
        if w.contains(y) {
            let j = choose|j: int| 0 <= j < n && #[trigger] s[j] == mk_arc(out, x, y as usize);
            assert(s.to_set().contains(s[j]));
            assert(g.arcs@.contains(mk_arc(out, x, y as usize)));
        }
        if t.contains(y) {
            let q = mk_arc(out, x, y as usize);
            assert(g.has(q.0 as int, q.1 as int));
            assert(s.to_set().contains(q));
            let j = choose|j: int| 0 <= j < s.len() && s[j] == q;
            assert(0 <= j < n && s[j] == mk_arc(out, x, y as usize));
        }
    }
    assert(w =~= t);
}

impl EdgeList {
    /*@fn impl=EdgeList trait=Indegree name=indegree wrap=count props=C02,C13
    requires
        self.wf(),
    ensures
        v < self.ord(),
        r == self.indeg(v as int),
    @closure 1 |p: &&(usize, usize)| -> (b: bool)
    ensures
        b == (arc_key(false, **p) == v),
    @manual `v == *y` => `v == y` :: E9 binds the tuple-pattern field by value (`let y = p.1;`), the source by reference (default binding mode): the deref is dropped with it
    @fn_start
        broadcast use vstd::std_specs::iter::group_iter_axioms;
        proof {
            // the Filter iterator is consumed in the tail expression: state the size of its item sequence for every candidate
            assert forall|src: Seq<&(usize, usize)>, pred: spec_fn(int) -> bool|
                #![trigger src.take(src.len() as int).filter_index(pred)]
                src.unref().to_set() == self.arcs@ && src.no_duplicates()
                && (forall|j: int| 0 <= j < src.len() ==> pred(j) == (arc_key(false, *#[trigger] src[j]) == v))
                implies src.take(src.len() as int).filter_index(pred).len() == self.indeg(v as int) && self.indeg(v as int) <= usize::MAX by {
                lemma_count_is_degree(*self, src, false, v, pred);
            }
        }
    @*/

    /*@fn impl=EdgeList trait=Outdegree name=outdegree wrap=count props=C02,C13
    requires
        self.wf(),
    ensures
        u < self.ord(),
        r == self.outdeg(u as int),
    @closure 1 |p: &&(usize, usize)| -> (b: bool)
    ensures
        b == (arc_key(true, **p) == u),
    @manual `u == *x` => `u == x` :: E9 binds the tuple-pattern field by value (`let x = p.0;`), the source by reference (default binding mode): the deref is dropped with it
    @fn_start
        broadcast use vstd::std_specs::iter::group_iter_axioms;
        proof {
            assert forall|src: Seq<&(usize, usize)>, pred: spec_fn(int) -> bool|
                #![trigger src.take(src.len() as int).filter_index(pred)]
                src.unref().to_set() == self.arcs@ && src.no_duplicates()
                && (forall|j: int| 0 <= j < src.len() ==> pred(j) == (arc_key(true, *#[trigger] src[j]) == u))
                implies src.take(src.len() as int).filter_index(pred).len() == self.outdeg(u as int) && self.outdeg(u as int) <= usize::MAX by {
                lemma_count_is_degree(*self, src, true, u, pred);
            }
        }
    @*/
}

// ---- C02: the degree sequences in vertex order.  `degree`, `outdegree_sequence`, `semidegree_sequence` are the blanket impls
// of src/op (`impl<D> Trait for D`), instantiated at D = EdgeList ----

/// the degree of u defined from (V, A)
spec fn edge_deg(g: EdgeList, u: int) -> nat { g.indeg(u) + g.outdeg(u) }

impl EdgeList {
    // `degree` computes `indegree + outdegree` in usize: its result can equal the degree only if that fits
    // (`edge_deg <= usize::MAX`); otherwise the sum panics (debug) or wraps (release).  (Same precondition as in ops_blanket.)
    /*@fn impl=D trait=Degree name=degree file=src/op/degree.rs props=C02,C13
    requires
        self.wf(),
        edge_deg(*self, u as int) <= usize::MAX,
    ensures
        u < self.ord(),
        r == edge_deg(*self, u as int),
    @*/

    /*@fn impl=EdgeList trait=DegreeSequence name=degree_sequence props=C02,C13
    requires
        self.wf(),
        forall|u: int| 0 <= u < self.ord() ==> edge_deg(*self, u) <= usize::MAX,
    ensures
        r.obeys_prophetic_iter_laws(),
        r.decrease() is Some,
        r.remaining().len() <= self.ord(),
        forall|k: int| 0 <= k < r.remaining().len() ==> #[trigger] r.remaining()[k] == edge_deg(*self, k),
        r.will_return_none() ==> r.remaining().len() == self.ord(),
    @closure 1 |v: usize| -> (d: usize)
    requires
        v < self.ord(),
    ensures
        d == edge_deg(*self, v as int),
    @fn_start
        broadcast use vstd::std_specs::iter::group_iter_axioms;
    @*/

    /*@fn impl=EdgeList trait=IndegreeSequence name=indegree_sequence props=C02,C13
    requires
        self.wf(),
    ensures
        r.obeys_prophetic_iter_laws(),
        r.decrease() is Some,
        r.remaining().len() <= self.ord(),
        forall|k: int| 0 <= k < r.remaining().len() ==> #[trigger] r.remaining()[k] == self.indeg(k),
        r.will_return_none() ==> r.remaining().len() == self.ord(),
    @closure 1 |v: usize| -> (d: usize)
    ensures
        d == self.indeg(v as int),
    @fn_start
        broadcast use vstd::std_specs::iter::group_iter_axioms;
    @*/

    /*@fn impl=D trait=OutdegreeSequence name=outdegree_sequence file=src/op/outdegree_sequence.rs props=C02,C13
    requires
        self.wf(),
    ensures
        r.obeys_prophetic_iter_laws(),
        r.decrease() is Some,
        r.remaining().len() <= self.ord(),
        forall|k: int| 0 <= k < r.remaining().len() ==> #[trigger] r.remaining()[k] == self.outdeg(k),
        r.will_return_none() ==> r.remaining().len() == self.ord(),
    @closure 1 |v: usize| -> (d: usize)
    ensures
        d == self.outdeg(v as int),
    @fn_start
        broadcast use vstd::std_specs::iter::group_iter_axioms;
    @*/

    /*@fn impl=D trait=SemidegreeSequence name=semidegree_sequence file=src/op/semidegree_sequence.rs props=C02,C13
    requires
        self.wf(),
    ensures
        r.obeys_prophetic_iter_laws(),
        r.decrease() is Some,
        r.remaining().len() <= self.ord(),
        forall|k: int| 0 <= k < r.remaining().len() ==> (#[trigger] r.remaining()[k]).0 == self.indeg(k) && r.remaining()[k].1 == self.outdeg(k),
        r.will_return_none() ==> r.remaining().len() == self.ord(),
    @closure 1 |u: usize| -> (d: (usize, usize))
    ensures
        d.0 == self.indeg(u as int) && d.1 == self.outdeg(u as int),
    @fn_start
        broadcast use vstd::std_specs::iter::group_iter_axioms;
    @*/
}

// ---- C12: is_regular is true iff all indegrees and outdegrees equal one constant ----

/// every vertex has indegree c and outdegree c
spec fn regular_with(g: EdgeList, c: nat) -> bool {
    forall|u: int| 0 <= u < g.ord() ==> #[trigger] g.indeg(u) == c && g.outdeg(u) == c
}

/// C12: all indegrees and outdegrees equal one constant
spec fn regular(g: EdgeList) -> bool { exists|c: nat| regular_with(g, c) }

/// the only candidate for the constant is the indegree of vertex 0
proof fn lemma_regular(g: EdgeList)
    requires g.ord() > 0,
    ensures regular(g) == regular_with(g, g.indeg(0)),
{
    if regular(g) {
        let c = choose|c: nat| regular_with(g, c);
        assert(g.indeg(0) == c);
    }
}

impl EdgeList {
    /*@fn impl=EdgeList trait=IsRegular name=is_regular wrap=all props=C12,C13
    requires
        self.wf(),
    ensures
        r == regular(*self),
    @closure 1 |p: (usize, usize)| -> (b: bool)
    ensures
        b == (p.0 == u && p.1 == v),
    @fn_start
        proof { lemma_regular(*self); }
    @after `let mut semidegrees`
        let ghost s0 = semidegrees.remaining();
    @fn_end
        proof {
            // s0: the semidegrees in vertex order (a prefix; all of them if the iterator is driven to None); s1: those after the first
            let s1 = semidegrees.remaining();
            assert(s0.len() > 0 && s0[0] == (u, v) && s1 == s0.drop_first());
            assert forall|i: int| 0 <= i < s1.len() implies #[trigger] s1[i] == s0[i + 1] by {}
            assert forall|w: int| 1 <= w < s0.len() implies #[trigger] s0[w] == s1[w - 1] by {}
            assert forall|w: int| 0 <= w < s0.len() implies (#[trigger] s0[w]).0 == self.indeg(w) && s0[w].1 == self.outdeg(w) by {}
            assert forall|w: int| 0 <= w < s0.len() implies #[trigger] self.indeg(w) == s0[w].0 && self.outdeg(w) == s0[w].1 by {}
        }
    @*/
}

// ---- C14: star (map + chain + collect).  The defining predicate is written from the property text (identical to
// units/inc/matrix_gen.inc.rs) ----

/// star(n) has 0 <-> i for 1 <= i < n
spec fn star_arc(n: int, a: int, b: int) -> bool {
    (a == 0 && 1 <= b < n) || (b == 0 && 1 <= a < n)
}

/// the item sequence of star's chain: the n - 1 arcs 0 -> i followed by the n - 1 arcs i -> 0 (i = 1, .., n - 1)
spec fn star_items(n: int, rem: Seq<(usize, usize)>) -> bool {
    &&& rem.len() == 2 * (n - 1)
    &&& forall|k: int| 0 <= k < n - 1 ==> #[trigger] rem[k] == (0usize, (k + 1) as usize)
    &&& forall|k: int| n - 1 <= k < 2 * (n - 1) ==> #[trigger] rem[k] == ((k - (n - 1) + 1) as usize, 0usize)
}

/// the set of those items is the star's arc set
proof fn lemma_star_items(n: int, rem: Seq<(usize, usize)>)
    requires 1 < n <= usize::MAX, star_items(n, rem),
    ensures forall|p: (usize, usize)| #[trigger] rem.to_set().contains(p) == star_arc(n, p.0 as int, p.1 as int),
{
    assert forall|p: (usize, usize)| #[trigger] rem.to_set().contains(p) == star_arc(n, p.0 as int, p.1 as int) by {
        if star_arc(n, p.0 as int, p.1 as int) {
            if p.0 == 0 { assert(rem[p.1 as int - 1] == p); } else { assert(rem[p.0 as int - 1 + (n - 1)] == p); }
        }
        if rem.to_set().contains(p) {
            let k = choose|k: int| 0 <= k < rem.len() && rem[k] == p;
            if k < n - 1 { assert(rem[k] == (0usize, (k + 1) as usize)); } else { assert(rem[k] == ((k - (n - 1) + 1) as usize, 0usize)); }
        }
    }
}

impl EdgeList {
    /*@fn impl=EdgeList trait=Star name=star wrap=chain props=C14,C13
    ensures
        order >= 1,
        r.wf(),
        r.ord() == order,
        forall|a: int, b: int| #![trigger r.has(a, b)] r.has(a, b) == star_arc(order as int, a, b),
    @closure 1 |v: usize| -> (p: (usize, usize))
    ensures
        p == (0usize, v),
    @closure 2 |u: usize| -> (p: (usize, usize))
    ensures
        p == (u, 0usize),
    @fn_start
        broadcast use vstd::std_specs::iter::group_iter_axioms;
        broadcast use axiom_btree_set_from_iter;
        proof {
            let n = order as int;
            // the chained iterator is consumed inside the struct literal: state the meaning of its item sequence for every candidate
            assert forall|rem: Seq<(usize, usize)>, s: BTreeSet<(usize, usize)>|
                #[trigger] <BTreeSet<(usize, usize)> as vstd::std_specs::iter::FromIteratorSpec<(usize, usize)>>::from_iter_ensures(rem, s)
                && n > 1 && star_items(n, rem)
                implies (forall|p: (usize, usize)| #[trigger] s@.contains(p) == star_arc(n, p.0 as int, p.1 as int)) by {
                lemma_star_items(n, rem);
            }
        }
    @*/
}
