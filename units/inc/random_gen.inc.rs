//@file src/repr/adjacency_matrix/mod.rs
// ---- C15 (Verus half): random_tournament returns a tournament for EVERY bit stream of the PRNG ----

/// progress of the double loop `for u in 0..n { for v in u+1..n { .. } }`: the pair a < b has been decided
spec fn decided(a: int, b: int, u: int, v: int) -> bool { a < u || (a == u && b < v) }

impl AdjacencyMatrix {
    /// C15: exactly one arc between every pair of distinct vertices
    spec fn tournament(&self) -> bool {
        forall|a: int, b: int| #![trigger self.has(a, b)] 0 <= a < self.order && 0 <= b < self.order && a != b ==> self.has(a, b) != self.has(b, a)
    }

    /// loop state: decided pairs carry exactly one arc, undecided pairs none
    spec fn tour_upto(&self, u: int, v: int) -> bool {
        forall|a: int, b: int| #![trigger self.has(a, b)] 0 <= a < b < self.order ==>
            if decided(a, b, u, v) { self.has(a, b) != self.has(b, a) } else { !self.has(a, b) && !self.has(b, a) }
    }

    /*@fn impl=AdjacencyMatrix trait=RandomTournament name=random_tournament
    ensures
        order >= 1,
        r.wf(),
        r.order == order,
        r.tournament(),
    @loop 1
    invariant
        digraph.wf(),
        digraph.order == order,
        digraph.tour_upto(u as int, 0),
    @loop 2
    invariant
        u < order,
        digraph.wf(),
        digraph.order == order,
        digraph.tour_upto(u as int, v as int),
    @loop_start 2
        let ghost d0 = digraph;
        assert(u < v < order);
    @loop_end 2
        proof {
            assert forall|a: int, b: int| #![trigger digraph.has(a, b)] 0 <= a < b < digraph.order implies
                (if decided(a, b, u as int, v + 1) { digraph.has(a, b) != digraph.has(b, a) } else { !digraph.has(a, b) && !digraph.has(b, a) }) by {
                assert(d0.has(a, b) == d0.has(a, b) && d0.has(b, a) == d0.has(b, a));
                assert(digraph.has(b, a) == digraph.has(b, a));
            }
        }
    @*/
}

//@file src/repr/adjacency_list/mod.rs
impl AdjacencyList {
    /// C15: exactly one arc between every pair of distinct vertices
    spec fn tournament(&self) -> bool {
        forall|a: int, b: int| #![trigger self.has(a, b)] 0 <= a < self.ord() && 0 <= b < self.ord() && a != b ==> self.has(a, b) != self.has(b, a)
    }

    /*@fn trait=Empty name=trivial file=src/gen/empty.rs dropwhere=Self
    ensures
        r.wf(),
        r.ord() == 1,
        forall|a: int, b: int| #![trigger r.has(a, b)] !r.has(a, b),
    @*/

    /*@fn impl=AdjacencyList trait=RandomTournament name=random_tournament
    ensures
        order >= 1,
        r.wf(),
        r.ord() == order,
        r.tournament(),
    @loop 1
    invariant
        order > 1,
        arcs@.len() == order,
        rows_wf(arcs@),
        rows_tour_upto(arcs@, u as int, 0),
    @loop 2
    invariant
        u < order,
        arcs@.len() == order,
        rows_wf(arcs@),
        rows_tour_upto(arcs@, u as int, v as int),
    @loop_start 2
        let ghost a0 = arcs@;
        let ghost mut na: (int, int) = (0, 0);
        assert(u < v < order);
    @after `let _ = unsafe { arcs.get_unchecked_mut(u).insert(v) };`
        proof {
            na = (u as int, v as int);
            assert(arcs@.len() == a0.len() && arcs@[u as int]@ == a0[u as int]@.insert(v));
            assert forall|a: int| 0 <= a < a0.len() && a != u implies #[trigger] arcs@[a] == a0[a] by {}
            assert forall|a: int, b: int| #![trigger rows_has(arcs@, a, b)] rows_has(arcs@, a, b) == (rows_has(a0, a, b) || (a == u && b == v)) by {}
        }
    @after `let _ = unsafe { arcs.get_unchecked_mut(v).insert(u) };`
        proof {
            na = (v as int, u as int);
            assert(arcs@.len() == a0.len() && arcs@[v as int]@ == a0[v as int]@.insert(u));
            assert forall|a: int| 0 <= a < a0.len() && a != v implies #[trigger] arcs@[a] == a0[a] by {}
            assert forall|a: int, b: int| #![trigger rows_has(arcs@, a, b)] rows_has(arcs@, a, b) == (rows_has(a0, a, b) || (a == v && b == u)) by {}
        }
    @loop_end 2
        proof {
            let a1 = arcs@;
            assert(na == (u as int, v as int) || na == (v as int, u as int));
            assert forall|a: int, b: int| #![trigger rows_has(a1, a, b)] rows_has(a1, a, b) == (rows_has(a0, a, b) || (a == na.0 && b == na.1)) by {}
            assert forall|a: int, b: int| #![trigger rows_has(a1, a, b)] 0 <= a < b < a1.len() implies
                (if decided(a, b, u as int, v + 1) { rows_has(a1, a, b) != rows_has(a1, b, a) } else { !rows_has(a1, a, b) && !rows_has(a1, b, a) }) by {
                assert(rows_has(a0, a, b) == rows_has(a0, a, b) && rows_has(a0, b, a) == rows_has(a0, b, a));
                assert(rows_has(a1, b, a) == rows_has(a1, b, a));
            }
        }
    @fn_end
        proof {
            let g = AdjacencyList { arcs };
            assert forall|a: int, b: int| #![trigger g.has(a, b)] g.has(a, b) == rows_has(arcs@, a, b) by {}
            assert forall|a: int, b: int| #![trigger g.has(a, b)] 0 <= a < g.ord() && 0 <= b < g.ord() && a != b implies g.has(a, b) != g.has(b, a) by {
                if a < b { assert(rows_has(arcs@, a, b) != rows_has(arcs@, b, a)); } else { assert(rows_has(arcs@, b, a) != rows_has(arcs@, a, b)); }
            }
        }
    @*/
}

/// arc relation of a row vector under construction
spec fn rows_has(rows: Seq<BTreeSet<usize>>, a: int, b: int) -> bool {
    0 <= a < rows.len() && 0 <= b <= usize::MAX && rows[a]@.contains(b as usize)
}

/// every arc joins distinct vertices of V
spec fn rows_wf(rows: Seq<BTreeSet<usize>>) -> bool {
    forall|a: int, x: usize| 0 <= a < rows.len() && #[trigger] rows[a]@.contains(x) ==> x < rows.len() && x != a
}

/// loop state: decided pairs carry exactly one arc, undecided pairs none
spec fn rows_tour_upto(rows: Seq<BTreeSet<usize>>, u: int, v: int) -> bool {
    forall|a: int, b: int| #![trigger rows_has(rows, a, b)] 0 <= a < b < rows.len() ==>
        if decided(a, b, u, v) { rows_has(rows, a, b) != rows_has(rows, b, a) } else { !rows_has(rows, a, b) && !rows_has(rows, b, a) }
}

// ---- EdgeList side (own module: one module-level `broadcast use` per module) ----
mod edge_gen {
use super::*;
//@import units/inc/edge_list_core.inc.rs

//@file src/repr/edge_list/mod.rs
impl EdgeList {
    /// C15: exactly one arc between every pair of distinct vertices
    spec fn tournament(&self) -> bool {
        forall|a: int, b: int| #![trigger self.has(a, b)] 0 <= a < self.ord() && 0 <= b < self.ord() && a != b ==> self.has(a, b) != self.has(b, a)
    }

    /// loop state: decided pairs carry exactly one arc, undecided pairs none
    spec fn tour_upto(&self, u: int, v: int) -> bool {
        forall|a: int, b: int| #![trigger self.has(a, b)] 0 <= a < b < self.ord() ==>
            if decided(a, b, u, v) { self.has(a, b) != self.has(b, a) } else { !self.has(a, b) && !self.has(b, a) }
    }

    /*@fn trait=Empty name=trivial file=src/gen/empty.rs dropwhere=Self
    ensures
        r.wf(),
        r.ord() == 1,
        forall|a: int, b: int| #![trigger r.has(a, b)] !r.has(a, b),
    @*/

    /*@fn impl=EdgeList trait=RandomTournament name=random_tournament
    ensures
        order >= 1,
        r.wf(),
        r.ord() == order,
        r.tournament(),
    @loop 1
    invariant
        digraph.wf(),
        digraph.ord() == order,
        digraph.tour_upto(u as int, 0),
    @loop 2
    invariant
        u < order,
        digraph.wf(),
        digraph.ord() == order,
        digraph.tour_upto(u as int, v as int),
    @loop_start 2
        let ghost d0 = digraph;
        assert(u < v < order);
    @loop_end 2
        proof {
            assert forall|a: int, b: int| #![trigger digraph.has(a, b)] 0 <= a < b < digraph.ord() implies
                (if decided(a, b, u as int, v + 1) { digraph.has(a, b) != digraph.has(b, a) } else { !digraph.has(a, b) && !digraph.has(b, a) }) by {
                assert(d0.has(a, b) == d0.has(a, b) && d0.has(b, a) == d0.has(b, a));
                assert(digraph.has(b, a) == digraph.has(b, a));
            }
        }
    @*/
}
} // mod edge_gen
