//@file src/repr/adjacency_matrix/mod.rs
// ---- C15 (Verus half): random_tournament returns a tournament for EVERY bit stream of the PRNG ----

/// progress of the double loop `for u in 0..n { for v in u+1..n { .. } }`: the pair a < b has been decided
spec fn decided(a: int, b: int, u: int, v: int) -> bool { a < u || (a == u && b < v) }

impl AdjacencyMatrix {
    /// C15: exactly one arc between every pair of distinct vertices
    spec fn tournament(&self) -> bool {
        forall|a: int, b: int| #![trigger self.has(a, b)] 0 <= a < self.order && 0 <= b < self.order && a != b ==> self.has(a, b) != self.has(b, a)
    }

    /// loop state: decided pairs carry exactly one arc, undecided pairs none
    spec fn tour_upto(&self, u: int, v: int) -> bool {
        forall|a: int, b: int| #![trigger self.has(a, b)] 0 <= a < b < self.order ==>
            if decided(a, b, u, v) { self.has(a, b) != self.has(b, a) } else { !self.has(a, b) && !self.has(b, a) }
    }

    /*@fn impl=AdjacencyMatrix trait=RandomTournament name=random_tournament
    ensures
        order >= 1,
        r.wf(),
        r.order == order,
        r.tournament(),
    @loop 1
    invariant
        digraph.wf(),
        digraph.order == order,
        digraph.tour_upto(u as int, 0),
    @loop 2
    invariant
        u < order,
        digraph.wf(),
        digraph.order == order,
        digraph.tour_upto(u as int, v as int),
    @loop_start 2
        let ghost d0 = digraph;
        assert(u < v < order);
    @loop_end 2
        proof {
            assert forall|a: int, b: int| #![trigger digraph.has(a, b)] 0 <= a < b < digraph.order implies
                (if decided(a, b, u as int, v + 1) { digraph.has(a, b) != digraph.has(b, a) } else { !digraph.has(a, b) && !digraph.has(b, a) }) by {
                assert(d0.has(a, b) == d0.has(a, b) && d0.has(b, a) == d0.has(b, a));
                assert(digraph.has(b, a) == digraph.has(b, a));
            }
        }
    @*/
}

//@file src/repr/edge_list/mod.rs
impl EdgeList {
    /// C15: exactly one arc between every pair of distinct vertices
    spec fn tournament(&self) -> bool {
        forall|a: int, b: int| #![trigger self.has(a, b)] 0 <= a < self.ord() && 0 <= b < self.ord() && a != b ==> self.has(a, b) != self.has(b, a)
    }

    /// loop state: decided pairs carry exactly one arc, undecided pairs none
    spec fn tour_upto(&self, u: int, v: int) -> bool {
        forall|a: int, b: int| #![trigger self.has(a, b)] 0 <= a < b < self.ord() ==>
            if decided(a, b, u, v) { self.has(a, b) != self.has(b, a) } else { !self.has(a, b) && !self.has(b, a) }
    }

    /*@fn trait=Empty name=trivial file=src/gen/empty.rs dropwhere=Self
    ensures
        r.wf(),
        r.ord() == 1,
        forall|a: int, b: int| #![trigger r.has(a, b)] !r.has(a, b),
    @*/

    /*@fn impl=EdgeList trait=RandomTournament name=random_tournament
    ensures
        order >= 1,
        r.wf(),
        r.ord() == order,
        r.tournament(),
    @loop 1
    invariant
        digraph.wf(),
        digraph.ord() == order,
        digraph.tour_upto(u as int, 0),
    @loop 2
    invariant
        u < order,
        digraph.wf(),
        digraph.ord() == order,
        digraph.tour_upto(u as int, v as int),
    @loop_start 2
        let ghost d0 = digraph;
        assert(u < v < order);
    @loop_end 2
        proof {
            assert forall|a: int, b: int| #![trigger digraph.has(a, b)] 0 <= a < b < digraph.ord() implies
                (if decided(a, b, u as int, v + 1) { digraph.has(a, b) != digraph.has(b, a) } else { !digraph.has(a, b) && !digraph.has(b, a) }) by {
                assert(d0.has(a, b) == d0.has(a, b) && d0.has(b, a) == d0.has(b, a));
                assert(digraph.has(b, a) == digraph.has(b, a));
            }
        }
    @*/
}
