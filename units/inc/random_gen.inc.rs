//@file src/repr/adjacency_matrix/mod.rs
// ---- C15 (Verus half): random_tournament returns a tournament for EVERY bit stream of the PRNG ----

/// progress of the double loop `for u in 0..n { for v in u+1..n { .. } }`: the pair a < b has been decided
spec fn decided(a: int, b: int, u: int, v: int) -> bool { a < u || (a == u && b < v) }

/// loop state of the pair a < b: decided pairs carry exactly one arc, undecided pairs none
spec fn pair_state(ab: bool, ba: bool, dec: bool) -> bool { if dec { ab != ba } else { !ab && !ba } }

impl AdjacencyMatrix {
    /// C15: exactly one arc between every pair of distinct vertices
    spec fn tournament(&self) -> bool {
        forall|a: int, b: int| #![trigger self.has(a, b)] 0 <= a < self.order && 0 <= b < self.order && a != b ==> self.has(a, b) != self.has(b, a)
    }

    spec fn tour_upto(&self, u: int, v: int) -> bool {
        forall|a: int, b: int| #![trigger self.has(a, b)] 0 <= a < b < self.order ==> pair_state(self.has(a, b), self.has(b, a), decided(a, b, u, v))
    }

    /*@fn impl=AdjacencyMatrix trait=RandomTournament name=random_tournament
    ensures
        order >= 1,
        r.wf(),
        r.order == order,
        r.tournament(),
    @loop 1
    invariant
        digraph.wf(),
        digraph.order == order,
        digraph.tour_upto(u as int, 0),
    @loop 2
    invariant
        u < order,
        digraph.wf(),
        digraph.order == order,
        digraph.tour_upto(u as int, v as int),
    @loop_start 2
        let ghost d0 = digraph;
        let ghost mut na: (int, int) = (0, 0);
        // in particular the documented panics of add_arc (self-loop, id out of range) cannot occur below
        assert(u < v < order);
    @after #1 `digraph.add_arc(`
        proof { na = (u as int, v as int); }
    @after #2 `digraph.add_arc(`
        proof { na = (v as int, u as int); }
    @loop_end 2
        proof { lemma_matrix_tour_step(d0, digraph, u as int, v as int, na.0, na.1); }
    @fn_end
        proof { lemma_matrix_tour_done(digraph); }
    @*/
}

/// adding the arc (x, y) in {(u, v), (v, u)} decides the pair u < v and leaves the other pairs alone
proof fn lemma_matrix_tour_step(d0: AdjacencyMatrix, d1: AdjacencyMatrix, u: int, v: int, x: int, y: int)
    requires
        d1.order == d0.order,
        0 <= u < v < d0.order,
        (x == u && y == v) || (x == v && y == u),
        forall|a: int, b: int| #![trigger d1.has(a, b)] d1.has(a, b) == (d0.has(a, b) || (a == x && b == y)),
        d0.tour_upto(u, v),
    ensures
        d1.tour_upto(u, v + 1),
{
    assert forall|a: int, b: int| #![trigger d1.has(a, b)] 0 <= a < b < d1.order implies
        pair_state(d1.has(a, b), d1.has(b, a), decided(a, b, u, v + 1)) by {
        assert(pair_state(d0.has(a, b), d0.has(b, a), decided(a, b, u, v)));
        assert(d1.has(b, a) == (d0.has(b, a) || (b == x && a == y)));
    }
}

proof fn lemma_matrix_tour_done(d: AdjacencyMatrix)
    requires d.tour_upto(d.order as int, 0),
    ensures d.tournament(),
{
    assert forall|a: int, b: int| #![trigger d.has(a, b)] 0 <= a < d.order && 0 <= b < d.order && a != b implies d.has(a, b) != d.has(b, a) by {
        if a < b { assert(pair_state(d.has(a, b), d.has(b, a), decided(a, b, d.order as int, 0))); }
        else { assert(pair_state(d.has(b, a), d.has(a, b), decided(b, a, d.order as int, 0))); }
    }
}

//@file src/repr/adjacency_list/mod.rs
impl AdjacencyList {
    /// C15: exactly one arc between every pair of distinct vertices
    spec fn tournament(&self) -> bool {
        forall|a: int, b: int| #![trigger self.has(a, b)] 0 <= a < self.ord() && 0 <= b < self.ord() && a != b ==> self.has(a, b) != self.has(b, a)
    }

    /*@fn trait=Empty name=trivial file=src/gen/empty.rs dropwhere=Self
    ensures
        r.wf(),
        r.ord() == 1,
        forall|a: int, b: int| #![trigger r.has(a, b)] !r.has(a, b),
    @*/

    /*@fn impl=AdjacencyList trait=RandomTournament name=random_tournament
    ensures
        order >= 1,
        r.wf(),
        r.ord() == order,
        r.tournament(),
    @panic 1
        assert(order == 0);
    @loop 1
    invariant
        order > 1,
        arcs@.len() == order,
        rows_wf(arcs@),
        rows_tour_upto(arcs@, u as int, 0),
    @loop 2
    invariant
        u < order,
        arcs@.len() == order,
        rows_wf(arcs@),
        rows_tour_upto(arcs@, u as int, v as int),
    @loop_start 2
        let ghost a0 = arcs@;
        let ghost mut na: (int, int) = (0, 0);
        assert(u < v < order);
    @after #1 `let _ = unsafe { arcs.get_unchecked_mut(`
        proof {
            na = (u as int, v as int);
            lemma_rows_insert(a0, arcs@, u as int, v);
        }
    @after #2 `let _ = unsafe { arcs.get_unchecked_mut(`
        proof {
            na = (v as int, u as int);
            lemma_rows_insert(a0, arcs@, v as int, u);
        }
    @loop_end 2
        proof { lemma_rows_tour_step(a0, arcs@, u as int, v as int, na.0, na.1); }
    @fn_end
        proof { lemma_rows_tour_done(AdjacencyList { arcs }); }
    @*/
}

/// arc relation of a row vector under construction
spec fn rows_has(rows: Seq<BTreeSet<usize>>, a: int, b: int) -> bool {
    0 <= a < rows.len() && 0 <= b <= usize::MAX && rows[a]@.contains(b as usize)
}

/// every arc joins distinct vertices of V
spec fn rows_wf(rows: Seq<BTreeSet<usize>>) -> bool {
    forall|a: int, x: usize| 0 <= a < rows.len() && #[trigger] rows[a]@.contains(x) ==> x < rows.len() && x != a
}

spec fn rows_tour_upto(rows: Seq<BTreeSet<usize>>, u: int, v: int) -> bool {
    forall|a: int, b: int| #![trigger rows_has(rows, a, b)] 0 <= a < b < rows.len() ==>
        pair_state(rows_has(rows, a, b), rows_has(rows, b, a), decided(a, b, u, v))
}

/// inserting y into row x adds exactly the arc (x, y) and keeps the rows valid
proof fn lemma_rows_insert(r0: Seq<BTreeSet<usize>>, r1: Seq<BTreeSet<usize>>, x: int, y: usize)
    requires
        r1.len() == r0.len(),
        0 <= x < r0.len(), y < r0.len(), x != y,
        r1[x]@ == r0[x]@.insert(y),
        forall|a: int| 0 <= a < r0.len() && a != x ==> #[trigger] r1[a] == r0[a],
        rows_wf(r0),
    ensures
        rows_wf(r1),
        forall|a: int, b: int| #![trigger rows_has(r1, a, b)] rows_has(r1, a, b) == (rows_has(r0, a, b) || (a == x && b == y)),
{
    assert forall|a: int, z: usize| 0 <= a < r1.len() && #[trigger] r1[a]@.contains(z) implies z < r1.len() && z != a by {
        if a != x { assert(r1[a] == r0[a]); assert(r0[a]@.contains(z)); }
        else if z != y { assert(r0[a]@.contains(z)); }
    }
    assert forall|a: int, b: int| #![trigger rows_has(r1, a, b)] rows_has(r1, a, b) == (rows_has(r0, a, b) || (a == x && b == y)) by {
        if 0 <= a < r0.len() && a != x { assert(r1[a] == r0[a]); }
    }
}

proof fn lemma_rows_tour_step(r0: Seq<BTreeSet<usize>>, r1: Seq<BTreeSet<usize>>, u: int, v: int, x: int, y: int)
    requires
        r1.len() == r0.len(),
        0 <= u < v < r0.len(),
        (x == u && y == v) || (x == v && y == u),
        forall|a: int, b: int| #![trigger rows_has(r1, a, b)] rows_has(r1, a, b) == (rows_has(r0, a, b) || (a == x && b == y)),
        rows_tour_upto(r0, u, v),
    ensures
        rows_tour_upto(r1, u, v + 1),
{
    assert forall|a: int, b: int| #![trigger rows_has(r1, a, b)] 0 <= a < b < r1.len() implies
        pair_state(rows_has(r1, a, b), rows_has(r1, b, a), decided(a, b, u, v + 1)) by {
        assert(pair_state(rows_has(r0, a, b), rows_has(r0, b, a), decided(a, b, u, v)));
        assert(rows_has(r1, b, a) == (rows_has(r0, b, a) || (b == x && a == y)));
    }
}

proof fn lemma_rows_tour_done(g: AdjacencyList)
    requires rows_tour_upto(g.arcs@, g.ord(), 0), rows_wf(g.arcs@), g.ord() > 0,
    ensures g.tournament(), g.wf(),
{
    let rows = g.arcs@;
    assert forall|a: int, b: int| #![trigger g.has(a, b)] 0 <= a < g.ord() && 0 <= b < g.ord() && a != b implies g.has(a, b) != g.has(b, a) by {
        assert(g.has(a, b) == rows_has(rows, a, b) && g.has(b, a) == rows_has(rows, b, a));
        if a < b { assert(pair_state(rows_has(rows, a, b), rows_has(rows, b, a), decided(a, b, g.ord(), 0))); }
        else { assert(pair_state(rows_has(rows, b, a), rows_has(rows, a, b), decided(b, a, g.ord(), 0))); }
    }
}

// ---- EdgeList side (own module: one module-level `broadcast use` per module) ----
mod edge_gen {
use super::*;
//@import units/inc/edge_list_core.inc.rs

//@file src/repr/edge_list/mod.rs
impl EdgeList {
    /// C15: exactly one arc between every pair of distinct vertices
    spec fn tournament(&self) -> bool {
        forall|a: int, b: int| #![trigger self.has(a, b)] 0 <= a < self.ord() && 0 <= b < self.ord() && a != b ==> self.has(a, b) != self.has(b, a)
    }

    spec fn tour_upto(&self, u: int, v: int) -> bool {
        forall|a: int, b: int| #![trigger self.has(a, b)] 0 <= a < b < self.ord() ==> pair_state(self.has(a, b), self.has(b, a), decided(a, b, u, v))
    }

    /*@fn trait=Empty name=trivial file=src/gen/empty.rs dropwhere=Self
    ensures
        r.wf(),
        r.ord() == 1,
        forall|a: int, b: int| #![trigger r.has(a, b)] !r.has(a, b),
    @*/

    /*@fn impl=EdgeList trait=RandomTournament name=random_tournament
    ensures
        order >= 1,
        r.wf(),
        r.ord() == order,
        r.tournament(),
    @loop 1
    invariant
        digraph.wf(),
        digraph.ord() == order,
        digraph.tour_upto(u as int, 0),
    @loop 2
    invariant
        u < order,
        digraph.wf(),
        digraph.ord() == order,
        digraph.tour_upto(u as int, v as int),
    @loop_start 2
        let ghost d0 = digraph;
        let ghost mut na: (int, int) = (0, 0);
        // in particular the documented panics of add_arc (self-loop, id out of range) cannot occur below
        assert(u < v < order);
    @after #1 `digraph.add_arc(`
        proof { na = (u as int, v as int); }
    @after #2 `digraph.add_arc(`
        proof { na = (v as int, u as int); }
    @loop_end 2
        proof { lemma_edge_tour_step(d0, digraph, u as int, v as int, na.0, na.1); }
    @fn_end
        proof { lemma_edge_tour_done(digraph); }
    @*/
}

proof fn lemma_edge_tour_step(d0: EdgeList, d1: EdgeList, u: int, v: int, x: int, y: int)
    requires
        d1.ord() == d0.ord(),
        0 <= u < v < d0.ord(),
        (x == u && y == v) || (x == v && y == u),
        forall|a: int, b: int| #![trigger d1.has(a, b)] d1.has(a, b) == (d0.has(a, b) || (a == x && b == y)),
        d0.tour_upto(u, v),
    ensures
        d1.tour_upto(u, v + 1),
{
    assert forall|a: int, b: int| #![trigger d1.has(a, b)] 0 <= a < b < d1.ord() implies
        pair_state(d1.has(a, b), d1.has(b, a), decided(a, b, u, v + 1)) by {
        assert(pair_state(d0.has(a, b), d0.has(b, a), decided(a, b, u, v)));
        assert(d1.has(b, a) == (d0.has(b, a) || (b == x && a == y)));
    }
}

proof fn lemma_edge_tour_done(d: EdgeList)
    requires d.tour_upto(d.ord(), 0),
    ensures d.tournament(),
{
    assert forall|a: int, b: int| #![trigger d.has(a, b)] 0 <= a < d.ord() && 0 <= b < d.ord() && a != b implies d.has(a, b) != d.has(b, a) by {
        if a < b { assert(pair_state(d.has(a, b), d.has(b, a), decided(a, b, d.ord(), 0))); }
        else { assert(pair_state(d.has(b, a), d.has(a, b), decided(b, a, d.ord(), 0))); }
    }
}
} // mod edge_gen
