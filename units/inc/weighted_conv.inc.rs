//@file src/repr/adjacency_list_weighted/mod.rs
// ---- C16: converting an unweighted representation into AdjacencyListWeighted<isize|usize> preserves (V, A), gives every
// arc weight 1, and panics on an invalid source ----
// Under contract here: the macro-generated `impl From<$type> for AdjacencyListWeighted<$weight>` (macro
// `impl_from_arcs_order`, matcher `($type:ty, $weight:ty)`) at $weight = usize and $weight = isize.  The source of ANOTHER
// representation is the opaque `Dg` (prelude/dg.rs): the converter only uses `order()` and `arcs()`, whose trait contracts
// `Dg` carries; `Dg` is NOT assumed well-formed.
// Not under contract: `impl<W, I> From<I> for AdjacencyListWeighted<W>` (iterator of BTreeMap rows): its validation loop runs
// over `digraph.arcs()`, which is `enumerate` + `flat_map` (not specifiable).

/// vertex ids are `usize` by type; the opaque source `Dg` states its arc relation over `int`
spec fn is_id(a: int) -> bool { 0 <= a <= usize::MAX }

/// C16 (normal return): the source was a valid digraph (at least one vertex, no self-loop, every head in V);
/// a source violating this makes the conversion panic
spec fn dg_valid(d: Dg) -> bool {
    &&& d.ord() > 0
    &&& forall|u: int, v: int| is_id(u) && is_id(v) && #[trigger] d.has(u, v) ==> 0 <= u < d.ord() && 0 <= v < d.ord() && u != v
}

/// the items of `Dg::arcs()` (trait contract): exactly the arcs of the source
spec fn arcs_of(d: Dg, s: Seq<(usize, usize)>) -> bool {
    &&& forall|u: usize, v: usize| d.has(u as int, v as int) ==> s.contains((u, v))
    &&& forall|i: int| 0 <= i < s.len() ==> d.has((#[trigger] s[i]).0 as int, s[i].1 as int)
}

impl AdjacencyListWeighted<usize> {
    /*@fn impl=AdjacencyListWeighted trait=From name=from rename=from_dg_usize macro=impl_from_arcs_order macroarg="Dg;usize"
    ensures
        r.wf(),
        r.ord() == digraph.ord(),
        forall|a: int, b: int| #![trigger r.has(a, b)] is_id(a) && is_id(b) ==> r.has(a, b) == digraph.has(a, b),
        forall|a: int, b: int| #![trigger r.has(a, b)] r.has(a, b) ==> r.wt(a, b) == 1,
        dg_valid(digraph),
    @loop 1
    invariant
        it1.iter.obeys_prophetic_iter_laws(),
        it1.iter.decrease() is Some,
        arcs_of(digraph, it1.seq()),
        h.wf(),
        h.ord() == order,
        order == digraph.ord(),
        forall|i: int| 0 <= i < it1.index() ==> (#[trigger] it1.seq()[i]).0 < order && it1.seq()[i].1 < order && it1.seq()[i].0 != it1.seq()[i].1,
        forall|i: int| 0 <= i < it1.index() ==> h.has((#[trigger] it1.seq()[i]).0 as int, it1.seq()[i].1 as int),
        forall|a: int, b: int| #![trigger h.has(a, b)] h.has(a, b) ==> exists|i: int| 0 <= i < it1.index() && it1.seq()[i] == (a as usize, b as usize),
        forall|a: int, b: int| #![trigger h.wt(a, b)] h.has(a, b) ==> h.wt(a, b) == 1,
    @panic 1
        assert(!dg_valid(digraph));
    @panic 2
        assert(!dg_valid(digraph)) by { assert((u, v) == it1.seq()[it1.index()]); assert(digraph.has(u as int, v as int)); }
    @panic 3
        assert(!dg_valid(digraph)) by { assert((u, v) == it1.seq()[it1.index()]); assert(digraph.has(u as int, v as int)); }
    @before `h.add_arc_weighted(`
        // the only documented panic of add_arc_weighted left here (tail outside V) also means an invalid source
        assert(u != v && v < order && (u >= order ==> !dg_valid(digraph))) by { assert((u, v) == it1.seq()[it1.index()]); assert(digraph.has(u as int, v as int)); }
    @*/
}

impl AdjacencyListWeighted<isize> {
    /*@fn impl=AdjacencyListWeighted trait=From name=from rename=from_dg_isize macro=impl_from_arcs_order macroarg="Dg;isize"
    ensures
        r.wf(),
        r.ord() == digraph.ord(),
        forall|a: int, b: int| #![trigger r.has(a, b)] is_id(a) && is_id(b) ==> r.has(a, b) == digraph.has(a, b),
        forall|a: int, b: int| #![trigger r.has(a, b)] r.has(a, b) ==> r.wt(a, b) == 1,
        dg_valid(digraph),
    @loop 1
    invariant
        it1.iter.obeys_prophetic_iter_laws(),
        it1.iter.decrease() is Some,
        arcs_of(digraph, it1.seq()),
        h.wf(),
        h.ord() == order,
        order == digraph.ord(),
        forall|i: int| 0 <= i < it1.index() ==> (#[trigger] it1.seq()[i]).0 < order && it1.seq()[i].1 < order && it1.seq()[i].0 != it1.seq()[i].1,
        forall|i: int| 0 <= i < it1.index() ==> h.has((#[trigger] it1.seq()[i]).0 as int, it1.seq()[i].1 as int),
        forall|a: int, b: int| #![trigger h.has(a, b)] h.has(a, b) ==> exists|i: int| 0 <= i < it1.index() && it1.seq()[i] == (a as usize, b as usize),
        forall|a: int, b: int| #![trigger h.wt(a, b)] h.has(a, b) ==> h.wt(a, b) == 1,
    @panic 1
        assert(!dg_valid(digraph));
    @panic 2
        assert(!dg_valid(digraph)) by { assert((u, v) == it1.seq()[it1.index()]); assert(digraph.has(u as int, v as int)); }
    @panic 3
        assert(!dg_valid(digraph)) by { assert((u, v) == it1.seq()[it1.index()]); assert(digraph.has(u as int, v as int)); }
    @before `h.add_arc_weighted(`
        // the only documented panic of add_arc_weighted left here (tail outside V) also means an invalid source
        assert(u != v && v < order && (u >= order ==> !dg_valid(digraph))) by { assert((u, v) == it1.seq()[it1.index()]); assert(digraph.has(u as int, v as int)); }
    @*/
}

// ---- C16: round trips through the weighted representation ----
// A conversion sees its source only through the trait contract (`Dg`).  `d0` stands for the (V, A) of a weighted start value g0
// whose weights are all `one` (what every conversion INTO the weighted representation produces), `d1` for any unweighted
// intermediate B::from(..) (same order and arcs on ids, by the contracts of units/inc/conversions.inc.rs), and g2 satisfies the
// postcondition of AdjacencyListWeighted::<W>::from_dg_*(d1).  Then g2 denotes the same weighted digraph as g0 and
// (lemma_weighted_canonical) has extensionally equal rows.

/// `d` is the digraph (ord, has) as seen through the trait methods
spec fn dg_stands_for(d: Dg, ord: int, has: spec_fn(int, int) -> bool) -> bool {
    &&& d.ord() == ord
    &&& forall|a: int, b: int| #[trigger] d.has(a, b) == has(a, b)
}

/// C16 postcondition of every From<unweighted representation>: same order, same arcs
spec fn dg_same(d1: Dg, d0: Dg) -> bool {
    &&& d1.ord() == d0.ord()
    &&& forall|a: int, b: int| is_id(a) && is_id(b) ==> #[trigger] d1.has(a, b) == d0.has(a, b)
}

/// the C16 postcondition of `AdjacencyListWeighted::<W>::from(d)` with `one` the weight 1 of type W
spec fn weighted_conv_post<W>(g: AdjacencyListWeighted<W>, d: Dg, one: W) -> bool {
    &&& g.wf()
    &&& g.ord() == d.ord()
    &&& forall|a: int, b: int| #![trigger g.has(a, b)] is_id(a) && is_id(b) ==> g.has(a, b) == d.has(a, b)
    &&& forall|a: int, b: int| #![trigger g.has(a, b)] g.has(a, b) ==> g.wt(a, b) == one
}

proof fn lemma_round_trip_weighted<W>(g0: AdjacencyListWeighted<W>, d0: Dg, d1: Dg, g2: AdjacencyListWeighted<W>, one: W)
    requires
        g0.wf(),
        forall|a: int, b: int| #![trigger g0.has(a, b)] g0.has(a, b) ==> g0.wt(a, b) == one,
        dg_stands_for(d0, g0.ord(), |a: int, b: int| g0.has(a, b)),
        dg_same(d1, d0),
        weighted_conv_post(g2, d1, one),
    ensures
        g2.ord() == g0.ord(),
        forall|a: int, b: int| g2.has(a, b) == g0.has(a, b),
        forall|a: int, b: int| g2.has(a, b) ==> g2.wt(a, b) == g0.wt(a, b),
        // identity on the representation itself
        weighted_rows(g2) == weighted_rows(g0),
{
    assert forall|a: int, b: int| g2.has(a, b) == g0.has(a, b) by {
        if is_id(a) && is_id(b) {
            assert(d1.has(a, b) == d0.has(a, b));
            assert(d0.has(a, b) == (|a: int, b: int| g0.has(a, b))(a, b));
        }
        // a non-id is no vertex of either digraph
        assert(g0.arcs@.len() == g0.arcs.len() && g2.arcs@.len() == g2.arcs.len());
    }
    lemma_weighted_canonical(g2, g0);
}

/// the conversion is a function of the source's (V, A): two results for sources denoting the same digraph are equal as
/// representations (so X -> weighted is determined by (V, A) alone, all weights 1)
proof fn lemma_weighted_conv_deterministic<W>(d0: Dg, d1: Dg, g0: AdjacencyListWeighted<W>, g1: AdjacencyListWeighted<W>, one: W)
    requires
        dg_same(d1, d0),
        weighted_conv_post(g0, d0, one),
        weighted_conv_post(g1, d1, one),
    ensures
        weighted_rows(g1) == weighted_rows(g0),
{
    assert forall|a: int, b: int| g1.has(a, b) == g0.has(a, b) by {
        if is_id(a) && is_id(b) { assert(d1.has(a, b) == d0.has(a, b)); }
        assert(g0.arcs@.len() == g0.arcs.len() && g1.arcs@.len() == g1.arcs.len());
    }
    lemma_weighted_canonical(g1, g0);
}
