//@file src/repr/edge_list/mod.rs
broadcast use vstd::std_specs::btree::group_btree_axioms;

/*@struct name=EdgeList @*/

impl EdgeList {
    /// |V|; V = 0..ord()
    spec fn ord(&self) -> int { self.order as int }
    /// arc relation of the abstract digraph
    spec fn has(&self, u: int, v: int) -> bool {
        0 <= u <= usize::MAX && 0 <= v <= usize::MAX && self.arcs@.contains((u as usize, v as usize))
    }
    /// representation invariant: at least one vertex, every arc joins distinct vertices of V
    spec fn wf(&self) -> bool {
        &&& self.order > 0
        &&& forall|p: (usize, usize)| #[trigger] self.arcs@.contains(p) ==> p.0 < self.order && p.1 < self.order && p.0 != p.1
    }

    /*@fn impl=EdgeList trait=Order name=order
    ensures
        r == self.ord(),
    @*/

    /*@fn impl=EdgeList trait=ContiguousOrder name=contiguous_order
    ensures
        r == self.ord(),
    @*/

    /*@fn impl=EdgeList trait=Empty name=empty
    ensures
        order > 0,
        r.wf(),
        r.ord() == order,
        forall|a: int, b: int| !r.has(a, b),
    @*/

    /*@fn impl=EdgeList trait=AddArc name=add_arc
    requires
        old(self).wf(),
    ensures
        final(self).wf(),
        final(self).ord() == old(self).ord(),
        u != v && u < old(self).ord() && v < old(self).ord(),
        forall|a: int, b: int| #![trigger final(self).has(a, b)] final(self).has(a, b) == (old(self).has(a, b) || (a == u && b == v)),
    @panic *
        assert(*self == *old(self));
    @*/

    /*@fn impl=EdgeList trait=RemoveArc name=remove_arc
    requires
        old(self).wf(),
    ensures
        final(self).wf(),
        final(self).ord() == old(self).ord(),
        r == old(self).has(u as int, v as int),
        forall|a: int, b: int| #![trigger final(self).has(a, b)] final(self).has(a, b) == (old(self).has(a, b) && !(a == u && b == v)),
    @*/

    /*@fn impl=EdgeList trait=HasArc name=has_arc
    ensures
        r == self.has(u as int, v as int),
    @*/

    /*@fn impl=EdgeList trait=HasEdge name=has_edge
    ensures
        r == (self.has(u as int, v as int) && self.has(v as int, u as int)),
    @*/

    /*@fn impl=EdgeList trait=Size name=size
    ensures
        r == self.arcs@.len(),
        r == self.arc_set().len(),
    @fn_start
        proof { lemma_edge_arc_set(*self); }
    @*/

    /*@fn impl=EdgeList trait=Vertices name=vertices
    ensures
        r.obeys_prophetic_iter_laws(),
        r.decrease() is Some,
        r.remaining() == Seq::new(self.ord() as nat, |i: int| i as usize),
    @*/

    /*@fn impl=EdgeList trait=IsSimple name=is_simple
    ensures
        r == (forall|a: int| 0 <= a < self.ord() ==> !self.has(a, a)),
        self.wf() ==> r && (forall|a: int| !self.has(a, a)),
    @closure 1 |u: usize| -> (b: bool)
    ensures
        b == !self.has(u as int, u as int),
    @fn_start
        proof {
            // name the items of `vertices()` so that the quantifiers of `Iterator::all`'s contract are instantiated
            let rem = Seq::new(self.ord() as nat, |i: int| i as usize);
            assert forall|a: int| 0 <= a < self.ord() implies #[trigger] self.has(a, a) == self.has(rem[a] as int, rem[a] as int) by {}
            if self.wf() {
                assert forall|a: int| !self.has(a, a) by {
                    if self.has(a, a) { assert(self.arcs@.contains((a as usize, a as usize))); }
                }
            }
        }
    @*/
}

spec fn arc_to_int(p: (usize, usize)) -> (int, int) { (p.0 as int, p.1 as int) }

impl EdgeList {
    /// A as a mathematical set of pairs
    spec fn arc_set(&self) -> Set<(int, int)> { self.arcs@.map(|p: (usize, usize)| arc_to_int(p)) }
}

/// arc_set is exactly the arc relation `has`, and has as many elements as the stored set
proof fn lemma_edge_arc_set(g: EdgeList)
    ensures
        forall|u: int, v: int| g.arc_set().contains((u, v)) == g.has(u, v),
        g.arc_set().len() == g.arcs@.len(),
{
    let f = |p: (usize, usize)| arc_to_int(p);
    assert forall|u: int, v: int| g.arc_set().contains((u, v)) == g.has(u, v) by {
        if g.arc_set().contains((u, v)) {
            let p = choose|p: (usize, usize)| g.arcs@.contains(p) && f(p) == (u, v);
            assert(p == (u as usize, v as usize));
        }
        if g.has(u, v) {
            let p = (u as usize, v as usize);
            assert(g.arcs@.contains(p) && f(p) == (u, v));
        }
    }
    assert(vstd::relations::injective(f)) by {
        assert forall|p: (usize, usize), q: (usize, usize)| #[trigger] f(p) == #[trigger] f(q) implies p == q by {}
    }
    vstd::set_lib::lemma_map_size(g.arcs@, g.arc_set(), f);
}

/// C20 support, canonical form: two edge lists denoting the same digraph (V, A) have equal field views
/// (same `order`, extensionally equal `arcs@`). No wf needed: the representation has no slack.
proof fn lemma_edge_canonical(a: EdgeList, b: EdgeList)
    requires
        a.ord() == b.ord(),
        forall|u: int, v: int| a.has(u, v) == b.has(u, v),
    ensures
        a.order == b.order,
        a.arcs@ == b.arcs@,
{
    assert forall|p: (usize, usize)| a.arcs@.contains(p) == b.arcs@.contains(p) by {
        assert(a.has(p.0 as int, p.1 as int) == b.has(p.0 as int, p.1 as int));
        assert((p.0 as int as usize, p.1 as int as usize) == p);
    }
    assert(a.arcs@ =~= b.arcs@);
}

/// converse: equal field views denote the same digraph and agree on well-formedness
proof fn lemma_edge_canonical_conv(a: EdgeList, b: EdgeList)
    requires
        a.order == b.order,
        a.arcs@ == b.arcs@,
    ensures
        a.ord() == b.ord(),
        forall|u: int, v: int| a.has(u, v) == b.has(u, v),
        a.wf() == b.wf(),
        a.arc_set() == b.arc_set(),
{
}

/// wf stated over the abstract arc relation only
spec fn edge_wf_abs(g: EdgeList) -> bool {
    &&& g.ord() > 0
    &&& forall|u: int, v: int| #[trigger] g.has(u, v) ==> 0 <= u < g.ord() && 0 <= v < g.ord() && u != v
}

proof fn lemma_edge_wf_has(g: EdgeList)
    ensures g.wf() == edge_wf_abs(g),
{
    if g.wf() {
        assert forall|u: int, v: int| #[trigger] g.has(u, v) implies 0 <= u < g.ord() && 0 <= v < g.ord() && u != v by {
            assert(g.arcs@.contains((u as usize, v as usize)));
        }
    }
    if edge_wf_abs(g) {
        assert forall|p: (usize, usize)| #[trigger] g.arcs@.contains(p) implies p.0 < g.order && p.1 < g.order && p.0 != p.1 by {
            assert(g.has(p.0 as int, p.1 as int));
        }
    }
}
