//@file src/repr/adjacency_matrix/mod.rs
// ---- C14: defining arc predicates, each written from the property text ----

/// complete(n) has all n(n-1) arcs: every ordered pair of distinct vertices
spec fn complete_arc(n: int, a: int, b: int) -> bool {
    0 <= a < n && 0 <= b < n && a != b
}

/// circuit(n) has the arcs i -> (i+1) mod n (none for n = 1)
spec fn circuit_arc(n: int, a: int, b: int) -> bool {
    n > 1 && 0 <= a < n && 0 <= b < n && b == (a + 1) % n
}

/// cycle(n) has those arcs and their reverses
spec fn cycle_arc(n: int, a: int, b: int) -> bool {
    circuit_arc(n, a, b) || circuit_arc(n, b, a)
}

/// path(n) has i -> i+1 for i < n-1
spec fn path_arc(n: int, a: int, b: int) -> bool {
    0 <= a < n - 1 && b == a + 1
}

/// star(n) has 0 <-> i for 1 <= i < n
spec fn star_arc(n: int, a: int, b: int) -> bool {
    (a == 0 && 1 <= b < n) || (b == 0 && 1 <= a < n)
}

/// the cycle through 1..n-1: cycle(n-1) on the vertices 1, .., n-1
spec fn rim_arc(n: int, a: int, b: int) -> bool {
    1 <= a < n && 1 <= b < n && cycle_arc(n - 1, a - 1, b - 1)
}

/// wheel(n >= 4) is the union of star(n) and the cycle through 1..n-1
spec fn wheel_arc(n: int, a: int, b: int) -> bool {
    star_arc(n, a, b) || rim_arc(n, a, b)
}

/// biclique(m, n) has u <-> v exactly for u < m <= v < m+n
spec fn biclique_arc(m: int, n: int, a: int, b: int) -> bool {
    (0 <= a < m && m <= b < m + n) || (0 <= b < m && m <= a < m + n)
}

/// sanity of the predicates on small instances (guards against a mis-stated predicate)
proof fn lemma_predicate_examples()
    ensures
        forall|a: int, b: int| !circuit_arc(1, a, b) && !cycle_arc(1, a, b) && !path_arc(1, a, b) && !star_arc(1, a, b),
        circuit_arc(2, 0, 1) && circuit_arc(2, 1, 0) && !circuit_arc(2, 0, 0),
        circuit_arc(3, 0, 1) && circuit_arc(3, 1, 2) && circuit_arc(3, 2, 0) && !circuit_arc(3, 0, 2),
        cycle_arc(3, 0, 2) && cycle_arc(4, 3, 0) && !cycle_arc(4, 0, 2),
        path_arc(3, 0, 1) && path_arc(3, 1, 2) && !path_arc(3, 2, 0) && !path_arc(3, 2, 3),
        star_arc(3, 0, 2) && star_arc(3, 2, 0) && !star_arc(3, 1, 2) && !star_arc(3, 0, 0),
        wheel_arc(4, 0, 3) && wheel_arc(4, 1, 2) && wheel_arc(4, 2, 3) && wheel_arc(4, 3, 1) && wheel_arc(4, 1, 3) && !wheel_arc(4, 1, 1),
        wheel_arc(5, 4, 1) && !wheel_arc(5, 1, 3) && !wheel_arc(5, 4, 5),
        biclique_arc(1, 3, 0, 3) && biclique_arc(1, 3, 2, 0) && !biclique_arc(1, 3, 1, 2) && !biclique_arc(1, 3, 0, 4),
{
}

// ---- proof helpers: `% n` free forms of the circuit / rim predicates ----

/// successor on the n-circuit without `%`
spec fn circuit_lin(n: int, a: int, b: int) -> bool {
    n > 1 && 0 <= a < n && b == (if a == n - 1 { 0 } else { a + 1 })
}

spec fn circuit_mod_ok(n: int) -> bool {
    forall|a: int, b: int| #[trigger] circuit_arc(n, a, b) == circuit_lin(n, a, b)
}

proof fn lemma_circuit_lin(n: int)
    ensures circuit_mod_ok(n),
{
    assert forall|a: int, b: int| #[trigger] circuit_arc(n, a, b) == circuit_lin(n, a, b) by {
        if n > 1 && 0 <= a < n {
            if a == n - 1 {
                vstd::arithmetic::div_mod::lemma_mod_self_0(n);
            } else {
                vstd::arithmetic::div_mod::lemma_small_mod((a + 1) as nat, n as nat);
            }
        }
    }
}

/// `lo <= a, b < n` adjacent (|a - b| == 1) with smaller endpoint below `u`
spec fn adj_below(n: int, lo: int, u: int, a: int, b: int) -> bool {
    lo <= a < n && lo <= b < n && ((b == a + 1 && a < u) || (a == b + 1 && b < u))
}

/// the arc pair closing a cycle on lo..n-1
spec fn closing(n: int, lo: int, a: int, b: int) -> bool {
    (a == n - 1 && b == lo) || (a == lo && b == n - 1)
}

spec fn rim_lin_ok(n: int) -> bool {
    forall|a: int, b: int| #[trigger] rim_arc(n, a, b) == (adj_below(n, 1, n - 1, a, b) || closing(n, 1, a, b))
}

proof fn lemma_rim_lin(n: int)
    requires n >= 4,
    ensures rim_lin_ok(n),
{
    lemma_circuit_lin(n - 1);
    assert forall|a: int, b: int| #[trigger] rim_arc(n, a, b) == (adj_below(n, 1, n - 1, a, b) || closing(n, 1, a, b)) by {
        assert(circuit_arc(n - 1, a - 1, b - 1) == circuit_lin(n - 1, a - 1, b - 1));
        assert(circuit_arc(n - 1, b - 1, a - 1) == circuit_lin(n - 1, b - 1, a - 1));
    }
}

spec fn cycle_lin_ok(n: int) -> bool {
    forall|a: int, b: int| #[trigger] cycle_arc(n, a, b) == (n > 1 && (adj_below(n, 0, n - 1, a, b) || closing(n, 0, a, b)))
}

proof fn lemma_cycle_lin(n: int)
    requires n >= 1,
    ensures cycle_lin_ok(n),
{
    lemma_circuit_lin(n);
    assert forall|a: int, b: int| #[trigger] cycle_arc(n, a, b) == (n > 1 && (adj_below(n, 0, n - 1, a, b) || closing(n, 0, a, b))) by {
        assert(circuit_arc(n, a, b) == circuit_lin(n, a, b));
        assert(circuit_arc(n, b, a) == circuit_lin(n, b, a));
    }
}

spec fn min2(a: int, b: int) -> int { if a <= b { a } else { b } }
spec fn max2(a: int, b: int) -> int { if a <= b { b } else { a } }

impl AdjacencyMatrix {
    /*@fn trait=Empty name=trivial file=src/gen/empty.rs dropwhere=Self
    ensures
        r.wf(),
        r.order == 1,
        forall|a: int, b: int| #![trigger r.has(a, b)] !r.has(a, b),
    @*/

    /*@fn impl=AdjacencyMatrix trait=Complete name=complete
    ensures
        order >= 1,
        r.wf(),
        r.order == order,
        forall|a: int, b: int| #![trigger r.has(a, b)] r.has(a, b) == complete_arc(order as int, a, b),
    @loop 1
    invariant
        digraph.wf(),
        digraph.order == order,
        forall|a: int, b: int| #![trigger digraph.has(a, b)] digraph.has(a, b) == (complete_arc(order as int, a, b) && min2(a, b) < u),
    @loop 2
    invariant
        u < order,
        digraph.wf(),
        digraph.order == order,
        forall|a: int, b: int| #![trigger digraph.has(a, b)] digraph.has(a, b) == (complete_arc(order as int, a, b)
            && (min2(a, b) < u || (min2(a, b) == u && max2(a, b) < v))),
    @*/

    /*@fn impl=AdjacencyMatrix trait=Circuit name=circuit
    ensures
        order >= 1,
        r.wf(),
        r.order == order,
        forall|a: int, b: int| #![trigger r.has(a, b)] r.has(a, b) == circuit_arc(order as int, a, b),
    @fn_start
        proof { lemma_circuit_lin(order as int); }
    @loop 1
    invariant
        order > 1,
        circuit_mod_ok(order as int),
        digraph.wf(),
        digraph.order == order,
        forall|a: int, b: int| #![trigger digraph.has(a, b)] digraph.has(a, b) == (circuit_arc(order as int, a, b) && a < u),
    @*/

    /*@fn impl=AdjacencyMatrix trait=Cycle name=cycle
    ensures
        order >= 1,
        r.wf(),
        r.order == order,
        forall|a: int, b: int| #![trigger r.has(a, b)] r.has(a, b) == cycle_arc(order as int, a, b),
    @fn_start
        proof { if order >= 1 { lemma_cycle_lin(order as int); } }
    @loop 1
    invariant
        order > 1,
        digraph.wf(),
        digraph.order == order,
        forall|a: int, b: int| #![trigger digraph.has(a, b)] digraph.has(a, b) == adj_below(order as int, 0, u as int, a, b),
    @*/

    /*@fn impl=AdjacencyMatrix trait=Path name=path
    ensures
        order >= 1,
        r.wf(),
        r.order == order,
        forall|a: int, b: int| #![trigger r.has(a, b)] r.has(a, b) == path_arc(order as int, a, b),
    @loop 1
    invariant
        digraph.wf(),
        digraph.order == order,
        forall|a: int, b: int| #![trigger digraph.has(a, b)] digraph.has(a, b) == (path_arc(order as int, a, b) && a < u),
    @*/

    /*@fn impl=AdjacencyMatrix trait=Star name=star
    ensures
        order >= 1,
        r.wf(),
        r.order == order,
        forall|a: int, b: int| #![trigger r.has(a, b)] r.has(a, b) == star_arc(order as int, a, b),
    @loop 1
    invariant
        digraph.wf(),
        digraph.order == order,
        forall|a: int, b: int| #![trigger digraph.has(a, b)] digraph.has(a, b) == (star_arc(order as int, a, b) && a < u && b < u),
    @*/

    /*@fn impl=AdjacencyMatrix trait=Wheel name=wheel
    ensures
        order >= 4,
        r.wf(),
        r.order == order,
        forall|a: int, b: int| #![trigger r.has(a, b)] r.has(a, b) == wheel_arc(order as int, a, b),
    @fn_start
        proof { if order >= 4 { lemma_rim_lin(order as int); } }
    @loop 1
    invariant
        order >= 4,
        digraph.wf(),
        digraph.order == order,
        forall|a: int, b: int| #![trigger digraph.has(a, b)] digraph.has(a, b) == adj_below(order as int, 1, u as int, a, b),
    @loop 2
    invariant
        order >= 4,
        rim_lin_ok(order as int),
        digraph.wf(),
        digraph.order == order,
        forall|a: int, b: int| #![trigger digraph.has(a, b)] digraph.has(a, b) == (rim_arc(order as int, a, b)
            || (star_arc(order as int, a, b) && a < u && b < u)),
    @*/

    /*@fn impl=AdjacencyMatrix trait=Biclique name=biclique
    ensures
        m >= 1 && n >= 1,
        r.wf(),
        r.order == m + n,
        forall|a: int, b: int| #![trigger r.has(a, b)] r.has(a, b) == biclique_arc(m as int, n as int, a, b),
    @loop 1
    invariant
        order == m + n,
        digraph.wf(),
        digraph.order == order,
        forall|a: int, b: int| #![trigger digraph.has(a, b)] digraph.has(a, b) == (biclique_arc(m as int, n as int, a, b) && min2(a, b) < u),
    @loop 2
    invariant
        order == m + n,
        u < m,
        digraph.wf(),
        digraph.order == order,
        forall|a: int, b: int| #![trigger digraph.has(a, b)] digraph.has(a, b) == (biclique_arc(m as int, n as int, a, b)
            && (min2(a, b) < u || (min2(a, b) == u && max2(a, b) < v))),
    @*/

    /*@fn trait=Biclique name=claw file=src/gen/biclique.rs dropwhere=Self
    ensures
        r.wf(),
        r.order == 4,
        forall|a: int, b: int| #![trigger r.has(a, b)] r.has(a, b) == biclique_arc(1, 3, a, b),
    @*/

    /*@fn trait=Biclique name=utility file=src/gen/biclique.rs dropwhere=Self
    ensures
        r.wf(),
        r.order == 6,
        forall|a: int, b: int| #![trigger r.has(a, b)] r.has(a, b) == biclique_arc(3, 3, a, b),
    @*/
}
