//@file src/repr/adjacency_list_weighted/mod.rs
// ---- C01 / C16: `impl<W, I: IntoIterator<Item = BTreeMap<usize, W>>> From<I> for AdjacencyListWeighted<W>`, the
// wf-establishing constructor from an iterator of weight maps ----
// The iterator type I is instantiated as Vec<BTreeMap<usize, W>> (as units/inc/conversions.inc.rs does for AdjacencyList); W stays
// generic. The validation loop runs over `digraph.arcs()`, whose contract is ASSUMED (prelude/weighted_ctor_std.rs).

/// C16 (normal return): every row only names other vertices of V = 0..rows.len(); a self-loop or a head outside V in ANY
/// row makes the constructor panic
spec fn wrows_valid<W>(rows: Seq<BTreeMap<usize, W>>) -> bool {
    forall|i: int, x: usize| 0 <= i < rows.len() && #[trigger] rows[i]@.contains_key(x) ==> x < rows.len() && x != i
}

/// C16, building from an iterator of weight maps: the rows are kept as given (same keys, same weights)
spec fn wrows_kept<W>(g: AdjacencyListWeighted<W>, rows: Seq<BTreeMap<usize, W>>) -> bool {
    &&& g.arcs@.len() == rows.len()
    &&& forall|i: int| 0 <= i < rows.len() ==> #[trigger] g.arcs@[i]@ == rows[i]@
}

impl<W> AdjacencyListWeighted<W> {
    /*@fn impl=AdjacencyListWeighted trait=From implhas='impl<W, I> From<I>' name=from subst=I=>Vec<BTreeMap<usize,W>> drop=I dropwhere=I
    ensures
        r.wf(),
        r.ord() == iter@.len(),
        iter@.len() > 0,
        wrows_valid(iter@),
        wrows_kept(r, iter@),
        r.arcs@ == iter@,
        forall|a: int, b: int| #![trigger r.has(a, b)] r.has(a, b) == (0 <= a < iter@.len() && 0 <= b <= usize::MAX && iter@[a]@.contains_key(b as usize)),
        forall|a: int, b: int| #![trigger r.wt(a, b)] r.has(a, b) ==> r.wt(a, b) == iter@[a]@[b as usize],
    @loop 1
    invariant
        it1.iter.obeys_prophetic_iter_laws(),
        it1.iter.decrease() is Some,
        wctor_arcs_of(digraph.arcs@, it1.seq()),
        order == digraph.arcs@.len(),
        wrows_kept(digraph, iter@),
        forall|i: int| 0 <= i < it1.index() ==> (#[trigger] it1.seq()[i]).1 < order && it1.seq()[i].0 != it1.seq()[i].1,
    @panic 1
        assert(iter@.len() == 0);
    @panic 2
        assert(!wrows_valid(iter@)) by { assert((u, v) == it1.seq()[it1.index()]); assert(iter@[u as int]@.contains_key(v)); }
    @panic 3
        assert(!wrows_valid(iter@)) by { assert((u, v) == it1.seq()[it1.index()]); assert(iter@[u as int]@.contains_key(v)); }
    @*/
}
