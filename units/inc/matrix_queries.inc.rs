//@file src/repr/adjacency_matrix/mod.rs
// ---- C02: read-only queries of AdjacencyMatrix, each equal to its definition over (V, A) = (0..order, has) ----

/// the walk predicate of C02: at least two vertices and every consecutive pair is an arc
spec fn matrix_walk(g: AdjacencyMatrix, w: Seq<usize>) -> bool {
    w.len() >= 2 && forall|i: int| 0 <= i < w.len() - 1 ==> #[trigger] g.has(w[i] as int, w[i + 1] as int)
}

impl AdjacencyMatrix {
    /*@fn impl=AdjacencyMatrix trait=Vertices name=vertices
    ensures
        r.obeys_prophetic_iter_laws(),
        r.decrease() is Some,
        r.remaining() == Seq::new(self.order as nat, |i: int| i as usize),
    @*/

    /*@fn impl=AdjacencyMatrix trait=HasWalk name=has_walk
    requires
        self.wf(),
    ensures
        r == matrix_walk(*self, walk@),
    @closure 1 |p: (&usize, &usize)| -> (b: bool)
    ensures
        b == self.has(*p.0 as int, *p.1 as int),
    @*/

    /*@fn impl=AdjacencyMatrix trait=Outdegree name=is_sink
    requires
        self.wf(),
    ensures
        u < self.order,
        r == (forall|b: int| !self.has(u as int, b)),
    @closure 1 |v: usize| -> (b: bool)
    ensures
        b == !self.has(u as int, v as int),
    @*/

    /*@fn impl=AdjacencyMatrix trait=Indegree name=is_source
    requires
        self.wf(),
    ensures
        r == (forall|a: int| !self.has(a, v as int)),
    @closure 1 |u: usize| -> (b: bool)
    ensures
        b == !self.has(u as int, v as int),
    @*/

    /*@fn impl=AdjacencyMatrix trait=IsSimple name=is_simple
    requires
        self.wf(),
    ensures
        r == (forall|a: int| !self.has(a, a)),
        r,
    @closure 1 |u: usize| -> (b: bool)
    ensures
        b == !self.has(u as int, u as int),
    @*/
}
