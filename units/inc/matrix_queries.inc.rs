//@file src/repr/adjacency_matrix/mod.rs
// ---- C02: read-only queries of AdjacencyMatrix, each equal to its definition over (V, A) = (0..order, has) ----

/// the walk predicate of C02: at least two vertices and every consecutive pair is an arc
spec fn matrix_walk(g: AdjacencyMatrix, w: Seq<usize>) -> bool {
    w.len() >= 2 && forall|i: int| 0 <= i < w.len() - 1 ==> #[trigger] g.has(w[i] as int, w[i + 1] as int)
}

/// the item sequence of `walk.iter().zip(walk.iter().skip(1))`: the consecutive pairs of the walk
proof fn lemma_walk_pairs(w: Seq<usize>)
    requires w.len() > 1,
    ensures ({
        let a = w.as_ref();
        let z = a.zip_truncate(a.skip(1));
        &&& z.len() == w.len() - 1
        &&& forall|i: int| 0 <= i < w.len() - 1 ==> *(#[trigger] z[i]).0 == w[i] && *z[i].1 == w[i + 1]
    })
{
}

/// the out-neighbours of u among the vertices below k, ascending: the defining value of `out_neighbors` (k = order)
spec fn row_below(g: AdjacencyMatrix, u: int, k: int) -> Seq<usize>
    decreases k
{
    if k <= 0 { Seq::empty() }
    else if g.has(u, k - 1) { row_below(g, u, k - 1).push((k - 1) as usize) }
    else { row_below(g, u, k - 1) }
}

/// `row_below` is exactly the neighbours below k, strictly ascending (hence no repeats)
proof fn lemma_row_below(g: AdjacencyMatrix, u: int, k: int)
    requires 0 <= k <= usize::MAX + 1,
    ensures
        forall|i: int| 0 <= i < row_below(g, u, k).len() ==> (#[trigger] row_below(g, u, k)[i]) < k && g.has(u, row_below(g, u, k)[i] as int),
        forall|i: int, j: int| 0 <= i < j < row_below(g, u, k).len() ==> row_below(g, u, k)[i] < row_below(g, u, k)[j],
        forall|v: int| 0 <= v < k && g.has(u, v) ==> row_below(g, u, k).contains(v as usize),
        row_below(g, u, k).no_duplicates(),
    decreases k
{
    if k > 0 {
        lemma_row_below(g, u, k - 1);
        let p = row_below(g, u, k - 1);
        let s = row_below(g, u, k);
        assert forall|v: int| 0 <= v < k && g.has(u, v) implies s.contains(v as usize) by {
            if v < k - 1 {
                assert(p.contains(v as usize));
                let i = choose|i: int| 0 <= i < p.len() && p[i] == v as usize;
                assert(s[i] == v as usize);
            } else {
                assert(s[s.len() - 1] == v as usize);
            }
        }
    }
}

/// the vertex sequence 0, 1, .., n-1 (the items of `vertices()`)
spec fn vseq(n: nat) -> Seq<usize> { Seq::new(n, |i: int| i as usize) }

/// trigger tag: names the pair (g, u) for `lemma_filter_row`
spec fn nb_tag(g: AdjacencyMatrix, u: int) -> bool { true }

/// vstd's model of `Filter`: the items are `filter_index` of a prefix of the source; over the vertex range with a
/// predicate that decides `has(u, .)` this is `row_below`.  Broadcast because the filter iterator is the tail
/// expression of `out_neighbors` and cannot be named in a hint.
broadcast proof fn lemma_filter_row(g: AdjacencyMatrix, u: int, n: int, pred: spec_fn(int) -> bool)
    requires
        0 <= n <= g.order,
        forall|j: int| 0 <= j < n ==> pred(j) == g.has(u, j),
    ensures
        #![trigger vseq(g.order as nat).take(n).filter_index(pred), nb_tag(g, u)]
        vseq(g.order as nat).take(n).filter_index(pred) == row_below(g, u, n),
    decreases n
{
    let rem = vseq(g.order as nat);
    if n > 0 {
        lemma_filter_row(g, u, n - 1, pred);
        assert(rem.take(n).drop_last() =~= rem.take(n - 1));
        reveal_with_fuel(Seq::filter_index, 2);
    }
}

impl AdjacencyMatrix {
    /*@fn impl=AdjacencyMatrix trait=Vertices name=vertices
    ensures
        r.obeys_prophetic_iter_laws(),
        r.decrease() is Some,
        r.remaining() == vseq(self.order as nat),
    @*/

    /*@fn impl=AdjacencyMatrix trait=HasWalk name=has_walk
    requires
        self.wf(),
    ensures
        r == matrix_walk(*self, walk@),
    @closure 1 |p: (&usize, &usize)| -> (b: bool)
    ensures
        b == self.has(*p.0 as int, *p.1 as int),
    @fn_start
        broadcast use vstd::std_specs::iter::group_iter_axioms;
        proof {
            if walk@.len() > 1 {
                lemma_walk_pairs(walk@);
                let a = walk@.as_ref();
                let z = a.zip_truncate(a.skip(1));
                assert forall|i: int| 0 <= i < walk@.len() - 1 implies
                    #[trigger] self.has(walk@[i] as int, walk@[i + 1] as int) == self.has(*z[i].0 as int, *z[i].1 as int) by {}
            }
        }
    @*/

    /*@fn impl=AdjacencyMatrix trait=Outdegree name=is_sink
    requires
        self.wf(),
    ensures
        u < self.order,
        r == (forall|b: int| !self.has(u as int, b)),
    @closure 1 |v: usize| -> (b: bool)
    ensures
        b == !self.has(u as int, v as int),
    @fn_start
        proof {
            // name the elements of the vertex range so that `Iterator::all`'s contract is instantiated for every b in V
            let rem = vseq(self.order as nat);
            assert forall|b: int| 0 <= b < self.order implies (#[trigger] self.has(u as int, b)) == self.has(u as int, rem[b] as int) by {}
        }
    @*/

    /*@fn impl=AdjacencyMatrix trait=Indegree name=is_source
    requires
        self.wf(),
    ensures
        r == (forall|a: int| !self.has(a, v as int)),
    @closure 1 |u: usize| -> (b: bool)
    ensures
        b == !self.has(u as int, v as int),
    @fn_start
        proof {
            let rem = vseq(self.order as nat);
            assert forall|a: int| 0 <= a < self.order implies (#[trigger] self.has(a, v as int)) == self.has(rem[a] as int, v as int) by {}
        }
    @*/

    /*@fn impl=AdjacencyMatrix trait=IsSimple name=is_simple
    requires
        self.wf(),
    ensures
        r == (forall|a: int| !self.has(a, a)),
        /*props=C12*/ r,
    @closure 1 |u: usize| -> (b: bool)
    ensures
        b == !self.has(u as int, u as int),
    @*/

    /*@fn impl=AdjacencyMatrix trait=OutNeighbors name=out_neighbors
    requires
        self.wf(),
    ensures
        u < self.order,
        r.obeys_prophetic_iter_laws(),
        r.decrease() is Some,
        exists|k: int| 0 <= k <= self.order && r.remaining() == #[trigger] row_below(*self, u as int, k),
        r.will_return_none() ==> r.remaining() == row_below(*self, u as int, self.order as int),
    @closure 1 |v__r: &usize| -> (b: bool)
    ensures
        b == self.has(u as int, *v__r as int),
    @fn_start
        broadcast use vstd::std_specs::iter::group_iter_axioms;
        broadcast use lemma_filter_row;
        proof { assert(nb_tag(*self, u as int)); }
    @*/
}
