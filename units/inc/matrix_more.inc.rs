//@file src/repr/adjacency_matrix/mod.rs
// ---- AdjacencyMatrix: the degree sequences (C02), is_regular (C12), is_complete (C12).  Everything is stated over
// (V, A) = (0..order, has) and the degrees `indeg` / `outdeg` DEFINED from it in units/inc/matrix_degrees.inc.rs. ----

/// the degree of u defined from (V, A)
spec fn mat_deg(g: AdjacencyMatrix, u: int) -> nat { g.indeg(u) + g.outdeg(u) }

/// a vertex has at most order in- and order out-neighbours, and 2 * order fits in usize because order^2 does (wf)
proof fn lemma_mat_deg_fits(g: AdjacencyMatrix, u: int)
    requires g.wf(),
    ensures g.indeg(u) <= g.order, g.outdeg(u) <= g.order, mat_deg(g, u) <= usize::MAX,
{
    lemma_col_count(g, u, g.order as int);
    lemma_row_count(g, u, g.order as int);
    let n = g.order as int;
    assert(2 * n <= usize::MAX) by (nonlinear_arith) requires n * n <= usize::MAX, n > 0;
}

impl AdjacencyMatrix {
    // `degree` is the blanket impl `impl<D: Indegree + Outdegree> Degree for D` of src/op/degree.rs, here at D = AdjacencyMatrix.
    // Its usize sum cannot overflow on a well-formed matrix (lemma_mat_deg_fits), so no precondition beyond wf is needed.
    /*@fn impl=D trait=Degree name=degree file=src/op/degree.rs props=C02,C13
    requires
        self.wf(),
    ensures
        u < self.order,
        r == mat_deg(*self, u as int),
    @fn_start
        proof { lemma_mat_deg_fits(*self, u as int); }
    @*/

    // `vertices().map(..)` is lazy: in vstd's prophetic model the item sequence of the Map adapter is the sequence of items
    // that will be pulled; it is complete (length = order) once the iterator has been driven until it returns None.
    /*@fn impl=AdjacencyMatrix trait=DegreeSequence name=degree_sequence props=C02,C13
    requires
        self.wf(),
    ensures
        r.obeys_prophetic_iter_laws(),
        r.decrease() is Some,
        r.remaining().len() <= self.order,
        forall|k: int| 0 <= k < r.remaining().len() ==> #[trigger] r.remaining()[k] == mat_deg(*self, k),
        r.will_return_none() ==> r.remaining().len() == self.order,
    @closure 1 |v: usize| -> (d: usize)
    ensures
        d == mat_deg(*self, v as int),
    @fn_start
        broadcast use vstd::std_specs::iter::group_iter_axioms;
    @*/

    /*@fn impl=AdjacencyMatrix trait=IndegreeSequence name=indegree_sequence props=C02,C13
    requires
        self.wf(),
    ensures
        r.obeys_prophetic_iter_laws(),
        r.decrease() is Some,
        r.remaining().len() <= self.order,
        forall|k: int| 0 <= k < r.remaining().len() ==> #[trigger] r.remaining()[k] == self.indeg(k),
        r.will_return_none() ==> r.remaining().len() == self.order,
    @closure 1 |v: usize| -> (d: usize)
    ensures
        d == self.indeg(v as int),
    @fn_start
        broadcast use vstd::std_specs::iter::group_iter_axioms;
    @*/

    // the blanket impl `impl<D: Indegree + Outdegree + Vertices> SemidegreeSequence for D`, here at D = AdjacencyMatrix
    /*@fn impl=D trait=SemidegreeSequence name=semidegree_sequence file=src/op/semidegree_sequence.rs props=C02,C13
    requires
        self.wf(),
    ensures
        r.obeys_prophetic_iter_laws(),
        r.decrease() is Some,
        r.remaining().len() <= self.order,
        forall|k: int| 0 <= k < r.remaining().len() ==> (#[trigger] r.remaining()[k]).0 == self.indeg(k) && r.remaining()[k].1 == self.outdeg(k),
        r.will_return_none() ==> r.remaining().len() == self.order,
    @closure 1 |u: usize| -> (d: (usize, usize))
    ensures
        d.0 == self.indeg(u as int) && d.1 == self.outdeg(u as int),
    @fn_start
        broadcast use vstd::std_specs::iter::group_iter_axioms;
    @*/
}

// ---- C12: is_regular is true iff all indegrees and outdegrees equal one constant ----

/// every vertex has indegree c and outdegree c
spec fn mat_regular_with(g: AdjacencyMatrix, c: nat) -> bool {
    forall|u: int| 0 <= u < g.order ==> #[trigger] g.indeg(u) == c && g.outdeg(u) == c
}

/// C12: all indegrees and outdegrees equal one constant
spec fn mat_regular(g: AdjacencyMatrix) -> bool { exists|c: nat| mat_regular_with(g, c) }

/// the only candidate for the constant is the indegree of vertex 0
proof fn lemma_mat_regular(g: AdjacencyMatrix)
    requires g.order > 0,
    ensures mat_regular(g) == mat_regular_with(g, g.indeg(0)),
{
    if mat_regular(g) {
        let c = choose|c: nat| mat_regular_with(g, c);
        assert(g.indeg(0) == c);
    }
}

impl AdjacencyMatrix {
    /*@fn impl=AdjacencyMatrix trait=IsRegular name=is_regular wrap=all props=C12,C13
    requires
        self.wf(),
    ensures
        r == mat_regular(*self),
    @closure 1 |p: (usize, usize)| -> (b: bool)
    ensures
        b == (p.0 == u && p.1 == v),
    @fn_start
        proof { lemma_mat_regular(*self); }
    @after `let mut semidegrees`
        let ghost s0 = semidegrees.remaining();
    @fn_end
        proof {
            // s0: the semidegrees in vertex order (a prefix; all of them if the iterator is driven to None); s1: those after the first
            let s1 = semidegrees.remaining();
            assert(s0.len() > 0 && s0[0] == (u, v) && s1 == s0.drop_first());
            assert forall|i: int| 0 <= i < s1.len() implies #[trigger] s1[i] == s0[i + 1] by {}
            assert forall|w: int| 1 <= w < s0.len() implies #[trigger] s0[w] == s1[w - 1] by {}
            assert forall|w: int| 0 <= w < s0.len() implies (#[trigger] s0[w]).0 == self.indeg(w) && s0[w].1 == self.outdeg(w) by {}
            assert forall|w: int| 0 <= w < s0.len() implies #[trigger] self.indeg(w) == s0[w].0 && self.outdeg(w) == s0[w].1 by {}
        }
    @*/
}

impl AdjacencyMatrix {
    /*@fn impl=AdjacencyMatrix trait=Arcs name=arcs props=C01,C13
    requires
        self.wf(),
    @*/
}
