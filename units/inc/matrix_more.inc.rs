//@file src/repr/adjacency_matrix/mod.rs
// ---- AdjacencyMatrix: the degree sequences (C02), is_regular (C12), is_complete (C12).  Everything is stated over
// (V, A) = (0..order, has) and the degrees `indeg` / `outdeg` DEFINED from it in units/inc/matrix_degrees.inc.rs. ----

/// the degree of u defined from (V, A)
spec fn mat_deg(g: AdjacencyMatrix, u: int) -> nat { g.indeg(u) + g.outdeg(u) }

/// a vertex has at most order in- and order out-neighbours, and 2 * order fits in usize because order^2 does (wf)
proof fn lemma_mat_deg_fits(g: AdjacencyMatrix, u: int)
    requires g.wf(),
    ensures g.indeg(u) <= g.order, g.outdeg(u) <= g.order, mat_deg(g, u) <= usize::MAX,
{
    lemma_col_count(g, u, g.order as int);
    lemma_row_count(g, u, g.order as int);
    let n = g.order as int;
    assert(2 * n <= usize::MAX) by (nonlinear_arith) requires n * n <= usize::MAX, n > 0;
}

impl AdjacencyMatrix {
    // `degree` is the blanket impl `impl<D: Indegree + Outdegree> Degree for D` of src/op/degree.rs, here at D = AdjacencyMatrix.
    // Its usize sum cannot overflow on a well-formed matrix (lemma_mat_deg_fits), so no precondition beyond wf is needed.
    /*@fn impl=D trait=Degree name=degree file=src/op/degree.rs props=C02,C13
    requires
        self.wf(),
    ensures
        u < self.order,
        r == mat_deg(*self, u as int),
    @fn_start
        proof { lemma_mat_deg_fits(*self, u as int); }
    @*/

    // `vertices().map(..)` is lazy: in vstd's prophetic model the item sequence of the Map adapter is the sequence of items
    // that will be pulled; it is complete (length = order) once the iterator has been driven until it returns None.
    /*@fn impl=AdjacencyMatrix trait=DegreeSequence name=degree_sequence props=C02,C13
    requires
        self.wf(),
    ensures
        r.obeys_prophetic_iter_laws(),
        r.decrease() is Some,
        r.remaining().len() <= self.order,
        forall|k: int| 0 <= k < r.remaining().len() ==> #[trigger] r.remaining()[k] == mat_deg(*self, k),
        r.will_return_none() ==> r.remaining().len() == self.order,
    @closure 1 |v: usize| -> (d: usize)
    ensures
        d == mat_deg(*self, v as int),
    @fn_start
        broadcast use vstd::std_specs::iter::group_iter_axioms;
    @*/

    /*@fn impl=AdjacencyMatrix trait=IndegreeSequence name=indegree_sequence props=C02,C13
    requires
        self.wf(),
    ensures
        r.obeys_prophetic_iter_laws(),
        r.decrease() is Some,
        r.remaining().len() <= self.order,
        forall|k: int| 0 <= k < r.remaining().len() ==> #[trigger] r.remaining()[k] == self.indeg(k),
        r.will_return_none() ==> r.remaining().len() == self.order,
    @closure 1 |v: usize| -> (d: usize)
    ensures
        d == self.indeg(v as int),
    @fn_start
        broadcast use vstd::std_specs::iter::group_iter_axioms;
    @*/

    // the blanket impl `impl<D: Indegree + Outdegree + Vertices> SemidegreeSequence for D`, here at D = AdjacencyMatrix
    /*@fn impl=D trait=SemidegreeSequence name=semidegree_sequence file=src/op/semidegree_sequence.rs props=C02,C13
    requires
        self.wf(),
    ensures
        r.obeys_prophetic_iter_laws(),
        r.decrease() is Some,
        r.remaining().len() <= self.order,
        forall|k: int| 0 <= k < r.remaining().len() ==> (#[trigger] r.remaining()[k]).0 == self.indeg(k) && r.remaining()[k].1 == self.outdeg(k),
        r.will_return_none() ==> r.remaining().len() == self.order,
    @closure 1 |u: usize| -> (d: (usize, usize))
    ensures
        d.0 == self.indeg(u as int) && d.1 == self.outdeg(u as int),
    @fn_start
        broadcast use vstd::std_specs::iter::group_iter_axioms;
    @*/
}

// ---- C12: is_regular is true iff all indegrees and outdegrees equal one constant ----

/// every vertex has indegree c and outdegree c
spec fn mat_regular_with(g: AdjacencyMatrix, c: nat) -> bool {
    forall|u: int| 0 <= u < g.order ==> #[trigger] g.indeg(u) == c && g.outdeg(u) == c
}

/// C12: all indegrees and outdegrees equal one constant
spec fn mat_regular(g: AdjacencyMatrix) -> bool { exists|c: nat| mat_regular_with(g, c) }

/// the only candidate for the constant is the indegree of vertex 0
proof fn lemma_mat_regular(g: AdjacencyMatrix)
    requires g.order > 0,
    ensures mat_regular(g) == mat_regular_with(g, g.indeg(0)),
{
    if mat_regular(g) {
        let c = choose|c: nat| mat_regular_with(g, c);
        assert(g.indeg(0) == c);
    }
}

impl AdjacencyMatrix {
    /*@fn impl=AdjacencyMatrix trait=IsRegular name=is_regular wrap=all props=C12,C13
    requires
        self.wf(),
    ensures
        r == mat_regular(*self),
    @closure 1 |p: (usize, usize)| -> (b: bool)
    ensures
        b == (p.0 == u && p.1 == v),
    @fn_start
        proof { lemma_mat_regular(*self); }
    @after `let mut semidegrees`
        let ghost s0 = semidegrees.remaining();
    @after `let (u, v)`
        proof {
            // s0: the semidegrees in vertex order (a prefix; all of them if the iterator is driven to None); s1: those after the first
            let s1 = semidegrees.remaining();
            assert(s0.len() > 0 && s0[0] == (u, v) && s1 == s0.drop_first());
            assert forall|i: int| 0 <= i < s1.len() implies #[trigger] s1[i] == s0[i + 1] by {}
            assert forall|w: int| 1 <= w < s0.len() implies #[trigger] s0[w] == s1[w - 1] by {}
            assert forall|w: int| 0 <= w < s0.len() implies (#[trigger] s0[w]).0 == self.indeg(w) && s0[w].1 == self.outdeg(w) by {}
            assert forall|w: int| 0 <= w < s0.len() implies #[trigger] self.indeg(w) == s0[w].0 && self.outdeg(w) == s0[w].1 by {}
        }
    @*/
}

// ---- C12: is_complete is true iff every ordered pair of distinct vertices is an arc ----
// `is_complete` compares `*self` with `Self::complete(self.order())` through the DERIVED `PartialEq` of
// `struct AdjacencyMatrix { blocks: Vec<usize>, order: usize }`.  The extractor drops derives, so the derived impl is stated
// here as an assumed contract (as the derived `Clone` in units/inc/matrix_ops.inc.rs):
// A: `#[derive(PartialEq)]` is fieldwise.  rustdoc of the PartialEq derive: "When derived on structs, two instances are equal
// if all fields are equal, and not equal if any fields are not equal."  The fields are compared with their own `==`
// (`Vec<usize>`: vstd's contract of `Vec::eq`, elementwise; `usize`).
impl vstd::std_specs::cmp::PartialEqSpecImpl for AdjacencyMatrix {
    closed spec fn obeys_eq_spec() -> bool { true }
    closed spec fn eq_spec(&self, other: &Self) -> bool {
        &&& vstd::std_specs::cmp::PartialEqSpec::eq_spec(&self.blocks, &other.blocks)
        &&& vstd::std_specs::cmp::PartialEqSpec::eq_spec(&self.order, &other.order)
    }
}
impl PartialEq for AdjacencyMatrix {
    #[verifier::external_body]
    fn eq(&self, other: &Self) -> bool { self.blocks == other.blocks && self.order == other.order }
}

/// the assumed meaning of the derived `==` in terms of the fields' values
proof fn lemma_matrix_eq_spec(a: AdjacencyMatrix, b: AdjacencyMatrix)
    ensures vstd::std_specs::cmp::PartialEqSpec::eq_spec(&a, &b) == (a.blocks@ == b.blocks@ && a.order == b.order),
{
    if vstd::std_specs::cmp::PartialEqSpec::eq_spec(&a, &b) { assert(a.blocks@ =~= b.blocks@); }
}

/// two words with the same 64 bits are equal
proof fn lemma_bits_ext(x: usize, y: usize)
    requires forall|k: usize| k < 64 ==> #[trigger] bit_of(x, k) == bit_of(y, k),
    ensures x == y,
{
    assert((forall|k: usize| k < 64 ==> #[trigger] bit_of(x, k) == bit_of(y, k)) ==> x == y) by (bit_vector);
}

/// every cell inside the matrix is the arc bit of its (row, column) pair
proof fn lemma_cell_is_has(g: AdjacencyMatrix, i: int)
    requires g.wf(), 0 <= i < g.ncells(),
    ensures g.cell(i) == g.has(i / (g.order as int), i % (g.order as int)), 0 <= i / (g.order as int) < g.order, 0 <= i % (g.order as int) < g.order,
{
    let n = g.order as int;
    vstd::arithmetic::div_mod::lemma_fundamental_div_mod(i, n);
    assert(n * (i / n) == (i / n) * n) by (nonlinear_arith);
    assert(0 <= i / n < n) by (nonlinear_arith) requires (i / n) * n + i % n == i, 0 <= i < n * n, 0 <= i % n < n, n > 0;
}

/// the representation is canonical: two well-formed matrices of the same order with the same arc relation have the same words
/// (cells at and above order^2 are clear in both)
proof fn lemma_matrix_ext(g: AdjacencyMatrix, h: AdjacencyMatrix)
    requires
        g.wf(), h.wf(), g.order == h.order,
        forall|a: int, b: int| #![trigger g.has(a, b)] g.has(a, b) == h.has(a, b),
    ensures
        g.blocks@ == h.blocks@,
{
    assert forall|i: int| #[trigger] g.cell(i) == h.cell(i) by {
        if 0 <= i < g.ncells() {
            lemma_cell_is_has(g, i);
            lemma_cell_is_has(h, i);
        }
    }
    assert forall|k: int| 0 <= k < g.blocks@.len() implies g.blocks@[k] == h.blocks@[k] by {
        assert forall|j: usize| j < 64 implies #[trigger] bit_of(g.blocks@[k], j) == bit_of(h.blocks@[k], j) by {
            let i = 64 * k + j;
            assert(i / 64 == k && i % 64 == j);
            assert(g.cell(i) == h.cell(i));
        }
        lemma_bits_ext(g.blocks@[k], h.blocks@[k]);
    }
    assert(g.blocks@ =~= h.blocks@);
}

impl AdjacencyMatrix {
    /*@fn impl=AdjacencyMatrix trait=IsComplete name=is_complete props=C12,C13
    requires
        self.wf(),
    ensures
        r == (forall|a: int, b: int| 0 <= a < self.order && 0 <= b < self.order && a != b ==> self.has(a, b)),
    @fn_start
        proof {
            // for every candidate value c of `Self::complete(self.order())`
            assert forall|c: AdjacencyMatrix| c.wf() && c.order == self.order
                && (forall|a: int, b: int| #![trigger c.has(a, b)] c.has(a, b) == complete_arc(self.order as int, a, b))
                implies #[trigger] vstd::std_specs::cmp::PartialEqSpec::eq_spec(self, &c)
                    == (forall|a: int, b: int| 0 <= a < self.order && 0 <= b < self.order && a != b ==> self.has(a, b)) by {
                lemma_matrix_eq_spec(*self, c);
                if forall|a: int, b: int| 0 <= a < self.order && 0 <= b < self.order && a != b ==> self.has(a, b) {
                    assert forall|a: int, b: int| #![trigger self.has(a, b)] self.has(a, b) == c.has(a, b) by {
                        if a == b && 0 <= a < self.order { assert(!self.cell(a * self.order + a)); }
                    }
                    lemma_matrix_ext(*self, c);
                }
                if self.blocks@ == c.blocks@ {
                    assert forall|a: int, b: int| 0 <= a < self.order && 0 <= b < self.order && a != b implies self.has(a, b) by {
                        assert(c.has(a, b));
                    }
                }
            }
            // the derived `==` is symmetric: the comparison may be written either way round
            assert forall|c: AdjacencyMatrix| #[trigger] vstd::std_specs::cmp::PartialEqSpec::eq_spec(&c, self)
                == vstd::std_specs::cmp::PartialEqSpec::eq_spec(self, &c) by {
                lemma_matrix_eq_spec(*self, c);
                lemma_matrix_eq_spec(c, *self);
            }
        }
    @*/
}
