//@file src/repr/adjacency_list_weighted/mod.rs
// ---- C02: read-only queries of AdjacencyListWeighted that are defined by the blanket impls of src/op
// (`impl<D> Trait for D`), instantiated at D = AdjacencyListWeighted<W> ----
// Under contract here: is_isolated, sinks, sources.  (order, has_arc, has_edge, arc_weight, has_walk, is_source, outdegree,
// is_sink, out_neighbors_weighted, vertices: weighted_core.)
// Not under contract (bodies need iterator methods vstd cannot specify): out_neighbors (`keys().copied()`), is_simple
// (`enumerate`), indegree (`count`), in_neighbors (`enumerate` + `filter_map`), size (`map(..).sum()`), arcs / arcs_weighted
// (`enumerate` + `flat_map`), converse (`enumerate` + `fold`), is_complete / is_semicomplete / is_tournament (call `size`),
// is_regular and the degree sequences (`indegree`), degree / is_pendant / max_* / min_* (`indegree`, `max`, `min`).

/// C02: u is a sink (no arc leaves it) / a source (no arc enters it)
spec fn weighted_sink<W>(g: AdjacencyListWeighted<W>, u: int) -> bool { forall|b: int| !g.has(u, b) }
spec fn weighted_source<W>(g: AdjacencyListWeighted<W>, v: int) -> bool { forall|a: int| !g.has(a, v) }
/// `out` selects the sink predicate, `!out` the source predicate
spec fn weighted_end<W>(g: AdjacencyListWeighted<W>, out: bool, x: int) -> bool {
    if out { weighted_sink(g, x) } else { weighted_source(g, x) }
}

/// the sinks (out) / sources (!out) among the vertices below k, ascending: the defining value of `sinks` / `sources` (k = order)
spec fn wends_below<W>(g: AdjacencyListWeighted<W>, out: bool, k: int) -> Seq<usize>
    decreases k
{
    if k <= 0 { Seq::empty() }
    else if weighted_end(g, out, k - 1) { wends_below(g, out, k - 1).push((k - 1) as usize) }
    else { wends_below(g, out, k - 1) }
}

/// `wends_below` is exactly the sinks / sources below k, strictly ascending (hence no repeats)
proof fn lemma_wends_below<W>(g: AdjacencyListWeighted<W>, out: bool, k: int)
    requires 0 <= k <= usize::MAX + 1,
    ensures
        forall|i: int| 0 <= i < wends_below(g, out, k).len() ==> (#[trigger] wends_below(g, out, k)[i]) < k && weighted_end(g, out, wends_below(g, out, k)[i] as int),
        forall|i: int, j: int| 0 <= i < j < wends_below(g, out, k).len() ==> wends_below(g, out, k)[i] < wends_below(g, out, k)[j],
        forall|v: int| 0 <= v < k && weighted_end(g, out, v) ==> wends_below(g, out, k).contains(v as usize),
        wends_below(g, out, k).no_duplicates(),
    decreases k
{
    if k > 0 {
        lemma_wends_below(g, out, k - 1);
        let p = wends_below(g, out, k - 1);
        let s = wends_below(g, out, k);
        assert forall|v: int| 0 <= v < k && weighted_end(g, out, v) implies s.contains(v as usize) by {
            if v < k - 1 {
                assert(p.contains(v as usize));
                let i = choose|i: int| 0 <= i < p.len() && p[i] == v as usize;
                assert(s[i] == v as usize);
            } else {
                assert(s[s.len() - 1] == v as usize);
            }
        }
    }
}

/// the vertex sequence 0, 1, .., n-1 (the items of `vertices()`, as stated by its contract in weighted_core)
spec fn wvseq(n: nat) -> Seq<usize> { Seq::new(n, |i: int| i as usize) }

/// trigger tag: names the pair (g, out) for `lemma_filter_wends`
spec fn wend_tag<W>(g: AdjacencyListWeighted<W>, out: bool) -> bool { true }

/// vstd's model of `Filter`: the items are `filter_index` of a prefix of the source; over the vertex range with a
/// predicate that decides `weighted_end(g, out, .)` this is `wends_below`.  Broadcast because the filter iterator is the tail
/// expression of `sinks` / `sources` and cannot be named in a hint.
broadcast proof fn lemma_filter_wends<W>(g: AdjacencyListWeighted<W>, out: bool, n: int, pred: spec_fn(int) -> bool)
    requires
        0 <= n <= g.ord(),
        forall|j: int| 0 <= j < n ==> pred(j) == weighted_end(g, out, j),
    ensures
        #![trigger wvseq(g.ord() as nat).take(n).filter_index(pred), wend_tag(g, out)]
        wvseq(g.ord() as nat).take(n).filter_index(pred) == wends_below(g, out, n),
    decreases n
{
    let rem = wvseq(g.ord() as nat);
    if n > 0 {
        lemma_filter_wends(g, out, n - 1, pred);
        assert(rem.take(n).drop_last() =~= rem.take(n - 1));
        reveal_with_fuel(Seq::filter_index, 2);
    }
}

impl<W> AdjacencyListWeighted<W> {
    // `u` outside V: `is_sink` indexes `self.arcs[u]` (documented panic of Outdegree), stated as a precondition as in weighted_core
    /*@fn impl=D trait=IsIsolated name=is_isolated file=src/op/is_isolated.rs
    requires
        u < self.ord(),
    ensures
        r == (weighted_sink(*self, u as int) && weighted_source(*self, u as int)),
    @*/
}

/// `sinks` / `sources` at the instances W = isize and W = usize: with a generic W, Verus cannot discharge the trait bounds of
/// vstd's `Filter` adapter axioms (`filter_postcondition`) for the closure type (same limitation as `out_neighbors_weighted`
/// in weighted_core), so the generic blanket impl is verified at the two weight types the crate converts into.
impl AdjacencyListWeighted<isize> {
    /*@fn impl=D trait=Sinks name=sinks file=src/op/sinks.rs
    ensures
        r.obeys_prophetic_iter_laws(),
        r.decrease() is Some,
        exists|k: int| 0 <= k <= self.ord() && r.remaining() == #[trigger] wends_below(*self, true, k),
        r.will_return_none() ==> r.remaining() == wends_below(*self, true, self.ord()),
    @closure 1 |x: &usize| -> (b: bool)
    requires
        *x < self.ord(),
    ensures
        b == weighted_sink(*self, *x as int),
    @fn_start
        broadcast use vstd::std_specs::iter::group_iter_axioms;
        broadcast use lemma_filter_wends;
        proof { assert(wend_tag(*self, true)); assert(self.arcs@.len() == self.arcs.len()); assert(wvseq(self.ord() as nat) == Seq::new(self.ord() as nat, |i: int| i as usize)); }
    @*/

    /*@fn impl=D trait=Sources name=sources file=src/op/sources.rs
    ensures
        r.obeys_prophetic_iter_laws(),
        r.decrease() is Some,
        exists|k: int| 0 <= k <= self.ord() && r.remaining() == #[trigger] wends_below(*self, false, k),
        r.will_return_none() ==> r.remaining() == wends_below(*self, false, self.ord()),
    @closure 1 |x: &usize| -> (b: bool)
    ensures
        b == weighted_source(*self, *x as int),
    @fn_start
        broadcast use vstd::std_specs::iter::group_iter_axioms;
        broadcast use lemma_filter_wends;
        proof { assert(wend_tag(*self, false)); assert(self.arcs@.len() == self.arcs.len()); assert(wvseq(self.ord() as nat) == Seq::new(self.ord() as nat, |i: int| i as usize)); }
    @*/
}

impl AdjacencyListWeighted<usize> {
    /*@fn impl=D trait=Sinks name=sinks rename=sinks_usize file=src/op/sinks.rs
    ensures
        r.obeys_prophetic_iter_laws(),
        r.decrease() is Some,
        exists|k: int| 0 <= k <= self.ord() && r.remaining() == #[trigger] wends_below(*self, true, k),
        r.will_return_none() ==> r.remaining() == wends_below(*self, true, self.ord()),
    @closure 1 |x: &usize| -> (b: bool)
    requires
        *x < self.ord(),
    ensures
        b == weighted_sink(*self, *x as int),
    @fn_start
        broadcast use vstd::std_specs::iter::group_iter_axioms;
        broadcast use lemma_filter_wends;
        proof { assert(wend_tag(*self, true)); assert(self.arcs@.len() == self.arcs.len()); assert(wvseq(self.ord() as nat) == Seq::new(self.ord() as nat, |i: int| i as usize)); }
    @*/

    /*@fn impl=D trait=Sources name=sources rename=sources_usize file=src/op/sources.rs
    ensures
        r.obeys_prophetic_iter_laws(),
        r.decrease() is Some,
        exists|k: int| 0 <= k <= self.ord() && r.remaining() == #[trigger] wends_below(*self, false, k),
        r.will_return_none() ==> r.remaining() == wends_below(*self, false, self.ord()),
    @closure 1 |x: &usize| -> (b: bool)
    ensures
        b == weighted_source(*self, *x as int),
    @fn_start
        broadcast use vstd::std_specs::iter::group_iter_axioms;
        broadcast use lemma_filter_wends;
        proof { assert(wend_tag(*self, false)); assert(self.arcs@.len() == self.arcs.len()); assert(wvseq(self.ord() as nat) == Seq::new(self.ord() as nat, |i: int| i as usize)); }
    @*/
}
