//@file src/repr/adjacency_list/mod.rs
// ---- C02: the degrees DEFINED from (V, A) = (0..ord, has) as set cardinalities (same definition as
// units/inc/matrix_degrees.inc.rs and `Dgo::indeg` / `Dgo::outdeg` in prelude/dg_ops.rs) ----

/// the in-neighbours of v / out-neighbours of u among the vertices below n, as sets of vertices
spec fn list_in_set(g: AdjacencyList, v: int, n: int) -> Set<int> { Set::range(0, n).filter(|a: int| g.has(a, v)) }
spec fn list_out_set(g: AdjacencyList, u: int, n: int) -> Set<int> { Set::range(0, n).filter(|b: int| g.has(u, b)) }

impl AdjacencyList {
    /// indegree / outdegree defined from (V, A): the number of vertices a with (a, v) in A / b with (u, b) in A
    spec fn in_deg(&self, v: int) -> nat { list_in_set(*self, v, self.ord()).len() }
    spec fn out_deg(&self, u: int) -> nat { list_out_set(*self, u, self.ord()).len() }
}

/// faithfulness of the neighbour sets: exactly the in- / out-neighbours (arcs of a well-formed list end in V)
proof fn lemma_list_deg_sets(g: AdjacencyList, x: int)
    requires g.wf(),
    ensures
        forall|a: int| #[trigger] list_in_set(g, x, g.ord()).contains(a) == g.has(a, x),
        forall|b: int| #[trigger] list_out_set(g, x, g.ord()).contains(b) == g.has(x, b),
        g.in_deg(x) <= g.ord(),
        g.out_deg(x) <= g.ord(),
{
    range_set_properties::<int>(0, g.ord());
    lemma_list_wf_has(g);
    lemma_len_subset(list_in_set(g, x, g.ord()), Set::<int>::range(0, g.ord()));
    lemma_len_subset(list_out_set(g, x, g.ord()), Set::<int>::range(0, g.ord()));
}

/// the row of u (a set of usize ids) has as many elements as u has out-neighbours in V
proof fn lemma_list_row_len(g: AdjacencyList, u: int)
    requires g.wf(), 0 <= u < g.ord(),
    ensures g.row(u).len() == g.out_deg(u), g.row(u).finite(),
{
    let row = g.row(u);
    let f = |x: usize| x as int;
    lemma_list_deg_sets(g, u);
    assert(row.injective_on(f)) by {
        assert forall|x1: usize, x2: usize| row.contains(x1) && row.contains(x2) && f(x1) == f(x2) implies x1 == x2 by {}
    }
    let img = row.map(f);
    let out = list_out_set(g, u, g.ord());
    assert forall|b: int| img.contains(b) == out.contains(b) by {
        row.lemma_map_contains(f, b);
        if out.contains(b) { assert(row.contains(b as usize) && f(b as usize) == b); }
    }
    assert(img =~= out);
    vstd::set_lib::lemma_map_size(row, img, f);
}

// ---- indegree: `self.arcs.iter().filter(|set| set.contains(&v)).count()` ----

/// trigger tag: names the pair (g, v) for `lemma_filter_rows`
spec fn in_tag(g: AdjacencyList, v: int) -> bool { true }

/// the in-neighbour sets grow one vertex at a time
proof fn lemma_list_in_set_step(g: AdjacencyList, v: int, n: int)
    requires 0 < n,
    ensures
        list_in_set(g, v, n).finite(),
        list_in_set(g, v, n).len() == list_in_set(g, v, n - 1).len() + if g.has(n - 1, v) { 1int } else { 0int },
        list_in_set(g, v, 0).len() == 0,
{
    range_set_properties::<int>(0, n);
    range_set_properties::<int>(0, n - 1);
    range_set_properties::<int>(0, 0);
    let p = list_in_set(g, v, n - 1);
    if g.has(n - 1, v) { assert(list_in_set(g, v, n) =~= p.insert(n - 1)); } else { assert(list_in_set(g, v, n) =~= p); }
    assert(list_in_set(g, v, 0) =~= Set::<int>::empty());
}

/// vstd's model of `Filter`: the items are `filter_index` of a prefix of the source; over the rows of the list with a
/// predicate that decides `has(., v)` there are as many of them as v has in-neighbours below n.  Broadcast because the
/// filter iterator is consumed in the tail expression and cannot be named in a hint.
broadcast proof fn lemma_filter_rows(g: AdjacencyList, v: int, n: int, pred: spec_fn(int) -> bool)
    requires
        0 <= n <= g.ord(),
        forall|j: int| 0 <= j < n ==> pred(j) == g.has(j, v),
    ensures
        #![trigger g.arcs@.as_ref().take(n).filter_index(pred), in_tag(g, v)]
        g.arcs@.as_ref().take(n).filter_index(pred).len() == list_in_set(g, v, n).len(),
    decreases n
{
    let rem = g.arcs@.as_ref();
    if n > 0 {
        lemma_filter_rows(g, v, n - 1, pred);
        lemma_list_in_set_step(g, v, n);
        assert(rem.take(n).drop_last() =~= rem.take(n - 1));
        reveal_with_fuel(Seq::filter_index, 2);
    } else {
        range_set_properties::<int>(0, 0);
        assert(list_in_set(g, v, 0) =~= Set::<int>::empty());
        reveal_with_fuel(Seq::filter_index, 2);
    }
}

impl AdjacencyList {
    /*@fn impl=AdjacencyList trait=Indegree name=indegree wrap=count props=C02,C13
    ensures
        v < self.ord(),
        r == self.in_deg(v as int),
    @closure 1 |set: &&BTreeSet<usize>| -> (b: bool)
    ensures
        b == set@.contains(v),
    @fn_start
        broadcast use vstd::std_specs::iter::group_iter_axioms;
        broadcast use lemma_filter_rows;
        proof {
            assert(in_tag(*self, v as int));
            let rem = self.arcs@.as_ref();
            assert forall|a: int| 0 <= a < self.arcs@.len() implies (#[trigger] rem[a])@.contains(v) == self.has(a, v as int) by {}
            range_set_properties::<int>(0, self.ord());
            lemma_len_subset(list_in_set(*self, v as int, self.ord()), Set::<int>::range(0, self.ord()));
        }
    @*/
}

// ---- out_neighbors: `self.arcs.get_unchecked(u).iter().copied()` ----

/// C02: s lists exactly the out-neighbours of u, in strictly ascending order (hence without repeats)
spec fn lists_row(g: AdjacencyList, u: int, s: Seq<usize>) -> bool {
    &&& forall|i: int, j: int| 0 <= i < j < s.len() ==> s[i] < s[j]
    &&& s.no_duplicates()
    &&& forall|b: int| #![trigger g.has(u, b)] g.has(u, b) == (0 <= b <= usize::MAX && s.contains(b as usize))
}

/// the item sequence of `BTreeSet::iter` (vstd: the set's elements, `increasing_seq`), copied: strictly ascending, exactly the row
proof fn lemma_row_listing(g: AdjacencyList, u: int, rem: Seq<&usize>)
    requires
        0 <= u < g.ord(),
        rem.unref().to_set() == g.row(u),
        vstd::std_specs::btree::increasing_seq(rem),
    ensures
        lists_row(g, u, rem.unref()),
{
    broadcast use vstd::laws_cmp::group_laws_cmp;
    assert(vstd::laws_cmp::obeys_cmp::<&usize>());
    vstd::std_specs::btree::axiom_increasing_seq_meaning(rem);
    let s = rem.unref();
    assert forall|i: int, j: int| 0 <= i < j < s.len() implies s[i] < s[j] by {
        assert(<&usize as vstd::std_specs::cmp::OrdSpec>::cmp_spec(&rem[i], &rem[j]) is Less);
        assert(s[i] == *rem[i] && s[j] == *rem[j]);
    }
    assert forall|b: int| #![trigger g.has(u, b)] g.has(u, b) == (0 <= b <= usize::MAX && s.contains(b as usize)) by {
        if 0 <= b <= usize::MAX {
            assert(s.to_set().contains(b as usize) == s.contains(b as usize));
        }
    }
}

impl AdjacencyList {
    /*@fn impl=AdjacencyList trait=OutNeighbors name=out_neighbors wrap=copied props=C02,C13
    ensures
        u < self.ord(),
        r.obeys_prophetic_iter_laws(),
        r.decrease() is Some,
        lists_row(*self, u as int, r.remaining()),
    @fn_start
        proof {
            broadcast use vstd::laws_cmp::group_laws_cmp;
            assert(vstd::laws_cmp::obeys_cmp::<usize>());
            // the row iterator is consumed in the tail expression: state the meaning of its item sequence for every candidate
            if u < self.ord() {
                assert forall|rem: Seq<&usize>| rem.unref().to_set() == self.row(u as int) && #[trigger] vstd::std_specs::btree::increasing_seq(rem)
                    implies lists_row(*self, u as int, rem.unref()) by { lemma_row_listing(*self, u as int, rem); }
            }
        }
    @*/
}

// ---- size: `self.arcs.iter().map(BTreeSet::len).sum()` ----


// (size: proved in units/inc/list_ops.inc.rs, which this unit imports)

// ---- is_simple: `self.arcs.iter().enumerate().all(|(u, set)| !set.contains(&u))` ----

/// the item sequence of `X.enumerate()` as a function of the item sequence of X
spec fn enum_seq<T>(s: Seq<T>) -> Seq<(usize, T)> { Seq::new(s.len(), |i: int| (i as usize, s[i])) }

impl AdjacencyList {
    /*@fn impl=AdjacencyList trait=IsSimple name=is_simple wrap=enumerate props=C02,C12,C13
    ensures
        r == (forall|a: int| !self.has(a, a)),
        self.wf() ==> r,
    @closure 1 |p: (usize, &BTreeSet<usize>)| -> (b: bool)
    ensures
        b == !p.1@.contains(p.0),
    @fn_start
        proof {
            let rem = self.arcs@.as_ref();
            assert(self.arcs@.len() == self.arcs.len());
            // the enumerated iterator is consumed in the tail expression: every candidate item sequence is `enum_seq(rem)`
            assert forall|e: Seq<(usize, &BTreeSet<usize>)>| #[trigger] e.len() == rem.len() && (forall|i: int| 0 <= i < rem.len() ==> #[trigger] e[i] == (i as usize, rem[i]))
                implies e == enum_seq(rem) by { assert(e =~= enum_seq(rem)); }
            // name its elements so that the quantifiers of `Iterator::all`'s contract are instantiated for every row
            assert forall|a: int| 0 <= a < self.arcs@.len() implies (#[trigger] enum_seq(rem)[a]).1@.contains(enum_seq(rem)[a].0) == self.has(a, a) by {}
            assert forall|a: int| 0 <= a < self.arcs@.len() implies #[trigger] self.has(a, a) == enum_seq(rem)[a].1@.contains(enum_seq(rem)[a].0) by {}
            if self.wf() { assert forall|a: int| !self.has(a, a) by { if self.has(a, a) { assert(self.arcs@[a]@.contains(a as usize)); } } }
        }
    @*/
}

// ---- C11: converse (rows enumerated, successors used as row indices of the result through a raw pointer) ----

/// x occurs among the first j items of a row iterator
spec fn row_seen(items: Seq<&usize>, j: int, x: int) -> bool {
    exists|k: int| 0 <= k < j && *(#[trigger] items[k]) == x
}

/// all items of a row iterator seen: exactly the row
proof fn lemma_row_seen_all(row: Set<usize>, items: Seq<&usize>, x: usize)
    requires items.unref().to_set() == row,
    ensures row_seen(items, items.len() as int, x as int) == row.contains(x),
{
    let un = items.unref();
    if row_seen(items, items.len() as int, x as int) {
        let k = choose|k: int| 0 <= k < items.len() && *(#[trigger] items[k]) == x as int;
        assert(un[k] == x);
        assert(un.to_set().contains(x));
    }
    if row.contains(x) {
        assert(un.to_set().contains(x));
        let k = choose|k: int| 0 <= k < un.len() && un[k] == x;
        assert(*items[k] == x as int);
    }
}

impl AdjacencyList {
    /*@fn impl=AdjacencyList trait=Converse name=converse wrap=enumerate props=C11,C13
    requires
        self.wf(),
    ensures
        r.wf(),
        r.ord() == self.ord(),
        forall|a: int, b: int| #![trigger r.has(a, b)] r.has(a, b) == self.has(b, a),
    @before `for (u, set)`
        proof {
            let rem = self.arcs@.as_ref();
            assert(self.arcs@.len() == self.arcs.len());
            // every candidate item sequence of the enumerated row iterator is `enum_seq(rem)`
            assert forall|e: Seq<(usize, &BTreeSet<usize>)>| #[trigger] e.len() == rem.len() && (forall|i: int| 0 <= i < rem.len() ==> #[trigger] e[i] == (i as usize, rem[i]))
                implies e == enum_seq(rem) by { assert(e =~= enum_seq(rem)); }
        }
    @loop 1
    invariant
        it1.iter.obeys_prophetic_iter_laws(),
        it1.iter.decrease() is Some,
        self.wf(),
        order == self.ord(),
        converse@.len() == order,
        it1.seq() == enum_seq(self.arcs@.as_ref()),
        forall|x: int, a: usize| 0 <= x < order ==> #[trigger] converse@[x]@.contains(a) == (a < it1.index() && self.has(a as int, x)),
    @loop 2
    invariant
        it1.iter.obeys_prophetic_iter_laws(),
        it1.iter.decrease() is Some,
        self.wf(),
        order == self.ord(),
        converse@.len() == order,
        it1.seq() == enum_seq(self.arcs@.as_ref()),
        0 <= it1.index() < order,
        u == it1.index(),
        *set == self.arcs@[u as int],
        it2.seq().unref().to_set() == set@,
        forall|x: int, a: usize| 0 <= x < order ==> #[trigger] converse@[x]@.contains(a) ==
            ((a < u && self.has(a as int, x)) || (a == u && row_seen(it2.seq(), it2.index() as int, x))),
    @loop_start 1
        proof {
            let i = it1.index() as int;
            assert(it1.seq()[i] == (i as usize, self.arcs@.as_ref()[i]));
            broadcast use vstd::laws_cmp::group_laws_cmp;
            assert(vstd::laws_cmp::obeys_cmp::<usize>());
        }
    @before `unsafe {`
        proof {
            // the successor v is used as a row index of the result: in range because the list is well-formed
            let j = it2.index() as int;
            assert(it2.seq().unref()[j] == v);
            assert(it2.seq().unref().to_set().contains(v));
            assert(self.arcs@[u as int]@.contains(v));
        }
        let ghost conv0 = converse@;
    @loop_end 2
        proof {
            let j = it2.index() as int;
            assert forall|x: int, a: usize| 0 <= x < order implies #[trigger] converse@[x]@.contains(a) ==
                ((a < u && self.has(a as int, x)) || (a == u && row_seen(it2.seq(), j + 1, x))) by {
                assert(conv0[x]@.contains(a) == ((a < u && self.has(a as int, x)) || (a == u && row_seen(it2.seq(), j, x))));
                if row_seen(it2.seq(), j + 1, x) {
                    let k = choose|k: int| 0 <= k < j + 1 && *(#[trigger] it2.seq()[k]) == x;
                    if k < j { assert(row_seen(it2.seq(), j, x)); }
                }
                if row_seen(it2.seq(), j, x) {
                    let k = choose|k: int| 0 <= k < j && *(#[trigger] it2.seq()[k]) == x;
                    assert(0 <= k < j + 1);
                }
                if x == v { assert(*it2.seq()[j] == x); }
            }
        }
    @loop_end 1
        proof {
            // all items of row u have been seen (stated for every item sequence with the inner loop's invariant)
            assert forall|items: Seq<&usize>, x: int| items.unref().to_set() == set@ && 0 <= x < order implies
                #[trigger] row_seen(items, items.len() as int, x) == self.has(u as int, x) by {
                lemma_row_seen_all(set@, items, x as usize);
            }
        }
    @fn_end
        proof {
            let g = AdjacencyList { arcs: converse };
            assert forall|a: int, b: int| #![trigger g.has(a, b)] g.has(a, b) == self.has(b, a) by {
                lemma_list_wf_has(*self);
                if 0 <= a < order && 0 <= b <= usize::MAX { assert(converse@[a]@.contains(b as usize) == (b < order && self.has(b, a))); }
            }
            lemma_list_wf_has(*self);
            lemma_list_wf_has(g);
        }
    @*/
}

// ---- C12: is_regular iff all indegrees and outdegrees equal one constant ----

/// vertex w has indegree c and outdegree c
spec fn semideg_is(g: AdjacencyList, w: int, c: int) -> bool { g.in_deg(w) == c && g.out_deg(w) == c }

/// C12: every vertex has indegree c and outdegree c
spec fn regular_with(g: AdjacencyList, c: int) -> bool {
    forall|w: int| 0 <= w < g.ord() ==> #[trigger] semideg_is(g, w, c)
}

impl AdjacencyList {
    // the blanket impl `impl<D: Indegree + Outdegree + Vertices> SemidegreeSequence for D`, here at D = AdjacencyList
    // (`vertices().map(..)` is lazy: its item sequence is complete only if the iterator is driven until it returns None)
    /*@fn impl=D trait=SemidegreeSequence name=semidegree_sequence file=src/op/semidegree_sequence.rs props=C02,C13
    requires
        self.wf(),
    ensures
        r.obeys_prophetic_iter_laws(),
        r.decrease() is Some,
        r.remaining().len() <= self.ord(),
        forall|k: int| 0 <= k < r.remaining().len() ==> (#[trigger] r.remaining()[k]).0 == self.in_deg(k) && r.remaining()[k].1 == self.out_deg(k),
        r.will_return_none() ==> r.remaining().len() == self.ord(),
    @closure 1 |u: usize| -> (d: (usize, usize))
    ensures
        d.0 == self.in_deg(u as int) && d.1 == self.out_deg(u as int),
    @fn_start
        broadcast use vstd::std_specs::iter::group_iter_axioms;
        proof {
            assert(self.arcs@.len() == self.arcs.len());
            assert forall|w: int| 0 <= w < self.ord() implies #[trigger] self.row(w).len() == self.out_deg(w) by { lemma_list_row_len(*self, w); }
        }
    @*/

    /*@fn impl=AdjacencyList trait=IsRegular name=is_regular wrap=all props=C12,C13
    requires
        self.wf(),
    ensures
        r == (exists|c: int| regular_with(*self, c)),
    @closure 1 |p: (usize, usize)| -> (b: bool)
    ensures
        b == (p.0 == u && p.1 == v),
    @after `let mut semidegrees`
        let ghost it0 = semidegrees;
    @after `let (u, v)`
        let ghost it1 = semidegrees;
        proof {
            let s0 = it0.remaining();
            let s1 = it1.remaining();
            assert(s0.len() > 0 && s1 == s0.drop_first());
            assert(u == self.in_deg(0) && v == self.out_deg(0)) by { assert(s0[0].0 == self.in_deg(0)); }
            assert forall|k: int| 0 <= k < s1.len() implies (#[trigger] s1[k]).0 == self.in_deg(k + 1) && s1[k].1 == self.out_deg(k + 1) by {
                assert(s1[k] == s0[k + 1]);
            }
            assert(it1.will_return_none() == it0.will_return_none());
            if u != v {
                assert forall|c: int| !regular_with(*self, c) by { if regular_with(*self, c) { assert(semideg_is(*self, 0, c)); } }
            }
            // `all` returns false: some later vertex differs from vertex 0
            assert forall|i: int, c: int| 0 <= i < s1.len() && !((#[trigger] s1[i]).0 == u && s1[i].1 == v) implies !#[trigger] regular_with(*self, c) by {
                if regular_with(*self, c) { assert(semideg_is(*self, 0, c)); assert(semideg_is(*self, i + 1, c)); }
            }
            // `all` returns true (so the sequence was driven to its end): every vertex agrees with vertex 0
            assert forall|w: int| u == v && it1.will_return_none() && (forall|i: int| 0 <= i < s1.len() ==> (#[trigger] s1[i]).0 == u && s1[i].1 == v)
                && 0 <= w < self.ord() implies #[trigger] semideg_is(*self, w, u as int) by {
                assert(s0.len() == self.ord());
                if w > 0 { assert(s1[w - 1].0 == u); }
            }
            assert(u == v && it1.will_return_none() && (forall|i: int| 0 <= i < s1.len() ==> (#[trigger] s1[i]).0 == u && s1[i].1 == v)
                ==> regular_with(*self, u as int));
        }
    @*/
}

// ---- C14: path, star, wheel (rows built by `once(..).chain(..)` / `..chain(once(..))` and collected) ----
// defining arc predicates written from the property text, identical to units/inc/matrix_gen.inc.rs (`path_arc`, `cycle_arc`,
// `circuit_arc` and the `%`-free `circuit_lin` come from the imported units/inc/list_ops.inc.rs)

/// star(n) has 0 <-> i for 1 <= i < n
spec fn star_arc(n: int, a: int, b: int) -> bool {
    (a == 0 && 1 <= b < n) || (b == 0 && 1 <= a < n)
}

/// the cycle through 1..n-1: cycle(n-1) on the vertices 1, .., n-1
spec fn rim_arc(n: int, a: int, b: int) -> bool {
    1 <= a < n && 1 <= b < n && cycle_arc(n - 1, a - 1, b - 1)
}

/// wheel(n >= 4) is the union of star(n) and the cycle through 1..n-1
spec fn wheel_arc(n: int, a: int, b: int) -> bool {
    star_arc(n, a, b) || rim_arc(n, a, b)
}

/// sanity of the predicates on small instances (guards against a mis-stated predicate)
proof fn lemma_list_predicate_examples()
    ensures
        forall|a: int, b: int| !path_arc(1, a, b) && !star_arc(1, a, b),
        path_arc(3, 0, 1) && path_arc(3, 1, 2) && !path_arc(3, 2, 0) && !path_arc(3, 2, 3),
        star_arc(3, 0, 2) && star_arc(3, 2, 0) && !star_arc(3, 1, 2) && !star_arc(3, 0, 0),
        wheel_arc(4, 0, 3) && wheel_arc(4, 1, 2) && wheel_arc(4, 2, 3) && wheel_arc(4, 3, 1) && wheel_arc(4, 1, 3) && !wheel_arc(4, 1, 1),
        wheel_arc(5, 4, 1) && !wheel_arc(5, 1, 3) && !wheel_arc(5, 4, 5),
{
}

/// the rim neighbours of a vertex 1 <= u < n of the wheel, without `%`
spec fn rim_prev(n: int, u: int) -> int { if u == 1 { n - 1 } else { u - 1 } }
spec fn rim_next(n: int, u: int) -> int { if u == n - 1 { 1 } else { u + 1 } }

spec fn rim_lin_ok(n: int) -> bool {
    forall|a: int, b: int| #[trigger] rim_arc(n, a, b) == (1 <= a < n && 1 <= b < n && (b == rim_next(n, a) || b == rim_prev(n, a)))
}

proof fn lemma_list_rim_lin(n: int)
    requires n >= 4,
    ensures rim_lin_ok(n),
{
    lemma_circuit_lin(n - 1);
    assert forall|a: int, b: int| #[trigger] rim_arc(n, a, b) == (1 <= a < n && 1 <= b < n && (b == rim_next(n, a) || b == rim_prev(n, a))) by {
        assert(circuit_arc(n - 1, a - 1, b - 1) == circuit_lin(n - 1, a - 1, b - 1));
        assert(circuit_arc(n - 1, b - 1, a - 1) == circuit_lin(n - 1, b - 1, a - 1));
    }
}

/// the items of the range lo..hi
proof fn lemma_range_items(lo: usize, hi: usize)
    ensures
        forall|x: usize| #![trigger (core::ops::Range { start: lo, end: hi }).remaining().contains(x)]
            (core::ops::Range { start: lo, end: hi }).remaining().contains(x) == (lo <= x < hi),
{
    let rem = (core::ops::Range { start: lo, end: hi }).remaining();
    assert forall|x: usize| #![trigger rem.contains(x)] rem.contains(x) == (lo <= x < hi) by {
        if lo <= x < hi { assert(rem[x - lo] == x); }
    }
}

impl AdjacencyList {
    /*@fn impl=AdjacencyList trait=Path name=path wrap=chain,fn:once props=C14,C13
    ensures
        order >= 1,
        r.wf(),
        r.ord() == order,
        forall|a: int, b: int| #![trigger r.has(a, b)] r.has(a, b) == path_arc(order as int, a, b),
    @closure 1 |u: usize| -> (s: BTreeSet<usize>)
    requires
        u < order - 1,
    ensures
        forall|x: usize| #[trigger] s@.contains(x) == (x == u + 1),
    @fn_start
        broadcast use vstd::std_specs::iter::group_iter_axioms;
        proof {
            // the list is the tail expression: well-formedness is derived from the arc postcondition for any candidate result
            let n = order as int;
            assert forall|g: AdjacencyList| n >= 1 && g.ord() == n && (forall|a: int, b: int| #![trigger g.has(a, b)] g.has(a, b) == path_arc(n, a, b))
                implies #[trigger] g.wf() by {
                lemma_list_wf_has(g);
            }
        }
    @*/

    /*@fn impl=AdjacencyList trait=Star name=star wrap=chain,fn:once props=C14,C13
    ensures
        order >= 1,
        r.wf(),
        r.ord() == order,
        forall|a: int, b: int| #![trigger r.has(a, b)] r.has(a, b) == star_arc(order as int, a, b),
    @closure 1 |_u: usize| -> (s: BTreeSet<usize>)
    ensures
        forall|x: usize| #[trigger] s@.contains(x) == (x == 0),
    @fn_start
        broadcast use vstd::std_specs::iter::group_iter_axioms;
        broadcast use axiom_btree_set_from_iter;
        proof {
            broadcast use vstd::laws_cmp::group_laws_cmp;
            assert(vstd::laws_cmp::obeys_cmp::<usize>());
            let n = order as int;
            lemma_range_items(1, order);
            assert forall|g: AdjacencyList| n >= 1 && g.ord() == n && (forall|a: int, b: int| #![trigger g.has(a, b)] g.has(a, b) == star_arc(n, a, b))
                implies #[trigger] g.wf() by {
                lemma_list_wf_has(g);
            }
        }
    @*/

    /*@fn impl=AdjacencyList trait=Wheel name=wheel wrap=chain,fn:once props=C14,C13
    ensures
        order >= 4,
        r.wf(),
        r.ord() == order,
        forall|a: int, b: int| #![trigger r.has(a, b)] r.has(a, b) == wheel_arc(order as int, a, b),
    @closure 1 |u: usize| -> (s: BTreeSet<usize>)
    requires
        order >= 4,
        1 <= u < order,
    ensures
        forall|x: usize| #[trigger] s@.contains(x) == (x == 0 || x == rim_prev(order as int, u as int) || x == rim_next(order as int, u as int)),
    @fn_start
        broadcast use vstd::std_specs::iter::group_iter_axioms;
        broadcast use axiom_btree_set_from_iter;
        proof {
            broadcast use vstd::laws_cmp::group_laws_cmp;
            assert(vstd::laws_cmp::obeys_cmp::<usize>());
            let n = order as int;
            lemma_range_items(1, order);
            if n >= 4 { lemma_list_rim_lin(n); }
            assert forall|g: AdjacencyList| n >= 4 && g.ord() == n && (forall|a: int, b: int| #![trigger g.has(a, b)] g.has(a, b) == wheel_arc(n, a, b))
                implies #[trigger] g.wf() by {
                lemma_list_wf_has(g);
                assert forall|a: int, b: int| #[trigger] g.has(a, b) implies 0 <= a < n && 0 <= b < n && a != b by {
                    assert(rim_arc(n, a, b) == (1 <= a < n && 1 <= b < n && (b == rim_next(n, a) || b == rim_prev(n, a))));
                }
            }
        }
    @*/
}
