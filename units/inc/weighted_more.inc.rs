//@file src/repr/adjacency_list_weighted/mod.rs
// ---- AdjacencyListWeighted: the operations built on iterator methods vstd cannot specify (E12 wrappers) ----

/// strictly ascending item sequence of a key iterator
spec fn wm_ascending(rem: Seq<&usize>) -> bool {
    forall|i: int, j: int| 0 <= i < j < rem.len() ==> *(#[trigger] rem[i]) < *(#[trigger] rem[j])
}

/// meaning of vstd's `increasing_seq` on `&usize` items: strictly ascending
proof fn lemma_wm_ref_increasing(rem: Seq<&usize>)
    requires vstd::std_specs::btree::increasing_seq(rem),
    ensures wm_ascending(rem),
{
    broadcast use vstd::laws_cmp::group_laws_cmp;
    assert(vstd::laws_cmp::obeys_cmp::<&usize>());
    vstd::std_specs::btree::axiom_increasing_seq_meaning(rem);
    assert forall|i: int, j: int| 0 <= i < j < rem.len() implies *(#[trigger] rem[i]) < *(#[trigger] rem[j]) by {
        assert(<&usize as vstd::std_specs::cmp::OrdSpec>::cmp_spec(&rem[i], &rem[j]) is Less);
    }
}

impl<W> AdjacencyListWeighted<W> {
    // C02 out_neighbors: exactly the out-neighbours of u, ascending, no repeats.  `u` outside V: `self.arcs[u]` panics
    // (documented), stated as a precondition as for `outdegree` in weighted_core.
    /*@fn impl=AdjacencyListWeighted trait=OutNeighbors name=out_neighbors wrap=copied subst="Iterator<Item=usize>=>Iterator<Item=usize>+use<'_,W>" safeindex
    ensures
        u < self.ord(),
        r.obeys_prophetic_iter_laws(),
        r.decrease() is Some,
        forall|i: int| 0 <= i < r.remaining().len() ==> self.has(u as int, #[trigger] r.remaining()[i] as int),
        forall|v: int| #[trigger] self.has(u as int, v) ==> r.remaining().contains(v as usize),
        forall|i: int, j: int| 0 <= i < j < r.remaining().len() ==> r.remaining()[i] < r.remaining()[j],
        r.remaining().no_duplicates(),
    @fn_start
        proof {
            assert forall|rem: Seq<&usize>| #[trigger] vstd::std_specs::btree::increasing_seq(rem) implies wm_ascending(rem) by { lemma_wm_ref_increasing(rem); }
            if u < self.ord() {   // otherwise the indexing below panics
                let dom = self.arcs@[u as int]@.dom();
                assert forall|s: Seq<usize>, v: int| #[trigger] s.to_set() == dom && #[trigger] self.has(u as int, v) implies s.contains(v as usize) by {
                    assert(s.to_set().contains(v as usize));
                }
                assert forall|s: Seq<usize>, i: int| #[trigger] s.to_set() == dom && 0 <= i < s.len() implies self.has(u as int, #[trigger] s[i] as int) by {
                    assert(s.to_set().contains(s[i]));
                }
            }
        }
    @*/
}

/// always true: used to make a term appear in a quantifier instantiation
spec fn wm_see<A>(a: A) -> bool { true }

impl<W> AdjacencyListWeighted<W> {
    // C12 is_simple: no self-loop; true for every digraph that satisfies the representation invariant
    /*@fn impl=AdjacencyListWeighted trait=IsSimple name=is_simple wrap=enumerate props=C12,C13
    ensures
        r == (forall|a: int| !self.has(a, a)),
        self.wf() ==> r,
    @closure 1 |p: (usize, &BTreeMap<usize, W>)| -> (b: bool)
    ensures
        b == !p.1@.contains_key(p.0),
    @fn_start
        proof {
            // the enumerated item sequence `e` is a temporary: name its elements for every candidate
            let rem = self.arcs@.as_ref();
            assert forall|e: Seq<(usize, &BTreeMap<usize, W>)>, a: int| #![trigger e.len(), self.has(a, a)] 0 <= a < e.len() ==> wm_see(e[a]) by {}
            assert forall|e: Seq<(usize, &BTreeMap<usize, W>)>, i: int| #![trigger e[i]] wm_see(self.has(e[i].0 as int, e[i].0 as int)) by {}
            assert forall|a: int| 0 <= a < rem.len() implies *rem[a] == #[trigger] self.arcs@[a] by {}
            assert(self.arcs@.len() == self.arcs.len());
        }
    @*/
}

// ---- C02 indegree: the number of vertices a with (a, v) in A (the definition of `Dgo::indeg` in prelude/dg_ops.rs) ----

/// the in-neighbours of v among the vertices below n, as a set
spec fn wm_in_set_below<W>(g: AdjacencyListWeighted<W>, v: int, n: int) -> Set<int> { Set::range(0, n).filter(|a: int| g.has(a, v)) }

impl<W> AdjacencyListWeighted<W> {
    /// indegree defined from (V, A)
    spec fn indeg(&self, v: int) -> nat { wm_in_set_below(*self, v, self.ord()).len() }
}

/// faithfulness of the in-neighbour set: exactly the in-neighbours
proof fn lemma_wm_in_set<W>(g: AdjacencyListWeighted<W>, v: int)
    ensures
        forall|a: int| #[trigger] wm_in_set_below(g, v, g.ord()).contains(a) == g.has(a, v),
        wm_in_set_below(g, v, g.ord()).finite(),
        g.indeg(v) <= g.ord(),
{
    range_set_properties::<int>(0, g.ord());
    lemma_len_subset(wm_in_set_below(g, v, g.ord()), Set::<int>::range(0, g.ord()));
}

/// trigger tag: names the pair (g, v) for `lemma_wm_filter_count`
spec fn wm_in_tag<W>(g: AdjacencyListWeighted<W>, v: int) -> bool { true }

/// vstd's model of `Filter`: the items are `filter_index` of a prefix of the source; over the rows with a predicate that
/// decides `has(., v)` there are as many items as in-neighbours below the prefix length.  Broadcast because the filter
/// iterator is consumed in the tail expression and cannot be named in a hint.
broadcast proof fn lemma_wm_filter_count<W, T>(g: AdjacencyListWeighted<W>, v: int, s: Seq<T>, n: int, pred: spec_fn(int) -> bool)
    requires
        0 <= n <= s.len(),
        forall|j: int| 0 <= j < n ==> pred(j) == g.has(j, v),
    ensures
        #![trigger s.take(n).filter_index(pred), wm_in_tag(g, v)]
        s.take(n).filter_index(pred).len() == wm_in_set_below(g, v, n).len(),
    decreases n
{
    range_set_properties::<int>(0, n);
    if n > 0 {
        lemma_wm_filter_count(g, v, s, n - 1, pred);
        range_set_properties::<int>(0, n - 1);
        assert(s.take(n).drop_last() =~= s.take(n - 1));
        reveal_with_fuel(Seq::filter_index, 2);
        let p = wm_in_set_below(g, v, n - 1);
        if g.has(n - 1, v) { assert(wm_in_set_below(g, v, n) =~= p.insert(n - 1)); } else { assert(wm_in_set_below(g, v, n) =~= p); }
    } else {
        assert(wm_in_set_below(g, v, n) =~= Set::<int>::empty());
    }
}

/// `indegree` at the instances W = isize and W = usize: with a generic W, Verus cannot discharge the trait bounds of vstd's
/// `Filter` adapter axioms for the closure type (same limitation as `sinks` / `sources` in weighted_queries)
impl AdjacencyListWeighted<isize> {
    /*@fn impl=AdjacencyListWeighted trait=Indegree name=indegree wrap=count props=C02,C13
    ensures
        v < self.ord(),
        r == self.indeg(v as int),
    @closure 1 |arcs: &&BTreeMap<usize, isize>| -> (b: bool)
    ensures
        b == arcs@.contains_key(v),
    @fn_start
        broadcast use vstd::std_specs::iter::group_iter_axioms;
        broadcast use lemma_wm_filter_count;
        proof {
            assert(wm_in_tag(*self, v as int));
            assert(self.arcs@.len() == self.arcs.len());
            let rem = self.arcs@.as_ref();
            assert forall|a: int| 0 <= a < rem.len() implies (#[trigger] rem[a])@.contains_key(v) == self.has(a, v as int) by {}
        }
    @*/
}
impl AdjacencyListWeighted<usize> {
    /*@fn impl=AdjacencyListWeighted trait=Indegree name=indegree rename=indegree_usize wrap=count props=C02,C13
    ensures
        v < self.ord(),
        r == self.indeg(v as int),
    @closure 1 |arcs: &&BTreeMap<usize, usize>| -> (b: bool)
    ensures
        b == arcs@.contains_key(v),
    @fn_start
        broadcast use vstd::std_specs::iter::group_iter_axioms;
        broadcast use lemma_wm_filter_count;
        proof {
            assert(wm_in_tag(*self, v as int));
            assert(self.arcs@.len() == self.arcs.len());
            let rem = self.arcs@.as_ref();
            assert forall|a: int| 0 <= a < rem.len() implies (#[trigger] rem[a])@.contains_key(v) == self.has(a, v as int) by {}
        }
    @*/
}

// ---- C02 size: the number of arcs, i.e. the cardinality of the arc set {(u, v) : has(u, v)} ----

/// the arcs leaving u, as id pairs
spec fn wm_row_pairs<W>(g: AdjacencyListWeighted<W>, u: int) -> Set<(int, int)> {
    g.arcs@[u]@.dom().map(|x: usize| (u, x as int))
}

/// the arcs leaving the vertices below k
spec fn wm_arcs_upto<W>(g: AdjacencyListWeighted<W>, k: int) -> Set<(int, int)>
    decreases k,
{
    if k <= 0 { Set::empty() } else { wm_arcs_upto(g, k - 1) + wm_row_pairs(g, k - 1) }
}

/// the sum of the sizes of the rows below k
spec fn wm_rows_sum<W>(g: AdjacencyListWeighted<W>, k: int) -> int
    decreases k,
{
    if k <= 0 { 0 } else { wm_rows_sum(g, k - 1) + g.arcs@[k - 1]@.dom().len() }
}

impl<W> AdjacencyListWeighted<W> {
    /// the arc set A as a set of id pairs (faithfulness: lemma_wm_arc_set), and |A|
    spec fn arc_set(&self) -> Set<(int, int)> { wm_arcs_upto(*self, self.ord()) }
    spec fn arc_count(&self) -> nat { self.arc_set().len() }
}

proof fn lemma_wm_row_pairs<W>(g: AdjacencyListWeighted<W>, u: int)
    requires 0 <= u < g.ord(),
    ensures
        wm_row_pairs(g, u).len() == g.arcs@[u]@.dom().len(),
        forall|p: (int, int)| #[trigger] wm_row_pairs(g, u).contains(p) == (p.0 == u && g.has(p.0, p.1)),
{
    let row = g.arcs@[u]@.dom();
    let f = |x: usize| (u, x as int);
    assert(row.injective_on(f)) by {
        assert forall|x1: usize, x2: usize| row.contains(x1) && row.contains(x2) && f(x1) == f(x2) implies x1 == x2 by {}
    }
    assert forall|p: (int, int)| #[trigger] wm_row_pairs(g, u).contains(p) == (p.0 == u && g.has(p.0, p.1)) by {
        row.lemma_map_contains(f, p);
        if p.0 == u && g.has(p.0, p.1) { assert(row.contains(p.1 as usize) && f(p.1 as usize) == p); }
    }
    lemma_map_size(row, wm_row_pairs(g, u), f);
}

/// faithfulness of the count: the arc set of the vertices below k has rows_sum(k) elements and is the relation `has` there
proof fn lemma_wm_arcs_upto<W>(g: AdjacencyListWeighted<W>, k: int)
    requires 0 <= k <= g.ord(),
    ensures
        wm_arcs_upto(g, k).len() == wm_rows_sum(g, k),
        forall|p: (int, int)| #[trigger] wm_arcs_upto(g, k).contains(p) == (0 <= p.0 < k && g.has(p.0, p.1)),
    decreases k,
{
    if k > 0 {
        lemma_wm_arcs_upto(g, k - 1);
        lemma_wm_row_pairs(g, k - 1);
        let prev = wm_arcs_upto(g, k - 1);
        let row = wm_row_pairs(g, k - 1);
        assert(prev.disjoint(row));
        lemma_set_disjoint_lens(prev, row);
        assert(wm_arcs_upto(g, k) == prev + row);
    }
}

/// faithfulness of `arc_set`: exactly the relation `has`
proof fn lemma_wm_arc_set<W>(g: AdjacencyListWeighted<W>)
    ensures
        forall|p: (int, int)| #[trigger] g.arc_set().contains(p) == g.has(p.0, p.1),
        g.arc_count() == wm_rows_sum(g, g.ord()),
{
    lemma_wm_arcs_upto(g, g.ord());
}

/// s lists the sizes of the rows
spec fn wm_len_seq<W>(g: AdjacencyListWeighted<W>, s: Seq<usize>) -> bool {
    s.len() == g.ord() && forall|k: int| 0 <= k < s.len() ==> #[trigger] s[k] == g.arcs@[k]@.dom().len()
}

proof fn lemma_wm_len_sum<W>(g: AdjacencyListWeighted<W>, s: Seq<usize>, k: int)
    requires wm_len_seq(g, s), 0 <= k <= s.len(),
    ensures seq_sum(s.take(k)) == wm_rows_sum(g, k),
    decreases k
{
    if k > 0 {
        lemma_wm_len_sum(g, s, k - 1);
        assert(s.take(k).drop_last() =~= s.take(k - 1));
        assert(s.take(k).last() == s[k - 1]);
    }
}

/// the sum of the row sizes is the number of arcs
proof fn lemma_wm_size<W>(g: AdjacencyListWeighted<W>, s: Seq<usize>)
    requires wm_len_seq(g, s),
    ensures seq_sum(s) == g.arc_count(),
{
    lemma_wm_len_sum(g, s, s.len() as int);
    assert(s.take(s.len() as int) =~= s);
    lemma_wm_arc_set(g);
}

impl AdjacencyListWeighted<isize> {
    // `size` sums the row sizes in usize: the result can equal |A| only if that fits (otherwise the sum panics (debug) or
    // wraps (release)); |A| <= order * (order - 1) for a well-formed digraph
    /*@fn impl=AdjacencyListWeighted trait=Size name=size wrap=sum props=C02,C13
    requires
        self.arc_count() <= usize::MAX,
    ensures
        r == self.arc_count(),
    @fn_start
        broadcast use vstd::std_specs::iter::group_iter_axioms;
        proof {
            assert(self.arcs@.len() == self.arcs.len());
            // the Map iterator is consumed in the tail expression: state the meaning of its item sequence for every candidate
            assert forall|s: Seq<usize>| wm_len_seq(*self, s) implies #[trigger] seq_sum(s) == self.arc_count() by {
                lemma_wm_size(*self, s);
            }
        }
    @*/
}

// ---- C02 in_neighbors: exactly the in-neighbours of v, ascending, no repeats ----

/// the in-neighbours of v among the vertices below k, ascending: the defining value of `in_neighbors` (k = order)
spec fn wm_col_below<W>(g: AdjacencyListWeighted<W>, v: int, k: int) -> Seq<usize>
    decreases k
{
    if k <= 0 { Seq::empty() }
    else if g.has(k - 1, v) { wm_col_below(g, v, k - 1).push((k - 1) as usize) }
    else { wm_col_below(g, v, k - 1) }
}

/// `wm_col_below` is exactly the in-neighbours below k, strictly ascending (hence no repeats)
proof fn lemma_wm_col_below<W>(g: AdjacencyListWeighted<W>, v: int, k: int)
    requires 0 <= k <= usize::MAX + 1,
    ensures
        forall|i: int| 0 <= i < wm_col_below(g, v, k).len() ==> (#[trigger] wm_col_below(g, v, k)[i]) < k && g.has(wm_col_below(g, v, k)[i] as int, v),
        forall|i: int, j: int| 0 <= i < j < wm_col_below(g, v, k).len() ==> wm_col_below(g, v, k)[i] < wm_col_below(g, v, k)[j],
        forall|a: int| 0 <= a < k && g.has(a, v) ==> wm_col_below(g, v, k).contains(a as usize),
        wm_col_below(g, v, k).no_duplicates(),
    decreases k
{
    if k > 0 {
        lemma_wm_col_below(g, v, k - 1);
        let p = wm_col_below(g, v, k - 1);
        let s = wm_col_below(g, v, k);
        assert forall|a: int| 0 <= a < k && g.has(a, v) implies s.contains(a as usize) by {
            if a < k - 1 {
                assert(p.contains(a as usize));
                let i = choose|i: int| 0 <= i < p.len() && p[i] == a as usize;
                assert(s[i] == a as usize);
            } else {
                assert(s[s.len() - 1] == a as usize);
            }
        }
    }
}

/// the model of `filter_map` (prelude/wm_more_std.rs): the items are the `Some` values of the closure results on a prefix of
/// the source; with a closure that answers `Some(a)` exactly for the in-neighbours a of v this is `wm_col_below`.  Broadcast
/// because the adapter is the tail expression of `in_neighbors` and cannot be named in a hint.
broadcast proof fn lemma_wm_somes_col<W>(g: AdjacencyListWeighted<W>, v: int, outs: Seq<Option<usize>>)
    requires
        outs.len() <= usize::MAX,
        forall|j: int| 0 <= j < outs.len() ==> #[trigger] outs[j] == (if g.has(j, v) { Some(j as usize) } else { None::<usize> }),
    ensures
        #![trigger vx_somes(outs), wm_in_tag(g, v)]
        vx_somes(outs) == wm_col_below(g, v, outs.len() as int),
    decreases outs.len()
{
    if outs.len() > 0 {
        lemma_wm_somes_col(g, v, outs.drop_last());
    }
}

impl<W> AdjacencyListWeighted<W> {
    /*@fn impl=AdjacencyListWeighted trait=InNeighbors name=in_neighbors wrap=enumerate,filter_map props=C02,C13 subst="Iterator<Item=usize>=>Iterator<Item=usize>+use<'_,W>"
    ensures
        r.obeys_prophetic_iter_laws(),
        r.decrease() is Some,
        exists|k: int| 0 <= k <= self.ord() && r.remaining() == #[trigger] wm_col_below(*self, v as int, k),
        r.will_return_none() ==> r.remaining() == wm_col_below(*self, v as int, self.ord()),
    @closure 1 |p: (usize, &BTreeMap<usize, W>)| -> (o: Option<usize>)
    ensures
        o == (if p.1@.contains_key(v) { Some(p.0) } else { None::<usize> }),
    @fn_start
        broadcast use lemma_wm_somes_col;
        proof {
            assert(wm_in_tag(*self, v as int));
            assert(self.arcs@.len() == self.arcs.len());
            let rem = self.arcs@.as_ref();
            assert forall|a: int| 0 <= a < rem.len() implies (#[trigger] rem[a])@.contains_key(v) == self.has(a, v as int) by {}
        }
    @*/
}

// ---- C12: is_complete / is_semicomplete / is_tournament decide their definitions ----

/// the unordered pair {u, v} is joined by at least one arc / by exactly one arc
spec fn wm_joined<W>(g: AdjacencyListWeighted<W>, u: int, v: int) -> bool { g.has(u, v) || g.has(v, u) }
spec fn wm_joined_once<W>(g: AdjacencyListWeighted<W>, u: int, v: int) -> bool { g.has(u, v) != g.has(v, u) }
spec fn wm_edge<W>(g: AdjacencyListWeighted<W>, u: int, v: int) -> bool { g.has(u, v) && g.has(v, u) }

/// C12: every ordered pair of distinct vertices is an arc
spec fn wm_complete<W>(g: AdjacencyListWeighted<W>) -> bool {
    forall|u: int, v: int| 0 <= u < g.ord() && 0 <= v < g.ord() && u != v ==> #[trigger] g.has(u, v)
}
/// C12: every unordered pair of distinct vertices is joined by at least one arc
spec fn wm_semicomplete<W>(g: AdjacencyListWeighted<W>) -> bool {
    forall|u: int, v: int| 0 <= u < g.ord() && 0 <= v < g.ord() && u != v ==> #[trigger] wm_joined(g, u, v)
}
/// C12: every unordered pair of distinct vertices is joined by exactly one arc
spec fn wm_tournament<W>(g: AdjacencyListWeighted<W>) -> bool {
    forall|u: int, v: int| 0 <= u < g.ord() && 0 <= v < g.ord() && u != v ==> #[trigger] wm_joined_once(g, u, v)
}

/// what the inner `all` of is_complete / is_semicomplete / is_tournament decides for one u
spec fn wm_row_edge<W>(g: AdjacencyListWeighted<W>, u: int) -> bool { forall|v: int| u < v < g.ord() ==> #[trigger] wm_edge(g, u, v) }
spec fn wm_row_joined<W>(g: AdjacencyListWeighted<W>, u: int) -> bool { forall|v: int| u < v < g.ord() ==> #[trigger] wm_joined(g, u, v) }
spec fn wm_row_joined_once<W>(g: AdjacencyListWeighted<W>, u: int) -> bool { forall|v: int| u < v < g.ord() ==> #[trigger] wm_joined_once(g, u, v) }

proof fn lemma_wm_rows<W>(g: AdjacencyListWeighted<W>)
    ensures
        wm_complete(g) == (forall|u: int| 0 <= u < g.ord() ==> #[trigger] wm_row_edge(g, u)),
        wm_semicomplete(g) == (forall|u: int| 0 <= u < g.ord() ==> #[trigger] wm_row_joined(g, u)),
        wm_tournament(g) == (forall|u: int| 0 <= u < g.ord() ==> #[trigger] wm_row_joined_once(g, u)),
{
    if forall|u: int| 0 <= u < g.ord() ==> #[trigger] wm_row_edge(g, u) {
        assert forall|u: int, v: int| 0 <= u < g.ord() && 0 <= v < g.ord() && u != v implies #[trigger] g.has(u, v) by {
            if u < v { assert(wm_row_edge(g, u)); assert(wm_edge(g, u, v)); } else { assert(wm_row_edge(g, v)); assert(wm_edge(g, v, u)); }
        }
    }
    if wm_complete(g) {
        assert forall|u: int| 0 <= u < g.ord() implies #[trigger] wm_row_edge(g, u) by {
            assert forall|v: int| u < v < g.ord() implies #[trigger] wm_edge(g, u, v) by { assert(g.has(u, v) && g.has(v, u)); }
        }
    }
    if forall|u: int| 0 <= u < g.ord() ==> #[trigger] wm_row_joined(g, u) {
        assert forall|u: int, v: int| 0 <= u < g.ord() && 0 <= v < g.ord() && u != v implies #[trigger] wm_joined(g, u, v) by {
            if u < v { assert(wm_row_joined(g, u)); } else { assert(wm_row_joined(g, v)); assert(wm_joined(g, v, u)); }
        }
    }
    if forall|u: int| 0 <= u < g.ord() ==> #[trigger] wm_row_joined_once(g, u) {
        assert forall|u: int, v: int| 0 <= u < g.ord() && 0 <= v < g.ord() && u != v implies #[trigger] wm_joined_once(g, u, v) by {
            if u < v { assert(wm_row_joined_once(g, u)); } else { assert(wm_row_joined_once(g, v)); assert(wm_joined_once(g, v, u)); }
        }
    }
}

// ---- counting: the number of unordered pairs of n vertices is n(n-1)/2, of ordered pairs of distinct vertices n(n-1) ----

/// the pairs (0, b), .., (k-1, b)
spec fn wm_column(k: int, b: int) -> Set<(int, int)> { Set::<int>::range(0, k).map(|a: int| (a, b)) }

/// the unordered pairs of 0..n, coded as (a, b) with a < b
spec fn wm_upper_pairs(n: int) -> Set<(int, int)>
    decreases n,
{
    if n <= 1 { Set::empty() } else { wm_upper_pairs(n - 1) + wm_column(n - 1, n - 1) }
}

spec fn wm_swap(p: (int, int)) -> (int, int) { (p.1, p.0) }

proof fn lemma_wm_column(k: int, b: int)
    requires k >= 0,
    ensures wm_column(k, b).len() == k, forall|p: (int, int)| #[trigger] wm_column(k, b).contains(p) == (0 <= p.0 < k && p.1 == b),
{
    let rn = Set::<int>::range(0, k);
    range_set_properties::<int>(0, k);
    let g = |a: int| (a, b);
    assert(rn.injective_on(g)) by {
        assert forall|x1: int, x2: int| rn.contains(x1) && rn.contains(x2) && g(x1) == g(x2) implies x1 == x2 by {}
    }
    assert forall|p: (int, int)| #[trigger] wm_column(k, b).contains(p) == (0 <= p.0 < k && p.1 == b) by {
        rn.lemma_map_contains(g, p);
        if 0 <= p.0 < k && p.1 == b { assert(rn.contains(p.0) && g(p.0) == p); }
    }
    lemma_map_size(rn, wm_column(k, b), g);
}

proof fn lemma_wm_upper_pairs(n: int)
    requires n >= 0,
    ensures
        wm_upper_pairs(n).len() * 2 == n * n - n,
        forall|p: (int, int)| #[trigger] wm_upper_pairs(n).contains(p) == (0 <= p.0 < p.1 < n),
    decreases n,
{
    if n <= 1 {
        assert(n * n - n == 0) by (nonlinear_arith) requires n == 0 || n == 1;
        assert(wm_upper_pairs(n).len() == 0);
    } else {
        lemma_wm_upper_pairs(n - 1);
        lemma_wm_column(n - 1, n - 1);
        let prev = wm_upper_pairs(n - 1);
        let col = wm_column(n - 1, n - 1);
        assert(prev.disjoint(col));
        lemma_set_disjoint_lens(prev, col);
        assert(wm_upper_pairs(n) == prev + col);
        assert(wm_upper_pairs(n).len() == prev.len() + (n - 1));
        assert((n - 1) * (n - 1) - (n - 1) + 2 * (n - 1) == n * n - n) by (nonlinear_arith);
    }
}

/// the ordered pairs of distinct elements of 0..n
spec fn wm_offdiag(n: int) -> Set<(int, int)> { wm_upper_pairs(n) + wm_upper_pairs(n).map(|p: (int, int)| wm_swap(p)) }

proof fn lemma_wm_offdiag(n: int)
    requires n >= 0,
    ensures
        wm_offdiag(n).len() == n * n - n,
        forall|p: (int, int)| #[trigger] wm_offdiag(n).contains(p) == (0 <= p.0 < n && 0 <= p.1 < n && p.0 != p.1),
{
    lemma_wm_upper_pairs(n);
    let u = wm_upper_pairs(n);
    let f = |p: (int, int)| wm_swap(p);
    let l = u.map(f);
    assert(u.injective_on(f)) by {
        assert forall|x1: (int, int), x2: (int, int)| u.contains(x1) && u.contains(x2) && f(x1) == f(x2) implies x1 == x2 by {}
    }
    assert forall|p: (int, int)| #[trigger] l.contains(p) == (0 <= p.1 < p.0 < n) by {
        u.lemma_map_contains(f, p);
        if 0 <= p.1 < p.0 < n { assert(u.contains((p.1, p.0)) && f((p.1, p.0)) == p); }
    }
    lemma_map_size(u, l, f);
    assert(u.disjoint(l));
    lemma_set_disjoint_lens(u, l);
}

/// the arc chosen for the unordered pair p.0 < p.1: forwards if present, else backwards
spec fn wm_pair_arc<W>(g: AdjacencyListWeighted<W>, p: (int, int)) -> (int, int) {
    if g.has(p.0, p.1) { p } else { (p.1, p.0) }
}

/// |A| <= n(n-1);  complete ==> |A| == n(n-1);  semicomplete ==> at least one arc per unordered pair ==> |A| >= n(n-1)/2;
/// tournament ==> exactly one ==> |A| == n(n-1)/2
proof fn lemma_wm_pair_count<W>(g: AdjacencyListWeighted<W>)
    requires g.wf(),
    ensures
        g.arc_count() <= g.ord() * g.ord() - g.ord(),
        wm_complete(g) ==> g.arc_count() == g.ord() * g.ord() - g.ord(),
        wm_semicomplete(g) ==> g.arc_count() * 2 >= g.ord() * g.ord() - g.ord(),
        wm_tournament(g) ==> g.arc_count() * 2 == g.ord() * g.ord() - g.ord(),
{
    let n = g.ord();
    let arcs = g.arc_set();
    lemma_wm_arc_set(g);
    lemma_weighted_wf_has(g);
    lemma_wm_upper_pairs(n);
    lemma_wm_offdiag(n);
    let u = wm_upper_pairs(n);
    let od = wm_offdiag(n);
    let f = |p: (int, int)| wm_pair_arc(g, p);
    assert(arcs.subset_of(od)) by {
        assert forall|q: (int, int)| arcs.contains(q) implies od.contains(q) by { assert(g.has(q.0, q.1)); }
    }
    lemma_len_subset(arcs, od);
    if wm_complete(g) {
        assert(arcs =~= od) by {
            assert forall|q: (int, int)| od.contains(q) implies arcs.contains(q) by { assert(g.has(q.0, q.1)); }
        }
    }
    if wm_tournament(g) {
        assert forall|a: int, b: int| 0 <= a < n && 0 <= b < n && a != b implies #[trigger] wm_joined(g, a, b) by {
            assert(wm_joined_once(g, a, b));
        }
    }
    if wm_semicomplete(g) {
        assert(u.injective_on(f)) by {
            assert forall|x1: (int, int), x2: (int, int)| u.contains(x1) && u.contains(x2) && f(x1) == f(x2) implies x1 == x2 by {}
        }
        let img = u.map(f);
        assert(img.subset_of(arcs)) by {
            assert forall|q: (int, int)| img.contains(q) implies arcs.contains(q) by {
                u.lemma_map_contains(f, q);
                let p = choose|p: (int, int)| u.contains(p) && q == f(p);
                assert(wm_joined(g, p.0, p.1));
            }
        }
        lemma_map_size(u, img, f);
        lemma_len_subset(img, arcs);
        if wm_tournament(g) {
            assert(arcs.subset_of(img)) by {
                assert forall|q: (int, int)| arcs.contains(q) implies img.contains(q) by {
                    u.lemma_map_contains(f, q);
                    assert(g.has(q.0, q.1));
                    assert(wm_joined_once(g, q.0, q.1));
                    if q.0 < q.1 {
                        assert(u.contains((q.0, q.1)) && f((q.0, q.1)) == q);
                    } else {
                        assert(u.contains((q.1, q.0)) && f((q.1, q.0)) == q);
                    }
                }
            }
            assert(arcs =~= img);
        }
    }
}

/// the three predicates at the instance W = isize (they call `size`, verified at that instance).  They compute
/// `order * (order - 1)` in usize: the precondition `ord * (ord - 1) <= usize::MAX` says this does not overflow (beyond it the
/// product panics in a debug build and wraps in a release build; it needs order > 2^32); it also bounds |A| for `size`.
impl AdjacencyListWeighted<isize> {
    /*@fn impl=AdjacencyListWeighted trait=IsComplete name=is_complete props=C12,C13
    requires
        self.wf(),
        self.ord() * (self.ord() - 1) <= usize::MAX,
    ensures
        r == wm_complete(*self),
    @closure 1 |u: usize| -> (b: bool)
    requires
        u < order,
    ensures
        b == wm_row_edge(*self, u as int),
    @closure 2 |v: usize| -> (b2: bool)
    ensures
        b2 == wm_edge(*self, u as int, v as int),
    @after `let order = self.order();`
        proof {
            assert(order * (order - 1) == order * order - order) by (nonlinear_arith) requires order >= 1;
            assert((order - 1) * order == order * (order - 1)) by (nonlinear_arith) requires order >= 1;  // robust against commuted operands
            lemma_wm_pair_count(*self);
            lemma_wm_rows(*self);
            let rem = (core::ops::Range { start: 0usize, end: order }).remaining();
            assert forall|a: int| 0 <= a < order implies #[trigger] wm_row_edge(*self, a) == wm_row_edge(*self, rem[a] as int) by {}
            // (the body of closure 1 is an expression, not a block: no statement anchor inside it, so the elements of the inner
            // range are named here for every u)
            assert forall|a: int, c: int| 0 <= a < c < order implies #[trigger] wm_edge(*self, a, c)
                == wm_edge(*self, a, (core::ops::Range { start: (a + 1) as usize, end: order }).remaining()[c - a - 1] as int) by {}
        }
    @*/

    /*@fn impl=AdjacencyListWeighted trait=IsSemicomplete name=is_semicomplete props=C12,C13
    requires
        self.wf(),
        self.ord() * (self.ord() - 1) <= usize::MAX,
    ensures
        r == wm_semicomplete(*self),
    @closure 1 |u: usize| -> (b: bool)
    requires
        u < order,
    ensures
        b == wm_row_joined(*self, u as int),
    @closure 2 |v: usize| -> (b2: bool)
    ensures
        b2 == wm_joined(*self, u as int, v as int),
    @after `let order = self.order();`
        proof {
            assert(order * (order - 1) == order * order - order) by (nonlinear_arith) requires order >= 1;
            assert((order - 1) * order == order * (order - 1)) by (nonlinear_arith) requires order >= 1;  // robust against commuted operands
            lemma_wm_pair_count(*self);
            lemma_wm_rows(*self);
            let rem = (core::ops::Range { start: 0usize, end: order }).remaining();
            assert forall|a: int| 0 <= a < order implies #[trigger] wm_row_joined(*self, a) == wm_row_joined(*self, rem[a] as int) by {}
        }
    @before `(u +`
        proof {
            let rem2 = (core::ops::Range { start: (u + 1) as usize, end: order }).remaining();
            assert forall|c: int| u < c < order implies #[trigger] wm_joined(*self, u as int, c) == wm_joined(*self, u as int, rem2[c - u - 1] as int) by {}
        }
    @*/

    /*@fn impl=AdjacencyListWeighted trait=IsTournament name=is_tournament props=C12,C13
    requires
        self.wf(),
        self.ord() * (self.ord() - 1) <= usize::MAX,
    ensures
        r == wm_tournament(*self),
    @closure 1 |u: usize| -> (b: bool)
    requires
        u < order,
    ensures
        b == wm_row_joined_once(*self, u as int),
    @closure 2 |v: usize| -> (b2: bool)
    ensures
        b2 == wm_joined_once(*self, u as int, v as int),
    @after `let order = self.order();`
        proof {
            assert(order * (order - 1) == order * order - order) by (nonlinear_arith) requires order >= 1;
            assert((order - 1) * order == order * (order - 1)) by (nonlinear_arith) requires order >= 1;  // robust against commuted operands
            lemma_wm_pair_count(*self);
            lemma_wm_rows(*self);
            let rem = (core::ops::Range { start: 0usize, end: order }).remaining();
            assert forall|a: int| 0 <= a < order implies #[trigger] wm_row_joined_once(*self, a) == wm_row_joined_once(*self, rem[a] as int) by {}
        }
    @before `(u +`
        proof {
            let rem2 = (core::ops::Range { start: (u + 1) as usize, end: order }).remaining();
            assert forall|c: int| u < c < order implies #[trigger] wm_joined_once(*self, u as int, c) == wm_joined_once(*self, u as int, rem2[c - u - 1] as int) by {}
        }
    @*/
}

// ---- C02 semidegree_sequence (blanket impl of src/op/semidegree_sequence.rs at D = AdjacencyListWeighted<isize>) and
// C12 is_regular: all indegrees and outdegrees equal one constant ----

impl<W> AdjacencyListWeighted<W> {
    /// outdegree defined from (V, A): the number of b with (u, b) in A (`row(u).dom()` is exactly that set: `has`)
    spec fn outdeg(&self, u: int) -> nat { self.row(u).dom().len() }
}

/// every vertex has indegree c and outdegree c
spec fn wm_all_deg<W>(g: AdjacencyListWeighted<W>, c: int) -> bool {
    forall|a: int| 0 <= a < g.ord() ==> #[trigger] g.indeg(a) == c && g.outdeg(a) == c
}
/// C12: all indegrees and outdegrees equal one constant
spec fn wm_regular<W>(g: AdjacencyListWeighted<W>) -> bool { exists|c: int| wm_all_deg(g, c) }

impl AdjacencyListWeighted<isize> {
    /*@fn impl=D trait=SemidegreeSequence name=semidegree_sequence file=src/op/semidegree_sequence.rs props=C02,C13
    ensures
        r.obeys_prophetic_iter_laws(),
        r.decrease() is Some,
        r.remaining().len() <= self.ord(),
        forall|i: int| 0 <= i < r.remaining().len() ==> (#[trigger] r.remaining()[i]).0 == self.indeg(i) && r.remaining()[i].1 == self.outdeg(i),
        r.will_return_none() ==> r.remaining().len() == self.ord(),
    @closure 1 |u: usize| -> (d: (usize, usize))
    requires
        u < self.ord(),
    ensures
        d.0 == self.indeg(u as int),
        d.1 == self.outdeg(u as int),
    @fn_start
        broadcast use vstd::std_specs::iter::group_iter_axioms;
        proof { assert(self.arcs@.len() == self.arcs.len()); }
    @*/

    /*@fn impl=AdjacencyListWeighted trait=IsRegular name=is_regular wrap=all props=C12,C13
    ensures
        self.ord() > 0,
        r == wm_regular(*self),
    @closure 1 |p: (usize, usize)| -> (b: bool)
    ensures
        b == (p.0 == u && p.1 == v),
    @after `let mut semidegrees`
        let ghost s0 = semidegrees.remaining();
    @fn_end
        proof {
            let rem1 = semidegrees.remaining();
            assert(rem1 == s0.drop_first());
            assert(u == self.indeg(0) && v == self.outdeg(0)) by { assert(s0[0] == (u, v)); }
            assert forall|i: int| 0 <= i < rem1.len() implies (#[trigger] rem1[i]).0 == self.indeg(i + 1) && rem1[i].1 == self.outdeg(i + 1) by {
                assert(rem1[i] == s0[i + 1]);
            }
            // regular ==> the first pair is (c, c) and every later item equals it
            if wm_regular(*self) {
                let c = choose|c: int| wm_all_deg(*self, c);
                assert(self.indeg(0) == c && self.outdeg(0) == c);
                assert forall|i: int| 0 <= i < rem1.len() implies (#[trigger] rem1[i]).0 == u && rem1[i].1 == v by {
                    assert(self.indeg(i + 1) == c && self.outdeg(i + 1) == c);
                }
            }
            // the sequence was run to its end and every item equals (u, u) ==> regular with constant u
            // (`will_return_none()` is prophetic: no `if` on it, hence the one-point quantifier)
            assert forall|z: int| (#[trigger] wm_see(z)) && u == v && semidegrees.will_return_none()
                && (forall|i: int| 0 <= i < rem1.len() ==> (#[trigger] rem1[i]).0 == u && rem1[i].1 == v) implies wm_all_deg(*self, u as int) by {
                assert(s0.len() == self.ord());
                assert forall|a: int| 0 <= a < self.ord() implies #[trigger] self.indeg(a) == u as int && self.outdeg(a) == u as int by {
                    if a > 0 { assert(rem1[a - 1].0 == u && rem1[a - 1].1 == v); }
                }
            }
            assert(wm_see(0int));
        }
    @*/
}

// ---- C11 converse: same vertex set, contains v->u exactly when u->v is in A, weights carried over ----

/// acc holds, at every head b, exactly the tails a < k of the arcs (a, b) of g, with their weights
spec fn wm_conv_upto(g: AdjacencyListWeighted<isize>, acc: Seq<BTreeMap<usize, isize>>, k: int) -> bool {
    &&& acc.len() == g.ord()
    &&& forall|b: int, a: usize| 0 <= b < acc.len() ==> (#[trigger] acc[b]@.contains_key(a)) == (a < k && g.has(a as int, b))
    &&& forall|b: int, a: usize| 0 <= b < acc.len() && #[trigger] acc[b]@.contains_key(a) ==> acc[b]@[a] == g.wt(a as int, b)
}

/// b is the key of one of the first idx items of a row iterator
spec fn wm_seen(seq: Seq<(&usize, &isize)>, idx: int, b: int) -> bool {
    exists|j: int| 0 <= j < idx && *(#[trigger] seq[j]).0 == b
}

/// ... and additionally the tail u for the heads among the first idx items of row u
spec fn wm_conv_mid(g: AdjacencyListWeighted<isize>, acc: Seq<BTreeMap<usize, isize>>, u: int, seq: Seq<(&usize, &isize)>, idx: int) -> bool {
    &&& acc.len() == g.ord()
    &&& forall|b: int, a: usize| 0 <= b < acc.len() ==> (#[trigger] acc[b]@.contains_key(a)) == ((a < u && g.has(a as int, b)) || (a == u && wm_seen(seq, idx, b)))
    &&& forall|b: int, a: usize| 0 <= b < acc.len() && #[trigger] acc[b]@.contains_key(a) ==> acc[b]@[a] == g.wt(a as int, b)
}

/// the items of the iterator over row u: exactly the entries of the row
spec fn wm_row_items(g: AdjacencyListWeighted<isize>, u: int, seq: Seq<(&usize, &isize)>) -> bool {
    &&& forall|i: int| 0 <= i < seq.len() ==> g.has(u, *(#[trigger] seq[i]).0 as int) && *seq[i].1 == g.wt(u, *seq[i].0 as int)
    &&& forall|b: int| g.has(u, b) ==> wm_seen(seq, seq.len() as int, b)
}

impl AdjacencyListWeighted<isize> {
    // `converse` at the instance W = isize (`impl<W: Copy>`; the row loop copies the weights)
    /*@fn impl=AdjacencyListWeighted trait=Converse name=converse wrap=enumerate,fold props=C11,C13
    requires
        self.wf(),
    ensures
        r.wf(),
        r.ord() == self.ord(),
        forall|a: int, b: int| #![trigger r.has(a, b)] r.has(a, b) == self.has(b, a),
        forall|a: int, b: int| #![trigger r.wt(a, b)] r.has(a, b) ==> r.wt(a, b) == self.wt(b, a),
    @closure 1 |mut arcs: Vec<BTreeMap<usize, isize>>, p: (usize, &BTreeMap<usize, isize>)| -> (out: Vec<BTreeMap<usize, isize>>)
    requires
        p.0 < self.ord(),
        *p.1 == self.arcs@[p.0 as int],
        wm_conv_upto(*self, arcs@, p.0 as int),
    ensures
        wm_conv_upto(*self, out@, p.0 + 1),
    @loop 1
    invariant
        self.wf(),
        u < self.ord(),
        *map == self.arcs@[u as int],
        wm_row_items(*self, u as int, it1.seq()),
        wm_conv_mid(*self, arcs@, u as int, it1.seq(), it1.index@),
    @before `for (&v, &w) in map`
        proof {
            // the meaning of the row iterator's item sequence (assumed contract of `<&BTreeMap as IntoIterator>::into_iter`)
            assert forall|seq: Seq<(&usize, &isize)>| (forall|i: int| 0 <= i < seq.len() ==> map@.contains_key(*(#[trigger] seq[i]).0) && map@[*seq[i].0] == *seq[i].1)
                && (forall|k: usize| #[trigger] map@.contains_key(k) ==> seq.contains((&k, &map@[k]))) implies #[trigger] wm_row_items(*self, u as int, seq) by {
                assert forall|b: int| self.has(u as int, b) implies wm_seen(seq, seq.len() as int, b) by {
                    let k = b as usize;
                    assert(map@.contains_key(k));
                    let j = choose|j: int| 0 <= j < seq.len() && seq[j] == (&k, &map@[k]);
                    assert(*seq[j].0 == b);
                }
            }
            assert forall|seq: Seq<(&usize, &isize)>, b: int| !wm_seen(seq, 0, b) by {}
        }
    @loop_start 1
        proof {
            let j = it1.index@ as int;
            assert(self.has(u as int, *it1.seq()[j].0 as int));
            lemma_weighted_wf_has(*self);
        }
    @loop_end 1
        proof {
            let j = it1.index@ as int;
            assert forall|b: int| wm_seen(it1.seq(), j + 1, b) == (wm_seen(it1.seq(), j, b) || b == v) by {
                if wm_seen(it1.seq(), j, b) { let i = choose|i: int| 0 <= i < j && *(#[trigger] it1.seq()[i]).0 == b; assert(0 <= i < j + 1); }
                if b == v { assert(*it1.seq()[j].0 == b); }
                if wm_seen(it1.seq(), j + 1, b) { let i = choose|i: int| 0 <= i < j + 1 && *(#[trigger] it1.seq()[i]).0 == b; if i < j { assert(wm_seen(it1.seq(), j, b)); } }
            }
        }
    @fn_start
        proof {
            assert(self.arcs@.len() == self.arcs.len());
            let rem = self.arcs@.as_ref();
            assert forall|a: int| 0 <= a < rem.len() implies *(#[trigger] rem[a]) == self.arcs@[a] by {}
            // name the last but one accumulator of the fold chain
            assert forall|accs: Seq<Vec<BTreeMap<usize, isize>>>| #![trigger accs.last()] accs.len() >= 2 ==> wm_see(accs[accs.len() - 2]) by {}
        }
    @*/
}
