//@file src/repr/adjacency_list/mod.rs
// ---- C17 / C14: AdjacencyList::complete, built by t worker threads, t = min(order, available_parallelism) ----
// The contract below is the single-threaded definition (complete_arc, units/inc/list_ops.inc.rs); it is proved for an
// arbitrary t >= 1 (prelude/threads_std.rs: `available_parallelism` has no postcondition), i.e. for every thread count.

/// p is row u of complete(order), tagged with its vertex: (u, V \ {u})
spec fn complete_row(order: int, u: int, p: (usize, BTreeSet<usize>)) -> bool {
    p.0 == u && forall|x: usize| #[trigger] p.1@.contains(x) == (x < order && x != u)
}

/// s holds exactly the tagged rows lo, lo+1, .., hi-1 of complete(order), in this order
spec fn chunk_rows(s: Seq<(usize, BTreeSet<usize>)>, order: int, lo: int, hi: int) -> bool {
    s.len() == hi - lo && forall|k: int| 0 <= k < s.len() ==> complete_row(order, lo + k, #[trigger] s[k])
}

/// the number of vertices in the first i chunks of size cs: min(order, i * cs)
spec fn covered(order: int, cs: int, i: int) -> int { if i * cs <= order { i * cs } else { order } }

/// the i-th worker (a non-empty chunk) can only be joined with the rows of chunk i = [i * cs, min(order, (i+1) * cs))
spec fn handle_ok(h: JoinHandle<Vec<(usize, BTreeSet<usize>)>>, order: int, cs: int, i: int) -> bool {
    &&& i * cs < order
    &&& forall|r: Vec<(usize, BTreeSet<usize>)>| #[trigger] joins_to(h, r) ==> chunk_rows(r@, order, i * cs, covered(order, cs, i + 1))
}

/// chunk arithmetic: with cs = ceil(order / t) the t chunks cover 0..order, and t * cs stays below order + t
proof fn lemma_chunks(order: int, t: int, cs: int)
    requires 1 <= t <= order, cs == (order + t - 1) / t,
    ensures cs >= 1, t * cs >= order, t * cs <= order + t - 1,
{
    let x = order + t - 1;
    vstd::arithmetic::div_mod::lemma_fundamental_div_mod(x, t);
    vstd::arithmetic::div_mod::lemma_mod_pos_bound(x, t);
    assert(t * cs == x - x % t);
    assert(cs >= 1) by (nonlinear_arith) requires t >= 1, t * cs >= 1;
}

/// chunk i < t: bounds of `thread_id * chunk_size` and `start + chunk_size`
proof fn lemma_chunk_step(t: int, cs: int, i: int)
    requires 0 <= i < t, cs >= 1,
    ensures 0 <= i * cs, (i + 1) * cs == i * cs + cs, (i + 1) * cs <= t * cs,
{
    assert(0 <= i * cs) by (nonlinear_arith) requires 0 <= i, cs >= 1;
    assert((i + 1) * cs == i * cs + cs) by (nonlinear_arith);
    assert((i + 1) * cs <= t * cs) by (nonlinear_arith) requires i + 1 <= t, cs >= 1;
}

/// the items of the range lo..hi
proof fn lemma_th_range_items(lo: usize, hi: usize)
    ensures
        forall|x: usize| #![trigger (core::ops::Range { start: lo, end: hi }).remaining().contains(x)]
            (core::ops::Range { start: lo, end: hi }).remaining().contains(x) == (lo <= x < hi),
{
    let rem = (core::ops::Range { start: lo, end: hi }).remaining();
    assert forall|x: usize| #![trigger rem.contains(x)] rem.contains(x) == (lo <= x < hi) by {
        if lo <= x < hi { assert(rem[x - lo] == x); }
    }
}

// ---- the final sort is the identity: the joined rows are already in vertex order with pairwise distinct keys ----

/// a strictly increasing sequence of n numbers in 0..n is 0, 1, .., n-1
proof fn lemma_increasing_ge(k: Seq<int>, j: int)
    requires
        forall|i: int| 0 <= i < k.len() ==> 0 <= #[trigger] k[i],
        forall|a: int, b: int| 0 <= a < b < k.len() ==> k[a] < k[b],
        0 <= j < k.len(),
    ensures k[j] >= j,
    decreases j,
{
    if j > 0 { lemma_increasing_ge(k, j - 1); }
}

proof fn lemma_increasing_le(k: Seq<int>, j: int)
    requires
        forall|i: int| 0 <= i < k.len() ==> #[trigger] k[i] < k.len(),
        forall|a: int, b: int| 0 <= a < b < k.len() ==> k[a] < k[b],
        0 <= j < k.len(),
    ensures k[j] <= j,
    decreases k.len() - j,
{
    if j < k.len() - 1 { lemma_increasing_le(k, j + 1); }
}

/// element i carries the key i
spec fn keyed_identity(s: Seq<(usize, BTreeSet<usize>)>) -> bool {
    forall|i: int| 0 <= i < s.len() ==> (#[trigger] s[i]).0 == i
}

/// a rearrangement of s (keys 0, 1, .., n-1 in order) whose keys ascend is s itself: with pairwise distinct keys the
/// sorted order is unique
proof fn lemma_sorted_perm_is_identity(s: Seq<(usize, BTreeSet<usize>)>, p: Seq<(usize, BTreeSet<usize>)>)
    requires
        keyed_identity(s),
        p.to_multiset() == s.to_multiset(),
        forall|i: int, j: int| #![trigger p[i], p[j]] 0 <= i < j < p.len() ==> p[i].0 <= p[j].0,
    ensures
        p == s,
{
    broadcast use vstd::seq_lib::group_to_multiset_ensures;
    let n = s.len() as int;
    assert(p.len() == n) by {
        assert(p.to_multiset().len() == p.len());
        assert(s.to_multiset().len() == s.len());
    }
    assert(s.no_duplicates()) by {
        assert forall|i: int, j: int| 0 <= i < s.len() && 0 <= j < s.len() && i != j implies s[i] != s[j] by {
            assert(s[i].0 == i && s[j].0 == j);
        }
    }
    s.lemma_multiset_has_no_duplicates();
    p.lemma_multiset_has_no_duplicates_conv();
    // every element of p is the element of s with the same key
    assert forall|j: int| 0 <= j < n implies 0 <= (#[trigger] p[j]).0 < n && p[j] == s[p[j].0 as int] by {
        assert(p.contains(p[j]));
        assert(p.to_multiset().count(p[j]) > 0);
        assert(s.contains(p[j]));
        let k = choose|k: int| 0 <= k < s.len() && s[k] == p[j];
        assert(s[k].0 == k);
    }
    let keys = Seq::new(n as nat, |j: int| p[j].0 as int);
    assert forall|a: int, b: int| 0 <= a < b < keys.len() implies keys[a] < keys[b] by {
        assert(p[a].0 <= p[b].0);
        if p[a].0 == p[b].0 {
            assert(p[a] == s[p[a].0 as int] && p[b] == s[p[b].0 as int]);
            assert(p[a] == p[b]);
        }
    }
    assert forall|j: int| 0 <= j < n implies p[j] == s[j] by {
        lemma_increasing_ge(keys, j);
        lemma_increasing_le(keys, j);
        assert(keys[j] == j);
        assert(p[j] == s[p[j].0 as int]);
    }
    assert(p =~= s);
}

impl AdjacencyList {
    // `thread_id * chunk_size` and `start + chunk_size` stay below order + t <= 2 * order: no overflow for order <= usize::MAX / 2.
    // A Vec<BTreeSet<usize>> has at most isize::MAX / 24 elements (larger orders end in the allocator's capacity-overflow
    // panic or an out-of-memory abort); Verus does not model the allocation bound, so it is a precondition here (as for `cycle`).
    /*@fn impl=AdjacencyList trait=Complete name=complete wrap=min props=C17,C14,C13
    requires
        order <= 0x7fff_ffff_ffff_ffff,
    ensures
        order >= 1,
        r.wf(),
        r.ord() == order,
        forall|a: int, b: int| #![trigger r.has(a, b)] r.has(a, b) == complete_arc(order as int, a, b),
    @manual `handle.join().unwrap_unchecked()` => `vx_join_unwrap_unchecked(handle)` :: Verus cannot type `Result<T, Box<dyn Any + Send>>` (dyn with more than one trait): the two calls are fused into one prelude wrapper whose body is exactly this expression
    @closure 1 || -> (ret: Vec<(usize, BTreeSet<usize>)>)
    requires
        start < end <= order,
    ensures
        chunk_rows(ret@, order as int, start as int, end as int),
    @closure 2 |p: &(usize, BTreeSet<usize>)| -> (k: usize)
    ensures
        k == p.0,
    @closure 3 |p: (usize, BTreeSet<usize>)| -> (row: BTreeSet<usize>)
    ensures
        row == p.1,
    @fn_start
        broadcast use vstd::std_specs::iter::group_iter_axioms;
        broadcast use axiom_btree_set_from_iter;
        proof {
            broadcast use vstd::laws_cmp::group_laws_cmp;
            assert(vstd::laws_cmp::obeys_cmp::<usize>());
            // the list is the tail expression: well-formedness is derived from the arc postcondition for any candidate result
            let n = order as int;
            assert forall|g: AdjacencyList| n >= 1 && g.ord() == n && (forall|a: int, b: int| #![trigger g.has(a, b)] g.has(a, b) == complete_arc(n, a, b))
                implies #[trigger] g.wf() by {
                lemma_list_wf_has(g);
            }
        }
    @after `let chunk_size`
        proof { lemma_chunks(order as int, t as int, chunk_size as int); }
    @loop 1
    invariant_except_break
        handles@.len() == it1.index@,
    invariant
        2 <= order <= 0x7fff_ffff_ffff_ffff,
        1 <= t <= order,
        chunk_size >= 1,
        t * chunk_size >= order,
        t * chunk_size <= order + t - 1,
        forall|i: int| 0 <= i < handles@.len() ==> handle_ok(#[trigger] handles@[i], order as int, chunk_size as int, i),
    ensures
        handles@.len() * chunk_size >= order,
    @loop_start 1
        proof {
            assert(thread_id == it1.index@);
            lemma_chunk_step(t as int, chunk_size as int, thread_id as int);
        }
    @before `let mut local`
        broadcast use vstd::std_specs::iter::group_iter_axioms;
        broadcast use axiom_btree_set_from_iter;
    @after `let vertices`
        proof {
            broadcast use vstd::laws_cmp::group_laws_cmp;
            assert(vstd::laws_cmp::obeys_cmp::<usize>());
            lemma_th_range_items(0, order);
            let rem = (core::ops::Range { start: 0usize, end: order }).remaining();
            assert(vertices@ == rem.to_set());
            assert forall|x: usize| #[trigger] vertices@.contains(x) == (x < order) by {
                assert(rem.to_set().contains(x) == rem.contains(x));
            }
        }
    @loop 2
    invariant
        start < end <= order,
        local@.len() == u - start,
        forall|x: usize| #[trigger] vertices@.contains(x) == (x < order),
        forall|k: int| 0 <= k < local@.len() ==> complete_row(order as int, start + k, #[trigger] local@[k]),
    @before `handles.push(handle);`
        proof { assert(handle_ok(handle, order as int, chunk_size as int, thread_id as int)); }
    @before `for handle in handles`
        let ghost hs = handles@;
    @loop 3
    invariant
        it3.seq() == hs,
        chunk_size >= 1,
        hs.len() * chunk_size >= order,
        forall|i: int| 0 <= i < hs.len() ==> handle_ok(#[trigger] hs[i], order as int, chunk_size as int, i),
        arcs@.len() == covered(order as int, chunk_size as int, it3.index@ as int),
        forall|j: int| 0 <= j < arcs@.len() ==> complete_row(order as int, j, #[trigger] arcs@[j]),
    @loop_start 3
        let ghost a0 = arcs@;
        proof {
            let i = it3.index@ as int;
            assert(handle == hs[i]);
            assert(handle_ok(hs[i], order as int, chunk_size as int, i));
            assert((i + 1) * chunk_size == i * chunk_size + chunk_size) by (nonlinear_arith);
        }
    @before `arcs.sort_unstable_by_key`
        let ghost pre = arcs@;
        proof {
            assert(pre.len() == order);
            assert(keyed_identity(pre));
        }
    @after `arcs.sort_unstable_by_key`
        proof {
            lemma_sorted_perm_is_identity(pre, arcs@);
        }
    @*/
}

// ---- thread-parallel functions of this file that are NOT under contract (reported, not papered over) ----
// degree_sequence: `scope(|s| { for (chunk, local_indegrees) in self.arcs.chunks(cs).zip(indegree_chunks.iter_mut()) { s.spawn(move || ..
//   *local_indegrees.get_unchecked_mut(v) += 1 ..) } })`: the scope closure and every worker capture a `&mut`.
//   Verus on the extracted function: "Verus does not currently support closures capturing a mutable reference for variables of
//   any mode" (at `indegree_chunks.iter_mut()`), and on the worker alone: "Verus does not currently support closures capturing a
//   mutable reference (mutably captured variable ..)".
// is_semicomplete: `self.arcs.as_ptr() as usize` handed to scoped workers, `arcs_ptr_usize as *const BTreeSet<usize>`, `&*ptr.add(u)`;
//   the workers return () and communicate through a shared `Arc<AtomicBool>` with Relaxed loads/stores.  Extractor:
//   "E5: unsupported pointer use `self.arcs.as_ptr()` at line 965; E5: cast to raw pointer".  Beyond the pointer rule, the result
//   travels through shared memory, which the spawn/join contract (a worker's effect is its return value) does not cover.
// complement: the workers are `'static` `spawn`ed closures that read the main thread's `full: Vec<usize>` through its address
//   (`full_ptr as usize` .. `full_ptr_usize as *const usize` .. `*full_ptr.add(i)`).  Extractor: "E5: cast to raw pointer".  Rule E5
//   would have to turn `*full_ptr.add(i)` into `full[i]`, i.e. make the `move` closures capture `full` itself, which does not
//   borrow-check (moved in the first iteration; not 'static by reference): the shared read-only memory has no safe-Rust shape.
// union: three addresses (`self.arcs.as_ptr() as usize`, `other.arcs.as_ptr() as usize`, `arcs.as_mut_ptr() as usize`), the scoped
//   workers `write(arcs_ptr.add(u), ..)` into disjoint parts of the main thread's Vec.  Extractor: "E5: unsupported pointer use
//   `self.arcs.as_ptr()` at line 1286; .. `other.arcs.as_ptr()` at line 1287; .. `arcs.as_mut_ptr()` at line 1288; E5: cast to raw
//   pointer" (x3).  Needs a separation argument over shared mutable memory (only `merge_two_sorted`, its sequential kernel, is
//   proved: units/inc/list_ops.inc.rs).
