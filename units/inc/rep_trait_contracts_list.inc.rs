//@file src/repr/adjacency_list/mod.rs
// ---- Closing trait-contract assumptions, AdjacencyList part 2: the methods under contract in unit list_more ----
// (part 1 - wf, order, contiguous_order, has_arc, vertices, outdegree, arcs - is in unit rep_trait_contracts; the `tc_*`
// predicates are the shared text units/inc/rep_trait_contracts_tc.inc.rs, proved equal to the Dg / Dgo ensures texts there)
mod list_more_side {
use super::*;
//@import units/inc/list_core.inc.rs
//@import units/inc/list_ops.inc.rs
//@import units/inc/list_more.inc.rs

/// the arc relation of the list as the `has` of a trait contract (ord := g.ord())
spec fn lhas(g: AdjacencyList) -> spec_fn(int, int) -> bool { |a: int, b: int| g.has(a, b) }

/// OutNeighbors::out_neighbors (proved in list_more: `u < self.ord()`, protocol, `lists_row(*self, u as int, r.remaining())`:
/// the items are exactly the out-neighbours of u, strictly ascending).  ALL clauses of Dg::out_neighbors /
/// Dgo::out_neighbors follow, coverage included and unconditionally (the row iterator is a source, not a lazy adapter over
/// the vertex range).
proof fn lemma_list_meets_out_neighbors<I: Iterator<Item = usize>>(g: AdjacencyList, u: usize, r: I)
    requires
        u < g.ord(),
        r.obeys_prophetic_iter_laws(),
        r.decrease() is Some,
        lists_row(g, u as int, r.remaining()),
    ensures
        tc_iter(r),
        tc_nb_sound(lhas(g), u, r.remaining()),
        tc_nb_cover(lhas(g), u, r.remaining()),
{
    let rem = r.remaining();
    assert forall|i: int| 0 <= i < rem.len() implies lhas(g)(u as int, #[trigger] rem[i] as int) by {
        assert(rem.contains(rem[i]));
        assert(g.has(u as int, rem[i] as int) == (0 <= rem[i] as int <= usize::MAX && rem.contains((rem[i] as int) as usize)));
    }
    assert forall|v: usize| lhas(g)(u as int, v as int) implies #[trigger] rem.contains(v) by {
        assert(g.has(u as int, v as int));
    }
}

/// Indegree::indegree (proved in list_more: `v < self.ord()`, `r == self.in_deg(v as int)`, the cardinality of the set of
/// vertices a below ord with has(a, v)): the ensures of Dgo::indegree
proof fn lemma_list_meets_indegree(g: AdjacencyList, v: usize, r: usize)
    requires v < g.ord(), r == g.in_deg(v as int),
    ensures tc_indegree(g.ord() as nat, lhas(g), v, r),
{
    range_set_properties::<int>(0, g.ord());
    assert(list_in_set(g, v as int, g.ord()) =~= tc_in_set(g.ord() as nat, lhas(g), v as int));
}

/// Outdegree::outdegree, second route (list_core proves `r == self.row(u).len()`, list_more's `lemma_list_row_len` identifies
/// that with the degree defined from (V, A)); the direct lemma is `lemma_list_meets_outdegree` in unit rep_trait_contracts
proof fn lemma_list_meets_outdegree_via_out_deg(g: AdjacencyList, u: usize, r: usize)
    requires g.wf(), u < g.ord(), r == g.row(u as int).len(),
    ensures tc_outdegree(g.ord() as nat, lhas(g), u, r),
{
    lemma_list_row_len(g, u as int);
    range_set_properties::<int>(0, g.ord());
    assert(list_out_set(g, u as int, g.ord()) =~= tc_out_set(g.ord() as nat, lhas(g), u as int));
}
} // mod list_more_side
