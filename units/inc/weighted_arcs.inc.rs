//@file src/repr/adjacency_list_weighted/mod.rs
// ---- AdjacencyListWeighted::arcs / arcs_weighted (rule E14d: the returned flat_map pipeline is evaluated eagerly into a Vec) ----
// The contract of `arcs` is, clause for clause, the contract that unit weighted_ctor ASSUMES for `arcs()` (prelude/weighted_ctor_std.rs).

/// lexicographic order on arcs (verbatim from prelude/weighted_ctor_std.rs)
spec fn wctor_lex_lt(a: (usize, usize), b: (usize, usize)) -> bool { a.0 < b.0 || (a.0 == b.0 && a.1 < b.1) }

/// `s` lists exactly the pairs (u, v) with `u < rows.len()` and `v` a key of `rows[u]`, each exactly once, in ascending
/// lexicographic order (verbatim from prelude/weighted_ctor_std.rs)
spec fn wctor_arcs_of<W>(rows: Seq<BTreeMap<usize, W>>, s: Seq<(usize, usize)>) -> bool {
    &&& forall|u: usize, v: usize| u < rows.len() && #[trigger] rows[u as int]@.contains_key(v) ==> s.contains((u, v))
    &&& forall|i: int| 0 <= i < s.len() ==> (#[trigger] s[i]).0 < rows.len() && rows[s[i].0 as int]@.contains_key(s[i].1)
    &&& forall|i: int, j: int| 0 <= i < j < s.len() ==> wctor_lex_lt(#[trigger] s[i], #[trigger] s[j])
}

/// item sequence of `enumerate` over `s`
spec fn wa_enum_seq<T>(s: Seq<T>) -> Seq<(usize, T)> { Seq::new(s.len(), |i: int| (i as usize, s[i])) }

/// what `BTreeMap::iter` promises about the item sequence `s` of the row `m`: entries of m, all of them, keys ascending
spec fn wa_row_items<W>(m: Map<usize, W>, s: Seq<(&usize, &W)>) -> bool {
    &&& forall|i: int| 0 <= i < s.len() ==> m.contains_key(*(#[trigger] s[i]).0) && m[*s[i].0] == *s[i].1
    &&& forall|k: usize| #[trigger] m.contains_key(k) ==> s.contains((&k, &m[k]))
    &&& forall|i: int, j: int| 0 <= i < j < s.len() ==> *(#[trigger] s[i]).0 < *(#[trigger] s[j]).0
}

/// `acc` lists exactly the arcs of the rows below `n`, ascending
spec fn wa_prefix<W>(rows: Seq<BTreeMap<usize, W>>, acc: Seq<(usize, usize)>, n: int) -> bool {
    &&& forall|a: usize, b: usize| a < n && a < rows.len() && #[trigger] rows[a as int]@.contains_key(b) ==> acc.contains((a, b))
    &&& forall|i: int| 0 <= i < acc.len() ==> (#[trigger] acc[i]).0 < n && acc[i].0 < rows.len() && rows[acc[i].0 as int]@.contains_key(acc[i].1)
    &&& forall|i: int, j: int| 0 <= i < j < acc.len() ==> wctor_lex_lt(#[trigger] acc[i], #[trigger] acc[j])
}

/// the pairs pushed for the first `n` items of row u
spec fn wa_row_part<W>(u: usize, items: Seq<(&usize, &W)>, n: int) -> Seq<(usize, usize)> {
    Seq::new(n as nat, |k: int| (u, *items[k].0))
}

proof fn lemma_wa_row_done<W>(rows: Seq<BTreeMap<usize, W>>, acc0: Seq<(usize, usize)>, acc: Seq<(usize, usize)>, u: usize, items: Seq<(&usize, &W)>)
    requires
        u < rows.len(),
        wa_prefix(rows, acc0, u as int),
        wa_row_items(rows[u as int]@, items),
        acc == acc0 + wa_row_part(u, items, items.len() as int),
    ensures
        wa_prefix(rows, acc, u + 1),
{
    let n0 = acc0.len() as int;
    let m = rows[u as int]@;
    assert forall|a: usize, b: usize| a < u + 1 && a < rows.len() && #[trigger] rows[a as int]@.contains_key(b) implies acc.contains((a, b)) by {
        if a < u {
            assert(acc0.contains((a, b)));
            let i = choose|i: int| 0 <= i < acc0.len() && acc0[i] == (a, b);
            assert(acc[i] == (a, b));
        } else {
            assert(m.contains_key(b));
            assert(items.contains((&b, &m[b])));
            let k = choose|k: int| 0 <= k < items.len() && items[k] == (&b, &m[b]);
            assert(acc[n0 + k] == (a, b));
        }
    }
    assert forall|i: int| 0 <= i < acc.len() implies (#[trigger] acc[i]).0 < u + 1 && acc[i].0 < rows.len() && rows[acc[i].0 as int]@.contains_key(acc[i].1) by {
        if i < n0 { assert(acc[i] == acc0[i]); } else { assert(acc[i] == (u, *items[i - n0].0)); }
    }
    assert forall|i: int, j: int| 0 <= i < j < acc.len() implies wctor_lex_lt(#[trigger] acc[i], #[trigger] acc[j]) by {
        if i < n0 { assert(acc[i] == acc0[i]); } else { assert(acc[i] == (u, *items[i - n0].0)); }
        if j < n0 { assert(acc[j] == acc0[j]); } else { assert(acc[j] == (u, *items[j - n0].0)); }
    }
}

impl<W> AdjacencyListWeighted<W> {
    /*@fn impl=AdjacencyListWeighted trait=Arcs name=arcs loopify=Vec noisolation fuse eager wrap=enumerate subst="Iterator<Item=(usize,usize)>=>Iterator<Item=(usize,usize)>+use<'_,W>" props=C01,C16,C13
    ensures
        r.obeys_prophetic_iter_laws(),
        r.decrease() is Some,
        wctor_arcs_of(self.arcs@, r.remaining()),
    @fn_start
        broadcast use vstd::laws_cmp::group_laws_cmp;
        proof {
            assert(vstd::laws_cmp::obeys_cmp::<usize>());
            let rem = self.arcs@.as_ref();
            assert forall|e: Seq<(usize, &BTreeMap<usize, W>)>| #[trigger] e.len() == rem.len() && (forall|i: int| 0 <= i < rem.len() ==> #[trigger] e[i] == (i as usize, rem[i]))
                implies e == wa_enum_seq(rem) by { assert(e =~= wa_enum_seq(rem)); }
            // ascending: `BTreeMap::iter` promises `increasing_seq` of the key projection `f` of its items
            assert forall|src: Seq<(&usize, &W)>, f: spec_fn((&usize, &W)) -> usize, i: int, j: int|
                #[trigger] vstd::std_specs::btree::increasing_seq(src.map_values(f)) && 0 <= i < j < src.len()
                implies f(#[trigger] src[i]) < f(#[trigger] src[j]) by {
                lemma_weighted_increasing(src.map_values(f), i, j);
            }
        }
    @loop 1
    invariant
        it1.iter.obeys_prophetic_iter_laws(),
        it1.iter.decrease() is Some,
        it1.seq() == wa_enum_seq(self.arcs@.as_ref()),
        wa_prefix(self.arcs@, vx_acc1@, it1.index() as int),
    @loop_start 1
        let ghost acc0 = vx_acc1@;
        proof {
            let i = it1.index() as int;
            assert(self.arcs@.len() == self.arcs.len());   // hence i fits a usize
            assert(it1.seq()[i] == (i as usize, self.arcs@.as_ref()[i]));
            // an empty row adds nothing
            assert forall|items: Seq<(&usize, &W)>| #[trigger] wa_row_items(set@, items) && items.len() == 0 implies wa_prefix(self.arcs@, acc0, u + 1) by {
                assert(acc0 =~= acc0 + wa_row_part(u, items, 0));
                lemma_wa_row_done(self.arcs@, acc0, acc0, u, items);
            }
        }
    @loop 2
    invariant
        it2.iter.obeys_prophetic_iter_laws(),
        it2.iter.decrease() is Some,
        u == it1.index(),
        u < self.arcs@.len(),
        *set == self.arcs@[u as int],
        wa_row_items(set@, it2.seq()),
        wa_prefix(self.arcs@, acc0, u as int),
        vx_acc1@ == acc0 + wa_row_part(u, it2.seq(), it2.index@ as int),
        it2.index@ == it2.seq().len() ==> wa_prefix(self.arcs@, vx_acc1@, u + 1),
    @loop_end 2
        proof {
            assert(vx_acc1@ =~= acc0 + wa_row_part(u, it2.seq(), it2.index@ + 1));
            assert(it2.index@ + 1 == it2.seq().len() ==> wa_prefix(self.arcs@, vx_acc1@, u + 1)) by {
                if it2.index@ + 1 == it2.seq().len() {
                    lemma_wa_row_done(self.arcs@, acc0, vx_acc1@, u, it2.seq());
                }
            }
        }
    @*/
}

// ---- arcs_weighted ----

/// `s` lists exactly the triples (u, v, &w) with `u < rows.len()`, `v` a key of `rows[u]` and `w` its weight, each arc exactly
/// once, in ascending lexicographic order of (u, v). Stated over the raw rows: nothing is assumed about their validity.
spec fn wa_warcs_of<W>(rows: Seq<BTreeMap<usize, W>>, s: Seq<(usize, usize, &W)>) -> bool {
    &&& forall|u: usize, v: usize| u < rows.len() && #[trigger] rows[u as int]@.contains_key(v) ==> s.contains((u, v, &rows[u as int]@[v]))
    &&& forall|i: int| 0 <= i < s.len() ==> (#[trigger] s[i]).0 < rows.len() && rows[s[i].0 as int]@.contains_key(s[i].1)
            && *s[i].2 == rows[s[i].0 as int]@[s[i].1]
    &&& forall|i: int, j: int| 0 <= i < j < s.len() ==> wctor_lex_lt(((#[trigger] s[i]).0, s[i].1), ((#[trigger] s[j]).0, s[j].1))
}

/// `acc` lists exactly the weighted arcs of the rows below `n`, ascending
spec fn wa_wprefix<W>(rows: Seq<BTreeMap<usize, W>>, acc: Seq<(usize, usize, &W)>, n: int) -> bool {
    &&& forall|a: usize, b: usize| a < n && a < rows.len() && #[trigger] rows[a as int]@.contains_key(b) ==> acc.contains((a, b, &rows[a as int]@[b]))
    &&& forall|i: int| 0 <= i < acc.len() ==> (#[trigger] acc[i]).0 < n && acc[i].0 < rows.len() && rows[acc[i].0 as int]@.contains_key(acc[i].1)
            && *acc[i].2 == rows[acc[i].0 as int]@[acc[i].1]
    &&& forall|i: int, j: int| 0 <= i < j < acc.len() ==> wctor_lex_lt(((#[trigger] acc[i]).0, acc[i].1), ((#[trigger] acc[j]).0, acc[j].1))
}

/// the triples pushed for the first `n` items of row u
spec fn wa_wrow_part<'a, W>(u: usize, items: Seq<(&'a usize, &'a W)>, n: int) -> Seq<(usize, usize, &'a W)> {
    Seq::new(n as nat, |k: int| (u, *items[k].0, items[k].1))
}

proof fn lemma_wa_wrow_done<W>(rows: Seq<BTreeMap<usize, W>>, acc0: Seq<(usize, usize, &W)>, acc: Seq<(usize, usize, &W)>, u: usize, items: Seq<(&usize, &W)>)
    requires
        u < rows.len(),
        wa_wprefix(rows, acc0, u as int),
        wa_row_items(rows[u as int]@, items),
        acc == acc0 + wa_wrow_part(u, items, items.len() as int),
    ensures
        wa_wprefix(rows, acc, u + 1),
{
    let n0 = acc0.len() as int;
    let m = rows[u as int]@;
    assert forall|a: usize, b: usize| a < u + 1 && a < rows.len() && #[trigger] rows[a as int]@.contains_key(b) implies acc.contains((a, b, &rows[a as int]@[b])) by {
        if a < u {
            assert(acc0.contains((a, b, &rows[a as int]@[b])));
            let i = choose|i: int| 0 <= i < acc0.len() && acc0[i] == (a, b, &rows[a as int]@[b]);
            assert(acc[i] == (a, b, &rows[a as int]@[b]));
        } else {
            assert(m.contains_key(b));
            assert(items.contains((&b, &m[b])));
            let k = choose|k: int| 0 <= k < items.len() && items[k] == (&b, &m[b]);
            assert(acc[n0 + k] == (a, b, &m[b]));
        }
    }
    assert forall|i: int| 0 <= i < acc.len() implies (#[trigger] acc[i]).0 < u + 1 && acc[i].0 < rows.len() && rows[acc[i].0 as int]@.contains_key(acc[i].1)
        && *acc[i].2 == rows[acc[i].0 as int]@[acc[i].1] by {
        if i < n0 { assert(acc[i] == acc0[i]); } else { assert(acc[i] == (u, *items[i - n0].0, items[i - n0].1)); }
    }
    assert forall|i: int, j: int| 0 <= i < j < acc.len() implies wctor_lex_lt(((#[trigger] acc[i]).0, acc[i].1), ((#[trigger] acc[j]).0, acc[j].1)) by {
        if i < n0 { assert(acc[i] == acc0[i]); } else { assert(acc[i] == (u, *items[i - n0].0, items[i - n0].1)); }
        if j < n0 { assert(acc[j] == acc0[j]); } else { assert(acc[j] == (u, *items[j - n0].0, items[j - n0].1)); }
    }
}

/// `wa_warcs_of` implies, clause for clause, the contract that units dijkstra / bfm / floyd_warshall ASSUME for `arcs_weighted`
/// of their opaque digraph (prelude/dgw_isize.rs, prelude/dgw_usize.rs), with has / wt of this representation
proof fn lemma_wa_warcs_trait_contract<W>(g: AdjacencyListWeighted<W>, s: Seq<(usize, usize, &W)>)
    requires wa_warcs_of(g.arcs@, s),
    ensures
        forall|i: int, j: int| 0 <= i < j < s.len() ==> !((#[trigger] s[i]).0 == (#[trigger] s[j]).0 && s[i].1 == s[j].1),
        forall|u: usize, v: usize| g.has(u as int, v as int) ==> exists|i: int| 0 <= i < s.len() && (#[trigger] s[i]).0 == u && s[i].1 == v,
        forall|i: int| 0 <= i < s.len() ==> g.has((#[trigger] s[i]).0 as int, s[i].1 as int) && *s[i].2 == g.wt(s[i].0 as int, s[i].1 as int),
{
    assert forall|i: int, j: int| 0 <= i < j < s.len() implies !((#[trigger] s[i]).0 == (#[trigger] s[j]).0 && s[i].1 == s[j].1) by {
        assert(wctor_lex_lt((s[i].0, s[i].1), (s[j].0, s[j].1)));
    }
    assert forall|u: usize, v: usize| g.has(u as int, v as int) implies exists|i: int| 0 <= i < s.len() && (#[trigger] s[i]).0 == u && s[i].1 == v by {
        assert(g.arcs@[u as int]@.contains_key(v));
        let t = (u, v, &g.arcs@[u as int]@[v]);
        assert(s.contains(t));
        let i = choose|i: int| 0 <= i < s.len() && s[i] == t;
        assert(s[i].0 == u && s[i].1 == v);
    }
}

impl<W> AdjacencyListWeighted<W> {
    /*@fn impl=AdjacencyListWeighted trait=ArcsWeighted name=arcs_weighted loopify=Vec noisolation fuse eager wrap=enumerate subst="Iterator<Item=(usize,usize,&W)>=>Iterator<Item=(usize,usize,&W)>+use<'_,W>" props=C01,C13
    ensures
        r.obeys_prophetic_iter_laws(),
        r.decrease() is Some,
        wa_warcs_of(self.arcs@, r.remaining()),
    @fn_start
        broadcast use vstd::laws_cmp::group_laws_cmp;
        proof {
            assert(vstd::laws_cmp::obeys_cmp::<usize>());
            let rem = self.arcs@.as_ref();
            assert forall|e: Seq<(usize, &BTreeMap<usize, W>)>| #[trigger] e.len() == rem.len() && (forall|i: int| 0 <= i < rem.len() ==> #[trigger] e[i] == (i as usize, rem[i]))
                implies e == wa_enum_seq(rem) by { assert(e =~= wa_enum_seq(rem)); }
            assert forall|src: Seq<(&usize, &W)>, f: spec_fn((&usize, &W)) -> usize, i: int, j: int|
                #[trigger] vstd::std_specs::btree::increasing_seq(src.map_values(f)) && 0 <= i < j < src.len()
                implies f(#[trigger] src[i]) < f(#[trigger] src[j]) by {
                lemma_weighted_increasing(src.map_values(f), i, j);
            }
        }
    @loop 1
    invariant
        it1.iter.obeys_prophetic_iter_laws(),
        it1.iter.decrease() is Some,
        it1.seq() == wa_enum_seq(self.arcs@.as_ref()),
        wa_wprefix(self.arcs@, vx_acc1@, it1.index() as int),
    @loop_start 1
        let ghost acc0 = vx_acc1@;
        proof {
            let i = it1.index() as int;
            assert(self.arcs@.len() == self.arcs.len());   // hence i fits a usize
            assert(it1.seq()[i] == (i as usize, self.arcs@.as_ref()[i]));
            // an empty row adds nothing
            assert forall|items: Seq<(&usize, &W)>| #[trigger] wa_row_items(map@, items) && items.len() == 0 implies wa_wprefix(self.arcs@, acc0, u + 1) by {
                assert(acc0 =~= acc0 + wa_wrow_part(u, items, 0));
                lemma_wa_wrow_done(self.arcs@, acc0, acc0, u, items);
            }
        }
    @loop 2
    invariant
        it2.iter.obeys_prophetic_iter_laws(),
        it2.iter.decrease() is Some,
        u == it1.index(),
        u < self.arcs@.len(),
        *map == self.arcs@[u as int],
        wa_row_items(map@, it2.seq()),
        wa_wprefix(self.arcs@, acc0, u as int),
        vx_acc1@ == acc0 + wa_wrow_part(u, it2.seq(), it2.index@ as int),
        it2.index@ == it2.seq().len() ==> wa_wprefix(self.arcs@, vx_acc1@, u + 1),
    @loop_end 2
        proof {
            assert(vx_acc1@ =~= acc0 + wa_wrow_part(u, it2.seq(), it2.index@ + 1));
            assert(it2.index@ + 1 == it2.seq().len() ==> wa_wprefix(self.arcs@, vx_acc1@, u + 1)) by {
                if it2.index@ + 1 == it2.seq().len() {
                    lemma_wa_wrow_done(self.arcs@, acc0, vx_acc1@, u, it2.seq());
                }
            }
        }
    @*/
}
