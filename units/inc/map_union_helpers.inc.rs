//@file src/repr/adjacency_map/mod.rs
// ==== the sequential helpers of the threaded `AdjacencyMap::union` (which itself stays out of reach) ====

// ---- merge_two_sorted: merging two strictly increasing slices ----
// (the AdjacencyList twin is proved in units/inc/list_ops.inc.rs under the PRECONDITION that both inputs are sorted and that the
// two lengths do not overflow; here nothing is required: memory safety and the element set hold for all inputs, only the order
// of the output depends on the order of the inputs.)

spec fn strictly_inc(s: Seq<usize>) -> bool {
    forall|a: int, b: int| 0 <= a < b < s.len() ==> s[a] < s[b]
}

/// loop invariant of the merge, part 1 (all inputs): `out` holds exactly the elements of l[..i] and r[..j]
spec fn merged_set(out: Seq<usize>, l: Seq<usize>, r: Seq<usize>, i: int, j: int) -> bool {
    &&& 0 <= i <= l.len() && 0 <= j <= r.len()
    &&& out.len() <= i + j
    &&& forall|k: int| 0 <= k < out.len() ==> (exists|a: int| 0 <= a < i && l[a] == #[trigger] out[k]) || (exists|b: int| 0 <= b < j && r[b] == out[k])
    &&& forall|a: int| 0 <= a < i ==> out.contains(#[trigger] l[a])
    &&& forall|b: int| 0 <= b < j ==> out.contains(#[trigger] r[b])
}

/// loop invariant of the merge, part 2 (sorted inputs): `out` is strictly increasing and lies below both cursors
spec fn merged_ord(out: Seq<usize>, l: Seq<usize>, r: Seq<usize>, i: int, j: int) -> bool {
    &&& strictly_inc(out)
    &&& forall|k: int| 0 <= k < out.len() ==> (i < l.len() ==> #[trigger] out[k] < l[i]) && (j < r.len() ==> out[k] < r[j])
}

// The lemmas below are called from hints inside the extracted code.  They have NO preconditions: what they need is the
// hypothesis of an implication in their `ensures`, so that a change of the code that invalidates a hypothesis surfaces as a
// failed contract clause (invariant / postcondition) of the function, never as a failed hint.

/// what a push step needs: di/dj say which cursors advance, x is the element under each advancing cursor
spec fn push_step(l: Seq<usize>, r: Seq<usize>, i: int, j: int, x: usize, di: int, dj: int) -> bool {
    &&& (di == 0 || di == 1) && (dj == 0 || dj == 1) && di + dj >= 1
    &&& di == 1 ==> 0 <= i < l.len() && l[i] == x
    &&& dj == 1 ==> 0 <= j < r.len() && r[j] == x
}

/// pushing x (an element under an advancing cursor) keeps part 1
proof fn lemma_merge_push_set(out: Seq<usize>, l: Seq<usize>, r: Seq<usize>, i: int, j: int, x: usize, di: int, dj: int)
    ensures
        merged_set(out, l, r, i, j) && push_step(l, r, i, j, x, di, dj) ==> merged_set(out.push(x), l, r, i + di, j + dj),
{
    if !(merged_set(out, l, r, i, j) && push_step(l, r, i, j, x, di, dj)) { return; }
    let o2 = out.push(x);
    assert forall|k: int| 0 <= k < o2.len() implies (exists|a: int| 0 <= a < i + di && l[a] == #[trigger] o2[k]) || (exists|b: int| 0 <= b < j + dj && r[b] == o2[k]) by {
        if k < out.len() {
            assert(o2[k] == out[k]);
            if exists|a: int| 0 <= a < i && l[a] == out[k] {
                let a = choose|a: int| 0 <= a < i && l[a] == out[k];
                assert(0 <= a < i + di && l[a] == o2[k]);
            } else {
                let b = choose|b: int| 0 <= b < j && r[b] == out[k];
                assert(0 <= b < j + dj && r[b] == o2[k]);
            }
        } else {
            if di == 1 { assert(0 <= i < i + di && l[i] == o2[k]); } else { assert(0 <= j < j + dj && r[j] == o2[k]); }
        }
    }
    assert forall|a: int| 0 <= a < i + di implies o2.contains(#[trigger] l[a]) by {
        if a < i {
            let k = choose|k: int| 0 <= k < out.len() && out[k] == l[a];
            assert(o2[k] == l[a]);
        } else {
            assert(o2[out.len() as int] == l[a]);
        }
    }
    assert forall|b: int| 0 <= b < j + dj implies o2.contains(#[trigger] r[b]) by {
        if b < j {
            let k = choose|k: int| 0 <= k < out.len() && out[k] == r[b];
            assert(o2[k] == r[b]);
        } else {
            assert(o2[out.len() as int] == r[b]);
        }
    }
}

/// pushing x (the smaller cursor element) keeps part 2 when both inputs are strictly increasing
proof fn lemma_merge_push_ord(out: Seq<usize>, l: Seq<usize>, r: Seq<usize>, i: int, j: int, x: usize, di: int, dj: int)
    ensures
        strictly_inc(l) && strictly_inc(r)
            && 0 <= i <= l.len() && 0 <= j <= r.len()
            && merged_ord(out, l, r, i, j) && push_step(l, r, i, j, x, di, dj)
            && (di == 0 && i < l.len() ==> x < l[i])
            && (dj == 0 && j < r.len() ==> x < r[j])
        ==> merged_ord(out.push(x), l, r, i + di, j + dj),
{
    if !(strictly_inc(l) && strictly_inc(r)
            && 0 <= i <= l.len() && 0 <= j <= r.len()
            && merged_ord(out, l, r, i, j) && push_step(l, r, i, j, x, di, dj)
            && (di == 0 && i < l.len() ==> x < l[i])
            && (dj == 0 && j < r.len() ==> x < r[j])) { return; }
    let o2 = out.push(x);
    assert forall|k: int| 0 <= k < o2.len() implies (i + di < l.len() ==> #[trigger] o2[k] < l[i + di]) && (j + dj < r.len() ==> o2[k] < r[j + dj]) by {
        if k < out.len() { assert(o2[k] == out[k]); }
    }
    assert(strictly_inc(o2)) by {
        assert forall|a: int, b: int| 0 <= a < b < o2.len() implies o2[a] < o2[b] by {
            if b < out.len() { assert(o2[a] == out[a] && o2[b] == out[b]); } else { assert(o2[a] == out[a]); }
        }
    }
}

/// at the end of the merge the output holds exactly the union
proof fn lemma_merge_done(out: Seq<usize>, l: Seq<usize>, r: Seq<usize>)
    ensures merged_set(out, l, r, l.len() as int, r.len() as int) ==> forall|x: usize| out.contains(x) == (l.contains(x) || r.contains(x)),
{
    if !merged_set(out, l, r, l.len() as int, r.len() as int) { return; }
    assert forall|x: usize| out.contains(x) == (l.contains(x) || r.contains(x)) by {
        if out.contains(x) {
            let k = choose|k: int| 0 <= k < out.len() && out[k] == x;
            assert((exists|a: int| 0 <= a < l.len() && l[a] == out[k]) || (exists|b: int| 0 <= b < r.len() && r[b] == out[k]));
        }
        if l.contains(x) {
            let a = choose|a: int| 0 <= a < l.len() && l[a] == x;
            assert(out.contains(l[a]));
        }
        if r.contains(x) {
            let b = choose|b: int| 0 <= b < r.len() && r[b] == x;
            assert(out.contains(r[b]));
        }
    }
}

// No precondition: every `get_unchecked` index is in bounds and `lhs_len + rhs_len` does not overflow for ALL inputs (C13;
// the latter by the allocation bound of slices, assumption A2 of prelude/map_union_helpers_std.rs).  The element set of the
// result is the union of both inputs for ALL inputs; it is strictly increasing when both inputs are (C11).
/*@fn name=merge_two_sorted wrap=len props=C11,C13
ensures
    forall|x: usize| r@.contains(x) == (lhs@.contains(x) || rhs@.contains(x)),
    r@.len() <= lhs@.len() + rhs@.len(),
    strictly_inc(lhs@) && strictly_inc(rhs@) ==> strictly_inc(r@),
@before `let mut out`
    proof { assert(core::mem::size_of::<usize>() == 8); }
@loop 1
invariant
    lhs_len == lhs@.len(),
    rhs_len == rhs@.len(),
    merged_set(out@, lhs@, rhs@, i as int, j as int),
    strictly_inc(lhs@) && strictly_inc(rhs@) ==> merged_ord(out@, lhs@, rhs@, i as int, j as int),
decreases
    lhs_len - i + rhs_len - j,
@loop 2
invariant
    i == lhs@.len() || j == rhs@.len(),
    merged_set(out@, lhs@, rhs@, i as int, j as int),
    strictly_inc(lhs@) && strictly_inc(rhs@) ==> merged_ord(out@, lhs@, rhs@, i as int, j as int),
decreases
    lhs@.len() - i,
@loop 3
invariant
    i == lhs@.len(),
    merged_set(out@, lhs@, rhs@, i as int, j as int),
    strictly_inc(lhs@) && strictly_inc(rhs@) ==> merged_ord(out@, lhs@, rhs@, i as int, j as int),
decreases
    rhs@.len() - j,
@before #1 `out.push(a_i);`
    proof {
        lemma_merge_push_set(out@, lhs@, rhs@, i as int, j as int, a_i, 1, 0);
        lemma_merge_push_ord(out@, lhs@, rhs@, i as int, j as int, a_i, 1, 0);
    }
@before `out.push(b_j);`
    proof {
        lemma_merge_push_set(out@, lhs@, rhs@, i as int, j as int, b_j, 0, 1);
        lemma_merge_push_ord(out@, lhs@, rhs@, i as int, j as int, b_j, 0, 1);
    }
@before #2 `out.push(a_i);`
    proof {
        lemma_merge_push_set(out@, lhs@, rhs@, i as int, j as int, a_i, 1, 1);
        lemma_merge_push_ord(out@, lhs@, rhs@, i as int, j as int, a_i, 1, 1);
    }
@before `out.push(*lhs.get_unchecked(i));`
    proof {
        lemma_merge_push_set(out@, lhs@, rhs@, i as int, j as int, lhs@[i as int], 1, 0);
        lemma_merge_push_ord(out@, lhs@, rhs@, i as int, j as int, lhs@[i as int], 1, 0);
    }
@before `out.push(*rhs.get_unchecked(j));`
    proof {
        lemma_merge_push_set(out@, lhs@, rhs@, i as int, j as int, rhs@[j as int], 0, 1);
        lemma_merge_push_ord(out@, lhs@, rhs@, i as int, j as int, rhs@[j as int], 0, 1);
    }
@fn_end
    proof { lemma_merge_done(out@, lhs@, rhs@); }
@*/

// ---- union_sets_unsafe: both sets listed in ascending order, merged, collected again ----

/// listing both sets, merging the listings and taking the element set gives the union (hypotheses inside the ensures: see above)
proof fn lemma_union_listing(va: Seq<usize>, vb: Seq<usize>, m: Seq<usize>, sa: Set<usize>, sb: Set<usize>)
    ensures
        va.to_set() == sa && vb.to_set() == sb && (forall|x: usize| m.contains(x) == (va.contains(x) || vb.contains(x)))
            ==> m.to_set() == sa.union(sb),
{
    if va.to_set() == sa && vb.to_set() == sb && (forall|x: usize| m.contains(x) == (va.contains(x) || vb.contains(x))) {
        assert forall|x: usize| m.to_set().contains(x) == sa.union(sb).contains(x) by {
            assert(va.to_set().contains(x) == va.contains(x));
            assert(vb.to_set().contains(x) == vb.contains(x));
        }
        assert(m.to_set() =~= sa.union(sb));
    }
}

// C11: the result is exactly the union of both operands (the arcs u->v of the union row are those of either row).
// (`merge_two_sorted` is called on the ascending listings of both sets; its element-set postcondition does not depend on that.)
/*@fn name=union_sets_unsafe wrap=copied props=C11,C13
ensures
    r@ == set_a@.union(set_b@),
@fn_start
    broadcast use vstd::std_specs::iter::group_iter_axioms;
    broadcast use vstd::laws_cmp::group_laws_cmp;
    broadcast use axiom_btree_set_from_iter;
@fn_end
    proof { lemma_union_listing(vec_a@, vec_b@, merged@, set_a@, set_b@); }
@*/

// ---- find_partition: the split point of diagonal r of the two key-sorted entry vectors ----
// `union` calls it for r = k * (n1 + n2) / t, k = 0..=t, and gives thread k the ranges lhs[i_k..i_{k+1}], rhs[j_k..j_{k+1}]; each
// entry is moved out with `ptr::read` exactly once iff these ranges tile both vectors: (0, 0) first, (n1, n2) last, and both
// components non-decreasing in r.  The chunks are sorted and folded afterwards, so no more than the tiling is needed.

/// keys strictly increasing (the entries come from `BTreeMap::iter`)
spec fn keys_inc(s: Seq<KeyRow>) -> bool {
    forall|a: int, b: int| 0 <= a < b < s.len() ==> s[a].0 < s[b].0
}

/// the search interval of diagonal r: `r.saturating_sub(n2)` ..= `min(r, n1)`
spec fn part_lo(r: int, n2: int) -> int { if r >= n2 { r - n2 } else { 0 } }
spec fn part_hi(r: int, n1: int) -> int { if r < n1 { r } else { n1 } }

/// what the binary search tests at position a of diagonal r: `j < rhs_len && lhs[a].0 > rhs[j].0` with j = r - a
spec fn part_gt(l: Seq<KeyRow>, rr: Seq<KeyRow>, r: int, a: int) -> bool {
    0 <= a < l.len() && 0 <= r - a < rr.len() && l[a].0 > rr[r - a].0
}

/// i is THE split point of diagonal r: the test fails everywhere below i and holds from i on (within the search interval)
spec fn is_partition(l: Seq<KeyRow>, rr: Seq<KeyRow>, r: int, i: int) -> bool {
    &&& part_lo(r, rr.len() as int) <= i <= part_hi(r, l.len() as int)
    &&& forall|a: int| part_lo(r, rr.len() as int) <= a < i ==> !#[trigger] part_gt(l, rr, r, a)
    &&& forall|a: int| i <= a < part_hi(r, l.len() as int) ==> #[trigger] part_gt(l, rr, r, a)
}

/// for key-sorted vectors the test is monotone along a diagonal
proof fn lemma_part_gt_mono(l: Seq<KeyRow>, rr: Seq<KeyRow>, r: int, a: int, b: int)
    requires keys_inc(l), keys_inc(rr), part_gt(l, rr, r, a), a <= b < l.len(), b <= r,
    ensures part_gt(l, rr, r, b),
{
    if a < b {
        assert(l[a].0 < l[b].0);
        assert(rr[r - b].0 < rr[r - a].0);
    }
}

/// the test holds at mid and from hi on: it holds from mid on (hypotheses inside the ensures: see merge_two_sorted's lemmas)
proof fn lemma_part_upper(l: Seq<KeyRow>, rr: Seq<KeyRow>, r: int, mid: int, hi: int)
    ensures
        keys_inc(l) && keys_inc(rr) && part_gt(l, rr, r, mid)
            && (forall|a: int| hi <= a < part_hi(r, l.len() as int) ==> #[trigger] part_gt(l, rr, r, a))
        ==> (forall|a: int| mid <= a < part_hi(r, l.len() as int) ==> #[trigger] part_gt(l, rr, r, a)),
{
    if keys_inc(l) && keys_inc(rr) && part_gt(l, rr, r, mid)
        && (forall|a: int| hi <= a < part_hi(r, l.len() as int) ==> #[trigger] part_gt(l, rr, r, a)) {
        assert forall|a: int| mid <= a < part_hi(r, l.len() as int) implies #[trigger] part_gt(l, rr, r, a) by {
            if a < hi { lemma_part_gt_mono(l, rr, r, mid, a); }
        }
    }
}

/// the test fails at mid and everywhere below lo: it fails everywhere up to mid
proof fn lemma_part_lower(l: Seq<KeyRow>, rr: Seq<KeyRow>, r: int, lo: int, mid: int)
    ensures
        keys_inc(l) && keys_inc(rr) && !part_gt(l, rr, r, mid) && 0 <= mid < l.len() && mid <= r
            && (forall|a: int| part_lo(r, rr.len() as int) <= a < lo ==> !#[trigger] part_gt(l, rr, r, a))
        ==> (forall|a: int| part_lo(r, rr.len() as int) <= a < mid + 1 ==> !#[trigger] part_gt(l, rr, r, a)),
{
    if keys_inc(l) && keys_inc(rr) && !part_gt(l, rr, r, mid) && 0 <= mid < l.len() && mid <= r
        && (forall|a: int| part_lo(r, rr.len() as int) <= a < lo ==> !#[trigger] part_gt(l, rr, r, a)) {
        assert forall|a: int| part_lo(r, rr.len() as int) <= a < mid + 1 implies !#[trigger] part_gt(l, rr, r, a) by {
            if a >= lo && part_gt(l, rr, r, a) { lemma_part_gt_mono(l, rr, r, a, mid); }
        }
    }
}

/// the split points are monotone in r in BOTH components (so consecutive results delimit ranges that tile both vectors)
proof fn lemma_partition_monotone(l: Seq<KeyRow>, rr: Seq<KeyRow>, r1: int, i1: int, r2: int, i2: int)
    requires
        keys_inc(l), keys_inc(rr),
        0 <= r1 <= r2 <= l.len() + rr.len(),
        is_partition(l, rr, r1, i1),
        is_partition(l, rr, r2, i2),
    ensures
        i1 <= i2,
        r1 - i1 <= r2 - i2,
{
    let n1 = l.len() as int;
    let n2 = rr.len() as int;
    if i2 < i1 {
        // i2 lies below the split of r1 (test fails) and below the upper end of r2's interval (test holds)
        assert(!part_gt(l, rr, r1, i2));
        assert(part_gt(l, rr, r2, i2));
        if r1 < r2 { assert(rr[r1 - i2].0 < rr[r2 - i2].0); }
        assert(false);
    }
    let d = r2 - r1;
    if i2 > i1 + d {
        let a = i1 + d;
        assert(!part_gt(l, rr, r2, a));
        assert(part_gt(l, rr, r1, i1));
        assert(r2 - a == r1 - i1);
        if d > 0 { assert(l[i1].0 < l[a].0); }
        assert(false);
    }
}

/// first and last split point, and uniqueness: the contract determines the result
proof fn lemma_partition_ends(l: Seq<KeyRow>, rr: Seq<KeyRow>, r: int, i: int, i_other: int)
    requires
        keys_inc(l), keys_inc(rr),
        0 <= r <= l.len() + rr.len(),
        is_partition(l, rr, r, i),
    ensures
        r == 0 ==> i == 0,
        r == l.len() + rr.len() ==> i == l.len() && r - i == rr.len(),
        0 <= i <= l.len() && 0 <= r - i <= rr.len(),
        is_partition(l, rr, r, i_other) ==> i_other == i,
{
    if is_partition(l, rr, r, i_other) {
        lemma_partition_monotone(l, rr, r, i, r, i_other);
        lemma_partition_monotone(l, rr, r, i_other, r, i);
    }
}

/// what the split means for the keys: everything left of the split in lhs is <= everything strictly right of it in rhs, and
/// everything left of the split in rhs is < everything right of it in lhs.  (NOT more: lhs[i-1] may exceed rhs[j] - lhs = [5],
/// rhs = [3], r = 1 gives (1, 0) - which is why `union` sorts and folds the concatenated chunks afterwards.)
proof fn lemma_partition_cross(l: Seq<KeyRow>, rr: Seq<KeyRow>, r: int, i: int)
    requires
        keys_inc(l), keys_inc(rr),
        0 <= r <= l.len() + rr.len(),
        is_partition(l, rr, r, i),
    ensures
        forall|a: int, b: int| 0 <= a < i && r - i < b < rr.len() ==> (#[trigger] l[a]).0 <= (#[trigger] rr[b]).0,
        forall|a: int, b: int| i <= a < l.len() && 0 <= b < r - i ==> (#[trigger] rr[b]).0 < (#[trigger] l[a]).0,
{
    let j = r - i;
    assert forall|a: int, b: int| 0 <= a < i && j < b < rr.len() implies (#[trigger] l[a]).0 <= (#[trigger] rr[b]).0 by {
        // j + 1 <= b < n2, hence i - 1 >= r - n2 + 1 > part_lo: the test fails at i - 1
        assert(!part_gt(l, rr, r, i - 1));
        if a < i - 1 { assert(l[a].0 < l[i - 1].0); }
        if j + 1 < b { assert(rr[j + 1].0 < rr[b].0); }
    }
    assert forall|a: int, b: int| i <= a < l.len() && 0 <= b < j implies (#[trigger] rr[b]).0 < (#[trigger] l[a]).0 by {
        // b < j, hence i < r and i < n1: the test holds at i
        assert(part_gt(l, rr, r, i));
        assert(rr[b].0 < rr[j].0);
        if i < a { assert(l[i].0 < l[a].0); }
    }
}

// No precondition (C13): `lo + hi` does not overflow (allocation bound of slices, A2), `r - mid` and `r - lo` do not underflow,
// both `get_unchecked` indices are in bounds, for ALL r and ALL slices (sorted or not, r beyond n1 + n2 included).
/*@fn name=find_partition wrap=len ret=p props=C11,C13
ensures
    p.0 + p.1 == r,
    r <= lhs@.len() + rhs@.len() ==> part_lo(r as int, rhs@.len() as int) <= p.0 <= part_hi(r as int, lhs@.len() as int),
    r <= lhs@.len() + rhs@.len() ==> p.0 <= lhs@.len() && p.1 <= rhs@.len(),
    r > lhs@.len() + rhs@.len() ==> p.0 == r - rhs@.len() && p.1 == rhs@.len(),
    r <= lhs@.len() + rhs@.len() ==> (p.0 == part_lo(r as int, rhs@.len() as int) || !part_gt(lhs@, rhs@, r as int, p.0 - 1)),
    r <= lhs@.len() + rhs@.len() ==> (p.0 == part_hi(r as int, lhs@.len() as int) || part_gt(lhs@, rhs@, r as int, p.0 as int)),
    keys_inc(lhs@) && keys_inc(rhs@) && r <= lhs@.len() + rhs@.len() ==> is_partition(lhs@, rhs@, r as int, p.0 as int),
@before `let mut lo`
    proof { assert(core::mem::size_of::<KeyRow>() == 32); }
@loop 1
invariant
    lhs_len == lhs@.len(),
    rhs_len == rhs@.len(),
    lhs_len <= isize::MAX,
    r > lhs_len + rhs_len ==> lo == r - rhs_len && hi == lhs_len,
    r <= lhs_len + rhs_len ==> part_lo(r as int, rhs_len as int) <= lo <= hi <= part_hi(r as int, lhs_len as int),
    r <= lhs_len + rhs_len ==> (lo == part_lo(r as int, rhs_len as int) || !part_gt(lhs@, rhs@, r as int, lo - 1)),
    r <= lhs_len + rhs_len ==> (hi == part_hi(r as int, lhs_len as int) || part_gt(lhs@, rhs@, r as int, hi as int)),
    keys_inc(lhs@) && keys_inc(rhs@) && r <= lhs_len + rhs_len ==> forall|a: int| part_lo(r as int, rhs_len as int) <= a < lo ==> !#[trigger] part_gt(lhs@, rhs@, r as int, a),
    keys_inc(lhs@) && keys_inc(rhs@) && r <= lhs_len + rhs_len ==> forall|a: int| hi <= a < part_hi(r as int, lhs_len as int) ==> #[trigger] part_gt(lhs@, rhs@, r as int, a),
decreases
    hi - lo,
@before `let mid`
    proof { assert(forall|s: usize| #[trigger] (s >> 1) == s / 2) by (bit_vector); }
@after `let mid`
    // both lemmas are implications (no preconditions): stated before the branch, used by whichever branch is taken
    proof {
        lemma_part_upper(lhs@, rhs@, r as int, mid as int, hi as int);
        lemma_part_lower(lhs@, rhs@, r as int, lo as int, mid as int);
    }
@*/
