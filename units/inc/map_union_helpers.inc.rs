//@file src/repr/adjacency_map/mod.rs
// ==== the sequential helpers of the threaded `AdjacencyMap::union` (which itself stays out of reach) ====

// ---- merge_two_sorted: merging two strictly increasing slices ----
// (the AdjacencyList twin is proved in units/inc/list_ops.inc.rs under the PRECONDITION that both inputs are sorted and that the
// two lengths do not overflow; here nothing is required: memory safety and the element set hold for all inputs, only the order
// of the output depends on the order of the inputs.)

spec fn strictly_inc(s: Seq<usize>) -> bool {
    forall|a: int, b: int| 0 <= a < b < s.len() ==> s[a] < s[b]
}

/// loop invariant of the merge, part 1 (all inputs): `out` holds exactly the elements of l[..i] and r[..j]
spec fn merged_set(out: Seq<usize>, l: Seq<usize>, r: Seq<usize>, i: int, j: int) -> bool {
    &&& 0 <= i <= l.len() && 0 <= j <= r.len()
    &&& out.len() <= i + j
    &&& forall|k: int| 0 <= k < out.len() ==> (exists|a: int| 0 <= a < i && l[a] == #[trigger] out[k]) || (exists|b: int| 0 <= b < j && r[b] == out[k])
    &&& forall|a: int| 0 <= a < i ==> out.contains(#[trigger] l[a])
    &&& forall|b: int| 0 <= b < j ==> out.contains(#[trigger] r[b])
}

/// loop invariant of the merge, part 2 (sorted inputs): `out` is strictly increasing and lies below both cursors
spec fn merged_ord(out: Seq<usize>, l: Seq<usize>, r: Seq<usize>, i: int, j: int) -> bool {
    &&& strictly_inc(out)
    &&& forall|k: int| 0 <= k < out.len() ==> (i < l.len() ==> #[trigger] out[k] < l[i]) && (j < r.len() ==> out[k] < r[j])
}

/// pushing x (an element under an advancing cursor) keeps part 1; di/dj say which cursors advance
proof fn lemma_merge_push_set(out: Seq<usize>, l: Seq<usize>, r: Seq<usize>, i: int, j: int, x: usize, di: int, dj: int)
    requires
        merged_set(out, l, r, i, j),
        (di == 0 || di == 1) && (dj == 0 || dj == 1) && di + dj >= 1,
        di == 1 ==> i < l.len() && l[i] == x,
        dj == 1 ==> j < r.len() && r[j] == x,
    ensures
        merged_set(out.push(x), l, r, i + di, j + dj),
{
    let o2 = out.push(x);
    assert forall|k: int| 0 <= k < o2.len() implies (exists|a: int| 0 <= a < i + di && l[a] == #[trigger] o2[k]) || (exists|b: int| 0 <= b < j + dj && r[b] == o2[k]) by {
        if k < out.len() {
            assert(o2[k] == out[k]);
            if exists|a: int| 0 <= a < i && l[a] == out[k] {
                let a = choose|a: int| 0 <= a < i && l[a] == out[k];
                assert(0 <= a < i + di && l[a] == o2[k]);
            } else {
                let b = choose|b: int| 0 <= b < j && r[b] == out[k];
                assert(0 <= b < j + dj && r[b] == o2[k]);
            }
        } else {
            if di == 1 { assert(0 <= i < i + di && l[i] == o2[k]); } else { assert(0 <= j < j + dj && r[j] == o2[k]); }
        }
    }
    assert forall|a: int| 0 <= a < i + di implies o2.contains(#[trigger] l[a]) by {
        if a < i {
            let k = choose|k: int| 0 <= k < out.len() && out[k] == l[a];
            assert(o2[k] == l[a]);
        } else {
            assert(o2[out.len() as int] == l[a]);
        }
    }
    assert forall|b: int| 0 <= b < j + dj implies o2.contains(#[trigger] r[b]) by {
        if b < j {
            let k = choose|k: int| 0 <= k < out.len() && out[k] == r[b];
            assert(o2[k] == r[b]);
        } else {
            assert(o2[out.len() as int] == r[b]);
        }
    }
}

/// pushing x (the smaller cursor element) keeps part 2 when both inputs are strictly increasing
proof fn lemma_merge_push_ord(out: Seq<usize>, l: Seq<usize>, r: Seq<usize>, i: int, j: int, x: usize, di: int, dj: int)
    requires
        0 <= i <= l.len() && 0 <= j <= r.len(),
        merged_ord(out, l, r, i, j), strictly_inc(l), strictly_inc(r),
        (di == 0 || di == 1) && (dj == 0 || dj == 1) && di + dj >= 1,
        di == 1 ==> i < l.len() && l[i] == x,
        dj == 1 ==> j < r.len() && r[j] == x,
        di == 0 && i < l.len() ==> x < l[i],
        dj == 0 && j < r.len() ==> x < r[j],
    ensures
        merged_ord(out.push(x), l, r, i + di, j + dj),
{
    let o2 = out.push(x);
    assert forall|k: int| 0 <= k < o2.len() implies (i + di < l.len() ==> #[trigger] o2[k] < l[i + di]) && (j + dj < r.len() ==> o2[k] < r[j + dj]) by {
        if k < out.len() { assert(o2[k] == out[k]); }
    }
    assert(strictly_inc(o2)) by {
        assert forall|a: int, b: int| 0 <= a < b < o2.len() implies o2[a] < o2[b] by {
            if b < out.len() { assert(o2[a] == out[a] && o2[b] == out[b]); } else { assert(o2[a] == out[a]); }
        }
    }
}

/// at the end of the merge the output holds exactly the union
proof fn lemma_merge_done(out: Seq<usize>, l: Seq<usize>, r: Seq<usize>)
    requires merged_set(out, l, r, l.len() as int, r.len() as int),
    ensures forall|x: usize| out.contains(x) == (l.contains(x) || r.contains(x)),
{
    assert forall|x: usize| out.contains(x) == (l.contains(x) || r.contains(x)) by {
        if out.contains(x) {
            let k = choose|k: int| 0 <= k < out.len() && out[k] == x;
            assert((exists|a: int| 0 <= a < l.len() && l[a] == out[k]) || (exists|b: int| 0 <= b < r.len() && r[b] == out[k]));
        }
        if l.contains(x) {
            let a = choose|a: int| 0 <= a < l.len() && l[a] == x;
            assert(out.contains(l[a]));
        }
        if r.contains(x) {
            let b = choose|b: int| 0 <= b < r.len() && r[b] == x;
            assert(out.contains(r[b]));
        }
    }
}

// No precondition: every `get_unchecked` index is in bounds and `lhs_len + rhs_len` does not overflow for ALL inputs (C13;
// the latter by the allocation bound of slices, assumption A2 of prelude/map_union_helpers_std.rs).  The element set of the
// result is the union of both inputs for ALL inputs; it is strictly increasing when both inputs are (C11).
/*@fn name=merge_two_sorted wrap=len props=C11,C13
ensures
    forall|x: usize| r@.contains(x) == (lhs@.contains(x) || rhs@.contains(x)),
    r@.len() <= lhs@.len() + rhs@.len(),
    strictly_inc(lhs@) && strictly_inc(rhs@) ==> strictly_inc(r@),
@before `let mut out`
    proof { assert(core::mem::size_of::<usize>() == 8); }
@loop 1
invariant
    lhs_len == lhs@.len(),
    rhs_len == rhs@.len(),
    merged_set(out@, lhs@, rhs@, i as int, j as int),
    strictly_inc(lhs@) && strictly_inc(rhs@) ==> merged_ord(out@, lhs@, rhs@, i as int, j as int),
decreases
    lhs_len - i + rhs_len - j,
@loop 2
invariant
    i == lhs@.len() || j == rhs@.len(),
    merged_set(out@, lhs@, rhs@, i as int, j as int),
    strictly_inc(lhs@) && strictly_inc(rhs@) ==> merged_ord(out@, lhs@, rhs@, i as int, j as int),
decreases
    lhs@.len() - i,
@loop 3
invariant
    i == lhs@.len(),
    merged_set(out@, lhs@, rhs@, i as int, j as int),
    strictly_inc(lhs@) && strictly_inc(rhs@) ==> merged_ord(out@, lhs@, rhs@, i as int, j as int),
decreases
    rhs@.len() - j,
@before `out.push(a_i);`
    proof {
        lemma_merge_push_set(out@, lhs@, rhs@, i as int, j as int, a_i, 1, 0);
        if strictly_inc(lhs@) && strictly_inc(rhs@) { lemma_merge_push_ord(out@, lhs@, rhs@, i as int, j as int, a_i, 1, 0); }
    }
@before `out.push(b_j);`
    proof {
        lemma_merge_push_set(out@, lhs@, rhs@, i as int, j as int, b_j, 0, 1);
        if strictly_inc(lhs@) && strictly_inc(rhs@) { lemma_merge_push_ord(out@, lhs@, rhs@, i as int, j as int, b_j, 0, 1); }
    }
@before #2 `out.push(a_i);`
    proof {
        lemma_merge_push_set(out@, lhs@, rhs@, i as int, j as int, a_i, 1, 1);
        if strictly_inc(lhs@) && strictly_inc(rhs@) { lemma_merge_push_ord(out@, lhs@, rhs@, i as int, j as int, a_i, 1, 1); }
    }
@before `out.push(*lhs.get_unchecked(i));`
    proof {
        lemma_merge_push_set(out@, lhs@, rhs@, i as int, j as int, lhs@[i as int], 1, 0);
        if strictly_inc(lhs@) && strictly_inc(rhs@) { lemma_merge_push_ord(out@, lhs@, rhs@, i as int, j as int, lhs@[i as int], 1, 0); }
    }
@before `out.push(*rhs.get_unchecked(j));`
    proof {
        lemma_merge_push_set(out@, lhs@, rhs@, i as int, j as int, rhs@[j as int], 0, 1);
        if strictly_inc(lhs@) && strictly_inc(rhs@) { lemma_merge_push_ord(out@, lhs@, rhs@, i as int, j as int, rhs@[j as int], 0, 1); }
    }
@fn_end
    proof { lemma_merge_done(out@, lhs@, rhs@); }
@*/

// ---- union_sets_unsafe: both sets listed in ascending order, merged, collected again ----

/// the item sequence of `BTreeSet::iter` (vstd: the set's elements, `increasing_seq`), copied: strictly increasing
proof fn lemma_set_listing(rem: Seq<&usize>)
    requires vstd::std_specs::btree::increasing_seq(rem),
    ensures strictly_inc(rem.unref()),
{
    broadcast use vstd::laws_cmp::group_laws_cmp;
    assert(vstd::laws_cmp::obeys_cmp::<&usize>());
    vstd::std_specs::btree::axiom_increasing_seq_meaning(rem);
    let s = rem.unref();
    assert forall|i: int, j: int| 0 <= i < j < s.len() implies s[i] < s[j] by {
        assert(<&usize as vstd::std_specs::cmp::OrdSpec>::cmp_spec(&rem[i], &rem[j]) is Less);
        assert(s[i] == *rem[i] && s[j] == *rem[j]);
    }
}

// C11: the result is exactly the union of both operands (the arcs u->v of the union row are those of either row).
/*@fn name=union_sets_unsafe wrap=copied props=C11,C13
ensures
    r@ == set_a@.union(set_b@),
@fn_start
    broadcast use vstd::std_specs::iter::group_iter_axioms;
    broadcast use vstd::laws_cmp::group_laws_cmp;
    broadcast use axiom_btree_set_from_iter;
    proof {
        assert(vstd::laws_cmp::obeys_cmp::<usize>());
        // both set iterators are consumed inside their statements: state the meaning of `increasing_seq` for every candidate
        assert forall|rem: Seq<&usize>| #[trigger] vstd::std_specs::btree::increasing_seq(rem) implies strictly_inc(rem.unref()) by { lemma_set_listing(rem); }
    }
@fn_end
    proof {
        assert(vec_a@.to_set() == set_a@);
        assert(vec_b@.to_set() == set_b@);
        // the merge is called on strictly increasing inputs (what its name promises), so its output is the ascending listing
        assert(strictly_inc(vec_a@) && strictly_inc(vec_b@) && strictly_inc(merged@));
        assert(merged@.to_set() =~= set_a@.union(set_b@)) by {
            assert forall|x: usize| merged@.to_set().contains(x) == set_a@.union(set_b@).contains(x) by {
                assert(vec_a@.to_set().contains(x) == vec_a@.contains(x));
                assert(vec_b@.to_set().contains(x) == vec_b@.contains(x));
            }
        }
    }
@*/
