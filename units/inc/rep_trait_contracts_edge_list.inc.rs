//@file src/repr/edge_list/mod.rs
// ---- Closing trait-contract assumptions, EdgeList part 2: the methods under contract in unit edge_list_more ----
// (part 1 - wf, order, contiguous_order, has_arc, vertices - is in unit rep_trait_contracts; the `tc_*` predicates are the
// shared text units/inc/rep_trait_contracts_tc.inc.rs, proved equal to the Dg / Dgo ensures texts there)
mod edge_list_more_side {
use super::*;
//@import units/inc/edge_list_core.inc.rs
//@import units/inc/edge_list_ops.inc.rs
//@import units/inc/edge_list_more.inc.rs

/// the arc relation of the edge list as the `has` of a trait contract (ord := g.ord())
spec fn ehas(g: EdgeList) -> spec_fn(int, int) -> bool { |a: int, b: int| g.has(a, b) }

/// Arcs::arcs (proved in edge_list_more: protocol, `arc_listing(*self, r.remaining())`: every item an arc, every arc an item,
/// strictly ascending lexicographically, no repeats).  ALL clauses of Dg::arcs / Dgo::arcs follow (the BTreeSet iterator is a
/// real vstd iterator, so - unlike matrix / list - the protocol clauses are proved too).
proof fn lemma_edge_list_meets_arcs<I: Iterator<Item = (usize, usize)>>(g: EdgeList, r: I)
    requires
        r.obeys_prophetic_iter_laws(),
        r.decrease() is Some,
        arc_listing(g, r.remaining()),
    ensures
        tc_iter(r),
        tc_arcs(ehas(g), r.remaining()),
{
    let rem = r.remaining();
    assert forall|i: int, j: int| 0 <= i < j < rem.len() implies super::lex_lt(#[trigger] rem[i], #[trigger] rem[j]) by {
        assert(lex_lt(rem[i], rem[j]));
    }
    assert forall|u: usize, v: usize| ehas(g)(u as int, v as int) implies #[trigger] rem.contains((u, v)) by {
        assert(g.has(u as int, v as int));
        assert(rem.contains(((u as int) as usize, (v as int) as usize)));
    }
    assert forall|i: int| 0 <= i < rem.len() implies ehas(g)((#[trigger] rem[i]).0 as int, rem[i].1 as int) by {
        assert(g.has(rem[i].0 as int, rem[i].1 as int));
    }
}

/// OutNeighbors::out_neighbors (proved in edge_list_more in the PREFIX form, as for the matrix: the items are the neighbours
/// below some k, all of them if the iterator is driven until it returns None - `filter_map` over the arc set is lazy).
/// Implied: protocol, no repeats, soundness (Dg / Dgo clauses 1, 2, 3, 5) unconditionally; coverage (clause 4) only under
/// `r.will_return_none()`.
proof fn lemma_edge_list_meets_out_neighbors<I: Iterator<Item = usize>>(g: EdgeList, u: usize, r: I)
    requires
        g.wf(),
        u < g.ord(),
        r.obeys_prophetic_iter_laws(),
        r.decrease() is Some,
        exists|k: int| 0 <= k <= g.ord() && r.remaining() == #[trigger] nb_below(g, true, u as int, k),
        r.will_return_none() ==> r.remaining() == nb_below(g, true, u as int, g.ord()),
    ensures
        tc_iter(r),
        tc_nb_sound(ehas(g), u, r.remaining()),
        r.will_return_none() ==> tc_nb_cover(ehas(g), u, r.remaining()),
{
    let rem = r.remaining();
    let k = choose|k: int| 0 <= k <= g.ord() && rem == #[trigger] nb_below(g, true, u as int, k);
    lemma_nb_below(g, true, u as int, k);
    assert forall|i: int| 0 <= i < rem.len() implies ehas(g)(u as int, #[trigger] rem[i] as int) by {
        assert(nb(g, true, u as int, nb_below(g, true, u as int, k)[i] as int));
    }
    if r.will_return_none() {
        lemma_nb_below(g, true, u as int, g.ord());
        assert forall|v: usize| ehas(g)(u as int, v as int) implies #[trigger] rem.contains(v) by {
            assert(g.has(u as int, v as int));
            assert(g.arcs@.contains((u, v)));
            assert(nb(g, true, u as int, v as int));
        }
    }
}

/// the gap: the clauses proved for `out_neighbors` WITHOUT `will_return_none()` allow an item sequence that violates the
/// unconditional coverage clause of Dg / Dgo (the empty prefix, for a vertex that has an out-neighbour)
proof fn lemma_edge_list_out_neighbors_gap(g: EdgeList, u: usize, v: usize)
    requires g.wf(), g.has(u as int, v as int),
    ensures
        exists|rem: Seq<usize>| (exists|k: int| 0 <= k <= g.ord() && rem == #[trigger] nb_below(g, true, u as int, k))
            && tc_nb_sound(ehas(g), u, rem) && !#[trigger] tc_nb_cover(ehas(g), u, rem),
{
    let rem = nb_below(g, true, u as int, 0);
    assert(rem.len() == 0);
    assert(ehas(g)(u as int, v as int));
    assert(!rem.contains(v));
    assert(!tc_nb_cover(ehas(g), u, rem));
    assert(tc_nb_sound(ehas(g), u, rem));
}

/// Indegree::indegree, Outdegree::outdegree (proved in edge_list_more under `self.wf()`: `v < self.ord()`,
/// `r == self.indeg(v as int)` / `r == self.outdeg(u as int)`, the set cardinalities in the words of Dgo): the ensures of
/// Dgo::indegree / Dgo::outdegree
proof fn lemma_edge_list_meets_indegree(g: EdgeList, v: usize, r: usize)
    requires g.wf(), v < g.ord(), r == g.indeg(v as int),
    ensures tc_indegree(g.ord() as nat, ehas(g), v, r),
{
    range_set_properties::<int>(0, g.ord());
    assert(g.in_set(v as int) =~= tc_in_set(g.ord() as nat, ehas(g), v as int));
}

proof fn lemma_edge_list_meets_outdegree(g: EdgeList, u: usize, r: usize)
    requires g.wf(), u < g.ord(), r == g.outdeg(u as int),
    ensures tc_outdegree(g.ord() as nat, ehas(g), u, r),
{
    range_set_properties::<int>(0, g.ord());
    assert(g.out_set(u as int) =~= tc_out_set(g.ord() as nat, ehas(g), u as int));
}
} // mod edge_list_more_side
