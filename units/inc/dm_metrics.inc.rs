//@file src/algo/distance_matrix.rs
// ---- C18: the metrics of a DistanceMatrix (W = isize) ----

impl DistanceMatrix<isize> {
    /// C18 hypothesis: no entry exceeds the infinity value
    spec fn entries_le_infinity(&self) -> bool {
        forall|i: int| 0 <= i < self.dist@.len() ==> #[trigger] self.dist@[i] <= self.infinity
    }

    /// maximum of the first k entries of row u (k >= 1)
    spec fn row_max_upto(&self, u: int, k: int) -> isize
        decreases k,
    {
        if k <= 1 { self.at(u, 0) } else {
            let m = self.row_max_upto(u, k - 1);
            if self.at(u, k - 1) >= m { self.at(u, k - 1) } else { m }
        }
    }

    /// C18: the eccentricity of u, the maximum entry of row u
    spec fn row_max(&self, u: int) -> isize { self.row_max_upto(u, self.order as int) }

    /*@fn impl=DistanceMatrix name=eccentricities subst=W=>isize wrap=&chunks,max
    requires
        self.wf(),
    ensures
        r.obeys_prophetic_iter_laws(),
        r.decrease() is Some,
        r.remaining().len() <= self.order,
        r.will_return_none() ==> r.remaining().len() == self.order,
        forall|u: int| 0 <= u < r.remaining().len() ==> *(#[trigger] r.remaining()[u]) == self.row_max(u),
    @closure 1 |row: &[isize]| -> (m: &isize)
    ensures
        row@.len() == 0 ==> *m == self.infinity,
        row@.len() > 0 ==> seq_is_max(row@, *m),
    @fn_start
        broadcast use vstd::laws_cmp::group_laws_cmp;
        broadcast use vstd::std_specs::iter::group_iter_axioms;
    @*/
}

/// m is the maximum of the non-empty sequence s
spec fn seq_is_max(s: Seq<isize>, m: isize) -> bool {
    &&& forall|j: int| 0 <= j < s.len() ==> #[trigger] s[j] <= m
    &&& exists|j: int| 0 <= j < s.len() && #[trigger] s[j] == m
}
