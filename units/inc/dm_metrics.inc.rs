//@file src/algo/distance_matrix.rs
// ---- C18: the metrics of a DistanceMatrix (W = isize) ----

impl DistanceMatrix<isize> {
    /// C18 hypothesis: no entry exceeds the infinity value
    spec fn entries_le_infinity(&self) -> bool {
        forall|i: int| 0 <= i < self.dist@.len() ==> #[trigger] self.dist@[i] <= self.infinity
    }

    /// maximum of the first k entries of row u (k >= 1)
    spec fn row_max_upto(&self, u: int, k: int) -> isize
        decreases k,
    {
        if k <= 1 { self.at(u, 0) } else {
            let m = self.row_max_upto(u, k - 1);
            if self.at(u, k - 1) >= m { self.at(u, k - 1) } else { m }
        }
    }

    /// C18: the eccentricity of u, the maximum entry of row u
    spec fn row_max(&self, u: int) -> isize { self.row_max_upto(u, self.order as int) }

    /// maximum of the eccentricities of the first k vertices (k >= 1)
    spec fn ecc_max_upto(&self, k: int) -> isize
        decreases k,
    {
        if k <= 1 { self.row_max(0) } else {
            let m = self.ecc_max_upto(k - 1);
            if self.row_max(k - 1) >= m { self.row_max(k - 1) } else { m }
        }
    }

    /// C18: the diameter, the maximum eccentricity
    spec fn ecc_max(&self) -> isize { self.ecc_max_upto(self.order as int) }

    /// rem is the complete sequence of eccentricities
    spec fn is_ecc_seq(&self, rem: Seq<&isize>) -> bool {
        &&& rem.len() == self.order
        &&& forall|u: int| #![trigger rem[u]] 0 <= u < self.order ==> *rem[u] == self.row_max(u)
    }

    /*@fn impl=DistanceMatrix name=eccentricities subst=W=>isize wrap=&chunks,max
    requires
        self.wf(),
    ensures
        r.obeys_prophetic_iter_laws(),
        r.decrease() is Some,
        r.remaining().len() <= self.order,
        r.will_return_none() ==> r.remaining().len() == self.order,
        forall|u: int| #![trigger r.remaining()[u]] #![trigger self.row_max(u)] 0 <= u < r.remaining().len() ==> *r.remaining()[u] == self.row_max(u),
    @closure 1 |row: &[isize]| -> (m: &isize)
    ensures
        row@.len() == 0 ==> *m == self.infinity,
        row@.len() > 0 ==> seq_is_max(row@, *m),
    @fn_start
        broadcast use vstd::std_specs::iter::group_iter_axioms;
        broadcast use lemma_last_max;
        proof {
            lemma_chunk_count(self.order as int);
            assert forall|u: int, m: isize| 0 <= u < self.order && #[trigger] seq_is_max(chunk_of(self.dist@, self.order as int, u), m)
                implies m == self.row_max(u) by { self.lemma_row_max(u, m); }
            assert forall|u: int| 0 <= u < self.order implies (#[trigger] chunk_of(self.dist@, self.order as int, u)).len() == self.order by {
                self.lemma_row_max_upto(u, self.order as int);
            }
        }
    @*/

    /*@fn impl=DistanceMatrix name=is_connected subst=W=>isize wrap=all
    requires
        self.wf(),
    ensures
        r == (forall|u: int| 0 <= u < self.order ==> #[trigger] self.row_max(u) != self.infinity),
    @closure 1 |e: &isize| -> (b: bool)
    ensures
        b == (*e != self.infinity),
    @*/

    /*@fn impl=DistanceMatrix name=diameter subst=W=>isize wrap=max
    requires
        self.wf(),
    ensures
        *r == self.ecc_max(),
        forall|u: int| 0 <= u < self.order ==> #[trigger] self.row_max(u) <= *r,
        exists|u: int| 0 <= u < self.order && #[trigger] self.row_max(u) == *r,
    @fn_start
        proof {
            self.lemma_ecc_max_upto(self.order as int);
            assert forall|rem: Seq<&isize>, o: Option<&isize>| self.is_ecc_seq(rem) && #[trigger] is_last_max(rem, o)
                implies o is Some && *o->0 == self.ecc_max() by { self.lemma_diameter(rem, o); }
        }
    @*/
}

/// m is the maximum of the non-empty sequence s
spec fn seq_is_max(s: Seq<isize>, m: isize) -> bool {
    &&& forall|j: int| 0 <= j < s.len() ==> #[trigger] s[j] <= m
    &&& exists|j: int| 0 <= j < s.len() && #[trigger] s[j] == m
}

/// what `Iterator::max` returns over a non-empty sequence of `&isize` items is an upper bound and one of the items
proof fn lemma_last_max_refs(rem: Seq<&isize>, o: Option<&isize>)
    requires is_last_max(rem, o),
    ensures
        rem.len() == 0 ==> o is None,
        rem.len() > 0 ==> o is Some,
        forall|j: int| 0 <= j < rem.len() ==> *(#[trigger] rem[j]) <= *o->0,
        rem.len() > 0 ==> exists|j: int| 0 <= j < rem.len() && *(#[trigger] rem[j]) == *o->0,
{
    if rem.len() > 0 {
        let i = choose|i: int| #[trigger] is_last_max_at(rem, i) && o->0 == rem[i];
        assert(*rem[i] == *o->0);
        assert forall|j: int| 0 <= j < rem.len() implies *(#[trigger] rem[j]) <= *o->0 by {
            assert(!(<isize as vstd::std_specs::cmp::OrdSpec>::cmp_spec(rem[j], rem[i]) is Greater));
        }
    }
}

/// what `Iterator::max` returns over the items of a slice is the maximum of the slice
broadcast proof fn lemma_last_max(s: Seq<isize>, o: Option<&isize>)
    requires #[trigger] is_last_max(s.as_ref(), o),
    ensures s.len() == 0 ==> o is None, s.len() > 0 ==> o is Some && seq_is_max(s, *o->0),
{
    let rem = s.as_ref();
    assert(rem.len() == s.len());
    lemma_last_max_refs(rem, o);
    if s.len() > 0 {
        let i = choose|j: int| 0 <= j < rem.len() && *(#[trigger] rem[j]) == *o->0;
        assert(s[i] == *o->0);
        assert forall|j: int| 0 <= j < s.len() implies #[trigger] s[j] <= *o->0 by { assert(*rem[j] <= *o->0); }
    }
}

/// an n x n matrix has n rows
proof fn lemma_chunk_count(n: int)
    requires n > 0,
    ensures chunk_count(n * n, n) == n,
{
    assert((n * n + n - 1) / n == n) by (nonlinear_arith) requires n > 0;
}

impl DistanceMatrix<isize> {
    /// row u is the u-th chunk; row_max_upto is an upper bound of the first k entries and is attained
    proof fn lemma_row_max_upto(&self, u: int, k: int)
        requires self.wf(), 0 <= u < self.order, 1 <= k <= self.order,
        ensures
            chunk_of(self.dist@, self.order as int, u).len() == self.order,
            forall|v: int| 0 <= v < self.order ==> #[trigger] chunk_of(self.dist@, self.order as int, u)[v] == self.at(u, v),
            forall|v: int| 0 <= v < k ==> #[trigger] self.at(u, v) <= self.row_max_upto(u, k),
            exists|v: int| 0 <= v < k && #[trigger] self.at(u, v) == self.row_max_upto(u, k),
        decreases k,
    {
        let n = self.order as int;
        assert((u + 1) * n <= n * n && 0 <= u * n && (u + 1) * n == u * n + n) by (nonlinear_arith) requires 0 <= u < n;
        if k > 1 {
            self.lemma_row_max_upto(u, k - 1);
            let w = choose|v: int| 0 <= v < k - 1 && #[trigger] self.at(u, v) == self.row_max_upto(u, k - 1);
            if self.at(u, k - 1) >= self.row_max_upto(u, k - 1) {
                assert(self.at(u, k - 1) == self.row_max_upto(u, k));
            } else {
                assert(self.at(u, w) == self.row_max_upto(u, k));
            }
        } else {
            assert(self.at(u, 0) == self.row_max_upto(u, k));
        }
    }

    /// the maximum of row u is row_max(u)
    proof fn lemma_row_max(&self, u: int, m: isize)
        requires self.wf(), 0 <= u < self.order, seq_is_max(chunk_of(self.dist@, self.order as int, u), m),
        ensures m == self.row_max(u),
    {
        self.lemma_row_max_upto(u, self.order as int);
        let row = chunk_of(self.dist@, self.order as int, u);
        let j = choose|j: int| 0 <= j < row.len() && #[trigger] row[j] == m;
        let v = choose|v: int| 0 <= v < self.order && #[trigger] self.at(u, v) == self.row_max(u);
        assert(row[j] == self.at(u, j));
        assert(row[v] == self.at(u, v));
    }

    /// ecc_max_upto is an upper bound of the first k eccentricities and is attained
    proof fn lemma_ecc_max_upto(&self, k: int)
        requires 1 <= k <= self.order,
        ensures
            forall|u: int| 0 <= u < k ==> #[trigger] self.row_max(u) <= self.ecc_max_upto(k),
            exists|u: int| 0 <= u < k && #[trigger] self.row_max(u) == self.ecc_max_upto(k),
        decreases k,
    {
        if k > 1 {
            self.lemma_ecc_max_upto(k - 1);
            let w = choose|u: int| 0 <= u < k - 1 && #[trigger] self.row_max(u) == self.ecc_max_upto(k - 1);
            if self.row_max(k - 1) >= self.ecc_max_upto(k - 1) {
                assert(self.row_max(k - 1) == self.ecc_max_upto(k));
            } else {
                assert(self.row_max(w) == self.ecc_max_upto(k));
            }
        } else {
            assert(self.row_max(0) == self.ecc_max_upto(k));
        }
    }

    /// the maximum of the eccentricity sequence is ecc_max()
    proof fn lemma_diameter(&self, rem: Seq<&isize>, o: Option<&isize>)
        requires self.wf(), self.is_ecc_seq(rem), is_last_max(rem, o),
        ensures o is Some, *o->0 == self.ecc_max(),
    {
        self.lemma_ecc_max_upto(self.order as int);
        lemma_last_max_refs(rem, o);
        let j = choose|j: int| 0 <= j < rem.len() && *(#[trigger] rem[j]) == *o->0;
        let u = choose|u: int| 0 <= u < self.order && #[trigger] self.row_max(u) == self.ecc_max();
        assert(*rem[u] <= *o->0);
        assert(self.row_max(j) <= self.ecc_max());
    }
}
