//@file src/repr/adjacency_matrix/mod.rs
spec fn bit_of(b: usize, k: usize) -> bool { b & (1usize << k) != 0 }

/*@struct name=AdjacencyMatrix @*/

impl AdjacencyMatrix {
    spec fn ncells(&self) -> int { self.order as int * self.order as int }
    spec fn cell(&self, i: int) -> bool {
        0 <= i < self.blocks@.len() * 64 && bit_of(self.blocks@[i / 64], (i % 64) as usize)
    }
    /// arc relation of the abstract digraph
    spec fn has(&self, u: int, v: int) -> bool {
        0 <= u < self.order && 0 <= v < self.order && self.cell(u * self.order + v)
    }
    /// representation invariant
    spec fn wf(&self) -> bool {
        &&& self.order > 0
        &&& self.ncells() <= usize::MAX
        &&& self.blocks@.len() == (self.ncells() + 63) / 64
        &&& forall|i: int| self.ncells() <= i ==> !#[trigger] self.cell(i)
        &&& forall|u: int| 0 <= u < self.order ==> !#[trigger] self.cell(u * self.order + u)
    }

    /*@fn impl=AdjacencyMatrix name=mask
    ensures
        r == 1usize << (u & 63),
    @fn_start
        assert(u & 63 < 64) by (bit_vector);
    @*/

    /*@fn impl=AdjacencyMatrix name=index
    requires
        self.order * self.order <= usize::MAX,
        u < self.order,
        v < self.order,
    ensures
        r == u * self.order + v,
        r < self.order * self.order,
    @fn_start
        assert(u * self.order + v < self.order * self.order) by (nonlinear_arith)
            requires u < self.order, v < self.order;
        assert(u * self.order == self.order * u) by (nonlinear_arith);   // the product may be written either way round
    @*/

    /*@fn impl=AdjacencyMatrix trait=Order name=order
    ensures
        r == self.order,
    @*/

    /*@fn impl=AdjacencyMatrix trait=ContiguousOrder name=contiguous_order
    ensures
        r == self.order,
    @*/

    /*@fn impl=AdjacencyMatrix trait=Empty name=empty
    ensures
        order > 0,
        r.wf(),
        r.order == order,
        forall|a: int, b: int| !r.has(a, b),
    @fn_end
        proof {
            assert(!bit_of(0usize, 0usize)) by (bit_vector);
            assert(forall|k: usize| k < 64 ==> !#[trigger] bit_of(0usize, k)) by (bit_vector);
        }
    @*/

    /*@fn impl=AdjacencyMatrix name=toggle
    requires
        old(self).wf(),
    ensures
        final(self).wf(),
        final(self).order == old(self).order,
        u != v && u < old(self).order && v < old(self).order,
        forall|a: int, b: int| #![trigger final(self).has(a, b)] final(self).has(a, b) == (if a == u && b == v { !old(self).has(a, b) } else { old(self).has(a, b) }),
    @panic *
        assert(*self == *old(self));
    @after `let i = self.index(u, v);`
        proof {
            assert(i >> 6 == i / 64 && i & 63 == i % 64) by (bit_vector);
            assert(forall|b: usize, k: usize, ki: usize| k < 64 && ki < 64 ==> #[trigger] bit_of(b ^ (1usize << ki), k) == (if k == ki { !bit_of(b, k) } else { bit_of(b, k) })) by (bit_vector);
        }
    @fn_end
        proof {
            assert forall|j: int| #[trigger] self.cell(j) == (if j == i { !old(self).cell(j) } else { old(self).cell(j) }) by {
                if 0 <= j < self.blocks@.len() * 64 && j / 64 == i / 64 {
                    let k = (j % 64) as usize; let ki = (i % 64) as usize;
                    assert(k < 64 && ki < 64);
                }
            }
            lemma_cells_to_has(*old(self), *self, u as int, v as int);
        }
    @*/

    /*@fn impl=AdjacencyMatrix trait=AddArc name=add_arc
    requires
        old(self).wf(),
    ensures
        final(self).wf(),
        final(self).order == old(self).order,
        u != v && u < old(self).order && v < old(self).order,
        forall|a: int, b: int| #![trigger final(self).has(a, b)] final(self).has(a, b) == (old(self).has(a, b) || (a == u && b == v)),
    @panic *
        assert(*self == *old(self));
    @after `let i = self.index(u, v);`
        proof {
            assert(i >> 6 == i / 64 && i & 63 == i % 64) by (bit_vector);
            assert(forall|b: usize, k: usize, ki: usize| k < 64 && ki < 64 ==> #[trigger] bit_of(b | (1usize << ki), k) == (if k == ki { true } else { bit_of(b, k) })) by (bit_vector);
        }
    @fn_end
        proof {
            assert forall|j: int| #[trigger] self.cell(j) == (if j == i { true } else { old(self).cell(j) }) by {
                if 0 <= j < self.blocks@.len() * 64 && j / 64 == i / 64 {
                    let k = (j % 64) as usize; let ki = (i % 64) as usize;
                    assert(k < 64 && ki < 64);
                }
            }
            lemma_cells_to_has(*old(self), *self, u as int, v as int);
        }
    @*/

    /*@fn impl=AdjacencyMatrix trait=HasArc name=has_arc
    requires
        self.wf(),
    ensures
        r == self.has(u as int, v as int),
    @after `let i = self.index(u, v);`
        proof {
            assert(i >> 6 == i / 64 && i & 63 == i % 64) by (bit_vector);
        }
    @*/

    /*@fn impl=AdjacencyMatrix trait=HasEdge name=has_edge
    requires
        self.wf(),
    ensures
        r == (self.has(u as int, v as int) && self.has(v as int, u as int)),
    @*/

    /*@fn impl=AdjacencyMatrix trait=RemoveArc name=remove_arc
    requires
        old(self).wf(),
    ensures
        final(self).wf(),
        final(self).order == old(self).order,
        r == old(self).has(u as int, v as int),
        forall|a: int, b: int| #![trigger final(self).has(a, b)] final(self).has(a, b) == (old(self).has(a, b) && !(a == u && b == v)),
    @after `let i = self.index(u, v);`
        proof {
            assert(i >> 6 == i / 64 && i & 63 == i % 64) by (bit_vector);
            assert(forall|b: usize, k: usize, ki: usize| k < 64 && ki < 64 ==> #[trigger] bit_of(b & !(1usize << ki), k) == (if k == ki { false } else { bit_of(b, k) })) by (bit_vector);
        }
    @fn_end
        proof {
            assert forall|j: int| #[trigger] self.cell(j) == (if j == i { false } else { old(self).cell(j) }) by {
                if 0 <= j < self.blocks@.len() * 64 && j / 64 == i / 64 {
                    let k = (j % 64) as usize; let ki = (i % 64) as usize;
                    assert(k < 64 && ki < 64);
                }
            }
            lemma_cells_to_has(*old(self), *self, u as int, v as int);
        }
    @*/
}

proof fn lemma_index_inj(a: int, b: int, u: int, v: int, n: int)
    requires 0 <= a < n, 0 <= b < n, 0 <= u < n, 0 <= v < n, a * n + b == u * n + v,
    ensures a == u && b == v,
{
    assert(a == u) by (nonlinear_arith)
        requires 0 <= a < n, 0 <= b < n, 0 <= u < n, 0 <= v < n, a * n + b == u * n + v;
}

proof fn lemma_index_bound(a: int, b: int, n: int)
    requires 0 <= a < n, 0 <= b < n,
    ensures 0 <= a * n + b < n * n,
{
    assert(0 <= a * n + b < n * n) by (nonlinear_arith) requires 0 <= a < n, 0 <= b < n;
}

/// lifting a one-cell change at (u, v) to the arc relation and to the representation invariant
proof fn lemma_cells_to_has(o: AdjacencyMatrix, n: AdjacencyMatrix, u: int, v: int)
    requires
        o.wf(),
        n.order == o.order,
        n.blocks@.len() == o.blocks@.len(),
        0 <= u < o.order, 0 <= v < o.order,
        u == v ==> !n.cell(u * o.order + v),
        forall|j: int| j != u * o.order + v ==> #[trigger] n.cell(j) == o.cell(j),
    ensures
        n.wf(),
        forall|a: int, b: int| #![trigger n.has(a, b)] !(a == u && b == v) ==> n.has(a, b) == o.has(a, b),
        n.has(u, v) == n.cell(u * o.order + v),
        o.has(u, v) == o.cell(u * o.order + v),
{
    let ord = o.order as int;
    lemma_index_bound(u, v, ord);
    assert forall|a: int, b: int| #![trigger n.has(a, b)] !(a == u && b == v) implies n.has(a, b) == o.has(a, b) by {
        if 0 <= a < ord && 0 <= b < ord {
            if a * ord + b == u * ord + v { lemma_index_inj(a, b, u, v, ord); }
        }
    }
    assert forall|i: int| n.ncells() <= i implies !#[trigger] n.cell(i) by { assert(!o.cell(i)); }
    assert forall|a: int| 0 <= a < n.order implies !#[trigger] n.cell(a * n.order + a) by {
        if a * ord + a == u * ord + v { lemma_index_inj(a, a, u, v, ord); } else { assert(!o.cell(a * ord + a)); }
    }
}

