//@file src/repr/adjacency_list/mod.rs
// AdjacencyList::in_neighbors and its iterator.  The iterator struct keeps a raw pointer to the rows next to a
// `PhantomData<&'a BTreeSet<usize>>` marker; rule E5c represents that field as the borrowed slice it is taken from, so the
// UB condition of `*self.ptr.add(idx)` (idx within the allocation the pointer was taken from) is the slice bound
// `idx < self.ptr@.len()`, an obligation discharged from the iterator's invariant `len == ptr@.len()`.

/*@struct name=InNeighborsIterator ptrfield=ptr @*/

impl<'a> InNeighborsIterator<'a> {
    /// established by `in_neighbors`, preserved by `next`
    spec fn inv(&self) -> bool {
        self.len == self.ptr@.len() && self.i <= self.len
    }
    /// row u contains the queried head
    spec fn hit(&self, u: int) -> bool {
        0 <= u < self.ptr@.len() && self.ptr@[u]@.contains(self.v)
    }

    /*@fn impl=InNeighborsIterator trait=Iterator name=next subst=Self::Item=>usize ptrfield=ptr
    requires
        old(self).inv(),
    ensures
        final(self).inv(),
        final(self).ptr == old(self).ptr,
        final(self).len == old(self).len,
        final(self).v == old(self).v,
        match r {
            Some(idx) => old(self).i <= idx < old(self).len && old(self).hit(idx as int) && final(self).i == idx + 1
                && (forall|j: int| old(self).i <= j < idx ==> !old(self).hit(j)),
            None => final(self).i == old(self).len && (forall|j: int| old(self).i <= j < old(self).len ==> !old(self).hit(j)),
        },
    @loop 1
    invariant
        self.inv(),
        self.ptr == old(self).ptr,
        self.len == old(self).len,
        self.v == old(self).v,
        old(self).i <= self.i,
        forall|j: int| old(self).i <= j < self.i ==> !old(self).hit(j),
    decreases self.len - self.i,
    @*/
}

impl AdjacencyList {
    /*@fn impl=AdjacencyList trait=InNeighbors name=in_neighbors rettype="InNeighborsIterator<'_>" ptrfield=ptr
    ensures
        r.inv(),
        r.ptr@ == self.arcs@,
        r.i == 0,
        r.v == v,
    @*/
}

/// C02 for in_neighbors: the sequence of items yielded by repeated `next` calls from the state returned by
/// `in_neighbors(v)` is the ascending list of exactly the vertices u with an arc u -> v.  `next`'s contract makes the run
/// deterministic: each step returns the least hit at or after the cursor, so the k-th item is the k-th hit.
spec fn hits_from(it: InNeighborsIterator<'_>, from: int) -> Seq<int>
    decreases it.ptr@.len() - from,
{
    if from >= it.ptr@.len() || from < 0 {
        Seq::empty()
    } else if it.hit(from) {
        seq![from].add(hits_from(it, from + 1))
    } else {
        hits_from(it, from + 1)
    }
}

proof fn lemma_hits_sound(it: InNeighborsIterator<'_>, from: int)
    requires 0 <= from,
    ensures
        forall|k: int| 0 <= k < hits_from(it, from).len() ==> from <= #[trigger] hits_from(it, from)[k] && it.hit(hits_from(it, from)[k]),
        forall|k: int, l: int| 0 <= k < l < hits_from(it, from).len() ==> hits_from(it, from)[k] < hits_from(it, from)[l],
        forall|u: int| from <= u && it.hit(u) ==> hits_from(it, from).contains(u),
    decreases it.ptr@.len() - from,
{
    if from >= it.ptr@.len() {
    } else {
        lemma_hits_sound(it, from + 1);
        let rest = hits_from(it, from + 1);
        if it.hit(from) {
            let s = seq![from].add(rest);
            assert(s == hits_from(it, from));
            assert forall|k: int| 0 <= k < s.len() implies from <= #[trigger] s[k] && it.hit(s[k]) by {
                if k > 0 { assert(s[k] == rest[k - 1]); }
            }
            assert forall|k: int, l: int| 0 <= k < l < s.len() implies s[k] < s[l] by {
                assert(s[l] == rest[l - 1]);
                if k > 0 { assert(s[k] == rest[k - 1]); }
            }
            assert forall|u: int| from <= u && it.hit(u) implies s.contains(u) by {
                if u == from { assert(s[0] == from); } else {
                    assert(rest.contains(u));
                    let k = choose|k: int| 0 <= k < rest.len() && rest[k] == u;
                    assert(s[k + 1] == u);
                }
            }
        } else {
            assert forall|u: int| from <= u && it.hit(u) implies hits_from(it, from).contains(u) by {
                assert(u != from);
            }
        }
    }
}

/// one step of `next` consumes exactly the first remaining hit: the relation between the step contract and `hits_from`
proof fn lemma_step(pre: InNeighborsIterator<'_>, post: InNeighborsIterator<'_>, r: Option<usize>)
    requires
        pre.inv(), post.inv(), post.ptr == pre.ptr, post.len == pre.len, post.v == pre.v,
        match r {
            Some(idx) => pre.i <= idx < pre.len && pre.hit(idx as int) && post.i == idx + 1
                && (forall|j: int| pre.i <= j < idx ==> !pre.hit(j)),
            None => post.i == pre.len && (forall|j: int| pre.i <= j < pre.len ==> !pre.hit(j)),
        },
    ensures
        match r {
            Some(idx) => hits_from(pre, pre.i as int) == seq![idx as int].add(hits_from(post, post.i as int)),
            None => hits_from(pre, pre.i as int) == Seq::<int>::empty(),
        },
{
    match r {
        Some(idx) => { lemma_skip(pre, pre.i as int, idx as int); lemma_same(pre, post, idx as int + 1); }
        None => { lemma_skip(pre, pre.i as int, pre.len as int); }
    }
}

proof fn lemma_skip(it: InNeighborsIterator<'_>, from: int, to: int)
    requires 0 <= from <= to <= it.ptr@.len(), forall|j: int| from <= j < to ==> !it.hit(j),
    ensures hits_from(it, from) == hits_from(it, to),
    decreases to - from,
{
    if from < to { lemma_skip(it, from + 1, to); }
}

proof fn lemma_same(a: InNeighborsIterator<'_>, b: InNeighborsIterator<'_>, from: int)
    requires a.ptr == b.ptr, a.v == b.v, 0 <= from,
    ensures hits_from(a, from) == hits_from(b, from),
    decreases a.ptr@.len() - from,
{
    if from < a.ptr@.len() { lemma_same(a, b, from + 1); }
}

/// the hits of the iterator returned by in_neighbors(v) are exactly the in-neighbours of v in the abstract digraph
proof fn lemma_in_neighbors_def(g: AdjacencyList, it: InNeighborsIterator<'_>, v: usize)
    requires it.ptr@ == g.arcs@, it.v == v,
    ensures forall|u: int| it.hit(u) == g.has(u, v as int),
{
}
