//@file src/repr/adjacency_map/mod.rs
// ---- AdjacencyMap::arcs (rule E14d: the returned flat_map pipeline is evaluated eagerly into a Vec) ----
// The contract is, clause for clause, the contract that units map_ctor / map_more ASSUME for `arcs()` (prelude/map_ctor_std.rs, A1).

/// strict lexicographic order on arcs (tail first, then head)
spec fn mc_lex_lt(a: (usize, usize), b: (usize, usize)) -> bool { a.0 < b.0 || (a.0 == b.0 && a.1 < b.1) }

/// `s` lists the arcs stored in the raw field `m` (verbatim from prelude/map_ctor_std.rs)
spec fn mc_arcs_listed(m: Map<usize, BTreeSet<usize>>, s: Seq<(usize, usize)>) -> bool {
    &&& forall|i: int| 0 <= i < s.len() ==> m.contains_key((#[trigger] s[i]).0) && m[s[i].0]@.contains(s[i].1)
    &&& forall|u: usize, v: usize| m.contains_key(u) && #[trigger] m[u]@.contains(v) ==> s.contains((u, v))
    &&& forall|i: int, j: int| 0 <= i < j < s.len() ==> mc_lex_lt(#[trigger] s[i], #[trigger] s[j])
    &&& s.no_duplicates()
}

impl AdjacencyMap {
    /*@fn impl=AdjacencyMap trait=Arcs name=arcs loopify=Vec fuse eager props=C01,C16,C13
    ensures
        r.obeys_prophetic_iter_laws(),
        r.decrease() is Some,
        mc_arcs_listed(self.arcs@, r.remaining()),
    @*/
}
