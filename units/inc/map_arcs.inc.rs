//@file src/repr/adjacency_map/mod.rs
// ---- AdjacencyMap::arcs (rule E14d: the returned flat_map pipeline is evaluated eagerly into a Vec) ----
// The contract is, clause for clause, the contract that units map_ctor / map_more ASSUME for `arcs()` (prelude/map_ctor_std.rs, A1).

/// strict lexicographic order on arcs (tail first, then head)
spec fn mc_lex_lt(a: (usize, usize), b: (usize, usize)) -> bool { a.0 < b.0 || (a.0 == b.0 && a.1 < b.1) }

/// `s` lists the arcs stored in the raw field `m` (verbatim from prelude/map_ctor_std.rs)
spec fn mc_arcs_listed(m: Map<usize, BTreeSet<usize>>, s: Seq<(usize, usize)>) -> bool {
    &&& forall|i: int| 0 <= i < s.len() ==> m.contains_key((#[trigger] s[i]).0) && m[s[i].0]@.contains(s[i].1)
    &&& forall|u: usize, v: usize| m.contains_key(u) && #[trigger] m[u]@.contains(v) ==> s.contains((u, v))
    &&& forall|i: int, j: int| 0 <= i < j < s.len() ==> mc_lex_lt(#[trigger] s[i], #[trigger] s[j])
    &&& s.no_duplicates()
}


// ---- proof vocabulary for the two generated loops ----

/// the arc p lies strictly below the bound (bu, bv) in lexicographic order (bounds are ints so that "no bound" is usize::MAX + 1)
spec fn ma_lt(p: (usize, usize), bu: int, bv: int) -> bool { p.0 < bu || (p.0 == bu && p.1 < bv) }

/// p is stored in the raw field
spec fn ma_stored(m: Map<usize, BTreeSet<usize>>, p: (usize, usize)) -> bool { m.contains_key(p.0) && m[p.0]@.contains(p.1) }

/// s lists exactly the stored arcs below the bound (bu, bv), strictly ascending
spec fn ma_pref(m: Map<usize, BTreeSet<usize>>, s: Seq<(usize, usize)>, bu: int, bv: int) -> bool {
    &&& forall|i: int| 0 <= i < s.len() ==> ma_stored(m, #[trigger] s[i]) && ma_lt(s[i], bu, bv)
    &&& forall|a: usize, b: usize| m.contains_key(a) && #[trigger] m[a]@.contains(b) && ma_lt((a, b), bu, bv) ==> s.contains((a, b))
    &&& forall|i: int, j: int| 0 <= i < j < s.len() ==> mc_lex_lt(#[trigger] s[i], #[trigger] s[j])
}

/// the n-th key of the item sequence of `BTreeMap::iter`, "no bound" past the end
spec fn ma_kbound(items: Seq<(&usize, &BTreeSet<usize>)>, n: int) -> int {
    if 0 <= n < items.len() { *items[n].0 as int } else { usize::MAX as int + 1 }
}
/// the k-th element of the item sequence of `BTreeSet::iter`, "no bound" past the end
spec fn ma_vbound(rs: Seq<&usize>, k: int) -> int {
    if 0 <= k < rs.len() { *rs[k] as int } else { usize::MAX as int + 1 }
}

spec fn ma_keys_asc(items: Seq<(&usize, &BTreeSet<usize>)>) -> bool {
    forall|i: int, j: int| 0 <= i < j < items.len() ==> *(#[trigger] items[i]).0 < *(#[trigger] items[j]).0
}
spec fn ma_ascending(rs: Seq<&usize>) -> bool {
    forall|i: int, j: int| 0 <= i < j < rs.len() ==> *(#[trigger] rs[i]) < *(#[trigger] rs[j])
}

/// meaning of vstd's `increasing_seq` (the promise of `BTreeSet::iter` / `BTreeMap::iter`): strictly ascending
proof fn lemma_ma_ref_increasing(rs: Seq<&usize>)
    requires vstd::std_specs::btree::increasing_seq(rs),
    ensures ma_ascending(rs),
{
    broadcast use vstd::laws_cmp::group_laws_cmp;
    assert(vstd::laws_cmp::obeys_cmp::<&usize>());
    vstd::std_specs::btree::axiom_increasing_seq_meaning(rs);
    assert forall|i: int, j: int| 0 <= i < j < rs.len() implies *(#[trigger] rs[i]) < *(#[trigger] rs[j]) by {
        assert(<&usize as vstd::std_specs::cmp::OrdSpec>::cmp_spec(&rs[i], &rs[j]) is Less);
    }
}
proof fn lemma_ma_increasing(ks: Seq<usize>, i: int, j: int)
    requires vstd::std_specs::btree::increasing_seq(ks), 0 <= i < j < ks.len(),
    ensures ks[i] < ks[j],
{
    broadcast use vstd::laws_cmp::group_laws_cmp;
    assert(vstd::laws_cmp::obeys_cmp::<usize>());
    vstd::std_specs::btree::axiom_increasing_seq_meaning(ks);
    assert(<usize as vstd::std_specs::cmp::OrdSpec>::cmp_spec(&ks[i], &ks[j]) is Less);
}

/// the index of a stored element b in the item sequence of its row
proof fn lemma_ma_row_index(row: Set<usize>, rs: Seq<&usize>, b: usize) -> (j: int)
    requires rs.unref().to_set() == row, row.contains(b),
    ensures 0 <= j < rs.len(), *rs[j] == b,
{
    assert(rs.unref().to_set().contains(b));
    assert(rs.unref().contains(b));
    let j = choose|j: int| 0 <= j < rs.unref().len() && rs.unref()[j] == b;
    j
}

/// the index of a key a in the item sequence of the map
proof fn lemma_ma_key_index(m: Map<usize, BTreeSet<usize>>, items: Seq<(&usize, &BTreeSet<usize>)>, a: usize) -> (j: int)
    requires map_items_of(m, items), m.contains_key(a),
    ensures 0 <= j < items.len(), *items[j].0 == a,
{
    let p = (&a, &m[a]);
    assert(items.contains(p));
    let j = choose|j: int| 0 <= j < items.len() && items[j] == p;
    j
}

/// before the first key nothing is stored
proof fn lemma_ma_start(m: Map<usize, BTreeSet<usize>>, items: Seq<(&usize, &BTreeSet<usize>)>)
    requires map_items_of(m, items), ma_keys_asc(items),
    ensures ma_pref(m, Seq::<(usize, usize)>::empty(), ma_kbound(items, 0), 0),
{
    let s = Seq::<(usize, usize)>::empty();
    assert forall|a: usize, b: usize| m.contains_key(a) && #[trigger] m[a]@.contains(b) && ma_lt((a, b), ma_kbound(items, 0), 0) implies s.contains((a, b)) by {
        let j = lemma_ma_key_index(m, items, a);
        if j > 0 { assert(*items[0].0 < *items[j].0); }
    }
}

/// entering the row of u: nothing of that row lies below its first element
proof fn lemma_ma_row_start(m: Map<usize, BTreeSet<usize>>, s: Seq<(usize, usize)>, u: usize, rs: Seq<&usize>)
    requires ma_pref(m, s, u as int, 0), m.contains_key(u), rs.unref().to_set() == m[u]@, ma_ascending(rs),
    ensures ma_pref(m, s, u as int, ma_vbound(rs, 0)),
{
    let c = ma_vbound(rs, 0);
    assert forall|i: int| 0 <= i < s.len() implies ma_stored(m, #[trigger] s[i]) && ma_lt(s[i], u as int, c) by {
        assert(ma_lt(s[i], u as int, 0));
    }
    assert forall|a: usize, b: usize| m.contains_key(a) && #[trigger] m[a]@.contains(b) && ma_lt((a, b), u as int, c) implies s.contains((a, b)) by {
        if a == u {
            let j = lemma_ma_row_index(m[u]@, rs, b);
            if j > 0 { assert(*rs[0] < *rs[j]); }
        }
        assert(ma_lt((a, b), u as int, 0));
    }
}

/// one step of the inner loop: pushing (u, rs[k]) moves the bound to rs[k + 1]
proof fn lemma_ma_push(m: Map<usize, BTreeSet<usize>>, s: Seq<(usize, usize)>, u: usize, rs: Seq<&usize>, k: int)
    requires
        m.contains_key(u), rs.unref().to_set() == m[u]@, ma_ascending(rs), 0 <= k < rs.len(),
        ma_pref(m, s, u as int, ma_vbound(rs, k)),
    ensures ma_pref(m, s.push((u, *rs[k])), u as int, ma_vbound(rs, k + 1)),
{
    let p = (u, *rs[k]);
    let s2 = s.push(p);
    let c = ma_vbound(rs, k);
    let c2 = ma_vbound(rs, k + 1);
    assert(c == *rs[k]);
    if k + 1 < rs.len() { assert(*rs[k] < *rs[k + 1]); }
    assert(c < c2);
    assert(rs.unref()[k] == *rs[k]);
    assert(rs.unref().contains(*rs[k]));
    assert(rs.unref().to_set().contains(*rs[k]));
    assert(ma_stored(m, p));
    assert forall|i: int| 0 <= i < s2.len() implies ma_stored(m, #[trigger] s2[i]) && ma_lt(s2[i], u as int, c2) by {
        if i < s.len() { assert(s2[i] == s[i]); assert(ma_lt(s[i], u as int, c)); } else { assert(s2[i] == p); }
    }
    assert forall|a: usize, b: usize| m.contains_key(a) && #[trigger] m[a]@.contains(b) && ma_lt((a, b), u as int, c2) implies s2.contains((a, b)) by {
        if ma_lt((a, b), u as int, c) {
            assert(s.contains((a, b)));
            let i = choose|i: int| 0 <= i < s.len() && s[i] == (a, b);
            assert(s2[i] == (a, b));
        } else {
            let j = lemma_ma_row_index(m[u]@, rs, b);
            if j < k { assert(*rs[j] < *rs[k]); }
            if j > k { if j > k + 1 { assert(*rs[k + 1] < *rs[j]); } }
            assert(j == k);
            assert(s2[s.len() as int] == (a, b));
        }
    }
    assert forall|i: int, j: int| 0 <= i < j < s2.len() implies mc_lex_lt(#[trigger] s2[i], #[trigger] s2[j]) by {
        assert(s2[i] == s[i]);
        if j < s.len() { assert(s2[j] == s[j]); } else { assert(s2[j] == p); assert(ma_lt(s[i], u as int, c)); }
    }
}

/// leaving the row of the n-th key: the bound moves to the next key
proof fn lemma_ma_next_key(m: Map<usize, BTreeSet<usize>>, items: Seq<(&usize, &BTreeSet<usize>)>, n: int, s: Seq<(usize, usize)>)
    requires
        map_items_of(m, items), ma_keys_asc(items), 0 <= n < items.len(),
        ma_pref(m, s, *items[n].0 as int, usize::MAX as int + 1),
    ensures ma_pref(m, s, ma_kbound(items, n + 1), 0),
{
    let u = *items[n].0;
    let b2 = ma_kbound(items, n + 1);
    if n + 1 < items.len() { assert(*items[n].0 < *items[n + 1].0); }
    assert(u < b2);
    assert forall|i: int| 0 <= i < s.len() implies ma_stored(m, #[trigger] s[i]) && ma_lt(s[i], b2, 0) by {
        assert(ma_lt(s[i], u as int, usize::MAX as int + 1));
    }
    assert forall|a: usize, b: usize| m.contains_key(a) && #[trigger] m[a]@.contains(b) && ma_lt((a, b), b2, 0) implies s.contains((a, b)) by {
        let j = lemma_ma_key_index(m, items, a);
        if j > n { if j > n + 1 { assert(*items[n + 1].0 < *items[j].0); } }
        if j < n { assert(*items[j].0 < *items[n].0); }
        assert(ma_lt((a, b), u as int, usize::MAX as int + 1));
    }
}

/// past the last key: the contract of `arcs()`
proof fn lemma_ma_final(m: Map<usize, BTreeSet<usize>>, s: Seq<(usize, usize)>, bu: int)
    requires ma_pref(m, s, bu, 0),
    ensures bu > usize::MAX ==> mc_arcs_listed(m, s),
{
    if bu <= usize::MAX { return; }
    assert forall|i: int| 0 <= i < s.len() implies m.contains_key((#[trigger] s[i]).0) && m[s[i].0]@.contains(s[i].1) by {
        assert(ma_stored(m, s[i]));
    }
    assert forall|u: usize, v: usize| m.contains_key(u) && #[trigger] m[u]@.contains(v) implies s.contains((u, v)) by {
        assert(ma_lt((u, v), bu, 0));
    }
    assert forall|i: int, j: int| 0 <= i < j < s.len() implies s[i] != s[j] by {
        assert(mc_lex_lt(s[i], s[j]));
    }
}

impl AdjacencyMap {
    /*@fn impl=AdjacencyMap trait=Arcs name=arcs loopify=Vec noisolation fuse eager props=C01,C16,C13
    ensures
        r.obeys_prophetic_iter_laws(),
        r.decrease() is Some,
        mc_arcs_listed(self.arcs@, r.remaining()),
    @fn_start
        proof {
            // `BTreeMap::iter` / `BTreeSet::iter` promise `increasing_seq` of the key projection `f` of the items
            assert forall|src: Seq<(&usize, &BTreeSet<usize>)>, f: spec_fn((&usize, &BTreeSet<usize>)) -> usize, i: int, j: int|
                #[trigger] vstd::std_specs::btree::increasing_seq(src.map_values(f)) && 0 <= i < j < src.len()
                implies f(#[trigger] src[i]) < f(#[trigger] src[j]) by {
                lemma_ma_increasing(src.map_values(f), i, j);
            }
            assert forall|items: Seq<(&usize, &BTreeSet<usize>)>| map_items_of(self.arcs@, items) && #[trigger] ma_keys_asc(items)
                implies ma_pref(self.arcs@, Seq::<(usize, usize)>::empty(), ma_kbound(items, 0), 0) by { lemma_ma_start(self.arcs@, items); }
        }
    @loop 1
    invariant
        map_items_of(self.arcs@, it1.seq()),
        ma_keys_asc(it1.seq()),
        ma_pref(self.arcs@, vx_acc1@, ma_kbound(it1.seq(), it1.index() as int), 0),
        it1.index() >= it1.seq().len() ==> mc_arcs_listed(self.arcs@, vx_acc1@),
    @loop_start 1
        proof {
            assert forall|rs: Seq<&usize>| #[trigger] vstd::std_specs::btree::increasing_seq(rs) implies ma_ascending(rs) by { lemma_ma_ref_increasing(rs); }
            assert forall|rs: Seq<&usize>| rs.unref().to_set() == set@ && #[trigger] ma_ascending(rs)
                implies ma_pref(self.arcs@, vx_acc1@, *u as int, ma_vbound(rs, 0)) by { lemma_ma_row_start(self.arcs@, vx_acc1@, *u, rs); }
        }
    @loop 2
    invariant
        self.arcs@.contains_key(*u),
        self.arcs@[*u] == *set,
        it2.seq().unref().to_set() == set@,
        ma_ascending(it2.seq()),
        ma_pref(self.arcs@, vx_acc1@, *u as int, ma_vbound(it2.seq(), it2.index() as int)),
    @loop_start 2
        proof { lemma_ma_push(self.arcs@, vx_acc1@, *u, it2.seq(), it2.index() as int); }
    @loop_end 1
        proof {
            lemma_ma_next_key(self.arcs@, it1.seq(), it1.index() as int, vx_acc1@);
            lemma_ma_final(self.arcs@, vx_acc1@, ma_kbound(it1.seq(), it1.index() as int + 1));
        }
    @*/
}
