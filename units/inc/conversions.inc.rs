//@file src/repr/adjacency_matrix/mod.rs
// ---- C16: conversions between representations preserve (V, A); invalid sources panic ----

/// vertex ids are `usize` by type; the opaque source `Dg` states its arc relation over `int`
spec fn is_id(a: int) -> bool { 0 <= a <= usize::MAX }

/// C16 (normal return): the source was a valid digraph (at least one vertex, no self-loop, every head in V);
/// a source violating this makes the conversion panic
spec fn dg_valid(d: Dg) -> bool {
    &&& d.ord() > 0
    &&& forall|u: int, v: int| is_id(u) && is_id(v) && #[trigger] d.has(u, v) ==> 0 <= u < d.ord() && 0 <= v < d.ord() && u != v
}

/// the items of `Dg::arcs()` (trait contract): exactly the arcs of the source
spec fn arcs_of(d: Dg, s: Seq<(usize, usize)>) -> bool {
    &&& forall|u: usize, v: usize| d.has(u as int, v as int) ==> s.contains((u, v))
    &&& forall|i: int| 0 <= i < s.len() ==> d.has((#[trigger] s[i]).0 as int, s[i].1 as int)
}

impl AdjacencyMatrix {
    /*@fn impl=AdjacencyMatrix trait=From name=from rename=from_dg macro=impl_from_arcs_empty_order macroarg=Dg
    ensures
        r.wf(),
        r.order == digraph.ord(),
        forall|a: int, b: int| #![trigger r.has(a, b)] is_id(a) && is_id(b) ==> r.has(a, b) == digraph.has(a, b),
        dg_valid(digraph),
    @loop 1
    invariant
        it1.iter.obeys_prophetic_iter_laws(),
        it1.iter.decrease() is Some,
        arcs_of(digraph, it1.seq()),
        h.wf(),
        h.order == order,
        order == digraph.ord(),
        forall|i: int| 0 <= i < it1.index() ==> (#[trigger] it1.seq()[i]).0 < order && it1.seq()[i].1 < order && it1.seq()[i].0 != it1.seq()[i].1,
        forall|i: int| 0 <= i < it1.index() ==> h.has((#[trigger] it1.seq()[i]).0 as int, it1.seq()[i].1 as int),
        forall|a: int, b: int| #![trigger h.has(a, b)] h.has(a, b) ==> exists|i: int| 0 <= i < it1.index() && it1.seq()[i] == (a as usize, b as usize),
    @*/

    /*@fn impl=AdjacencyMatrix trait=From implhas='impl<I> From<I>' name=from rename=from_arcs subst=I=>Vec<(usize,usize)> drop=I dropwhere=I
    ensures
        r.wf(),
        iter@.len() > 0,
        arcs_input_ok(iter@, r.order as int),
        forall|a: int, b: int| #![trigger r.has(a, b)] r.has(a, b) == (is_id(a) && is_id(b) && iter@.contains((a as usize, b as usize))),
    @loop 1
    invariant
        it1.seq() == iter@,
        arcs@ == it1.seq().take(it1.index()),
        forall|i: int| 0 <= i < it1.index() ==> (#[trigger] it1.seq()[i]).0 <= order && it1.seq()[i].1 <= order && it1.seq()[i].0 != it1.seq()[i].1,
        it1.index() == 0 ==> order == 0,
        it1.index() > 0 ==> exists|i: int| 0 <= i < it1.index() && ((#[trigger] it1.seq()[i]).0 == order || it1.seq()[i].1 == order),
    @loop_end 1
        proof { assert(arcs@ =~= it1.seq().take(it1.index() + 1)); }
    @loop 2
    invariant
        it2.seq() == iter@,
        digraph.wf(),
        digraph.order == order,
        forall|i: int| 0 <= i < iter@.len() ==> (#[trigger] iter@[i]).0 < order && iter@[i].1 < order && iter@[i].0 != iter@[i].1,
        forall|a: int, b: int| #![trigger digraph.has(a, b)] digraph.has(a, b) == (is_id(a) && is_id(b) && exists|i: int| 0 <= i < it2.index() && it2.seq()[i] == (a as usize, b as usize)),
    @*/
}

/// C16, building from an iterator of arcs: no self-loop in the input, `order` exceeds every id and is some id + 1
/// (order = largest id + 1)
spec fn arcs_input_ok(s: Seq<(usize, usize)>, order: int) -> bool {
    &&& forall|i: int| 0 <= i < s.len() ==> (#[trigger] s[i]).0 != s[i].1 && s[i].0 < order && s[i].1 < order
    &&& s.len() > 0 ==> exists|i: int| 0 <= i < s.len() && ((#[trigger] s[i]).0 + 1 == order || s[i].1 + 1 == order)
}

//@file src/repr/edge_list/mod.rs
impl EdgeList {
    /*@fn impl=EdgeList trait=From name=from rename=from_dg macro=impl_from_arcs_order macroarg=Dg
    ensures
        r.wf(),
        r.ord() == digraph.ord(),
        forall|a: int, b: int| #![trigger r.has(a, b)] is_id(a) && is_id(b) ==> r.has(a, b) == digraph.has(a, b),
        dg_valid(digraph),
    @loop 1
    invariant
        it1.iter.obeys_prophetic_iter_laws(),
        it1.iter.decrease() is Some,
        arcs_of(digraph, it1.seq()),
        h.wf(),
        h.ord() == order,
        order == digraph.ord(),
        forall|i: int| 0 <= i < it1.index() ==> (#[trigger] it1.seq()[i]).0 < order && it1.seq()[i].1 < order && it1.seq()[i].0 != it1.seq()[i].1,
        forall|i: int| 0 <= i < it1.index() ==> h.has((#[trigger] it1.seq()[i]).0 as int, it1.seq()[i].1 as int),
        forall|a: int, b: int| #![trigger h.has(a, b)] h.has(a, b) ==> exists|i: int| 0 <= i < it1.index() && it1.seq()[i] == (a as usize, b as usize),
    @*/

    // the same function as in units/edge_list_core.rs, here with the full C16 clause (order = largest id + 1, or 1 for the
    // empty input, which this representation documents as allowed)
    /*@fn impl=EdgeList trait=From implhas='impl<I> From<I>' name=from rename=from_arcs subst=I=>Vec<(usize,usize)> drop=I dropwhere=I
    ensures
        r.wf(),
        arcs_input_ok(iter@, r.ord()),
        iter@.len() == 0 ==> r.ord() == 1,
        forall|a: int, b: int| #![trigger r.has(a, b)] r.has(a, b) == (is_id(a) && is_id(b) && iter@.contains((a as usize, b as usize))),
    @loop 1
    invariant
        it1.seq() == iter@,
        forall|i: int| 0 <= i < it1.index() ==> (#[trigger] it1.seq()[i]).0 <= order && it1.seq()[i].1 <= order && it1.seq()[i].0 != it1.seq()[i].1,
        it1.index() == 0 ==> order == 0,
        it1.index() > 0 ==> exists|i: int| 0 <= i < it1.index() && ((#[trigger] it1.seq()[i]).0 == order || it1.seq()[i].1 == order),
        forall|p: (usize, usize)| #[trigger] arcs@.contains(p) == exists|i: int| 0 <= i < it1.index() && it1.seq()[i] == p,
    @*/
}

// ---- AdjacencyList side. Its own module: list_core.inc.rs and edge_list_core.inc.rs each carry a module-level
// `broadcast use` and Verus allows one per module ----
mod list_side {
use super::*;
//@import units/inc/list_core.inc.rs

//@file src/repr/adjacency_list/mod.rs
/*@struct name=ArcsIterator @*/

impl<'a> ArcsIterator<'a> {
    /*@fn impl=ArcsIterator trait=Iterator name=next subst=Self::Item=>(usize,usize)
    ensures
        true,
    @*/
}
} // mod list_side
