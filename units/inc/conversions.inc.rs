//@file src/repr/adjacency_matrix/mod.rs
// ---- C16: conversions between representations preserve (V, A); invalid sources panic ----
// Under contract here: AdjacencyMatrix::{from(Dg), from(arcs)}, AdjacencyList::{from(Dg), from(rows), empty} (+ its ArcsIterator::next),
// EdgeList::{from(Dg), from(arcs)}; round trips as lemmas.  A source of ANOTHER representation is the opaque `Dg` (prelude/dg.rs):
// the converter only uses `order()` and `arcs()`, whose trait contracts `Dg` carries; `Dg` is NOT assumed well-formed.
// Not under contract: AdjacencyListWeighted<_>::from(unweighted) (its macro has two parameters `($type:ty, $weight:ty)`, rule E3
// instantiates single-parameter macros only), AdjacencyListWeighted::from(rows) (its `arcs()` is enumerate + flat_map), all
// AdjacencyMap targets (no wf-establishing constructor under contract).

/// vertex ids are `usize` by type; the opaque source `Dg` states its arc relation over `int`
spec fn is_id(a: int) -> bool { 0 <= a <= usize::MAX }

/// C16 (normal return): the source was a valid digraph (at least one vertex, no self-loop, every head in V);
/// a source violating this makes the conversion panic
spec fn dg_valid(d: Dg) -> bool {
    &&& d.ord() > 0
    &&& forall|u: int, v: int| is_id(u) && is_id(v) && #[trigger] d.has(u, v) ==> 0 <= u < d.ord() && 0 <= v < d.ord() && u != v
}

/// the items of `Dg::arcs()` (trait contract): exactly the arcs of the source
spec fn arcs_of(d: Dg, s: Seq<(usize, usize)>) -> bool {
    &&& forall|u: usize, v: usize| d.has(u as int, v as int) ==> s.contains((u, v))
    &&& forall|i: int| 0 <= i < s.len() ==> d.has((#[trigger] s[i]).0 as int, s[i].1 as int)
}

impl AdjacencyMatrix {
    /*@fn impl=AdjacencyMatrix trait=From name=from rename=from_dg macro=impl_from_arcs_empty_order macroarg=Dg
    ensures
        r.wf(),
        r.order == digraph.ord(),
        forall|a: int, b: int| #![trigger r.has(a, b)] is_id(a) && is_id(b) ==> r.has(a, b) == digraph.has(a, b),
        dg_valid(digraph),
    @loop 1
    invariant
        it1.iter.obeys_prophetic_iter_laws(),
        it1.iter.decrease() is Some,
        arcs_of(digraph, it1.seq()),
        h.wf(),
        h.order == order,
        order == digraph.ord(),
        forall|i: int| 0 <= i < it1.index() ==> (#[trigger] it1.seq()[i]).0 < order && it1.seq()[i].1 < order && it1.seq()[i].0 != it1.seq()[i].1,
        forall|i: int| 0 <= i < it1.index() ==> h.has((#[trigger] it1.seq()[i]).0 as int, it1.seq()[i].1 as int),
        forall|a: int, b: int| #![trigger h.has(a, b)] h.has(a, b) ==> exists|i: int| 0 <= i < it1.index() && it1.seq()[i] == (a as usize, b as usize),
    @panic 1
        assert(!dg_valid(digraph));
    @panic 2
        assert(!dg_valid(digraph)) by { assert((u, v) == it1.seq()[it1.index()]); assert(digraph.has(u as int, v as int)); }
    @panic 3
        assert(!dg_valid(digraph)) by { assert((u, v) == it1.seq()[it1.index()]); assert(digraph.has(u as int, v as int)); }
    @*/

    /*@fn impl=AdjacencyMatrix trait=From implhas='impl<I> From<I>' name=from rename=from_arcs subst=I=>Vec<(usize,usize)> drop=I dropwhere=I
    ensures
        r.wf(),
        iter@.len() > 0,
        arcs_input_ok(iter@, r.order as int),
        forall|a: int, b: int| #![trigger r.has(a, b)] r.has(a, b) == (is_id(a) && is_id(b) && iter@.contains((a as usize, b as usize))),
    @loop 1
    invariant
        it1.seq() == iter@,
        arcs@ == it1.seq().take(it1.index()),
        forall|i: int| 0 <= i < it1.index() ==> (#[trigger] it1.seq()[i]).0 <= order && it1.seq()[i].1 <= order && it1.seq()[i].0 != it1.seq()[i].1,
        it1.index() == 0 ==> order == 0,
        it1.index() > 0 ==> exists|i: int| 0 <= i < it1.index() && ((#[trigger] it1.seq()[i]).0 == order || it1.seq()[i].1 == order),
    @loop_end 1
        proof { assert(arcs@ =~= it1.seq().take(it1.index() + 1)); }
    @loop 2
    invariant
        it2.seq() == iter@,
        digraph.wf(),
        digraph.order == order,
        forall|i: int| 0 <= i < iter@.len() ==> (#[trigger] iter@[i]).0 < order && iter@[i].1 < order && iter@[i].0 != iter@[i].1,
        forall|a: int, b: int| #![trigger digraph.has(a, b)] digraph.has(a, b) == (is_id(a) && is_id(b) && exists|i: int| 0 <= i < it2.index() && it2.seq()[i] == (a as usize, b as usize)),
    @panic 1
        assert(has_self_loop(iter@)) by { assert(iter@[it1.index()] == (u, v)); }
    @panic 2
        assert(iter@.len() == 0);
    @before `digraph.add_arc(`
        // the documented panics of add_arc cannot occur here
        assert(u != v && u < order && v < order) by { assert(iter@[it2.index()] == (u, v)); }
    @*/
}

spec fn has_self_loop(s: Seq<(usize, usize)>) -> bool {
    exists|i: int| 0 <= i < s.len() && (#[trigger] s[i]).0 == s[i].1
}

/// C16, building from an iterator of arcs: no self-loop in the input, `order` exceeds every id and is some id + 1
/// (order = largest id + 1)
spec fn arcs_input_ok(s: Seq<(usize, usize)>, order: int) -> bool {
    &&& forall|i: int| 0 <= i < s.len() ==> (#[trigger] s[i]).0 != s[i].1 && s[i].0 < order && s[i].1 < order
    &&& s.len() > 0 ==> exists|i: int| 0 <= i < s.len() && ((#[trigger] s[i]).0 + 1 == order || s[i].1 + 1 == order)
}

// ---- C16: every round trip is the identity ----
// A conversion sees its source only through the trait contract (`Dg`).  `d0` stands for the start value x0 of
// representation A, `d1` for the intermediate value B::from(x0) (any representation B: by the contracts above its
// order / arc relation equal d0's on ids), and x2 = A::from(that intermediate) satisfies A::from_dg's postcondition
// w.r.t. d1.  Then x2 denotes the same digraph as x0, and (canonical-form lemmas of the core units) has equal field views.

/// `d` is the digraph (ord, has) as seen through the trait methods
spec fn dg_stands_for(d: Dg, ord: int, has: spec_fn(int, int) -> bool) -> bool {
    &&& d.ord() == ord
    &&& forall|a: int, b: int| #[trigger] d.has(a, b) == has(a, b)
}

/// C16 postcondition of every From<unweighted representation>: same order, same arcs
spec fn dg_same(d1: Dg, d0: Dg) -> bool {
    &&& d1.ord() == d0.ord()
    &&& forall|a: int, b: int| is_id(a) && is_id(b) ==> #[trigger] d1.has(a, b) == d0.has(a, b)
}

proof fn lemma_round_trip_matrix(m0: AdjacencyMatrix, d0: Dg, d1: Dg, m2: AdjacencyMatrix)
    requires
        m0.wf(),
        dg_stands_for(d0, m0.order as int, |a: int, b: int| m0.has(a, b)),
        dg_same(d1, d0),
        // postcondition of AdjacencyMatrix::from_dg(d1)
        m2.wf(),
        m2.order == d1.ord(),
        forall|a: int, b: int| #![trigger m2.has(a, b)] is_id(a) && is_id(b) ==> m2.has(a, b) == d1.has(a, b),
    ensures
        m2.order == m0.order,
        forall|a: int, b: int| m2.has(a, b) == m0.has(a, b),
{
    assert forall|a: int, b: int| m2.has(a, b) == m0.has(a, b) by {
        if is_id(a) && is_id(b) {
            assert(d1.has(a, b) == d0.has(a, b));
            assert(d0.has(a, b) == (|a: int, b: int| m0.has(a, b))(a, b));
        }
    }
}

// ---- AdjacencyList side ----
//@import units/inc/list_core.inc.rs

//@file src/repr/adjacency_list/mod.rs
/*@struct name=ArcsIterator @*/

impl<'a> ArcsIterator<'a> {
    /// items the row iterator still holds (row u - 1)
    #[verifier::prophetic]
    spec fn rem(&self) -> Seq<&'a usize> {
        if self.inner is Some { self.inner->0.remaining() } else { Seq::empty() }
    }
    /// abstract state: the arc (a, b) has not been produced yet and will be
    #[verifier::prophetic]
    spec fn pending(&self, a: int, b: int) -> bool {
        ||| self.u <= a < self.arcs@.len() && is_id(b) && self.arcs@[a]@.contains(b as usize)
        ||| a == self.u - 1 && exists|i: int| 0 <= i < self.rem().len() && *(#[trigger] self.rem()[i]) == b
    }
    /// representation invariant of the iterator
    #[verifier::prophetic]
    spec fn inv(&self) -> bool {
        &&& self.u <= self.arcs@.len()
        &&& self.inner is Some ==> {
            &&& self.u >= 1
            &&& self.inner->0.obeys_prophetic_iter_laws()
            &&& self.inner->0.decrease() is Some
            &&& self.row_left() >= 0
            &&& forall|i: int| 0 <= i < self.rem().len() ==> self.arcs@[self.u - 1]@.contains(*(#[trigger] self.rem()[i]))
            &&& forall|i: int, j: int| 0 <= i < j < self.rem().len() ==> *(#[trigger] self.rem()[i]) != *(#[trigger] self.rem()[j])
        }
    }
    /// termination measure of a driver loop: rows not loaded yet, items left in the loaded row
    spec fn rows_left(&self) -> int { self.arcs@.len() - self.u }
    spec fn row_left(&self) -> int {
        if self.inner is Some && self.inner->0.decrease() is Some { self.inner->0.decrease()->0 as int } else { 0 }
    }

    /*@fn impl=ArcsIterator trait=Iterator name=next subst=Self::Item=>(usize,usize)
    requires
        old(self).inv(),
    ensures
        list_arcs_step(*old(self), *final(self), r),
    @loop 1
    invariant
        self.inv(),
        self.arcs == old(self).arcs,
        forall|a: int, b: int| #![trigger self.pending(a, b)] self.pending(a, b) == old(self).pending(a, b),
        self.rows_left() <= old(self).rows_left(),
        self.rows_left() == old(self).rows_left() ==> self.row_left() <= old(self).row_left(),
    decreases
        self.rows_left(),
    @loop_start 1
        let ghost s0 = *self;
    @before `return Some((`
        proof {
            let r0 = s0.rem();
            let r1 = self.rem();
            assert(r0.len() > 0 && r1 == r0.drop_first() && v == *r0[0]);
            assert forall|i: int| 0 <= i < r1.len() implies #[trigger] r1[i] == r0[i + 1] by {}
            assert forall|a: int, b: int| #![trigger self.pending(a, b)] self.pending(a, b) == (s0.pending(a, b) && !(a == self.u - 1 && b == v)) by {
                if a == self.u - 1 {
                    if self.pending(a, b) {
                        let i = choose|i: int| 0 <= i < r1.len() && *(#[trigger] r1[i]) == b;
                        assert(*r0[i + 1] == b);
                    }
                    if s0.pending(a, b) && b != v {
                        let i = choose|i: int| 0 <= i < r0.len() && *(#[trigger] r0[i]) == b;
                        assert(*r1[i - 1] == b);
                    }
                }
            }
            assert(s0.pending(self.u - 1, v as int)) by { assert(*r0[0] == v); }
        }
    @before `if self.u`
        let ghost s1 = *self;
        proof {
            assert(s1.rem().len() == 0);
            assert forall|a: int, b: int| #![trigger s1.pending(a, b)] s1.pending(a, b) == s0.pending(a, b) by {}
        }
    @before `return None;`
        proof {
            assert forall|a: int, b: int| !old(self).pending(a, b) && !self.pending(a, b) by {
                assert(s0.pending(a, b) == old(self).pending(a, b));
                assert(s1.pending(a, b) == s0.pending(a, b));
            }
        }
    @after `self.u +=`
        proof {
            broadcast use vstd::laws_cmp::group_laws_cmp;
            assert(vstd::laws_cmp::obeys_cmp::<usize>());
            let row = self.arcs@[s1.u as int]@;
            let r1 = self.rem();
            assert(r1.unref().to_set() == row);
            assert forall|i: int| 0 <= i < r1.len() implies row.contains(*(#[trigger] r1[i])) by {
                assert(r1.unref()[i] == *r1[i]);
                assert(r1.unref().to_set().contains(r1.unref()[i]));
            }
            assert forall|a: int, b: int| #![trigger self.pending(a, b)] self.pending(a, b) == s1.pending(a, b) by {
                if a == s1.u && is_id(b) {
                    if row.contains(b as usize) {
                        assert(r1.unref().to_set().contains(b as usize));
                        let i = choose|i: int| 0 <= i < r1.unref().len() && r1.unref()[i] == b as usize;
                        assert(*r1[i] == b);
                    }
                }
            }
        }
    @*/
}

/// contract of one `next()` call from state s to state t with result r
#[verifier::prophetic]
spec fn list_arcs_step(s: ArcsIterator, t: ArcsIterator, r: Option<(usize, usize)>) -> bool {
    &&& t.inv()
    &&& t.arcs == s.arcs
    &&& r matches Some(p) ==> {
        &&& p.0 < s.arcs@.len()
        &&& s.arcs@[p.0 as int]@.contains(p.1)
        &&& s.pending(p.0 as int, p.1 as int)
        &&& forall|a: int, b: int| #![trigger t.pending(a, b)] t.pending(a, b) == (s.pending(a, b) && !(a == p.0 && b == p.1))
        &&& (t.rows_left() < s.rows_left() || (t.rows_left() == s.rows_left() && t.row_left() < s.row_left()))
    }
    &&& r is None ==> forall|a: int, b: int| !s.pending(a, b) && !t.pending(a, b)
}

/// every row only names other vertices of V = 0..rows.len()
spec fn rows_valid(rows: Seq<BTreeSet<usize>>) -> bool {
    forall|i: int, x: usize| 0 <= i < rows.len() && #[trigger] rows[i]@.contains(x) ==> x < rows.len() && x != i
}

/// C16, building from an iterator of out-neighbour sets: the rows are kept as given
spec fn rows_kept(g: AdjacencyList, rows: Seq<BTreeSet<usize>>) -> bool {
    &&& g.arcs@.len() == rows.len()
    &&& forall|i: int| 0 <= i < rows.len() ==> #[trigger] g.arcs@[i]@ == rows[i]@
}

impl AdjacencyList {
    /*@fn impl=AdjacencyList trait=From implhas='impl<I> From<I>' name=from subst=I=>Vec<BTreeSet<usize>> drop=I dropwhere=I iterinline=arcs=>@literal
    ensures
        r.wf(),
        rows_kept(r, iter@),
        iter@.len() > 0,
        rows_valid(iter@),
    @loop 1
    invariant
        arcs_it.inv(),
        arcs_it.arcs@ == digraph.arcs@,
        order == digraph.arcs@.len(),
        rows_kept(digraph, iter@),
        forall|a: int, b: int| #![trigger digraph.has(a, b)] digraph.has(a, b) && !arcs_it.pending(a, b) ==> b < order && a != b,
    ensures
        forall|a: int, b: int| !arcs_it.pending(a, b),
    decreases
        arcs_it.rows_left(), arcs_it.row_left(),
    @panic 1
        assert(iter@.len() == 0);
    @panic 2
        assert(!rows_valid(iter@)) by { assert(iter@[u as int]@.contains(v)); }
    @panic 3
        assert(!rows_valid(iter@)) by { assert(iter@[u as int]@.contains(v)); }
    @fn_end
        proof { lemma_list_wf_has(digraph); }
    @*/

    /*@fn impl=AdjacencyList trait=Empty name=empty
    ensures
        order > 0,
        r.wf(),
        r.ord() == order,
        forall|a: int, b: int| !r.has(a, b),
    @*/

    /*@fn impl=AdjacencyList trait=From name=from rename=from_dg macro=impl_from_arcs_empty_order macroarg=Dg
    ensures
        r.wf(),
        r.ord() == digraph.ord(),
        forall|a: int, b: int| #![trigger r.has(a, b)] is_id(a) && is_id(b) ==> r.has(a, b) == digraph.has(a, b),
        dg_valid(digraph),
    @loop 1
    invariant
        it1.iter.obeys_prophetic_iter_laws(),
        it1.iter.decrease() is Some,
        arcs_of(digraph, it1.seq()),
        h.wf(),
        h.ord() == order,
        order == digraph.ord(),
        forall|i: int| 0 <= i < it1.index() ==> (#[trigger] it1.seq()[i]).0 < order && it1.seq()[i].1 < order && it1.seq()[i].0 != it1.seq()[i].1,
        forall|i: int| 0 <= i < it1.index() ==> h.has((#[trigger] it1.seq()[i]).0 as int, it1.seq()[i].1 as int),
        forall|a: int, b: int| #![trigger h.has(a, b)] h.has(a, b) ==> exists|i: int| 0 <= i < it1.index() && it1.seq()[i] == (a as usize, b as usize),
    @panic 1
        assert(!dg_valid(digraph));
    @panic 2
        assert(!dg_valid(digraph)) by { assert((u, v) == it1.seq()[it1.index()]); assert(digraph.has(u as int, v as int)); }
    @panic 3
        assert(!dg_valid(digraph)) by { assert((u, v) == it1.seq()[it1.index()]); assert(digraph.has(u as int, v as int)); }
    @*/
}

proof fn lemma_round_trip_list(l0: AdjacencyList, d0: Dg, d1: Dg, l2: AdjacencyList)
    requires
        l0.wf(),
        dg_stands_for(d0, l0.ord(), |a: int, b: int| l0.has(a, b)),
        dg_same(d1, d0),
        // postcondition of AdjacencyList::from_dg(d1)
        l2.wf(),
        l2.ord() == d1.ord(),
        forall|a: int, b: int| #![trigger l2.has(a, b)] is_id(a) && is_id(b) ==> l2.has(a, b) == d1.has(a, b),
    ensures
        l2.ord() == l0.ord(),
        forall|a: int, b: int| l2.has(a, b) == l0.has(a, b),
        // identity on the representation itself
        list_rows(l2) == list_rows(l0),
{
    assert forall|a: int, b: int| l2.has(a, b) == l0.has(a, b) by {
        if is_id(a) && is_id(b) {
            assert(d1.has(a, b) == d0.has(a, b));
            assert(d0.has(a, b) == (|a: int, b: int| l0.has(a, b))(a, b));
        }
        assert(l0.arcs@.len() == l0.arcs.len() && l2.arcs@.len() == l2.arcs.len());
    }
    lemma_list_canonical(l2, l0);
}

// ---- EdgeList side. Its own module: edge_list_core.inc.rs and list_core.inc.rs each carry a module-level
// `broadcast use` and Verus allows one per module ----
mod edge_side {
use super::*;
//@import units/inc/edge_list_core.inc.rs

//@file src/repr/edge_list/mod.rs
impl EdgeList {
    /*@fn impl=EdgeList trait=From name=from rename=from_dg macro=impl_from_arcs_order macroarg=Dg
    ensures
        r.wf(),
        r.ord() == digraph.ord(),
        forall|a: int, b: int| #![trigger r.has(a, b)] is_id(a) && is_id(b) ==> r.has(a, b) == digraph.has(a, b),
        dg_valid(digraph),
    @loop 1
    invariant
        it1.iter.obeys_prophetic_iter_laws(),
        it1.iter.decrease() is Some,
        arcs_of(digraph, it1.seq()),
        h.wf(),
        h.ord() == order,
        order == digraph.ord(),
        forall|i: int| 0 <= i < it1.index() ==> (#[trigger] it1.seq()[i]).0 < order && it1.seq()[i].1 < order && it1.seq()[i].0 != it1.seq()[i].1,
        forall|i: int| 0 <= i < it1.index() ==> h.has((#[trigger] it1.seq()[i]).0 as int, it1.seq()[i].1 as int),
        forall|a: int, b: int| #![trigger h.has(a, b)] h.has(a, b) ==> exists|i: int| 0 <= i < it1.index() && it1.seq()[i] == (a as usize, b as usize),
    @panic 1
        assert(!dg_valid(digraph));
    @panic 2
        assert(!dg_valid(digraph)) by { assert((u, v) == it1.seq()[it1.index()]); assert(digraph.has(u as int, v as int)); }
    @panic 3
        assert(!dg_valid(digraph)) by { assert((u, v) == it1.seq()[it1.index()]); assert(digraph.has(u as int, v as int)); }
    @*/

    // the same function as in units/edge_list_core.rs, here with the full C16 clause (order = largest id + 1, or 1 for the
    // empty input, which this representation documents as allowed)
    /*@fn impl=EdgeList trait=From implhas='impl<I> From<I>' name=from rename=from_arcs subst=I=>Vec<(usize,usize)> drop=I dropwhere=I
    ensures
        r.wf(),
        arcs_input_ok(iter@, r.ord()),
        iter@.len() == 0 ==> r.ord() == 1,
        forall|a: int, b: int| #![trigger r.has(a, b)] r.has(a, b) == (is_id(a) && is_id(b) && iter@.contains((a as usize, b as usize))),
    @loop 1
    invariant
        it1.seq() == iter@,
        forall|i: int| 0 <= i < it1.index() ==> (#[trigger] it1.seq()[i]).0 <= order && it1.seq()[i].1 <= order && it1.seq()[i].0 != it1.seq()[i].1,
        it1.index() == 0 ==> order == 0,
        it1.index() > 0 ==> exists|i: int| 0 <= i < it1.index() && ((#[trigger] it1.seq()[i]).0 == order || it1.seq()[i].1 == order),
        forall|p: (usize, usize)| #[trigger] arcs@.contains(p) == exists|i: int| 0 <= i < it1.index() && it1.seq()[i] == p,
    @panic 1
        assert(has_self_loop(iter@)) by { assert(iter@[it1.index()] == (u, v)); }
    @*/
}


proof fn lemma_round_trip_edge(e0: EdgeList, d0: Dg, d1: Dg, e2: EdgeList)
    requires
        e0.wf(),
        dg_stands_for(d0, e0.ord(), |a: int, b: int| e0.has(a, b)),
        dg_same(d1, d0),
        // postcondition of EdgeList::from_dg(d1)
        e2.wf(),
        e2.ord() == d1.ord(),
        forall|a: int, b: int| #![trigger e2.has(a, b)] is_id(a) && is_id(b) ==> e2.has(a, b) == d1.has(a, b),
    ensures
        e2.ord() == e0.ord(),
        forall|a: int, b: int| e2.has(a, b) == e0.has(a, b),
        // identity on the representation itself
        e2.order == e0.order,
        e2.arcs@ == e0.arcs@,
{
    assert forall|a: int, b: int| e2.has(a, b) == e0.has(a, b) by {
        if is_id(a) && is_id(b) {
            assert(d1.has(a, b) == d0.has(a, b));
            assert(d0.has(a, b) == (|a: int, b: int| e0.has(a, b))(a, b));
        }
    }
    lemma_edge_canonical(e2, e0);
}

} // mod edge_side
