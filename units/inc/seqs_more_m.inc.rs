//@file src/repr/adjacency_map/mod.rs
// ---- C02: AdjacencyMap degree_sequence / indegree_sequence.  The vertex ids need not be 0..order: item i is the (in)degree of
// the i-th vertex in ascending id order (`mm_is_key_seq`: ks lists V ascending, each vertex once), one item per vertex.
// `degree` is the blanket impl of src/op/degree.rs (`impl<D> Degree for D`), instantiated at D = AdjacencyMap. ----

/// the degree of u defined from (V, A): indegree + outdegree
spec fn mseq_deg(g: AdjacencyMap, u: int) -> nat { g.indeg(u) + g.outdeg(u) }

/// s lists the degrees / the indegrees of the first s.len() vertices of ks
spec fn mseq_deg_items(g: AdjacencyMap, ks: Seq<usize>, s: Seq<usize>) -> bool {
    &&& s.len() <= ks.len()
    &&& forall|i: int| 0 <= i < s.len() ==> #[trigger] s[i] == mseq_deg(g, ks[i] as int)
}
spec fn mseq_indeg_items(g: AdjacencyMap, ks: Seq<usize>, s: Seq<usize>) -> bool {
    &&& s.len() <= ks.len()
    &&& forall|i: int| 0 <= i < s.len() ==> #[trigger] s[i] == g.indeg(ks[i] as int)
}

impl AdjacencyMap {
    // `degree` computes `indegree + outdegree` in usize: its result can equal the degree only if that fits
    // (otherwise the sum panics (debug) or wraps (release)).  Same precondition as in ops_blanket / edge_list_more.
    // A vertex outside V panics (documented for indegree / outdegree).
    /*@fn impl=D trait=Degree name=degree file=src/op/degree.rs props=C02,C13
    requires
        mseq_deg(*self, u as int) <= usize::MAX,
    ensures
        self.verts().contains(u as int),
        r == mseq_deg(*self, u as int),
    @*/

    /*@fn impl=AdjacencyMap trait=DegreeSequence name=degree_sequence props=C02,C13
    requires
        forall|u: int| self.verts().contains(u) ==> mseq_deg(*self, u) <= usize::MAX,
    ensures
        r.obeys_prophetic_iter_laws(),
        r.decrease() is Some,
        exists|ks: Seq<usize>| #[trigger] mm_is_key_seq(self.arcs@.dom(), ks) && ks.len() == self.ord() && mseq_deg_items(*self, ks, r.remaining())
            && (r.will_return_none() ==> r.remaining().len() == ks.len()),
    @closure 1 |v: usize| -> (d: usize)
    requires
        self.arcs@.contains_key(v),
    ensures
        d == mseq_deg(*self, v as int),
    @fn_start
        broadcast use vstd::std_specs::iter::group_iter_axioms;
        broadcast use lemma_map_verts_contains;
        proof {
            assert forall|ks: Seq<usize>, i: int| #![trigger mm_is_key_seq(self.arcs@.dom(), ks), ks[i]] mm_is_key_seq(self.arcs@.dom(), ks) && 0 <= i < ks.len()
                implies self.arcs@.contains_key(ks[i]) by { assert(ks.to_set().contains(ks[i])); }
            // the arithmetic precondition, restated over the keys (V = the key set)
            assert forall|k: usize| self.arcs@.contains_key(k) implies #[trigger] mseq_deg(*self, k as int) <= usize::MAX by {
                assert(self.verts().contains(k as int));
            }
        }
    @*/

    /*@fn impl=AdjacencyMap trait=IndegreeSequence name=indegree_sequence props=C02,C13
    ensures
        r.obeys_prophetic_iter_laws(),
        r.decrease() is Some,
        exists|ks: Seq<usize>| #[trigger] mm_is_key_seq(self.arcs@.dom(), ks) && ks.len() == self.ord() && mseq_indeg_items(*self, ks, r.remaining())
            && (r.will_return_none() ==> r.remaining().len() == ks.len()),
    @closure 1 |v: usize| -> (d: usize)
    requires
        self.arcs@.contains_key(v),
    ensures
        d == self.indeg(v as int),
    @fn_start
        broadcast use vstd::std_specs::iter::group_iter_axioms;
        broadcast use lemma_map_verts_contains;
        proof {
            assert forall|ks: Seq<usize>, i: int| #![trigger mm_is_key_seq(self.arcs@.dom(), ks), ks[i]] mm_is_key_seq(self.arcs@.dom(), ks) && 0 <= i < ks.len()
                implies self.arcs@.contains_key(ks[i]) by { assert(ks.to_set().contains(ks[i])); }
        }
    @*/
}
