//@file src/repr/adjacency_matrix/mod.rs
// ---- Closing trait-contract assumptions ----
// The algorithm units (bfs, dfs, dijkstra, bfm, floyd_warshall, ops_blanket, conversions, ...) verify against the opaque
// digraphs `Dg` / `Dgo` / `Dgw` / `Dgi` (prelude/dg.rs, dg_ops.rs, dgw_usize.rs, dgw_isize.rs) whose methods carry TRAIT
// CONTRACTS.  This unit has no extracted function of its own: it imports the representation fragments (their functions are
// re-verified here, the obligations stay with the owning units) and proves, as lemmas, that the postcondition PROVED for a
// representation's method implies the trait contract of the opaque type.
//
// Layout:
//   1. `tc_*`: every trait-contract clause, stated once over the abstract digraph (ord, has[, wt]) it talks about
//      (iterator-valued methods: protocol clauses `tc_iter`, data clauses over the item sequence `remaining()`).
//   2. `text_*` lemmas: for each opaque type, the `tc_*` predicates at (d.ord(), d.has[, d.wt]) ARE the ensures text of
//      that type's method (copied verbatim from the prelude, `self` := d).
//   (the methods that came under contract in the units list_more / edge_list_more / weighted_more / map_more are compared in
//   the units rep_trait_contracts_list / rep_trait_contracts_edge_list / rep_trait_contracts_wm (weighted_more): their std preludes cannot be
//   loaded together - e.g. two `assume_specification [bool::then_some]`)
//   3. one nested module per representation (the fragments define clashing names: ArcsIterator, lex_lt, module-level
//      `broadcast use`): `lemma_<rep>_meets_<method>`: requires = the representation invariant + the postcondition proved
//      in the owning unit (verbatim), ensures = the `tc_*` clauses at (g.ord, g.has).  Where only a weaker form is proved the
//      lemma says under which extra hypothesis the clause follows, and a `_gap` lemma exhibits a value that satisfies the
//      proved clauses but not the trait clause.

// ---- 1. the trait contracts over (ord, has, wt): shared with the units rep_trait_contracts_list / _edge_list / _wm ----
//@include units/inc/rep_trait_contracts_tc.inc.rs

// ---- 2. the tc_* predicates are the ensures texts of the opaque types ----

spec fn dg_has(d: Dg) -> spec_fn(int, int) -> bool { |a: int, b: int| d.has(a, b) }
spec fn dgo_has(d: Dgo) -> spec_fn(int, int) -> bool { |a: int, b: int| d.has(a, b) }
spec fn dgw_has(d: Dgw) -> spec_fn(int, int) -> bool { |a: int, b: int| d.has(a, b) }
spec fn dgw_wt(d: Dgw) -> spec_fn(int, int) -> int { |a: int, b: int| d.wt(a, b) }
spec fn dgi_has(d: Dgi) -> spec_fn(int, int) -> bool { |a: int, b: int| d.has(a, b) }
spec fn dgi_wt(d: Dgi) -> spec_fn(int, int) -> int { |a: int, b: int| d.wt(a, b) }
spec fn val_usize() -> spec_fn(usize) -> int { |w: usize| w as int }
spec fn val_isize() -> spec_fn(isize) -> int { |w: isize| w as int }

/// prelude/dg.rs: wf, order, contiguous_order, has_arc
proof fn text_dg_scalars(d: Dg, u: usize, v: usize, n: usize, b: bool)
    ensures
        tc_wf(d.ord(), dg_has(d)) == d.wf(),
        tc_order(d.ord(), n) == (n == d.ord()),
        tc_has_arc(dg_has(d), u, v, b) == (b == d.has(u as int, v as int)),
{
    assert(tc_wf(d.ord(), dg_has(d)) == d.wf()) by {
        if d.wf() {
            assert forall|x: int, y: int| #[trigger] dg_has(d)(x, y) implies 0 <= x < d.ord() && 0 <= y < d.ord() && x != y by { assert(d.has(x, y)); }
        }
        if tc_wf(d.ord(), dg_has(d)) {
            assert forall|x: int, y: int| #[trigger] d.has(x, y) implies 0 <= x < d.ord() && 0 <= y < d.ord() && x != y by { assert(dg_has(d)(x, y)); }
        }
    }
}

/// prelude/dg.rs: vertices
proof fn text_dg_vertices<I: Iterator<Item = usize>>(d: Dg, r: I)
    ensures
        (tc_iter(r) && tc_vertices(d.ord(), r.remaining())) == ({
            &&& r.obeys_prophetic_iter_laws()
            &&& r.decrease() is Some
            &&& r.remaining().len() == d.ord()
            &&& forall|i: int| 0 <= i < r.remaining().len() ==> #[trigger] r.remaining()[i] == i
        }),
{
}

/// prelude/dg.rs: out_neighbors
proof fn text_dg_out_neighbors<I: Iterator<Item = usize>>(d: Dg, u: usize, r: I)
    ensures
        (tc_iter(r) && tc_nb_sound(dg_has(d), u, r.remaining()) && tc_nb_cover(dg_has(d), u, r.remaining())) == ({
            &&& r.obeys_prophetic_iter_laws()
            &&& r.decrease() is Some
            &&& r.remaining().no_duplicates()
            &&& forall|v: usize| d.has(u as int, v as int) ==> r.remaining().contains(v)
            &&& forall|i: int| 0 <= i < r.remaining().len() ==> d.has(u as int, #[trigger] r.remaining()[i] as int)
        }),
{
    let rem = r.remaining();
    assert(tc_nb_cover(dg_has(d), u, rem) == (forall|v: usize| d.has(u as int, v as int) ==> rem.contains(v))) by {
        if tc_nb_cover(dg_has(d), u, rem) {
            assert forall|v: usize| d.has(u as int, v as int) implies rem.contains(v) by { assert(dg_has(d)(u as int, v as int)); }
        }
    }
    assert((forall|i: int| 0 <= i < rem.len() ==> dg_has(d)(u as int, #[trigger] rem[i] as int))
        == (forall|i: int| 0 <= i < rem.len() ==> d.has(u as int, #[trigger] rem[i] as int)));
}

/// prelude/dg.rs: arcs
proof fn text_dg_arcs<I: Iterator<Item = (usize, usize)>>(d: Dg, r: I)
    ensures
        (tc_iter(r) && tc_arcs(dg_has(d), r.remaining())) == ({
            &&& r.obeys_prophetic_iter_laws()
            &&& r.decrease() is Some
            &&& r.remaining().no_duplicates()
            &&& forall|u: usize, v: usize| d.has(u as int, v as int) ==> r.remaining().contains((u, v))
            &&& forall|i: int| 0 <= i < r.remaining().len() ==> d.has((#[trigger] r.remaining()[i]).0 as int, r.remaining()[i].1 as int)
            &&& forall|i: int, j: int| 0 <= i < j < r.remaining().len() ==> lex_lt(#[trigger] r.remaining()[i], #[trigger] r.remaining()[j])
        }),
{
    let rem = r.remaining();
    assert((forall|u: usize, v: usize| dg_has(d)(u as int, v as int) ==> #[trigger] rem.contains((u, v)))
        == (forall|u: usize, v: usize| d.has(u as int, v as int) ==> rem.contains((u, v)))) by {
        if forall|u: usize, v: usize| dg_has(d)(u as int, v as int) ==> #[trigger] rem.contains((u, v)) {
            assert forall|u: usize, v: usize| d.has(u as int, v as int) implies rem.contains((u, v)) by { assert(dg_has(d)(u as int, v as int)); }
        }
    }
    assert((forall|i: int| 0 <= i < rem.len() ==> dg_has(d)((#[trigger] rem[i]).0 as int, rem[i].1 as int))
        == (forall|i: int| 0 <= i < rem.len() ==> d.has((#[trigger] rem[i]).0 as int, rem[i].1 as int)));
}

/// prelude/dg_ops.rs: wf, order, has_arc, indegree, outdegree
proof fn text_dgo_scalars(d: Dgo, u: usize, v: usize, n: usize, b: bool)
    ensures
        tc_wf(d.ord(), dgo_has(d)) == d.wf(),
        tc_order(d.ord(), n) == (n == d.ord()),
        tc_has_arc(dgo_has(d), u, v, b) == (b == d.has(u as int, v as int)),
        tc_indegree(d.ord(), dgo_has(d), v, n) == (v < d.ord() && n == d.indeg(v as int)),
        tc_outdegree(d.ord(), dgo_has(d), u, n) == (u < d.ord() && n == d.outdeg(u as int)),
{
    assert(tc_wf(d.ord(), dgo_has(d)) == d.wf()) by {
        if d.wf() {
            assert forall|x: int, y: int| #[trigger] dgo_has(d)(x, y) implies 0 <= x < d.ord() && 0 <= y < d.ord() && x != y by { assert(d.has(x, y)); }
        }
        if tc_wf(d.ord(), dgo_has(d)) {
            assert forall|x: int, y: int| #[trigger] d.has(x, y) implies 0 <= x < d.ord() && 0 <= y < d.ord() && x != y by { assert(dgo_has(d)(x, y)); }
        }
    }
    range_set_properties::<int>(0, d.ord() as int);
    assert(tc_in_set(d.ord(), dgo_has(d), v as int) =~= d.in_set(v as int));
    assert(tc_out_set(d.ord(), dgo_has(d), u as int) =~= d.out_set(u as int));
}

/// prelude/dg_ops.rs: vertices
proof fn text_dgo_vertices<I: Iterator<Item = usize>>(d: Dgo, r: I)
    ensures
        (tc_iter(r) && tc_vertices_o(d.ord(), r.remaining())) == ({
            &&& r.obeys_prophetic_iter_laws()
            &&& r.decrease() is Some
            &&& r.remaining() == vertex_seq(d.ord())
        }),
        // the Dg form and the Dgo form of `vertices` say the same (for an order that fits usize: part of `wf`)
        d.ord() <= usize::MAX ==> tc_vertices_o(d.ord(), r.remaining()) == tc_vertices(d.ord(), r.remaining()),
{
    let rem = r.remaining();
    if tc_vertices(d.ord(), rem) { assert(rem =~= vertex_seq(d.ord())); }
}

/// prelude/dg_ops.rs: out_neighbors
proof fn text_dgo_out_neighbors<I: Iterator<Item = usize>>(d: Dgo, u: usize, r: I)
    ensures
        (tc_iter(r) && tc_nb_sound(dgo_has(d), u, r.remaining()) && tc_nb_cover(dgo_has(d), u, r.remaining())) == ({
            &&& r.obeys_prophetic_iter_laws()
            &&& r.decrease() is Some
            &&& r.remaining().no_duplicates()
            &&& forall|v: usize| d.has(u as int, v as int) ==> r.remaining().contains(v)
            &&& forall|i: int| 0 <= i < r.remaining().len() ==> d.has(u as int, #[trigger] r.remaining()[i] as int)
        }),
{
    let rem = r.remaining();
    assert(tc_nb_cover(dgo_has(d), u, rem) == (forall|v: usize| d.has(u as int, v as int) ==> rem.contains(v))) by {
        if tc_nb_cover(dgo_has(d), u, rem) {
            assert forall|v: usize| d.has(u as int, v as int) implies rem.contains(v) by { assert(dgo_has(d)(u as int, v as int)); }
        }
    }
    assert((forall|i: int| 0 <= i < rem.len() ==> dgo_has(d)(u as int, #[trigger] rem[i] as int))
        == (forall|i: int| 0 <= i < rem.len() ==> d.has(u as int, #[trigger] rem[i] as int)));
}

/// prelude/dg_ops.rs: arcs
proof fn text_dgo_arcs<I: Iterator<Item = (usize, usize)>>(d: Dgo, r: I)
    ensures
        (tc_iter(r) && tc_arcs(dgo_has(d), r.remaining())) == ({
            &&& r.obeys_prophetic_iter_laws()
            &&& r.decrease() is Some
            &&& r.remaining().no_duplicates()
            &&& forall|u: usize, v: usize| d.has(u as int, v as int) ==> r.remaining().contains((u, v))
            &&& forall|i: int| 0 <= i < r.remaining().len() ==> d.has((#[trigger] r.remaining()[i]).0 as int, r.remaining()[i].1 as int)
            &&& forall|i: int, j: int| 0 <= i < j < r.remaining().len() ==> lexo_lt(#[trigger] r.remaining()[i], #[trigger] r.remaining()[j])
        }),
{
    let rem = r.remaining();
    assert((forall|u: usize, v: usize| dgo_has(d)(u as int, v as int) ==> #[trigger] rem.contains((u, v)))
        == (forall|u: usize, v: usize| d.has(u as int, v as int) ==> rem.contains((u, v)))) by {
        if forall|u: usize, v: usize| dgo_has(d)(u as int, v as int) ==> #[trigger] rem.contains((u, v)) {
            assert forall|u: usize, v: usize| d.has(u as int, v as int) implies rem.contains((u, v)) by { assert(dgo_has(d)(u as int, v as int)); }
        }
    }
    assert((forall|i: int| 0 <= i < rem.len() ==> dgo_has(d)((#[trigger] rem[i]).0 as int, rem[i].1 as int))
        == (forall|i: int| 0 <= i < rem.len() ==> d.has((#[trigger] rem[i]).0 as int, rem[i].1 as int)));
    assert((forall|i: int, j: int| 0 <= i < j < rem.len() ==> lex_lt(#[trigger] rem[i], #[trigger] rem[j]))
        == (forall|i: int, j: int| 0 <= i < j < rem.len() ==> lexo_lt(#[trigger] rem[i], #[trigger] rem[j]))) by {
        assert forall|p: (usize, usize), q: (usize, usize)| lex_lt(p, q) == lexo_lt(p, q) by {}
    }
}

/// prelude/dgw_usize.rs: wf, order
proof fn text_dgw_scalars(d: Dgw, n: usize)
    ensures
        tc_wf_weighted(d.ord(), dgw_has(d), dgw_wt(d), 0, usize::MAX as int) == d.wf(),
        tc_order(d.ord(), n) == (n == d.ord()),
{
    if d.wf() {
        assert forall|x: int, y: int| #[trigger] dgw_has(d)(x, y) implies 0 <= x < d.ord() && 0 <= y < d.ord() && x != y && 0 <= dgw_wt(d)(x, y) <= usize::MAX by { assert(d.has(x, y)); }
    }
    if tc_wf_weighted(d.ord(), dgw_has(d), dgw_wt(d), 0, usize::MAX as int) {
        assert forall|x: int, y: int| #[trigger] d.has(x, y) implies 0 <= x < d.ord() && 0 <= y < d.ord() && x != y && 0 <= d.wt(x, y) <= usize::MAX by { assert(dgw_has(d)(x, y)); }
    }
}

/// prelude/dgw_usize.rs: out_neighbors_weighted
proof fn text_dgw_out_neighbors_weighted<'a, I: Iterator<Item = (usize, &'a usize)>>(d: Dgw, u: usize, r: I)
    ensures
        (tc_iter(r) && tc_nbw_sound(dgw_has(d), dgw_wt(d), val_usize(), u, r.remaining()) && tc_nbw_cover(dgw_has(d), u, r.remaining())) == ({
            &&& r.obeys_prophetic_iter_laws()
            &&& r.decrease() is Some
            &&& forall|i: int, j: int| 0 <= i < j < r.remaining().len() ==> (#[trigger] r.remaining()[i]).0 != (#[trigger] r.remaining()[j]).0
            &&& forall|v: usize| d.has(u as int, v as int) ==> exists|i: int| 0 <= i < r.remaining().len() && (#[trigger] r.remaining()[i]).0 == v
            &&& forall|i: int| 0 <= i < r.remaining().len() ==> d.has(u as int, (#[trigger] r.remaining()[i]).0 as int) && *r.remaining()[i].1 == d.wt(u as int, r.remaining()[i].0 as int)
        }),
{
    let rem = r.remaining();
    assert(tc_nbw_cover(dgw_has(d), u, rem) == (forall|v: usize| d.has(u as int, v as int) ==> exists|i: int| 0 <= i < rem.len() && (#[trigger] rem[i]).0 == v)) by {
        if tc_nbw_cover(dgw_has(d), u, rem) {
            assert forall|v: usize| d.has(u as int, v as int) implies exists|i: int| 0 <= i < rem.len() && (#[trigger] rem[i]).0 == v by { assert(dgw_has(d)(u as int, v as int)); }
        }
    }
    assert((forall|i: int| 0 <= i < rem.len() ==> dgw_has(d)(u as int, (#[trigger] rem[i]).0 as int) && val_usize()(*rem[i].1) == dgw_wt(d)(u as int, rem[i].0 as int))
        == (forall|i: int| 0 <= i < rem.len() ==> d.has(u as int, (#[trigger] rem[i]).0 as int) && *rem[i].1 == d.wt(u as int, rem[i].0 as int)));
}

/// prelude/dgw_isize.rs: wf, order, contiguous_order
proof fn text_dgi_scalars(d: Dgi, n: usize)
    ensures
        tc_wf_weighted(d.ord(), dgi_has(d), dgi_wt(d), isize::MIN as int, isize::MAX as int) == d.wf(),
        tc_order(d.ord(), n) == (n == d.ord()),
{
    if d.wf() {
        assert forall|x: int, y: int| #[trigger] dgi_has(d)(x, y) implies 0 <= x < d.ord() && 0 <= y < d.ord() && x != y && isize::MIN <= dgi_wt(d)(x, y) <= isize::MAX by { assert(d.has(x, y)); }
    }
    if tc_wf_weighted(d.ord(), dgi_has(d), dgi_wt(d), isize::MIN as int, isize::MAX as int) {
        assert forall|x: int, y: int| #[trigger] d.has(x, y) implies 0 <= x < d.ord() && 0 <= y < d.ord() && x != y && isize::MIN <= d.wt(x, y) <= isize::MAX by { assert(dgi_has(d)(x, y)); }
    }
}

/// prelude/dgw_isize.rs: vertices
proof fn text_dgi_vertices<I: Iterator<Item = usize>>(d: Dgi, r: I)
    ensures
        (tc_iter(r) && tc_vertices(d.ord(), r.remaining())) == ({
            &&& r.obeys_prophetic_iter_laws()
            &&& r.decrease() is Some
            &&& r.remaining().len() == d.ord()
            &&& forall|i: int| 0 <= i < r.remaining().len() ==> #[trigger] r.remaining()[i] == i
        }),
{
}

/// prelude/dgw_isize.rs: arcs_weighted
proof fn text_dgi_arcs_weighted<'a, I: Iterator<Item = (usize, usize, &'a isize)>>(d: Dgi, r: I)
    ensures
        (tc_iter(r) && tc_arcs_weighted(dgi_has(d), dgi_wt(d), val_isize(), r.remaining())) == ({
            &&& r.obeys_prophetic_iter_laws()
            &&& r.decrease() is Some
            &&& forall|i: int, j: int| 0 <= i < j < r.remaining().len() ==>
                    !((#[trigger] r.remaining()[i]).0 == (#[trigger] r.remaining()[j]).0 && r.remaining()[i].1 == r.remaining()[j].1)
            &&& forall|u: usize, v: usize| d.has(u as int, v as int) ==>
                    exists|i: int| 0 <= i < r.remaining().len() && (#[trigger] r.remaining()[i]).0 == u && r.remaining()[i].1 == v
            &&& forall|i: int| 0 <= i < r.remaining().len() ==>
                    d.has((#[trigger] r.remaining()[i]).0 as int, r.remaining()[i].1 as int)
                    && *r.remaining()[i].2 == d.wt(r.remaining()[i].0 as int, r.remaining()[i].1 as int)
        }),
{
    let rem = r.remaining();
    assert((forall|u: usize, v: usize| #![trigger dgi_has(d)(u as int, v as int)] dgi_has(d)(u as int, v as int) ==> exists|i: int| 0 <= i < rem.len() && (#[trigger] rem[i]).0 == u && rem[i].1 == v)
        == (forall|u: usize, v: usize| d.has(u as int, v as int) ==> exists|i: int| 0 <= i < rem.len() && (#[trigger] rem[i]).0 == u && rem[i].1 == v)) by {
        if forall|u: usize, v: usize| #![trigger dgi_has(d)(u as int, v as int)] dgi_has(d)(u as int, v as int) ==> exists|i: int| 0 <= i < rem.len() && (#[trigger] rem[i]).0 == u && rem[i].1 == v {
            assert forall|u: usize, v: usize| d.has(u as int, v as int) implies exists|i: int| 0 <= i < rem.len() && (#[trigger] rem[i]).0 == u && rem[i].1 == v by { assert(dgi_has(d)(u as int, v as int)); }
        }
    }
    assert((forall|i: int| 0 <= i < rem.len() ==> dgi_has(d)((#[trigger] rem[i]).0 as int, rem[i].1 as int) && val_isize()(*rem[i].2) == dgi_wt(d)(rem[i].0 as int, rem[i].1 as int))
        == (forall|i: int| 0 <= i < rem.len() ==> d.has((#[trigger] rem[i]).0 as int, rem[i].1 as int) && *rem[i].2 == d.wt(rem[i].0 as int, rem[i].1 as int)));
}

// ---- 3a. AdjacencyMatrix (units matrix_core, matrix_iter, matrix_queries, matrix_degrees) ----
mod matrix_side {
use super::*;
//@import units/inc/matrix_core.inc.rs
//@import units/inc/matrix_iter.inc.rs
//@import units/inc/matrix_queries.inc.rs
//@import units/inc/matrix_degrees.inc.rs

/// the arc relation of the matrix as the `has` of a trait contract (ord := g.order)
spec fn mhas(g: AdjacencyMatrix) -> spec_fn(int, int) -> bool { |a: int, b: int| g.has(a, b) }

/// the representation invariant implies validity of the abstract digraph (Dg::wf / Dgo::wf)
proof fn lemma_matrix_meets_wf(g: AdjacencyMatrix)
    requires g.wf(),
    ensures tc_wf(g.order as nat, mhas(g)),
{
    assert(g.order as int <= g.ncells()) by (nonlinear_arith) requires g.order > 0, g.ncells() == g.order as int * g.order as int;
    assert forall|u: int, v: int| #[trigger] mhas(g)(u, v) implies 0 <= u < g.order && 0 <= v < g.order && u != v by {
        assert(g.has(u, v));
        if u == v { assert(!g.cell(u * g.order + u)); }
    }
}

/// Order::order, ContiguousOrder::contiguous_order (proved in matrix_core: `r == self.order`)
proof fn lemma_matrix_meets_order(g: AdjacencyMatrix, r: usize)
    requires r == g.order,
    ensures tc_order(g.order as nat, r),
{
}

/// HasArc::has_arc (proved in matrix_core under `self.wf()`: `r == self.has(u as int, v as int)`)
proof fn lemma_matrix_meets_has_arc(g: AdjacencyMatrix, u: usize, v: usize, r: bool)
    requires g.wf(), r == g.has(u as int, v as int),
    ensures tc_has_arc(mhas(g), u, v, r),
{
}

/// Vertices::vertices (proved in matrix_queries: `r.remaining() == vseq(self.order as nat)`)
proof fn lemma_matrix_meets_vertices<I: Iterator<Item = usize>>(g: AdjacencyMatrix, r: I)
    requires
        r.obeys_prophetic_iter_laws(),
        r.decrease() is Some,
        r.remaining() == vseq(g.order as nat),
    ensures
        tc_iter(r),
        tc_vertices(g.order as nat, r.remaining()),
        tc_vertices_o(g.order as nat, r.remaining()),
{
    assert(vseq(g.order as nat) =~= vertex_seq(g.order as nat));
}

/// OutNeighbors::out_neighbors (proved in matrix_queries in the PREFIX form: the items are the neighbours below some k,
/// and all of them if the iterator is driven until it returns None).  Implied: protocol, no repeats, soundness (Dg / Dgo
/// clauses 1, 2, 3, 5) unconditionally; coverage (clause 4) only under `r.will_return_none()`.
proof fn lemma_matrix_meets_out_neighbors<I: Iterator<Item = usize>>(g: AdjacencyMatrix, u: usize, r: I)
    requires
        g.wf(),
        u < g.order,
        r.obeys_prophetic_iter_laws(),
        r.decrease() is Some,
        exists|k: int| 0 <= k <= g.order && r.remaining() == #[trigger] row_below(g, u as int, k),
        r.will_return_none() ==> r.remaining() == row_below(g, u as int, g.order as int),
    ensures
        tc_iter(r),
        tc_nb_sound(mhas(g), u, r.remaining()),
        r.will_return_none() ==> tc_nb_cover(mhas(g), u, r.remaining()),
{
    let rem = r.remaining();
    let k = choose|k: int| 0 <= k <= g.order && rem == #[trigger] row_below(g, u as int, k);
    lemma_row_below(g, u as int, k);
    assert forall|i: int| 0 <= i < rem.len() implies mhas(g)(u as int, #[trigger] rem[i] as int) by {
        assert(g.has(u as int, row_below(g, u as int, k)[i] as int));
    }
    if r.will_return_none() {
        lemma_row_below(g, u as int, g.order as int);
        assert forall|v: usize| mhas(g)(u as int, v as int) implies #[trigger] rem.contains(v) by {
            assert(g.has(u as int, v as int));
        }
    }
}

/// the gap: the clauses proved for `out_neighbors` WITHOUT `will_return_none()` allow an item sequence that violates the
/// unconditional coverage clause of Dg / Dgo (the empty prefix, for a vertex that has an out-neighbour)
proof fn lemma_matrix_out_neighbors_gap(g: AdjacencyMatrix, u: usize, v: usize)
    requires g.wf(), g.has(u as int, v as int),
    ensures
        exists|rem: Seq<usize>| (exists|k: int| 0 <= k <= g.order && rem == #[trigger] row_below(g, u as int, k))
            && tc_nb_sound(mhas(g), u, rem) && !#[trigger] tc_nb_cover(mhas(g), u, rem),
{
    let rem = row_below(g, u as int, 0);
    assert(rem.len() == 0);
    assert(mhas(g)(u as int, v as int));
    assert(!rem.contains(v));
    assert(!tc_nb_cover(mhas(g), u, rem));
    assert(tc_nb_sound(mhas(g), u, rem));
}

/// Arcs::arcs (proved in matrix_iter in the STEP form: contracts of `ArcsIterator::new` / `next`, and as the theorem
/// `lemma_arcs_c01` about any complete run new(); next()*; next() == None).  The outputs of a complete run satisfy the
/// DATA clauses of Dg::arcs / Dgo::arcs with `r.remaining()` := the outputs.  The protocol clauses (`tc_iter`) and the
/// identification of vstd's prophesied `remaining()` with the outputs of a complete run cannot be stated: the extracted
/// `ArcsIterator` is a plain struct with an inherent `next` (rule E1), not a vstd iterator.
proof fn lemma_matrix_meets_arcs(m: AdjacencyMatrix, states: Seq<ArcsIterator>, outs: Seq<(usize, usize)>)
    requires m.wf(), arcs_run(m, states, outs),
    ensures tc_arcs(mhas(m), outs),
{
    lemma_arcs_c01(m, states, outs);
    assert forall|i: int, j: int| 0 <= i < j < outs.len() implies super::lex_lt(#[trigger] outs[i], #[trigger] outs[j]) by {
        assert(lex_lt(outs[i], outs[j]));
    }
    assert(outs.no_duplicates()) by {
        assert forall|i: int, j: int| 0 <= i < outs.len() && 0 <= j < outs.len() && i != j implies outs[i] != outs[j] by {
            if i < j { assert(lex_lt(outs[i], outs[j])); } else { assert(lex_lt(outs[j], outs[i])); }
        }
    }
    assert forall|u: usize, v: usize| mhas(m)(u as int, v as int) implies #[trigger] outs.contains((u, v)) by {
        assert(m.has(u as int, v as int));
        let i = choose|i: int| 0 <= i < outs.len() && #[trigger] outs[i] == ((u as int) as usize, (v as int) as usize);
        assert(outs[i] == (u, v));
    }
    assert forall|i: int| 0 <= i < outs.len() implies mhas(m)((#[trigger] outs[i]).0 as int, outs[i].1 as int) by {
        assert(m.has(outs[i].0 as int, outs[i].1 as int));
    }
}

/// Indegree::indegree, Outdegree::outdegree (proved in matrix_degrees: `v < self.order`, `r == self.indeg(v as int)`)
proof fn lemma_matrix_meets_indegree(g: AdjacencyMatrix, v: usize, r: usize)
    requires g.wf(), v < g.order, r == g.indeg(v as int),
    ensures tc_indegree(g.order as nat, mhas(g), v, r),
{
    range_set_properties::<int>(0, g.order as int);
    assert(in_set_below(g, v as int, g.order as int) =~= tc_in_set(g.order as nat, mhas(g), v as int));
}

proof fn lemma_matrix_meets_outdegree(g: AdjacencyMatrix, u: usize, r: usize)
    requires g.wf(), u < g.order, r == g.outdeg(u as int),
    ensures tc_outdegree(g.order as nat, mhas(g), u, r),
{
    range_set_properties::<int>(0, g.order as int);
    assert(out_set_below(g, u as int, g.order as int) =~= tc_out_set(g.order as nat, mhas(g), u as int));
}
} // mod matrix_side

// ---- 3b. AdjacencyList (units list_core, list_iters) ----
mod list_side {
use super::*;
//@import units/inc/list_core.inc.rs
//@import units/inc/list_iters.inc.rs

/// the arc relation of the list as the `has` of a trait contract (ord := g.ord())
spec fn lhas(g: AdjacencyList) -> spec_fn(int, int) -> bool { |a: int, b: int| g.has(a, b) }

/// the representation invariant implies validity of the abstract digraph (Dg::wf / Dgo::wf).  `n == g.ord()` is the
/// postcondition proved for `order()` (no precondition): its usize result witnesses that the number of rows fits usize
proof fn lemma_list_meets_wf(g: AdjacencyList, n: usize)
    requires g.wf(), n == g.ord(),
    ensures tc_wf(g.ord() as nat, lhas(g)),
{
    lemma_list_wf_has(g);
    assert forall|u: int, v: int| #[trigger] lhas(g)(u, v) implies 0 <= u < g.ord() && 0 <= v < g.ord() && u != v by {
        assert(g.has(u, v));
    }
}

/// Order::order, ContiguousOrder::contiguous_order (proved in list_core: `r == self.ord()`)
proof fn lemma_list_meets_order(g: AdjacencyList, r: usize)
    requires r == g.ord(),
    ensures tc_order(g.ord() as nat, r),
{
}

/// HasArc::has_arc (proved in list_core without precondition: `r == self.has(u as int, v as int)`)
proof fn lemma_list_meets_has_arc(g: AdjacencyList, u: usize, v: usize, r: bool)
    requires r == g.has(u as int, v as int),
    ensures tc_has_arc(lhas(g), u, v, r),
{
}

/// Vertices::vertices (proved in list_core: `r.remaining() == Seq::new(self.ord() as nat, |i: int| i as usize)`)
proof fn lemma_list_meets_vertices<I: Iterator<Item = usize>>(g: AdjacencyList, r: I, n: usize)
    requires
        n == g.ord(),   // postcondition of `order()`: the order fits usize
        r.obeys_prophetic_iter_laws(),
        r.decrease() is Some,
        r.remaining() == Seq::new(g.ord() as nat, |i: int| i as usize),
    ensures
        tc_iter(r),
        tc_vertices(g.ord() as nat, r.remaining()),
        tc_vertices_o(g.ord() as nat, r.remaining()),
{
    assert(Seq::new(g.ord() as nat, |i: int| i as usize) =~= vertex_seq(g.ord() as nat));
}

/// Outdegree::outdegree (proved in list_core: `u < self.ord()`, `r == self.row(u as int).len()`, the size of row u):
/// under the representation invariant the row (a set of usize ids) has as many elements as the out-neighbour set of Dgo
proof fn lemma_list_meets_outdegree(g: AdjacencyList, u: usize, r: usize)
    requires g.wf(), u < g.ord(), r == g.row(u as int).len(),
    ensures tc_outdegree(g.ord() as nat, lhas(g), u, r),
{
    let row = g.row(u as int);
    let out = tc_out_set(g.ord() as nat, lhas(g), u as int);
    let f = |x: usize| x as int;
    range_set_properties::<int>(0, g.ord());
    assert(row.finite());
    assert(row.injective_on(f));
    assert(row.map(f) =~= out) by {
        assert forall|b: int| #![auto] row.map(f).contains(b) == out.contains(b) by {
            row.lemma_map_contains(f, b);
            if out.contains(b) {
                assert(lhas(g)(u as int, b));
                assert(g.has(u as int, b));
                assert(row.contains(b as usize) && f(b as usize) == b);
            }
            if row.map(f).contains(b) {
                let a = choose|a: usize| row.contains(a) && b == f(a);
                assert(g.has(u as int, a as int));
                assert(lhas(g)(u as int, b));
            }
        }
    }
    lemma_map_size(row, out, f);
}

/// Arcs::arcs (proved in list_iters in the STEP form: contracts of `arcs` / `ArcsIterator::next`, and as the theorem
/// `lemma_list_arcs_c01` about any complete run).  The outputs of a complete run satisfy the DATA clauses of Dg::arcs /
/// Dgo::arcs with `r.remaining()` := the outputs; the protocol clauses cannot be stated (as for the matrix: rule E1).
proof fn lemma_list_meets_arcs(g: AdjacencyList, states: Seq<ArcsIterator>, outs: Seq<(usize, usize)>)
    requires list_arcs_run(g, states, outs),
    ensures tc_arcs(lhas(g), outs),
{
    lemma_list_arcs_c01(g, states, outs);
    assert forall|i: int, j: int| 0 <= i < j < outs.len() implies super::lex_lt(#[trigger] outs[i], #[trigger] outs[j]) by {
        assert(lex_lt(pair_int(outs[i]), pair_int(outs[j])));
    }
    assert(outs.no_duplicates()) by {
        assert forall|i: int, j: int| 0 <= i < outs.len() && 0 <= j < outs.len() && i != j implies outs[i] != outs[j] by {
            if i < j { assert(lex_lt(pair_int(outs[i]), pair_int(outs[j]))); } else { assert(lex_lt(pair_int(outs[j]), pair_int(outs[i]))); }
        }
    }
    assert forall|u: usize, v: usize| lhas(g)(u as int, v as int) implies #[trigger] outs.contains((u, v)) by {
        assert(g.has(u as int, v as int));
        let i = choose|i: int| 0 <= i < outs.len() && #[trigger] outs[i] == ((u as int) as usize, (v as int) as usize);
        assert(outs[i] == (u, v));
    }
    assert forall|i: int| 0 <= i < outs.len() implies lhas(g)((#[trigger] outs[i]).0 as int, outs[i].1 as int) by {
        assert(g.has(outs[i].0 as int, outs[i].1 as int));
    }
}
} // mod list_side

// ---- 3c. EdgeList (unit edge_list_core; edge_list_queries adds no trait-contract method) ----
mod edge_list_side {
use super::*;
//@import units/inc/edge_list_core.inc.rs

/// the arc relation of the edge list as the `has` of a trait contract (ord := g.ord())
spec fn ehas(g: EdgeList) -> spec_fn(int, int) -> bool { |a: int, b: int| g.has(a, b) }

/// the representation invariant implies validity of the abstract digraph (Dg::wf / Dgo::wf)
proof fn lemma_edge_list_meets_wf(g: EdgeList)
    requires g.wf(),
    ensures tc_wf(g.ord() as nat, ehas(g)),
{
    assert forall|u: int, v: int| #[trigger] ehas(g)(u, v) implies 0 <= u < g.ord() && 0 <= v < g.ord() && u != v by {
        assert(g.has(u, v));
        assert(g.arcs@.contains((u as usize, v as usize)));
    }
}

/// Order::order, ContiguousOrder::contiguous_order (proved in edge_list_core: `r == self.ord()`)
proof fn lemma_edge_list_meets_order(g: EdgeList, r: usize)
    requires r == g.ord(),
    ensures tc_order(g.ord() as nat, r),
{
}

/// HasArc::has_arc (proved in edge_list_core without precondition: `r == self.has(u as int, v as int)`)
proof fn lemma_edge_list_meets_has_arc(g: EdgeList, u: usize, v: usize, r: bool)
    requires r == g.has(u as int, v as int),
    ensures tc_has_arc(ehas(g), u, v, r),
{
}

/// Vertices::vertices (proved in edge_list_core: `r.remaining() == Seq::new(self.ord() as nat, |i: int| i as usize)`)
proof fn lemma_edge_list_meets_vertices<I: Iterator<Item = usize>>(g: EdgeList, r: I)
    requires
        r.obeys_prophetic_iter_laws(),
        r.decrease() is Some,
        r.remaining() == Seq::new(g.ord() as nat, |i: int| i as usize),
    ensures
        tc_iter(r),
        tc_vertices(g.ord() as nat, r.remaining()),
        tc_vertices_o(g.ord() as nat, r.remaining()),
{
    assert(Seq::new(g.ord() as nat, |i: int| i as usize) =~= vertex_seq(g.ord() as nat));
}
} // mod edge_list_side

// ---- 3d. AdjacencyListWeighted<W> (unit weighted_core; weighted_queries adds no trait-contract method) ----
mod weighted_side {
use super::*;
//@import units/inc/weighted_core.inc.rs

/// the arc relation / the weights of the weighted list as the `has` / `wt` of a trait contract (ord := g.ord())
spec fn whas<W>(g: AdjacencyListWeighted<W>) -> spec_fn(int, int) -> bool { |a: int, b: int| g.has(a, b) }
spec fn wwt_usize(g: AdjacencyListWeighted<usize>) -> spec_fn(int, int) -> int { |a: int, b: int| g.wt(a, b) as int }
spec fn wwt_isize(g: AdjacencyListWeighted<isize>) -> spec_fn(int, int) -> int { |a: int, b: int| g.wt(a, b) as int }

/// the representation invariant implies validity of the abstract weighted digraph: Dgw::wf at W = usize, Dgi::wf at
/// W = isize (the weight bounds hold by type).  `n == g.ord()`: postcondition of `order()`, the order fits usize
proof fn lemma_weighted_meets_wf_usize(g: AdjacencyListWeighted<usize>, n: usize)
    requires g.wf(), n == g.ord(),
    ensures
        tc_wf(g.ord() as nat, whas(g)),
        tc_wf_weighted(g.ord() as nat, whas(g), wwt_usize(g), 0, usize::MAX as int),
{
    lemma_weighted_wf_has(g);
    assert forall|u: int, v: int| #[trigger] whas(g)(u, v) implies 0 <= u < g.ord() && 0 <= v < g.ord() && u != v by {
        assert(g.has(u, v));
    }
}

proof fn lemma_weighted_meets_wf_isize(g: AdjacencyListWeighted<isize>, n: usize)
    requires g.wf(), n == g.ord(),
    ensures
        tc_wf(g.ord() as nat, whas(g)),
        tc_wf_weighted(g.ord() as nat, whas(g), wwt_isize(g), isize::MIN as int, isize::MAX as int),
{
    lemma_weighted_wf_has(g);
    assert forall|u: int, v: int| #[trigger] whas(g)(u, v) implies 0 <= u < g.ord() && 0 <= v < g.ord() && u != v by {
        assert(g.has(u, v));
    }
}

/// Order::order, ContiguousOrder::contiguous_order (proved in weighted_core for every W: `r == self.ord()`)
proof fn lemma_weighted_meets_order<W>(g: AdjacencyListWeighted<W>, r: usize)
    requires r == g.ord(),
    ensures tc_order(g.ord() as nat, r),
{
}

/// HasArc::has_arc (proved in weighted_core for every W, no precondition; not a method of Dgw / Dgi, listed for Dg / Dgo)
proof fn lemma_weighted_meets_has_arc<W>(g: AdjacencyListWeighted<W>, u: usize, v: usize, r: bool)
    requires r == g.has(u as int, v as int),
    ensures tc_has_arc(whas(g), u, v, r),
{
}

/// Vertices::vertices (proved in weighted_core for every W: `r.remaining() == Seq::new(self.ord() as nat, |i: int| i as usize)`)
proof fn lemma_weighted_meets_vertices<W, I: Iterator<Item = usize>>(g: AdjacencyListWeighted<W>, r: I, n: usize)
    requires
        n == g.ord(),   // postcondition of `order()`: the order fits usize
        r.obeys_prophetic_iter_laws(),
        r.decrease() is Some,
        r.remaining() == Seq::new(g.ord() as nat, |i: int| i as usize),
    ensures
        tc_iter(r),
        tc_vertices(g.ord() as nat, r.remaining()),
        tc_vertices_o(g.ord() as nat, r.remaining()),
{
    assert(Seq::new(g.ord() as nat, |i: int| i as usize) =~= vertex_seq(g.ord() as nat));
}

/// Outdegree::outdegree (proved in weighted_core for every W with NO precondition: `ensures u < self.ord()`,
/// `r == self.row(u as int).dom().len()`; the safe indexing `self.arcs[u]` panics for u outside V, rule E4b): both
/// hypotheses below are postconditions of the real method, so the value clause AND the clause `u < ord` of Dgo
/// (returning implies u in V, i.e. the documented panic for u outside V) are closed
proof fn lemma_weighted_meets_outdegree<W>(g: AdjacencyListWeighted<W>, u: usize, r: usize)
    requires g.wf(), u < g.ord(), r == g.row(u as int).dom().len(),
    ensures tc_outdegree(g.ord() as nat, whas(g), u, r),
{
    let row = g.row(u as int).dom();
    let out = tc_out_set(g.ord() as nat, whas(g), u as int);
    let f = |x: usize| x as int;
    range_set_properties::<int>(0, g.ord());
    assert(row.finite());
    assert(row.injective_on(f));
    assert(row.map(f) =~= out) by {
        assert forall|b: int| #![auto] row.map(f).contains(b) == out.contains(b) by {
            row.lemma_map_contains(f, b);
            if out.contains(b) {
                assert(whas(g)(u as int, b));
                assert(g.has(u as int, b));
                assert(row.contains(b as usize) && f(b as usize) == b);
            }
            if row.map(f).contains(b) {
                let a = choose|a: usize| row.contains(a) && b == f(a);
                assert(g.has(u as int, a as int));
                assert(whas(g)(u as int, b));
            }
        }
    }
    lemma_map_size(row, out, f);
}

/// OutNeighborsWeighted::out_neighbors_weighted (proved in weighted_core at the instance W = isize - with a generic W
/// Verus cannot discharge the bounds of vstd's Map adapter axioms; `Dgw` is the instance W = usize of the same generic
/// impl, which is proved separately in unit weighted_onw_usize together with the usize twin of this lemma,
/// `lemma_weighted_usize_meets_out_neighbors_weighted`).  From the proved clauses (items are out-neighbours with their weights, ids strictly ascending, coverage
/// if the iterator is driven until it returns None): protocol, no vertex twice, soundness (Dgw clauses 1, 2, 3, 5)
/// unconditionally; coverage (clause 4) only under `r.will_return_none()`.
proof fn lemma_weighted_meets_out_neighbors_weighted<'a, I: Iterator<Item = (usize, &'a isize)>>(g: AdjacencyListWeighted<isize>, u: usize, r: I)
    requires
        u < g.ord(),
        r.obeys_prophetic_iter_laws(),
        r.decrease() is Some,
        forall|i: int| 0 <= i < r.remaining().len() ==> g.has(u as int, (#[trigger] r.remaining()[i]).0 as int)
            && *r.remaining()[i].1 == g.wt(u as int, r.remaining()[i].0 as int),
        forall|i: int, j: int| 0 <= i < j < r.remaining().len() ==> (#[trigger] r.remaining()[i]).0 < (#[trigger] r.remaining()[j]).0,
        r.will_return_none() ==>
            forall|v: usize| g.has(u as int, v as int) ==> exists|i: int| 0 <= i < r.remaining().len() && (#[trigger] r.remaining()[i]).0 == v,
    ensures
        tc_iter(r),
        tc_nbw_sound(whas(g), wwt_isize(g), val_isize(), u, r.remaining()),
        r.will_return_none() ==> tc_nbw_cover(whas(g), u, r.remaining()),
{
    let rem = r.remaining();
    assert forall|i: int| 0 <= i < rem.len() implies whas(g)(u as int, (#[trigger] rem[i]).0 as int)
        && val_isize()(*rem[i].1) == wwt_isize(g)(u as int, rem[i].0 as int) by {
        assert(g.has(u as int, rem[i].0 as int));
    }
    if r.will_return_none() {
        assert forall|v: usize| #![trigger whas(g)(u as int, v as int)] whas(g)(u as int, v as int) implies exists|i: int| 0 <= i < rem.len() && (#[trigger] rem[i]).0 == v by {
            assert(g.has(u as int, v as int));
        }
    }
}

/// the gap: the clauses proved for `out_neighbors_weighted` WITHOUT `will_return_none()` allow an item sequence that
/// violates the unconditional coverage clause of Dgw (no item, for a vertex that has an out-neighbour)
proof fn lemma_weighted_out_neighbors_weighted_gap(g: AdjacencyListWeighted<isize>, u: usize, v: usize)
    requires g.has(u as int, v as int),
    ensures
        exists|rem: Seq<(usize, &isize)>| tc_nbw_sound(whas(g), wwt_isize(g), val_isize(), u, rem) && !#[trigger] tc_nbw_cover(whas(g), u, rem),
{
    let rem = Seq::<(usize, &isize)>::empty();
    assert(whas(g)(u as int, v as int));
    assert(!tc_nbw_cover(whas(g), u, rem));
    assert(tc_nbw_sound(whas(g), wwt_isize(g), val_isize(), u, rem));
}
} // mod weighted_side

// ---- 3e. AdjacencyMap (unit map_core; out_neighbors / indegree / vertices of unit map_more restated, see below) ----
// The vertex set of an AdjacencyMap is its KEY SET; the opaque types model V = 0..ord ("a non-contiguous AdjacencyMap ... is
// outside this model", prelude/dg_ops.rs).  The lemmas therefore carry the extra hypothesis `map_contiguous(g)`: the keys
// are exactly 0..ord.  For a non-contiguous map NO trait contract of Dg / Dgo is met (known defects F3 / F6).
mod map_side {
use super::*;
//@import units/inc/map_core.inc.rs

/// the arc relation of the map as the `has` of a trait contract (ord := g.ord())
spec fn phas(g: AdjacencyMap) -> spec_fn(int, int) -> bool { |a: int, b: int| g.has(a, b) }

/// the vertex ids are exactly 0..ord
spec fn map_contiguous(g: AdjacencyMap) -> bool {
    forall|k: usize| #[trigger] g.arcs@.contains_key(k) == (k < g.ord())
}

/// representation invariant + contiguity imply validity of the abstract digraph (Dg::wf / Dgo::wf).
/// `n == g.ord()`: postcondition of `order()`, the order fits usize
proof fn lemma_map_meets_wf(g: AdjacencyMap, n: usize)
    requires g.wf(), map_contiguous(g), n == g.ord(),
    ensures tc_wf(g.ord() as nat, phas(g)),
{
    assert forall|u: int, v: int| #[trigger] phas(g)(u, v) implies 0 <= u < g.ord() && 0 <= v < g.ord() && u != v by {
        assert(g.has(u, v));
        assert(g.arcs@.contains_key(u as usize));
        assert(g.arcs@[u as usize]@.contains(v as usize));
        assert(g.arcs@.contains_key(v as usize));
    }
}

/// Order::order (proved in map_core: `r == self.ord()`, the number of keys)
proof fn lemma_map_meets_order(g: AdjacencyMap, r: usize)
    requires r == g.ord(),
    ensures tc_order(g.ord() as nat, r),
{
}

/// HasArc::has_arc (proved in map_core without precondition: `r == self.has(u as int, v as int)`)
proof fn lemma_map_meets_has_arc(g: AdjacencyMap, u: usize, v: usize, r: bool)
    requires r == g.has(u as int, v as int),
    ensures tc_has_arc(phas(g), u, v, r),
{
}

/// Outdegree::outdegree (proved in map_core: `self.verts().contains(u as int)`, `r == self.row(u as int).len()`)
proof fn lemma_map_meets_outdegree(g: AdjacencyMap, u: usize, r: usize)
    requires g.wf(), map_contiguous(g), g.verts().contains(u as int), r == g.row(u as int).len(),
    ensures tc_outdegree(g.ord() as nat, phas(g), u, r),
{
    lemma_map_verts_contains(g, u as int);
    assert(g.arcs@.contains_key(u));
    let row = g.row(u as int);
    let out = tc_out_set(g.ord() as nat, phas(g), u as int);
    let f = |x: usize| x as int;
    range_set_properties::<int>(0, g.ord());
    assert(row.finite());
    assert(row.injective_on(f));
    assert(row.map(f) =~= out) by {
        assert forall|b: int| #![auto] row.map(f).contains(b) == out.contains(b) by {
            row.lemma_map_contains(f, b);
            if out.contains(b) {
                assert(phas(g)(u as int, b));
                assert(g.has(u as int, b));
                assert(row.contains(b as usize) && f(b as usize) == b);
            }
            if row.map(f).contains(b) {
                let a = choose|a: usize| row.contains(a) && b == f(a);
                assert(g.arcs@[u]@.contains(a));
                assert(g.arcs@.contains_key(a));
                assert(g.has(u as int, a as int));
                assert(phas(g)(u as int, b));
            }
        }
    }
    lemma_map_size(row, out, f);
}

// -- the methods under contract in unit map_more (out_neighbors, indegree, vertices).  That fragment is NOT imported: loaded
// into this crate (or into one of its own next to these lemmas) the `fn_end` hint of map_more's `is_regular` no longer verifies
// (`assert(self.indeg(ks[i + 1] as int) == c && ..)`, a brittle proof of that unit, not a contract issue).  The three proved
// postconditions are therefore restated verbatim; they only use `has` / `verts` / `arcs@.dom()` of map_core, plus map_more's
// `in_keys` / `mm_is_key_seq`, whose one-line definitions are copied below. --

/// OutNeighbors::out_neighbors (proved in map_more: `self.verts().contains(u as int)` - u outside V panics -, protocol,
/// every item an out-neighbour, every out-neighbour an item, strictly ascending, no repeats).  ALL data clauses of Dg / Dgo
/// follow unconditionally, for ANY map; contiguity is only needed to read "u in V" as `u < ord`.
proof fn lemma_map_meets_out_neighbors<I: Iterator<Item = usize>>(g: AdjacencyMap, u: usize, r: I)
    requires
        g.verts().contains(u as int),
        r.obeys_prophetic_iter_laws(),
        r.decrease() is Some,
        forall|i: int| 0 <= i < r.remaining().len() ==> g.has(u as int, #[trigger] r.remaining()[i] as int),
        forall|v: int| #[trigger] g.has(u as int, v) ==> r.remaining().contains(v as usize),
        forall|i: int, j: int| 0 <= i < j < r.remaining().len() ==> r.remaining()[i] < r.remaining()[j],
        r.remaining().no_duplicates(),
    ensures
        tc_iter(r),
        tc_nb_sound(phas(g), u, r.remaining()),
        tc_nb_cover(phas(g), u, r.remaining()),
        map_contiguous(g) ==> u < g.ord(),
{
    let rem = r.remaining();
    assert forall|i: int| 0 <= i < rem.len() implies phas(g)(u as int, #[trigger] rem[i] as int) by {
        assert(g.has(u as int, rem[i] as int));
    }
    assert forall|v: usize| phas(g)(u as int, v as int) implies #[trigger] rem.contains(v) by {
        assert(g.has(u as int, v as int));
        assert(rem.contains((v as int) as usize));
    }
    lemma_map_verts_contains(g, u as int);
}

/// copy of map_more's `AdjacencyMap::in_keys` (`indeg(v)` is its cardinality): the in-neighbours of v, as keys
spec fn map_in_keys(g: AdjacencyMap, v: int) -> Set<usize> { g.arcs@.dom().filter(|k: usize| g.has(k as int, v)) }

/// Indegree::indegree (proved in map_more: `self.verts().contains(v as int)`, `r == self.indeg(v as int)`, the number of KEYS a
/// with has(a, v)).  For a contiguous map that is the cardinality of Dgo (vertices below ord with has(a, v)).
proof fn lemma_map_meets_indegree(g: AdjacencyMap, v: usize, r: usize)
    requires map_contiguous(g), g.verts().contains(v as int), r == map_in_keys(g, v as int).len(),
    ensures tc_indegree(g.ord() as nat, phas(g), v, r),
{
    lemma_map_verts_contains(g, v as int);
    let keys = map_in_keys(g, v as int);
    let ins = tc_in_set(g.ord() as nat, phas(g), v as int);
    let f = |x: usize| x as int;
    range_set_properties::<int>(0, g.ord());
    assert(g.arcs@.dom().finite());
    lemma_len_subset(keys, g.arcs@.dom());
    assert(keys.finite());
    assert(keys.injective_on(f));
    assert(keys.map(f) =~= ins) by {
        assert forall|b: int| #![auto] keys.map(f).contains(b) == ins.contains(b) by {
            keys.lemma_map_contains(f, b);
            if ins.contains(b) {
                assert(phas(g)(b, v as int));
                assert(g.has(b, v as int));
                assert(g.arcs@.dom().contains(b as usize));
                assert(keys.contains(b as usize) && f(b as usize) == b);
            }
            if keys.map(f).contains(b) {
                let a = choose|a: usize| keys.contains(a) && b == f(a);
                assert(g.arcs@.contains_key(a));
                assert(g.has(a as int, v as int));
                assert(phas(g)(b, v as int));
            }
        }
    }
    lemma_map_size(keys, ins, f);
}

/// copy of map_more's `mm_is_key_seq`: ks lists the vertex set `dom` in ascending order (hence each vertex once)
spec fn map_is_key_seq(dom: Set<usize>, ks: Seq<usize>) -> bool {
    &&& ks.to_set() == dom
    &&& ks.no_duplicates()
    &&& forall|i: int, j: int| 0 <= i < j < ks.len() ==> #[trigger] ks[i] < #[trigger] ks[j]
}

/// Vertices::vertices (proved in map_more: protocol, `mm_is_key_seq(self.arcs@.dom(), r.remaining())`,
/// `r.remaining().len() == self.ord()`; map_positional proves the same listing as `r.remaining() == self.key_seq()`).
/// For a contiguous map that listing is 0, 1, .., ord-1: the ensures of Dg::vertices / Dgi::vertices / Dgo::vertices.
proof fn lemma_map_meets_vertices<I: Iterator<Item = usize>>(g: AdjacencyMap, r: I, n: usize)
    requires
        map_contiguous(g),
        n == g.ord(),   // postcondition of `order()`: the order fits usize
        r.obeys_prophetic_iter_laws(),
        r.decrease() is Some,
        map_is_key_seq(g.arcs@.dom(), r.remaining()),
        r.remaining().len() == g.ord(),
    ensures
        tc_iter(r),
        tc_vertices(g.ord() as nat, r.remaining()),
        tc_vertices_o(g.ord() as nat, r.remaining()),
{
    let rem = r.remaining();
    assert forall|x: usize| #[trigger] rem.contains(x) == (x < g.ord() as nat) by {
        assert(rem.contains(x) == rem.to_set().contains(x));
        assert(g.arcs@.dom().contains(x) == g.arcs@.contains_key(x));
    }
    lemma_asc_initial(rem, g.ord() as nat);
    assert(rem =~= vertex_seq(g.ord() as nat));
}

/// the gap for a NON-contiguous map: with the vertex ids {0, 2} (order 2) and the arc 0 -> 2 the validity clause of
/// Dg / Dgo (`has(u, v) ==> v < ord`) fails although the representation invariant holds - whatever proved postcondition one
/// starts from, `has` does not fit the model V = 0..ord
proof fn lemma_map_noncontiguous_gap(g: AdjacencyMap, u: usize, v: usize)
    requires g.wf(), g.has(u as int, v as int), v >= g.ord(),
    ensures !tc_wf(g.ord() as nat, phas(g)),
{
    assert(phas(g)(u as int, v as int));
}
} // mod map_side
