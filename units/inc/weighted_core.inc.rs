//@file src/repr/adjacency_list_weighted/mod.rs
broadcast use vstd::std_specs::btree::group_btree_axioms;

/*@struct name=AdjacencyListWeighted @*/

impl<W> AdjacencyListWeighted<W> {
    /// |V|; V = 0..ord()
    spec fn ord(&self) -> int { self.arcs@.len() as int }
    /// weighted out-neighbour map of row u
    spec fn row(&self, u: int) -> Map<usize, W> { self.arcs@[u]@ }
    /// arc relation of the abstract digraph
    spec fn has(&self, u: int, v: int) -> bool {
        0 <= u < self.arcs@.len() && 0 <= v <= usize::MAX && self.arcs@[u]@.contains_key(v as usize)
    }
    /// weight of the arc (u, v); meaningful where has(u, v)
    spec fn wt(&self, u: int, v: int) -> W { self.arcs@[u]@[v as usize] }
    /// representation invariant: at least one vertex, every arc joins distinct vertices of V
    spec fn wf(&self) -> bool {
        &&& self.arcs@.len() > 0
        &&& forall|u: int, x: usize| 0 <= u < self.arcs@.len() && #[trigger] self.arcs@[u]@.contains_key(x) ==> x < self.arcs@.len() && x != u
    }

    /*@fn impl=AdjacencyListWeighted trait=Order name=order
    ensures
        r == self.ord(),
    @*/

    /*@fn impl=AdjacencyListWeighted trait=ContiguousOrder name=contiguous_order
    ensures
        r == self.ord(),
    @*/

    /*@fn impl=AdjacencyListWeighted trait=AddArcWeighted name=add_arc_weighted subst=Self::Weight=>W
    requires
        old(self).wf(),
    ensures
        final(self).wf(),
        final(self).ord() == old(self).ord(),
        u != v && u < old(self).ord() && v < old(self).ord(),
        forall|a: int, b: int| #![trigger final(self).has(a, b)] final(self).has(a, b) == (old(self).has(a, b) || (a == u && b == v)),
        final(self).wt(u as int, v as int) == w,
        forall|a: int, b: int| #![trigger final(self).wt(a, b)] old(self).has(a, b) && !(a == u && b == v) ==> final(self).wt(a, b) == old(self).wt(a, b),
    @panic *
        assert(*self == *old(self));
    @*/

    /*@fn impl=AdjacencyListWeighted trait=HasArc name=has_arc
    ensures
        r == self.has(u as int, v as int),
    @closure 1 |set: &BTreeMap<usize, W>| -> (b: bool)
    ensures
        b == set@.contains_key(v),
    @*/

    /*@fn impl=AdjacencyListWeighted trait=HasEdge name=has_edge
    ensures
        r == (self.has(u as int, v as int) && self.has(v as int, u as int)),
    @*/

    /*@fn impl=AdjacencyListWeighted trait=ArcWeight name=arc_weight subst=Self::Weight=>W
    ensures
        (r is Some) == self.has(u as int, v as int),
        r is Some ==> *r->0 == self.wt(u as int, v as int),
    @closure 1 |arcs: &BTreeMap<usize, W>| -> (o: Option<&W>)
    ensures
        (o is Some) == arcs@.contains_key(v),
        o is Some ==> *o->0 == arcs@[v],
    @*/

    /*@fn impl=AdjacencyListWeighted trait=RemoveArc name=remove_arc
    requires
        old(self).wf(),
    ensures
        final(self).wf(),
        final(self).ord() == old(self).ord(),
        r == old(self).has(u as int, v as int),
        forall|a: int, b: int| #![trigger final(self).has(a, b)] final(self).has(a, b) == (old(self).has(a, b) && !(a == u && b == v)),
        forall|a: int, b: int| #![trigger final(self).wt(a, b)] final(self).has(a, b) ==> final(self).wt(a, b) == old(self).wt(a, b),
    @closure 1 |set: &mut BTreeMap<usize, W>| -> (b: bool)
    ensures
        b == old(set)@.contains_key(v),
        final(set)@ == old(set)@.remove(v),
    @*/

    /*@fn impl=AdjacencyListWeighted trait=Vertices name=vertices subst="Iterator<Item=usize>=>Iterator<Item=usize>+use<'_,W>"
    ensures
        r.obeys_prophetic_iter_laws(),
        r.decrease() is Some,
        r.remaining() == Seq::new(self.ord() as nat, |i: int| i as usize),
    @*/

    /*@fn impl=AdjacencyListWeighted trait=HasWalk name=has_walk
    ensures
        r == weighted_walk(*self, walk@),
    @closure 1 |p: (&usize, &usize)| -> (b: bool)
    ensures
        b == self.has(*p.0 as int, *p.1 as int),
    @fn_start
        broadcast use vstd::std_specs::iter::group_iter_axioms;
        proof {
            if walk@.len() > 1 {
                lemma_weighted_walk_pairs(walk@);
                let a = walk@.as_ref();
                let z = a.zip_truncate(a.skip(1));
                assert forall|i: int| 0 <= i < walk@.len() - 1 implies
                    #[trigger] self.has(walk@[i] as int, walk@[i + 1] as int) == self.has(*z[i].0 as int, *z[i].1 as int) by {}
            }
        }
    @*/

    /*@fn impl=AdjacencyListWeighted trait=Indegree name=is_source
    ensures
        r == (forall|a: int| !self.has(a, v as int)),
    @closure 1 |map: &BTreeMap<usize, W>| -> (b: bool)
    ensures
        b == !map@.contains_key(v),
    @fn_start
        proof {
            let rem = self.arcs@.as_ref();
            assert forall|a: int| 0 <= a < self.arcs@.len() implies *rem[a] == #[trigger] self.arcs@[a] by {}
            assert forall|a: int| 0 <= a < self.arcs@.len() implies (#[trigger] rem[a])@.contains_key(v) == self.has(a, v as int) by {}
        }
    @*/

    // no precondition: `self.arcs[u]` panics for u outside V (rule E4b), as the trait documents
    /*@fn impl=AdjacencyListWeighted trait=Outdegree name=outdegree safeindex
    ensures
        u < self.ord(),
        r == self.row(u as int).dom().len(),
    @*/

    /*@fn impl=AdjacencyListWeighted trait=Outdegree name=is_sink safeindex
    ensures
        u < self.ord(),
        r == (forall|b: int| !self.has(u as int, b)),
    @fn_start
        proof {
            if u < self.ord() {   // otherwise the indexing below panics
                let m = self.arcs@[u as int]@;
                if m.dom().is_empty() {
                    assert forall|b: int| !self.has(u as int, b) by {
                        if 0 <= b <= usize::MAX { assert(!m.dom().contains(b as usize)); }
                    }
                } else {
                    let x = choose|x: usize| m.dom().contains(x);
                    assert(self.has(u as int, x as int));
                }
            }
        }
    @*/
}

impl<W: Clone> AdjacencyListWeighted<W> {
    /*@fn impl=AdjacencyListWeighted trait=Empty name=empty
    ensures
        order > 0,
        r.wf(),
        r.ord() == order,
        forall|a: int, b: int| !r.has(a, b),
    @*/
}

/// `out_neighbors_weighted` at the instance W = isize: with a generic W, Verus cannot discharge the trait bounds of vstd's
/// `Map` adapter axioms (`map_postcondition`) for the closure type, so the generic impl is verified at this instance only.
impl AdjacencyListWeighted<isize> {
    /*@fn impl=AdjacencyListWeighted trait=OutNeighborsWeighted name=out_neighbors_weighted subst="Iterator<Item=(usize,&Self::Weight)>=>Iterator<Item=(usize,&isize)>" safeindex
    ensures
        u < self.ord(),
        r.obeys_prophetic_iter_laws(),
        r.decrease() is Some,
        forall|i: int| 0 <= i < r.remaining().len() ==> self.has(u as int, (#[trigger] r.remaining()[i]).0 as int)
            && *r.remaining()[i].1 == self.wt(u as int, r.remaining()[i].0 as int),
        forall|i: int, j: int| 0 <= i < j < r.remaining().len() ==> (#[trigger] r.remaining()[i]).0 < (#[trigger] r.remaining()[j]).0,
        r.will_return_none() ==>
            forall|v: usize| self.has(u as int, v as int) ==> exists|i: int| 0 <= i < r.remaining().len() && (#[trigger] r.remaining()[i]).0 == v,
    @closure 1 |p: (&usize, &isize)| -> (q: (usize, &isize))
    ensures
        q.0 == *p.0,
        q.1 == p.1,
    @fn_start
        broadcast use vstd::std_specs::iter::group_iter_axioms;
        proof {
            // the returned iterator is the tail expression, so the facts about the row's `iter()` item sequence `src` and the
            // mapped item sequence `rem` are stated for every candidate sequence (triggers: terms of the std contracts)
            let m = self.arcs@[u as int]@;
            // ascending: `BTreeMap::iter` promises `increasing_seq` of the key projection `f` of its items
            assert forall|src: Seq<(&usize, &isize)>, f: spec_fn((&usize, &isize)) -> usize, i: int, j: int|
                #[trigger] vstd::std_specs::btree::increasing_seq(src.map_values(f)) && 0 <= i < j < src.len()
                implies f(#[trigger] src[i]) < f(#[trigger] src[j]) by {
                lemma_weighted_increasing(src.map_values(f), i, j);
            }
            assert forall|src: Seq<(&usize, &isize)>, rem: Seq<(usize, &isize)>, v: usize|
                #[trigger] src.contains((&v, &m[v])) && #[trigger] rem.len() == src.len()
                && (forall|k: int| 0 <= k < rem.len() ==> (#[trigger] rem[k]).0 == *src[k].0)
                implies exists|i: int| 0 <= i < rem.len() && (#[trigger] rem[i]).0 == v
            by {
                let i = choose|i: int| 0 <= i < src.len() && src[i] == (&v, &m[v]);
                assert(rem[i].0 == v);
            }
        }
    @*/
}

/// meaning of vstd's `increasing_seq` on usize keys: strictly ascending
proof fn lemma_weighted_increasing(ks: Seq<usize>, i: int, j: int)
    requires vstd::std_specs::btree::increasing_seq(ks), 0 <= i < j < ks.len(),
    ensures ks[i] < ks[j],
{
    broadcast use vstd::laws_cmp::group_laws_cmp;
    assert(vstd::laws_cmp::obeys_cmp::<usize>());
    vstd::std_specs::btree::axiom_increasing_seq_meaning(ks);
    assert(<usize as vstd::std_specs::cmp::OrdSpec>::cmp_spec(&ks[i], &ks[j]) is Less);
}

/// the walk predicate of C02: at least two vertices and every consecutive pair is an arc
spec fn weighted_walk<W>(g: AdjacencyListWeighted<W>, w: Seq<usize>) -> bool {
    w.len() >= 2 && forall|i: int| 0 <= i < w.len() - 1 ==> #[trigger] g.has(w[i] as int, w[i + 1] as int)
}

/// the item sequence of `walk.iter().zip(walk.iter().skip(1))`: the consecutive pairs of the walk
proof fn lemma_weighted_walk_pairs(w: Seq<usize>)
    requires w.len() > 1,
    ensures ({
        let a = w.as_ref();
        let z = a.zip_truncate(a.skip(1));
        &&& z.len() == w.len() - 1
        &&& forall|i: int| 0 <= i < w.len() - 1 ==> *(#[trigger] z[i]).0 == w[i] && *z[i].1 == w[i + 1]
    })
{
}

/// view of the representation: one weighted out-neighbour map per vertex
spec fn weighted_rows<W>(g: AdjacencyListWeighted<W>) -> Seq<Map<usize, W>> {
    Seq::new(g.arcs@.len(), |i: int| g.arcs@[i]@)
}

/// C20 support, canonical form: two weighted lists denoting the same weighted digraph (V, A, wt) have
/// extensionally equal field views (same number of rows, each row the same map). No wf needed.
proof fn lemma_weighted_canonical<W>(a: AdjacencyListWeighted<W>, b: AdjacencyListWeighted<W>)
    requires
        a.ord() == b.ord(),
        forall|u: int, v: int| a.has(u, v) == b.has(u, v),
        forall|u: int, v: int| a.has(u, v) ==> a.wt(u, v) == b.wt(u, v),
    ensures
        a.arcs@.len() == b.arcs@.len(),
        forall|i: int| 0 <= i < a.arcs@.len() ==> #[trigger] a.arcs@[i]@ == b.arcs@[i]@,
        weighted_rows(a) == weighted_rows(b),
{
    assert forall|i: int| 0 <= i < a.arcs@.len() implies #[trigger] a.arcs@[i]@ == b.arcs@[i]@ by {
        assert forall|x: usize| a.arcs@[i]@.contains_key(x) == b.arcs@[i]@.contains_key(x) by {
            assert(a.has(i, x as int) == b.has(i, x as int));
        }
        assert forall|x: usize| a.arcs@[i]@.contains_key(x) implies a.arcs@[i]@[x] == b.arcs@[i]@[x] by {
            assert(a.has(i, x as int));
            assert(a.wt(i, x as int) == b.wt(i, x as int));
        }
        assert(a.arcs@[i]@ =~= b.arcs@[i]@);
    }
    assert(weighted_rows(a) =~= weighted_rows(b));
}

/// converse: equal field views denote the same weighted digraph and agree on well-formedness
proof fn lemma_weighted_canonical_conv<W>(a: AdjacencyListWeighted<W>, b: AdjacencyListWeighted<W>)
    requires
        weighted_rows(a) == weighted_rows(b),
    ensures
        a.ord() == b.ord(),
        forall|u: int, v: int| a.has(u, v) == b.has(u, v),
        forall|u: int, v: int| 0 <= u < a.ord() ==> a.wt(u, v) == b.wt(u, v),
        a.wf() == b.wf(),
{
    assert(weighted_rows(a).len() == a.arcs@.len() && weighted_rows(b).len() == b.arcs@.len());
    assert forall|i: int| 0 <= i < a.arcs@.len() implies #[trigger] a.arcs@[i]@ == b.arcs@[i]@ by {
        assert(weighted_rows(a)[i] == a.arcs@[i]@ && weighted_rows(b)[i] == b.arcs@[i]@);
    }
    assert forall|u: int, v: int| a.has(u, v) == b.has(u, v) by {
        if 0 <= u < a.arcs@.len() { assert(a.arcs@[u]@ == b.arcs@[u]@); }
    }
    assert forall|u: int, v: int| 0 <= u < a.ord() implies a.wt(u, v) == b.wt(u, v) by {
        assert(a.arcs@[u]@ == b.arcs@[u]@);
    }
    lemma_weighted_wf_has(a);
    lemma_weighted_wf_has(b);
}

/// wf stated over the abstract arc relation only
spec fn weighted_wf_abs<W>(g: AdjacencyListWeighted<W>) -> bool {
    &&& g.ord() > 0
    &&& forall|u: int, v: int| #[trigger] g.has(u, v) ==> 0 <= u < g.ord() && 0 <= v < g.ord() && u != v
}

proof fn lemma_weighted_wf_has<W>(g: AdjacencyListWeighted<W>)
    ensures g.wf() == weighted_wf_abs(g),
{
    if g.wf() {
        assert forall|u: int, v: int| #[trigger] g.has(u, v) implies 0 <= u < g.ord() && 0 <= v < g.ord() && u != v by {
            assert(g.arcs@[u]@.contains_key(v as usize));
        }
    }
    if weighted_wf_abs(g) {
        assert forall|u: int, x: usize| 0 <= u < g.arcs@.len() && #[trigger] g.arcs@[u]@.contains_key(x) implies x < g.arcs@.len() && x != u by {
            assert(g.has(u, x as int));
        }
    }
}
