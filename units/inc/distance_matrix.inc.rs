//@file src/algo/distance_matrix.rs
/*@struct name=DistanceMatrix @*/

impl<W> DistanceMatrix<W> {
    /// representation invariant established by `new`: order x order entries, row-major
    spec fn wf(&self) -> bool {
        &&& self.order > 0
        &&& self.order * self.order <= usize::MAX
        &&& self.dist@.len() == self.order * self.order
    }
    /// entry in row u, column v
    spec fn at(&self, u: int, v: int) -> W { self.dist@[u * self.order + v] }

    // No precondition on the index beyond "the cell number is computable": safe indexing PANICS on a cell outside the buffer
    // (rule E4b), so for ANY index pair the call either panics or returns the addressed cell of the buffer — in particular
    // it never reads outside `dist` (C13).  For an in-range pair of a well-formed matrix the returned cell is entry (u, v).
    /*@fn impl=DistanceMatrix trait=Index implhas='Index<(usize, usize)>' name=index rename=index_pair subst=Self::Output=>W safeindex
    requires
        index.0 * self.order + index.1 <= usize::MAX,
    ensures
        index.0 * self.order + index.1 < self.dist@.len(),
        *r == self.dist@[index.0 * self.order + index.1],
        self.wf() && index.0 < self.order && index.1 < self.order ==> *r == self.at(index.0 as int, index.1 as int),
    @fn_start
        proof {
            assert(index.0 * self.order >= 0) by (nonlinear_arith) requires index.0 >= 0, self.order >= 0;
            // the cell number may be written with the product either way round
            assert(index.0 * self.order == self.order * index.0) by (nonlinear_arith);
        }
    @*/

    /*@fn impl=DistanceMatrix trait=IndexMut implhas='IndexMut<(usize, usize)>' name=index_mut rename=index_pair_mut subst=Self::Output=>W safeindex
    requires
        index.0 * old(self).order + index.1 <= usize::MAX,
    ensures
        index.0 * old(self).order + index.1 < old(self).dist@.len(),
        final(self).order == old(self).order,
        final(self).infinity == old(self).infinity,
        final(self).dist@.len() == old(self).dist@.len(),
        *r == old(self).dist@[index.0 * old(self).order + index.1],
        old(self).wf() && index.0 < old(self).order && index.1 < old(self).order ==> *r == old(self).at(index.0 as int, index.1 as int),
        final(self).dist@ == old(self).dist@.update(index.0 * old(self).order + index.1, *final(r)),
    @fn_start
        proof {
            assert(index.0 * self.order >= 0) by (nonlinear_arith) requires index.0 >= 0, self.order >= 0;
            // the cell number may be written with the product either way round
            assert(index.0 * self.order == self.order * index.0) by (nonlinear_arith);
        }
    @*/
}

proof fn lemma_cell_bound(a: int, b: int, n: int)
    requires 0 <= a < n, 0 <= b < n,
    ensures 0 <= a * n + b < n * n, a * n <= a * n + b,
{
    assert(0 <= a * n + b < n * n) by (nonlinear_arith) requires 0 <= a < n, 0 <= b < n;
    assert(0 <= a * n) by (nonlinear_arith) requires 0 <= a, 0 <= n;
}

/// distinct (row, column) pairs address distinct cells
proof fn lemma_cell_inj(a: int, b: int, u: int, v: int, n: int)
    requires 0 <= a < n, 0 <= b < n, 0 <= u < n, 0 <= v < n, a * n + b == u * n + v,
    ensures a == u && b == v,
{
    assert(a == u) by (nonlinear_arith)
        requires 0 <= a < n, 0 <= b < n, 0 <= u < n, 0 <= v < n, a * n + b == u * n + v;
}
