//@file src/repr/adjacency_map/mod.rs
// ---- AdjacencyMap: the wf-establishing constructor `From<rows>` and the generators built on it (empty, trivial) ----

/// every row only names other vertices of V = 0..rows.len()  (no self-loop, no head outside the digraph)
spec fn mc_rows_valid(rows: Seq<BTreeSet<usize>>) -> bool {
    forall|i: int, x: usize| 0 <= i < rows.len() && #[trigger] rows[i]@.contains(x) ==> x < rows.len() && x != i
}

/// C16, building from an iterator of out-neighbour sets: V = 0..rows.len() and row k is kept as given
spec fn mc_rows_kept(g: AdjacencyMap, rows: Seq<BTreeSet<usize>>) -> bool {
    &&& forall|k: usize| #[trigger] g.arcs@.contains_key(k) == (k < rows.len())
    &&& forall|k: usize| k < rows.len() ==> (#[trigger] g.arcs@[k])@ == rows[k as int]@
}

/// the items `enumerate` makes of the rows
spec fn mc_enumerated(items: Seq<(usize, BTreeSet<usize>)>, rows: Seq<BTreeSet<usize>>) -> bool {
    &&& items.len() == rows.len()
    &&& forall|i: int| 0 <= i < rows.len() ==> #[trigger] items[i] == (i as usize, rows[i])
}

/// collecting the enumerated rows gives the map 0..n -> rows
proof fn lemma_mc_collected(items: Seq<(usize, BTreeSet<usize>)>, m: BTreeMap<usize, BTreeSet<usize>>, rows: Seq<BTreeSet<usize>>)
    requires
        <BTreeMap<usize, BTreeSet<usize>> as vstd::std_specs::iter::FromIteratorSpec<(usize, BTreeSet<usize>)>>::from_iter_ensures(items, m),
        mc_enumerated(items, rows),
        rows.len() <= usize::MAX,
    ensures
        mc_rows_kept(AdjacencyMap { arcs: m }, rows),
{
    broadcast use axiom_btree_map_from_iter;
    assert forall|i: int, j: int| 0 <= i < j < items.len() implies items[i].0 != items[j].0 by {}
    assert forall|k: usize| #[trigger] m@.contains_key(k) == (k < rows.len()) by {
        if k < rows.len() { assert(items[k as int].0 == k); }
    }
    assert forall|k: usize| k < rows.len() implies (#[trigger] m@[k])@ == rows[k as int]@ by {
        assert(m@[items[k as int].0] == items[k as int].1);
    }
}

/// a map that keeps the rows has a vertex only if there is a row
proof fn lemma_mc_nonempty(g: AdjacencyMap, rows: Seq<BTreeSet<usize>>)
    requires mc_rows_kept(g, rows),
    ensures g.ord() > 0 ==> rows.len() > 0,
{
    if rows.len() == 0 {
        assert forall|k: usize| !g.arcs@.dom().contains(k) by { assert(g.arcs@.contains_key(k) == (k < rows.len())); }
        assert(g.arcs@.dom() =~= Set::<usize>::empty());
    }
}

/// a map that keeps the rows, all of whose listed arcs were validated, is a well-formed digraph with exactly those rows
proof fn lemma_mc_validated(g: AdjacencyMap, rows: Seq<BTreeSet<usize>>, s: Seq<(usize, usize)>)
    requires
        mc_rows_kept(g, rows),
        0 < rows.len() <= usize::MAX,
        mc_arcs_listed(g.arcs@, s),
        forall|i: int| 0 <= i < s.len() ==> (#[trigger] s[i]).0 != s[i].1 && g.arcs@.contains_key(s[i].1),
    ensures
        g.wf(),
        mc_rows_valid(rows),
        g.ord() == rows.len(),
        forall|x: int| #[trigger] g.verts().contains(x) == (0 <= x < rows.len()),
        forall|a: int, b: int| #![trigger g.has(a, b)] g.has(a, b) == (0 <= a < rows.len() && 0 <= b <= usize::MAX && rows[a]@.contains(b as usize)),
{
    broadcast use lemma_map_verts_contains;
    let m = g.arcs@;
    let n = rows.len() as int;
    assert forall|u: usize, x: usize| m.contains_key(u) && #[trigger] m[u]@.contains(x) implies m.contains_key(x) && x != u by {
        assert(s.contains((u, x)));
        let i = choose|i: int| 0 <= i < s.len() && s[i] == (u, x);
        assert(s[i].0 != s[i].1 && m.contains_key(s[i].1));
    }
    assert forall|i: int, x: usize| 0 <= i < rows.len() && #[trigger] rows[i]@.contains(x) implies x < rows.len() && x != i by {
        let k = i as usize;
        assert(m.contains_key(k));
        assert(m[k]@ == rows[k as int]@);
        assert(m[k]@.contains(x));
        assert(m.contains_key(x));
    }
    assert forall|x: int| #[trigger] g.verts().contains(x) == (0 <= x < n) by {
        if 0 <= x <= usize::MAX { assert(m.contains_key(x as usize) == ((x as usize) < n)); }
    }
    assert(g.verts() =~= Set::<int>::range(0, n));
    range_set_properties::<int>(0, n);
    lemma_map_verts_len(g);
    assert forall|a: int, b: int| #![trigger g.has(a, b)] g.has(a, b) == (0 <= a < n && 0 <= b <= usize::MAX && rows[a]@.contains(b as usize)) by {
        if 0 <= a <= usize::MAX && 0 <= b <= usize::MAX {
            assert(m.contains_key(a as usize) == ((a as usize) < n));
            if a < n { assert(m[a as usize]@ == rows[a]@); }
        }
    }
}

impl AdjacencyMap {
    // C16 / C01: `I` is instantiated to Vec<BTreeSet<usize>> (contract-level monomorphisation of
    // `I: IntoIterator<Item = BTreeSet<usize>>`).  No precondition: "returned normally ==> the input was valid" is ensured.
    /*@fn impl=AdjacencyMap trait=From implhas='impl<I> From<I>' name=from subst=I=>Vec<BTreeSet<usize>> drop=I dropwhere=I wrap=enumerate props=C16,C01,C13
    ensures
        iter@.len() > 0,
        mc_rows_valid(iter@),
        r.wf(),
        mc_rows_kept(r, iter@),
        r.ord() == iter@.len(),
        forall|x: int| #[trigger] r.verts().contains(x) == (0 <= x < iter@.len()),
        forall|a: int, b: int| #![trigger r.has(a, b)] r.has(a, b) == (0 <= a < iter@.len() && 0 <= b <= usize::MAX && iter@[a]@.contains(b as usize)),
    @fn_start
        broadcast use vstd::std_specs::iter::group_iter_axioms;
        proof {
            assert(iter@.len() == iter.len() && iter@.len() <= usize::MAX);
            assert forall|items: Seq<(usize, BTreeSet<usize>)>, m: BTreeMap<usize, BTreeSet<usize>>|
                #[trigger] <BTreeMap<usize, BTreeSet<usize>> as vstd::std_specs::iter::FromIteratorSpec<(usize, BTreeSet<usize>)>>::from_iter_ensures(items, m)
                && mc_enumerated(items, iter@) implies mc_rows_kept(AdjacencyMap { arcs: m }, iter@) by {
                lemma_mc_collected(items, m, iter@);
            }
        }
    @before `for (u, v)`
        proof { lemma_mc_nonempty(digraph, iter@); }
    @loop 1
    invariant
        it1.iter.obeys_prophetic_iter_laws(),
        it1.iter.decrease() is Some,
        mc_arcs_listed(digraph.arcs@, it1.seq()),
        mc_rows_kept(digraph, iter@),
        0 < iter@.len() <= usize::MAX,
        forall|i: int| 0 <= i < it1.index() ==> (#[trigger] it1.seq()[i]).0 != it1.seq()[i].1 && digraph.arcs@.contains_key(it1.seq()[i].1),
    @fn_end
        proof {
            // the loop's ghost iterator is out of scope here: state the conclusion for every item sequence with its invariant
            assert forall|s: Seq<(usize, usize)>| #[trigger] mc_arcs_listed(digraph.arcs@, s)
                && mc_rows_kept(digraph, iter@) && 0 < iter@.len() <= usize::MAX
                && (forall|i: int| 0 <= i < s.len() ==> (#[trigger] s[i]).0 != s[i].1 && digraph.arcs@.contains_key(s[i].1))
                implies digraph.wf() && mc_rows_valid(iter@) && digraph.ord() == iter@.len()
                    && (forall|x: int| #[trigger] digraph.verts().contains(x) == (0 <= x < iter@.len()))
                    && (forall|a: int, b: int| #![trigger digraph.has(a, b)] digraph.has(a, b) == (0 <= a < iter@.len() && 0 <= b <= usize::MAX && iter@[a]@.contains(b as usize)))
            by { lemma_mc_validated(digraph, iter@, s); }
        }
    @*/

    // C14: empty(n) has n vertices and no arcs; order 0 panics
    /*@fn impl=AdjacencyMap trait=Empty name=empty props=C14,C13
    ensures
        order > 0,
        r.wf(),
        r.ord() == order,
        forall|x: int| #[trigger] r.verts().contains(x) == (0 <= x < order),
        forall|a: int, b: int| #![trigger r.has(a, b)] !r.has(a, b),
    @*/

    // C14: trivial is empty(1)
    /*@fn trait=Empty name=trivial file=src/gen/empty.rs dropwhere=Self props=C14
    ensures
        r.wf(),
        r.ord() == 1,
        forall|x: int| #[trigger] r.verts().contains(x) == (x == 0),
        forall|a: int, b: int| #![trigger r.has(a, b)] !r.has(a, b),
    @*/
}
