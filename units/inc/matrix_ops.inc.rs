//@file src/repr/adjacency_matrix/mod.rs
// ---- C11: complement / converse / union compute their set definitions; C12: is_semicomplete / is_tournament ----

spec fn pmin(a: int, b: int) -> int { if a <= b { a } else { b } }
spec fn pmax(a: int, b: int) -> int { if a <= b { b } else { a } }

/// C11: complement contains u->v exactly when u != v are in V and u->v is not in A
spec fn complement_arc(g: AdjacencyMatrix, a: int, b: int) -> bool {
    0 <= a < g.order && 0 <= b < g.order && a != b && !g.has(a, b)
}

impl AdjacencyMatrix {
    // A (C20's listed assumption): `#[derive(Clone)]` on `struct AdjacencyMatrix { blocks: Vec<usize>, order: usize }` is
    // fieldwise (rustdoc of the Clone derive: "the derived implementation of Clone calls clone on each field"), and
    // `Vec<usize>::clone` / `usize::clone` return equal values.  The extractor drops derives, so the derived method is
    // stated here as an assumed inherent contract.
    #[verifier::external_body]
    fn clone(&self) -> (r: Self)
        ensures r == *self,
    { unimplemented!() }

    /*@fn impl=AdjacencyMatrix trait=Complement name=complement props=C11,C13
    requires
        self.wf(),
    ensures
        r.wf(),
        r.order == self.order,
        forall|a: int, b: int| #![trigger r.has(a, b)] r.has(a, b) == complement_arc(*self, a, b),
    @loop 1
    invariant
        self.wf(),
        order == self.order,
        digraph.wf(),
        digraph.order == order,
        forall|a: int, b: int| #![trigger digraph.has(a, b)] digraph.has(a, b) == (complement_arc(*self, a, b) && pmin(a, b) < u),
    @loop 2
    invariant
        self.wf(),
        order == self.order,
        u < order,
        digraph.wf(),
        digraph.order == order,
        forall|a: int, b: int| #![trigger digraph.has(a, b)] digraph.has(a, b) == (complement_arc(*self, a, b)
            && (pmin(a, b) < u || (pmin(a, b) == u && pmax(a, b) < v))),
    @*/

    /*@fn impl=AdjacencyMatrix trait=Converse name=converse props=C11,C13 iterinline=arcs=>ArcsIterator::new
    requires
        self.wf(),
    ensures
        r.wf(),
        r.order == self.order,
        forall|a: int, b: int| #![trigger r.has(a, b)] r.has(a, b) == self.has(b, a),
    @loop 1
    invariant
        converse_inv(*self, arcs_it, converse, last),
    ensures
        arcs_done(arcs_it),
    decreases
        self.ncells() - last,
    @before `for (u, v) in self.arcs()`
        let ghost mut last: int = -1;
    @after `converse.add_arc(`
        proof {
            let c = u * self.order + v;
            assert(c < self.ncells()) by { lemma_index_bound(u as int, v as int, self.order as int); }
            assert forall|a: int, b: int| #![trigger converse.has(a, b)] converse.has(a, b) == (self.has(b, a) && !arcs_it.pending(b * self.order + a)) by {
                if 0 <= a < self.order && 0 <= b < self.order && b * self.order + a == c {
                    lemma_index_inj(b, a, u as int, v as int, self.order as int);
                }
            }
            last = c;
        }
    @*/

    /*@fn impl=AdjacencyMatrix trait=Union name=union props=C11,C20,C13 iterinline=arcs=>ArcsIterator::new
    requires
        self.wf(),
        other.wf(),
    ensures
        r.wf(),
        r.order == pmax(self.order as int, other.order as int),
        forall|a: int, b: int| #![trigger r.has(a, b)] r.has(a, b) == (self.has(a, b) || other.has(a, b)),
    @fn_start
        let ghost other0 = *other;
    @loop 1
    invariant
        union_inv(*self, other0, *other, arcs_it, union, last),
    ensures
        arcs_done(arcs_it),
    decreases
        other.ncells() - last,
    @before `for (u, v) in other.arcs()`
        let ghost mut last: int = -1;
    @after `union.add_arc(`
        proof {
            let c = u * other.order + v;
            assert(c < other.ncells()) by { lemma_index_bound(u as int, v as int, other.order as int); }
            assert forall|a: int, b: int| #![trigger union.has(a, b)] (union.has(a, b) ==> self.has(a, b) || other0.has(a, b)) && (other.has(a, b) && !arcs_it.pending(a * other.order + b) ==> union.has(a, b)) by {
                if 0 <= a < other.order && 0 <= b < other.order && a * other.order + b == c {
                    lemma_index_inj(a, b, u as int, v as int, other.order as int);
                }
            }
            last = c;
        }
    @*/

    // `Size::size` (called by is_semicomplete / is_tournament) is no longer assumed here: its contract
    // `r == set_cells(*self).len()` is proved in unit matrix_degrees (imported by units/matrix_ops.rs);
    // `lemma_cells_bridge` below identifies `set_cells` with this fragment's `arc_cells`.

    /*@fn impl=AdjacencyMatrix trait=IsSemicomplete name=is_semicomplete props=C12,C13
    requires
        self.wf(),
    ensures
        r == semicomplete(*self),
    @closure 1 |u: usize| -> (b: bool)
    requires
        u < order,
    ensures
        b == row_joined(*self, u as int),
    @closure 2 |v: usize| -> (b2: bool)
    ensures
        b2 == joined(*self, u as int, v as int),
    @after `let order = self.order();`
        proof {
            assert(order * (order - 1) == order * order - order) by (nonlinear_arith) requires order >= 1;
            assert((order - 1) * order == order * (order - 1)) by (nonlinear_arith) requires order >= 1;  // robust against commuted operands
            lemma_cells_bridge(*self);
            lemma_pair_count(*self);
            lemma_semicomplete_rows(*self);
            let rem = (core::ops::Range { start: 0usize, end: order }).remaining();
            assert forall|a: int| 0 <= a < order implies #[trigger] row_joined(*self, a) == row_joined(*self, rem[a] as int) by {}
        }
    @before `(u +`
        proof {
            let rem2 = (core::ops::Range { start: (u + 1) as usize, end: order }).remaining();
            assert forall|c: int| u < c < order implies #[trigger] joined(*self, u as int, c) == joined(*self, u as int, rem2[c - u - 1] as int) by {}
        }
    @*/

    /*@fn impl=AdjacencyMatrix trait=IsTournament name=is_tournament props=C12,C13
    requires
        self.wf(),
    ensures
        r == tournament(*self),
    @closure 1 |u: usize| -> (b: bool)
    requires
        u < order,
    ensures
        b == row_joined_once(*self, u as int),
    @closure 2 |v: usize| -> (b2: bool)
    ensures
        b2 == joined_once(*self, u as int, v as int),
    @after `let order = self.order();`
        proof {
            assert(order * (order - 1) == order * order - order) by (nonlinear_arith) requires order >= 1;
            assert((order - 1) * order == order * (order - 1)) by (nonlinear_arith) requires order >= 1;  // robust against commuted operands
            lemma_cells_bridge(*self);
            lemma_pair_count(*self);
            lemma_tournament_rows(*self);
            let rem = (core::ops::Range { start: 0usize, end: order }).remaining();
            assert forall|a: int| 0 <= a < order implies #[trigger] row_joined_once(*self, a) == row_joined_once(*self, rem[a] as int) by {}
        }
    @before `(u +`
        proof {
            let rem2 = (core::ops::Range { start: (u + 1) as usize, end: order }).remaining();
            assert forall|c: int| u < c < order implies #[trigger] joined_once(*self, u as int, c) == joined_once(*self, u as int, rem2[c - u - 1] as int) by {}
        }
    @*/
}

// ---- C12 definitions ----

/// the unordered pair {u, v} is joined by at least one arc
spec fn joined(g: AdjacencyMatrix, u: int, v: int) -> bool { g.has(u, v) || g.has(v, u) }

/// ... by exactly one arc
spec fn joined_once(g: AdjacencyMatrix, u: int, v: int) -> bool { g.has(u, v) != g.has(v, u) }

/// C12: every unordered pair of distinct vertices is joined by at least one arc
spec fn semicomplete(g: AdjacencyMatrix) -> bool {
    forall|u: int, v: int| 0 <= u < g.order && 0 <= v < g.order && u != v ==> #[trigger] joined(g, u, v)
}

/// C12: every unordered pair of distinct vertices is joined by exactly one arc
spec fn tournament(g: AdjacencyMatrix) -> bool {
    forall|u: int, v: int| 0 <= u < g.order && 0 <= v < g.order && u != v ==> #[trigger] joined_once(g, u, v)
}

/// what the inner `all` of is_semicomplete decides for one u
spec fn row_joined(g: AdjacencyMatrix, u: int) -> bool {
    forall|v: int| u < v < g.order ==> #[trigger] joined(g, u, v)
}

/// what the inner `all` of is_tournament decides for one u
spec fn row_joined_once(g: AdjacencyMatrix, u: int) -> bool {
    forall|v: int| u < v < g.order ==> #[trigger] joined_once(g, u, v)
}

proof fn lemma_tournament_rows(g: AdjacencyMatrix)
    ensures tournament(g) == (forall|u: int| 0 <= u < g.order ==> #[trigger] row_joined_once(g, u)),
{
    if forall|u: int| 0 <= u < g.order ==> #[trigger] row_joined_once(g, u) {
        assert forall|u: int, v: int| 0 <= u < g.order && 0 <= v < g.order && u != v implies #[trigger] joined_once(g, u, v) by {
            if u < v { assert(row_joined_once(g, u)); } else { assert(row_joined_once(g, v)); assert(joined_once(g, v, u)); }
        }
    }
}

proof fn lemma_semicomplete_rows(g: AdjacencyMatrix)
    ensures semicomplete(g) == (forall|u: int| 0 <= u < g.order ==> #[trigger] row_joined(g, u)),
{
    if forall|u: int| 0 <= u < g.order ==> #[trigger] row_joined(g, u) {
        assert forall|u: int, v: int| 0 <= u < g.order && 0 <= v < g.order && u != v implies #[trigger] joined(g, u, v) by {
            if u < v { assert(row_joined(g, u)); } else { assert(row_joined(g, v)); assert(joined(g, v, u)); }
        }
    }
}

/// the set cells of the matrix (cell index = u * order + v)
spec fn arc_cells(g: AdjacencyMatrix) -> Set<int> {
    Set::range(0, g.ncells()).filter(|j: int| g.cell(j))
}

/// faithfulness of `arc_cells`: its elements are exactly the cell indices of the arcs
proof fn lemma_arc_cells(g: AdjacencyMatrix)
    requires g.wf(),
    ensures
        forall|j: int| #[trigger] arc_cells(g).contains(j) ==> 0 <= j < g.ncells() && g.has(j / (g.order as int), j % (g.order as int)),
        forall|u: int, v: int| #[trigger] g.has(u, v) ==> arc_cells(g).contains(u * g.order + v),
{
    let n = g.order as int;
    vstd::set_lib::range_set_properties::<int>(0, g.ncells());
    assert forall|j: int| #[trigger] arc_cells(g).contains(j) implies 0 <= j < g.ncells() && g.has(j / n, j % n) by {
        lemma_cell_pair(n, j);
    }
    assert forall|u: int, v: int| #[trigger] g.has(u, v) implies arc_cells(g).contains(u * g.order + v) by {
        lemma_index_bound(u, v, n);
    }
}

/// bridge to unit matrix_degrees: the set whose cardinality `AdjacencyMatrix::size` is PROVED to return there
/// (`set_cells`, defined through `cells_below`) is this fragment's `arc_cells`
proof fn lemma_cells_bridge(g: AdjacencyMatrix)
    ensures set_cells(g) == arc_cells(g),
{
    assert(set_cells(g) =~= arc_cells(g));
}

// ---- counting: the number of unordered pairs is order * (order - 1) / 2 ----

/// transposed cell index
spec fn tr(n: int, j: int) -> int { (j % n) * n + j / n }
/// cell indices above / below / on the diagonal
spec fn upper(n: int) -> Set<int> { Set::range(0, n * n).filter(|j: int| j / n < j % n) }
spec fn lower(n: int) -> Set<int> { Set::range(0, n * n).filter(|j: int| j / n > j % n) }
spec fn diag(n: int) -> Set<int> { Set::range(0, n * n).filter(|j: int| j / n == j % n) }

proof fn lemma_pair_cell(n: int, u: int, v: int)
    requires 0 <= u < n, 0 <= v < n,
    ensures 0 <= u * n + v < n * n, (u * n + v) / n == u, (u * n + v) % n == v,
{
    lemma_index_bound(u, v, n);
    vstd::arithmetic::div_mod::lemma_fundamental_div_mod_converse(u * n + v, n, u, v);
}

proof fn lemma_tr(n: int, j: int)
    requires n > 0, 0 <= j < n * n,
    ensures 0 <= tr(n, j) < n * n, tr(n, j) / n == j % n, tr(n, j) % n == j / n, tr(n, tr(n, j)) == j,
{
    lemma_cell_pair(n, j);
    lemma_pair_cell(n, j % n, j / n);
}

/// |upper| = (n^2 - n) / 2: the n^2 cells split into upper, lower (its transposed image) and the n diagonal cells
proof fn lemma_upper_count(n: int)
    requires n >= 1,
    ensures upper(n).len() * 2 == n * n - n,
{
    let r = Set::<int>::range(0, n * n);
    let u = upper(n); let l = lower(n); let d = diag(n);
    vstd::set_lib::range_set_properties::<int>(0, n * n);
    assert(0 <= n * n) by (nonlinear_arith);
    assert(r.len() == n * n);
    assert(u.disjoint(l));
    assert((u + l).disjoint(d));
    assert((u + l) + d =~= r);
    vstd::set_lib::lemma_set_disjoint_lens(u, l);
    vstd::set_lib::lemma_set_disjoint_lens(u + l, d);
    let t = |j: int| tr(n, j);
    assert(u.injective_on(t)) by {
        assert forall|x1: int, x2: int| u.contains(x1) && u.contains(x2) && t(x1) == t(x2) implies x1 == x2 by {
            lemma_tr(n, x1); lemma_tr(n, x2);
        }
    }
    assert(u.map(t) =~= l) by {
        assert forall|b: int| #![auto] u.map(t).contains(b) == l.contains(b) by {
            u.lemma_map_contains(t, b);
            if l.contains(b) {
                lemma_tr(n, b);
                assert(u.contains(tr(n, b)) && t(tr(n, b)) == b);
            }
            if u.map(t).contains(b) {
                let a = choose|a: int| u.contains(a) && b == t(a);
                lemma_tr(n, a);
            }
        }
    }
    vstd::set_lib::lemma_map_size(u, l, t);
    let rn = Set::<int>::range(0, n);
    vstd::set_lib::range_set_properties::<int>(0, n);
    let dg = |a: int| a * n + a;
    assert(rn.injective_on(dg)) by {
        assert forall|x1: int, x2: int| rn.contains(x1) && rn.contains(x2) && dg(x1) == dg(x2) implies x1 == x2 by {
            lemma_pair_cell(n, x1, x1); lemma_pair_cell(n, x2, x2);
        }
    }
    assert(rn.map(dg) =~= d) by {
        assert forall|b: int| #![auto] rn.map(dg).contains(b) == d.contains(b) by {
            rn.lemma_map_contains(dg, b);
            if d.contains(b) {
                lemma_cell_pair(n, b);
                assert(rn.contains(b / n) && dg(b / n) == b);
            }
            if rn.map(dg).contains(b) {
                let a = choose|a: int| rn.contains(a) && b == dg(a);
                lemma_pair_cell(n, a, a);
            }
        }
    }
    vstd::set_lib::lemma_map_size(rn, d, dg);
}

/// the arc chosen for the unordered pair coded by the upper cell j: j itself if set, else its transpose
spec fn pair_arc(g: AdjacencyMatrix, j: int) -> int { if g.cell(j) { j } else { tr(g.order as int, j) } }

/// semicomplete ==> at least one arc per unordered pair ==> |A| >= n(n-1)/2;  tournament ==> exactly one ==> |A| == n(n-1)/2
proof fn lemma_pair_count(g: AdjacencyMatrix)
    requires g.wf(),
    ensures
        semicomplete(g) ==> arc_cells(g).len() * 2 >= g.order * g.order - g.order,
        tournament(g) ==> arc_cells(g).len() * 2 == g.order * g.order - g.order,
{
    let n = g.order as int;
    let u = upper(n);
    let arcs = arc_cells(g);
    let f = |j: int| pair_arc(g, j);
    lemma_upper_count(n);
    lemma_arc_cells(g);
    vstd::set_lib::range_set_properties::<int>(0, n * n);
    if tournament(g) {
        assert forall|a: int, b: int| 0 <= a < g.order && 0 <= b < g.order && a != b implies #[trigger] joined(g, a, b) by {
            assert(joined_once(g, a, b));
        }
    }
    if semicomplete(g) {
        assert(u.injective_on(f)) by {
            assert forall|x1: int, x2: int| u.contains(x1) && u.contains(x2) && f(x1) == f(x2) implies x1 == x2 by {
                lemma_tr(n, x1); lemma_tr(n, x2);
            }
        }
        let img = u.map(f);
        assert(img.subset_of(arcs)) by {
            assert forall|b: int| img.contains(b) implies arcs.contains(b) by {
                u.lemma_map_contains(f, b);
                let a = choose|a: int| u.contains(a) && b == f(a);
                lemma_tr(n, a);
                lemma_cell_pair(n, a);
                assert(joined(g, a / n, a % n));
                assert(g.has(a / n, a % n) == g.cell(a));
                assert(g.has(a % n, a / n) == g.cell(tr(n, a)));
            }
        }
        vstd::set_lib::lemma_map_size(u, img, f);
        vstd::set_lib::lemma_len_subset(img, arcs);
        if tournament(g) {
            assert(arcs.subset_of(img)) by {
                assert forall|b: int| arcs.contains(b) implies img.contains(b) by {
                    u.lemma_map_contains(f, b);
                    lemma_cell_pair(n, b);
                    lemma_tr(n, b);
                    let x = b / n; let y = b % n;
                    assert(g.has(x, y));
                    if x == y { assert(!g.cell(x * g.order + x)); }
                    if x < y {
                        assert(u.contains(b) && f(b) == b);
                    } else {
                        let t = tr(n, b);
                        assert(joined_once(g, x, y));
                        assert(g.has(y, x) == g.cell(t));
                        assert(u.contains(t) && f(t) == b);
                    }
                }
            }
            assert(arcs =~= img);
        }
    }
}

/// loop invariant of `union`: `small` is the operand of smaller order being iterated (one of g, h), `un` started as a clone
/// of the other one; every arc of `small` that is no longer pending is in `un`, and `un` only holds arcs of g or h
spec fn union_inv(g: AdjacencyMatrix, h: AdjacencyMatrix, small: AdjacencyMatrix, it: ArcsIterator, un: AdjacencyMatrix, last: int) -> bool {
    &&& g.wf() && h.wf()
    &&& (small == g || small == h)
    &&& it.inv()
    &&& *it.matrix == small
    &&& un.wf()
    &&& un.order == pmax(g.order as int, h.order as int)
    &&& small.order <= un.order
    &&& forall|j: int| it.pending(j) ==> last < j
    &&& forall|a: int, b: int| #![trigger un.has(a, b)] un.has(a, b) ==> g.has(a, b) || h.has(a, b)
    &&& forall|a: int, b: int| #![trigger un.has(a, b)] (if small == g { h.has(a, b) } else { g.has(a, b) }) ==> un.has(a, b)
    &&& forall|a: int, b: int| #![trigger un.has(a, b)] small.has(a, b) && !it.pending(a * small.order + b) ==> un.has(a, b)
}

/// loop invariant of `converse`: the arcs produced so far (set cells no longer pending) have been reversed into `conv`
spec fn converse_inv(g: AdjacencyMatrix, it: ArcsIterator, conv: AdjacencyMatrix, last: int) -> bool {
    &&& g.wf()
    &&& it.inv()
    &&& *it.matrix == g
    &&& conv.wf()
    &&& conv.order == g.order
    &&& forall|j: int| it.pending(j) ==> last < j
    &&& forall|a: int, b: int| #![trigger conv.has(a, b)] conv.has(a, b) == (g.has(b, a) && !it.pending(b * g.order + a))
}

spec fn arcs_done(it: ArcsIterator) -> bool { forall|j: int| !it.pending(j) }

// ---- C11 corollaries at view level: involutions, union laws (each stated over any results satisfying the contracts above) ----

proof fn lemma_complement_involution(g: AdjacencyMatrix, c: AdjacencyMatrix, cc: AdjacencyMatrix)
    requires
        g.wf(), c.order == g.order, cc.order == g.order,
        forall|a: int, b: int| #![trigger c.has(a, b)] c.has(a, b) == complement_arc(g, a, b),
        forall|a: int, b: int| #![trigger cc.has(a, b)] cc.has(a, b) == complement_arc(c, a, b),
    ensures
        forall|a: int, b: int| #![trigger cc.has(a, b)] cc.has(a, b) == g.has(a, b),
{
    assert forall|a: int, b: int| #![trigger cc.has(a, b)] cc.has(a, b) == g.has(a, b) by {
        assert(c.has(a, b) == complement_arc(g, a, b));
        if a == b && 0 <= a < g.order { assert(!g.cell(a * g.order + a)); }
    }
}

proof fn lemma_converse_involution(g: AdjacencyMatrix, c: AdjacencyMatrix, cc: AdjacencyMatrix)
    requires
        forall|a: int, b: int| #![trigger c.has(a, b)] c.has(a, b) == g.has(b, a),
        forall|a: int, b: int| #![trigger cc.has(a, b)] cc.has(a, b) == c.has(b, a),
    ensures
        forall|a: int, b: int| #![trigger cc.has(a, b)] cc.has(a, b) == g.has(a, b),
{
    assert forall|a: int, b: int| #![trigger cc.has(a, b)] cc.has(a, b) == g.has(a, b) by {
        assert(c.has(b, a) == g.has(a, b));
    }
}

/// `u` is a union of g and h at view level (the postcondition of `union`)
spec fn is_union(u: AdjacencyMatrix, g: AdjacencyMatrix, h: AdjacencyMatrix) -> bool {
    &&& u.order == pmax(g.order as int, h.order as int)
    &&& forall|a: int, b: int| #![trigger u.has(a, b)] u.has(a, b) == (g.has(a, b) || h.has(a, b))
}

/// same abstract digraph (V, A)
spec fn same_digraph(x: AdjacencyMatrix, y: AdjacencyMatrix) -> bool {
    x.order == y.order && forall|a: int, b: int| #![trigger x.has(a, b)] x.has(a, b) == y.has(a, b)
}

proof fn lemma_union_laws(g: AdjacencyMatrix, h: AdjacencyMatrix, k: AdjacencyMatrix,
    gh: AdjacencyMatrix, hg: AdjacencyMatrix, gg: AdjacencyMatrix, hk: AdjacencyMatrix, gh_k: AdjacencyMatrix, g_hk: AdjacencyMatrix)
    requires
        is_union(gh, g, h), is_union(hg, h, g), is_union(gg, g, g), is_union(hk, h, k), is_union(gh_k, gh, k), is_union(g_hk, g, hk),
    ensures
        same_digraph(gh, hg),        // commutative
        same_digraph(gg, g),         // idempotent
        same_digraph(gh_k, g_hk),    // associative
{
    assert forall|a: int, b: int| #![trigger gh.has(a, b)] gh.has(a, b) == hg.has(a, b) by {}
    assert forall|a: int, b: int| #![trigger gg.has(a, b)] gg.has(a, b) == g.has(a, b) by {}
    assert forall|a: int, b: int| #![trigger gh_k.has(a, b)] gh_k.has(a, b) == g_hk.has(a, b) by {
        assert(gh.has(a, b) == (g.has(a, b) || h.has(a, b)));
        assert(hk.has(a, b) == (h.has(a, b) || k.has(a, b)));
    }
}

// ---- C20 support: canonical form.  Two well-formed matrices denote the same digraph iff their fields agree ----

/// two machine words with the same 64 bits are equal
proof fn lemma_bits_eq(a: usize, b: usize)
    requires forall|k: usize| k < 64 ==> bit_of(a, k) == bit_of(b, k),
    ensures a == b,
{
    assert(a == b) by (bit_vector) requires forall|k: usize| k < 64 ==> bit_of(a, k) == bit_of(b, k);
}

/// every cell index below order^2 is the index of exactly one pair (u, v) = (i / order, i % order)
proof fn lemma_cell_pair(n: int, i: int)
    requires n > 0, 0 <= i < n * n,
    ensures 0 <= i / n < n, 0 <= i % n < n, (i / n) * n + i % n == i,
{
    vstd::arithmetic::div_mod::lemma_fundamental_div_mod(i, n);
    assert(n * (i / n) == (i / n) * n) by (nonlinear_arith);
    assert(0 <= i / n < n) by (nonlinear_arith) requires (i / n) * n + i % n == i, 0 <= i < n * n, 0 <= i % n < n, n > 0;
}

/// canonical form: same (V, A) ==> equal block vectors (padding bits are 0 and every other bit is determined by `has`)
proof fn lemma_matrix_canonical(a: AdjacencyMatrix, b: AdjacencyMatrix)
    requires
        a.wf(), b.wf(),
        a.order == b.order,
        forall|u: int, v: int| a.has(u, v) == b.has(u, v),
    ensures
        a.blocks@ =~= b.blocks@,
{
    let n = a.order as int;
    assert forall|i: int| 0 <= i < a.blocks@.len() implies a.blocks@[i] == b.blocks@[i] by {
        assert forall|k: usize| k < 64 implies bit_of(a.blocks@[i], k) == bit_of(b.blocks@[i], k) by {
            let j = i * 64 + k;
            assert(j / 64 == i && j % 64 == k as int);
            assert(a.cell(j) == bit_of(a.blocks@[i], k));
            assert(b.cell(j) == bit_of(b.blocks@[i], k));
            if j < n * n {
                lemma_cell_pair(n, j);
                assert(a.has(j / n, j % n) == a.cell(j));
                assert(b.has(j / n, j % n) == b.cell(j));
            } else {
                assert(!a.cell(j) && !b.cell(j));
            }
        }
        lemma_bits_eq(a.blocks@[i], b.blocks@[i]);
    }
}

/// converse direction: equal fields denote the same digraph (and agree on well-formedness)
proof fn lemma_matrix_canonical_conv(a: AdjacencyMatrix, b: AdjacencyMatrix)
    requires
        a.order == b.order,
        a.blocks@ == b.blocks@,
    ensures
        forall|u: int, v: int| a.has(u, v) == b.has(u, v),
        a.wf() == b.wf(),
{
    assert forall|i: int| a.cell(i) == b.cell(i) by {}
}
