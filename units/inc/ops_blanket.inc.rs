// ---- C02 / C12: the operations of src/op/*.rs implemented once for every representation (blanket impls `impl<D> T for D`
// and default methods of trait definitions), verified against the TRAIT CONTRACTS of the operations they are built on
// (prelude/dg_ops.rs).  Every result is stated over (V, A) = (0..ord, has) and the degrees defined from it. ----

/// the degree of u defined from (V, A)
spec fn deg(g: &Dgo, u: int) -> nat { g.indeg(u) + g.outdeg(u) }

/// membership in the neighbour sets
proof fn lemma_nb_sets(g: &Dgo, x: int)
    requires g.wf(),
    ensures
        forall|a: int| #[trigger] g.in_set(x).contains(a) == g.has(a, x),
        forall|b: int| #[trigger] g.out_set(x).contains(b) == g.has(x, b),
        g.indeg(x) <= g.ord(),
        g.outdeg(x) <= g.ord(),
{
    let r = Set::<int>::range(0, g.ord() as int);
    range_set_properties::<int>(0, g.ord() as int);
    lemma_len_subset(g.in_set(x), r);
    lemma_len_subset(g.out_set(x), r);
}

/// the bound under which `degree`'s sum cannot overflow: a vertex has at most ord - 1 in- and ord - 1 out-neighbours
/// (arcs join distinct vertices), so ord <= usize::MAX / 2 + 1 suffices for `deg(g, u) <= usize::MAX` at every vertex
proof fn lemma_deg_fits(g: &Dgo, u: int)
    requires g.wf(), g.ord() <= usize::MAX / 2 + 1,
    ensures deg(g, u) <= usize::MAX,
{
    lemma_nb_sets(g, u);
    let r = Set::<int>::range(0, g.ord() as int);
    range_set_properties::<int>(0, g.ord() as int);
    if 0 <= u < g.ord() {
        let ru = r.remove(u);
        assert(g.in_set(u).subset_of(ru));
        assert(g.out_set(u).subset_of(ru));
        lemma_len_subset(g.in_set(u), ru);
        lemma_len_subset(g.out_set(u), ru);
    } else {
        lemma_deg_zero(g, u);
    }
}

/// indegree 0 iff no arc enters; outdegree 0 iff no arc leaves
proof fn lemma_deg_zero(g: &Dgo, x: int)
    requires g.wf(),
    ensures
        (g.indeg(x) == 0) == (forall|a: int| !g.has(a, x)),
        (g.outdeg(x) == 0) == (forall|b: int| !g.has(x, b)),
{
    lemma_nb_sets(g, x);
    if g.indeg(x) == 0 {
        assert forall|a: int| !g.has(a, x) by { if g.has(a, x) { assert(g.in_set(x).contains(a)); } }
    } else {
        let a = g.in_set(x).choose();
        assert(g.in_set(x).contains(a));
    }
    if g.outdeg(x) == 0 {
        assert forall|b: int| !g.has(x, b) by { if g.has(x, b) { assert(g.out_set(x).contains(b)); } }
    } else {
        let b = g.out_set(x).choose();
        assert(g.out_set(x).contains(b));
    }
}

/// `Iterator::max` / `min` over a per-vertex value: instantiate the extremum's bound at the vertex u named by a degree term
/// (the Map iterator is consumed in the tail expression and cannot be named in a hint)
broadcast proof fn lemma_max_at(s: Seq<usize>, m: Option<usize>, g: &Dgo, u: int)
    requires is_max_of(s, m), 0 <= u < s.len(),
    ensures
        #![trigger is_max_of(s, m), deg(g, u)]
        #![trigger is_max_of(s, m), g.indeg(u)]
        #![trigger is_max_of(s, m), g.outdeg(u)]
        m is Some && s[u] <= m->0,
{}
broadcast proof fn lemma_min_at(s: Seq<usize>, m: Option<usize>, g: &Dgo, u: int)
    requires is_min_of(s, m), 0 <= u < s.len(),
    ensures
        #![trigger is_min_of(s, m), deg(g, u)]
        #![trigger is_min_of(s, m), g.indeg(u)]
        #![trigger is_min_of(s, m), g.outdeg(u)]
        m is Some && m->0 <= s[u],
{}

/// the sinks (kind) / sources (!kind) among the vertices below k, ascending: the defining value of `sinks` / `sources` (k = ord)
spec fn sel(g: &Dgo, kind: bool, u: int) -> bool { if kind { g.outdeg(u) == 0 } else { g.indeg(u) == 0 } }
spec fn sel_below(g: &Dgo, kind: bool, k: int) -> Seq<usize>
    decreases k
{
    if k <= 0 { Seq::empty() }
    else if sel(g, kind, k - 1) { sel_below(g, kind, k - 1).push((k - 1) as usize) }
    else { sel_below(g, kind, k - 1) }
}

/// `sel_below` is exactly the selected vertices below k, strictly ascending (hence no repeats); a selected vertex is one
/// without leaving (kind) / entering (!kind) arcs
proof fn lemma_sel_below(g: &Dgo, kind: bool, k: int)
    requires g.wf(), 0 <= k <= g.ord(),
    ensures
        forall|i: int| 0 <= i < sel_below(g, kind, k).len() ==> (#[trigger] sel_below(g, kind, k)[i]) < k && sel(g, kind, sel_below(g, kind, k)[i] as int),
        forall|i: int, j: int| 0 <= i < j < sel_below(g, kind, k).len() ==> sel_below(g, kind, k)[i] < sel_below(g, kind, k)[j],
        forall|v: int| 0 <= v < k && sel(g, kind, v) ==> sel_below(g, kind, k).contains(v as usize),
        sel_below(g, kind, k).no_duplicates(),
        forall|v: int| sel(g, true, v) == (forall|b: int| !g.has(v, b)),
        forall|v: int| sel(g, false, v) == (forall|a: int| !g.has(a, v)),
    decreases k
{
    assert forall|v: int| sel(g, true, v) == (forall|b: int| !g.has(v, b)) by { lemma_deg_zero(g, v); }
    assert forall|v: int| sel(g, false, v) == (forall|a: int| !g.has(a, v)) by { lemma_deg_zero(g, v); }
    if k > 0 {
        lemma_sel_below(g, kind, k - 1);
        let p = sel_below(g, kind, k - 1);
        let s = sel_below(g, kind, k);
        assert forall|v: int| 0 <= v < k && sel(g, kind, v) implies s.contains(v as usize) by {
            if v < k - 1 {
                assert(p.contains(v as usize));
                let i = choose|i: int| 0 <= i < p.len() && p[i] == v as usize;
                assert(s[i] == v as usize);
            } else {
                assert(s[s.len() - 1] == v as usize);
            }
        }
    }
}

/// the set of the vertex sequence is V = 0..n
proof fn lemma_vertex_set(n: nat)
    requires n <= usize::MAX,
    ensures forall|x: usize| #[trigger] vertex_seq(n).to_set().contains(x) == (x < n),
{
    let s = vertex_seq(n);
    assert forall|x: usize| #[trigger] s.to_set().contains(x) == (x < n) by {
        if x < n { assert(s[x as int] == x); }
    }
}

/// the items of an iterator over a set equal to V = 0..n (n > 0): all below n, and n - 1 is among them
spec fn vertex_items(src: Seq<&usize>, n: nat) -> bool {
    &&& forall|i: int| 0 <= i < src.len() ==> *(#[trigger] src[i]) < n
    &&& exists|i: int| 0 <= i < src.len() && *(#[trigger] src[i]) == n - 1
}
proof fn lemma_vertex_items(src: Seq<&usize>, n: nat)
    requires 0 < n <= usize::MAX, src.unref().to_set() == vertex_seq(n).to_set(),
    ensures vertex_items(src, n),
{
    lemma_vertex_set(n);
    let t = src.unref();
    assert forall|i: int| 0 <= i < src.len() implies *(#[trigger] src[i]) < n by {
        assert(t[i] == *src[i]);
        assert(t.to_set().contains(t[i]));
    }
    let last = (n - 1) as usize;
    assert(t.to_set().contains(last));
    let i = choose|i: int| 0 <= i < t.len() && t[i] == last;
    assert(*src[i] == n - 1);
}

/// trigger tag: names the pair (g, kind) for `lemma_filter_sel`
spec fn sel_tag(g: &Dgo, kind: bool) -> bool { true }

/// vstd's model of `Filter`: the items are `filter_index` of a prefix of the source; over the vertex sequence with a
/// predicate that decides `sel(g, kind, .)` this is `sel_below`.  Broadcast because the filter iterator is the tail
/// expression of `sinks` / `sources` and cannot be named in a hint.
broadcast proof fn lemma_filter_sel(g: &Dgo, kind: bool, n: int, pred: spec_fn(int) -> bool)
    requires
        0 <= n <= g.ord(),
        forall|j: int| 0 <= j < n ==> pred(j) == sel(g, kind, j),
    ensures
        #![trigger vertex_seq(g.ord()).take(n).filter_index(pred), sel_tag(g, kind)]
        vertex_seq(g.ord()).take(n).filter_index(pred) == sel_below(g, kind, n),
    decreases n
{
    let rem = vertex_seq(g.ord());
    if n > 0 {
        lemma_filter_sel(g, kind, n - 1, pred);
        assert(rem.take(n).drop_last() =~= rem.take(n - 1));
        reveal_with_fuel(Seq::filter_index, 2);
    }
}

// The default methods `is_source` / `is_sink` are extracted onto `Dgo` itself, so the blanket impls below (`sinks`,
// `sources`, `is_isolated`) see them through these contracts.  A representation may override them: the contracts are
// therefore the trait-level ones the overrides are proved against (matrix_queries, edge_list_queries): `is_sink` returns
// only for u in V (every impl documents the panic), `is_source` is total on the overrides, so no `v < ord` is stated for it
// although the default body (via `indegree`) would give it.
// `degree` computes `indegree + outdegree` in usize: its result can equal the degree only if that fits (`deg <= usize::MAX`,
// implied by ord <= usize::MAX / 2 + 1: lemma_deg_fits); otherwise the sum panics (debug) or wraps (release).
impl Dgo {
    /*@fn trait=Indegree name=is_source file=src/op/indegree.rs props=C02,C13
    requires
        self.wf(),
    ensures
        r == (self.indeg(v as int) == 0),
        r == (forall|a: int| !self.has(a, v as int)),
    @fn_start
        proof { lemma_deg_zero(self, v as int); }
    @*/

    /*@fn trait=ContiguousOrder name=contiguous_order file=src/op/contiguous_order.rs dropwhere=Self props=C02,C13
    ensures
        r == self.ord(),
    @*/

    /*@fn trait=Outdegree name=is_sink file=src/op/outdegree.rs props=C02,C13
    requires
        self.wf(),
    ensures
        u < self.ord(),
        r == (self.outdeg(u as int) == 0),
        r == (forall|b: int| !self.has(u as int, b)),
    @fn_start
        proof { lemma_deg_zero(self, u as int); }
    @*/

    /*@fn impl=D trait=Degree name=degree file=src/op/degree.rs props=C02,C13
    requires
        self.wf(),
        deg(self, u as int) <= usize::MAX,
    ensures
        u < self.ord(),
        r == deg(self, u as int),
    @*/

    /*@fn impl=D trait=IsIsolated name=is_isolated file=src/op/is_isolated.rs props=C02,C13
    requires
        self.wf(),
    ensures
        u < self.ord(),
        r == (deg(self, u as int) == 0),
        r == (forall|b: int| !self.has(u as int, b) && !self.has(b, u as int)),
    @*/

    /*@fn impl=D trait=IsPendant name=is_pendant file=src/op/is_pendant.rs props=C02,C13
    requires
        self.wf(),
        deg(self, u as int) <= usize::MAX,
    ensures
        u < self.ord(),
        r == (deg(self, u as int) == 1),
    @*/

    /*@fn trait=Degree name=max_degree file=src/op/degree.rs dropwhere=Self wrap=max,min props=C02,C13
    requires
        self.wf(),
        forall|u: int| 0 <= u < self.ord() ==> deg(self, u) <= usize::MAX,
    ensures
        forall|u: int| 0 <= u < self.ord() ==> #[trigger] deg(self, u) <= r,
        exists|u: int| 0 <= u < self.ord() && #[trigger] deg(self, u) == r,
    @closure 1 |u: usize| -> (d: usize)
    requires
        u < self.ord(),
    ensures
        d == deg(self, u as int),
    @fn_start
        broadcast use vstd::std_specs::iter::group_iter_axioms;
        broadcast use lemma_max_at;
    @*/
    /*@fn trait=Degree name=min_degree file=src/op/degree.rs dropwhere=Self wrap=max,min props=C02,C13
    requires
        self.wf(),
        forall|u: int| 0 <= u < self.ord() ==> deg(self, u) <= usize::MAX,
    ensures
        forall|u: int| 0 <= u < self.ord() ==> r <= #[trigger] deg(self, u),
        exists|u: int| 0 <= u < self.ord() && #[trigger] deg(self, u) == r,
    @closure 1 |u: usize| -> (d: usize)
    requires
        u < self.ord(),
    ensures
        d == deg(self, u as int),
    @fn_start
        broadcast use vstd::std_specs::iter::group_iter_axioms;
        broadcast use lemma_min_at;
    @*/

    /*@fn trait=Indegree name=max_indegree file=src/op/indegree.rs dropwhere=Self wrap=max,min props=C02,C13
    requires
        self.wf(),
    ensures
        forall|u: int| 0 <= u < self.ord() ==> #[trigger] self.indeg(u) <= r,
        exists|u: int| 0 <= u < self.ord() && #[trigger] self.indeg(u) == r,
    @closure 1 |u: usize| -> (d: usize)
    ensures
        d == self.indeg(u as int),
    @fn_start
        broadcast use vstd::std_specs::iter::group_iter_axioms;
        broadcast use lemma_max_at;
    @*/

    /*@fn trait=Indegree name=min_indegree file=src/op/indegree.rs dropwhere=Self wrap=max,min props=C02,C13
    requires
        self.wf(),
    ensures
        forall|u: int| 0 <= u < self.ord() ==> r <= #[trigger] self.indeg(u),
        exists|u: int| 0 <= u < self.ord() && #[trigger] self.indeg(u) == r,
    @closure 1 |u: usize| -> (d: usize)
    ensures
        d == self.indeg(u as int),
    @fn_start
        broadcast use vstd::std_specs::iter::group_iter_axioms;
        broadcast use lemma_min_at;
    @*/

    /*@fn trait=Outdegree name=max_outdegree file=src/op/outdegree.rs dropwhere=Self wrap=max,min props=C02,C13
    requires
        self.wf(),
    ensures
        forall|u: int| 0 <= u < self.ord() ==> #[trigger] self.outdeg(u) <= r,
        exists|u: int| 0 <= u < self.ord() && #[trigger] self.outdeg(u) == r,
    @closure 1 |u: usize| -> (d: usize)
    ensures
        d == self.outdeg(u as int),
    @fn_start
        broadcast use vstd::std_specs::iter::group_iter_axioms;
        broadcast use lemma_max_at;
    @*/

    /*@fn trait=Outdegree name=min_outdegree file=src/op/outdegree.rs dropwhere=Self wrap=max,min props=C02,C13
    requires
        self.wf(),
    ensures
        forall|u: int| 0 <= u < self.ord() ==> r <= #[trigger] self.outdeg(u),
        exists|u: int| 0 <= u < self.ord() && #[trigger] self.outdeg(u) == r,
    @closure 1 |u: usize| -> (d: usize)
    ensures
        d == self.outdeg(u as int),
    @fn_start
        broadcast use vstd::std_specs::iter::group_iter_axioms;
        broadcast use lemma_min_at;
    @*/
    /*@fn impl=D trait=Sinks name=sinks file=src/op/sinks.rs props=C02,C13
    requires
        self.wf(),
    ensures
        r.obeys_prophetic_iter_laws(),
        r.decrease() is Some,
        exists|k: int| 0 <= k <= self.ord() && r.remaining() == #[trigger] sel_below(self, true, k),
        r.will_return_none() ==> r.remaining() == sel_below(self, true, self.ord() as int),
    @closure 1 |u__r: &usize| -> (b: bool)
    ensures
        b == sel(self, true, *u__r as int),
    @fn_start
        broadcast use vstd::std_specs::iter::group_iter_axioms;
        broadcast use lemma_filter_sel;
        proof { assert(sel_tag(self, true)); }
    @*/

    /*@fn impl=D trait=Sources name=sources file=src/op/sources.rs props=C02,C13
    requires
        self.wf(),
    ensures
        r.obeys_prophetic_iter_laws(),
        r.decrease() is Some,
        exists|k: int| 0 <= k <= self.ord() && r.remaining() == #[trigger] sel_below(self, false, k),
        r.will_return_none() ==> r.remaining() == sel_below(self, false, self.ord() as int),
    @closure 1 |u__r: &usize| -> (b: bool)
    ensures
        b == sel(self, false, *u__r as int),
    @fn_start
        broadcast use vstd::std_specs::iter::group_iter_axioms;
        broadcast use lemma_filter_sel;
        proof { assert(sel_tag(self, false)); }
    @*/
    /*@fn impl=D trait=IsBalanced name=is_balanced file=src/op/is_balanced.rs props=C12,C13
    requires
        self.wf(),
    ensures
        r == (forall|u: int| 0 <= u < self.ord() ==> #[trigger] self.indeg(u) == self.outdeg(u)),
    @closure 1 |u: usize| -> (b: bool)
    ensures
        b == (self.indeg(u as int) == self.outdeg(u as int)),
    @fn_start
        proof {
            // name the elements of the vertex sequence so that `Iterator::all`'s contract is instantiated for every u in V
            let rem = vertex_seq(self.ord());
            assert forall|u: int| 0 <= u < self.ord() implies (#[trigger] self.indeg(u)) == self.indeg(rem[u] as int) by {}
        }
    @*/

    /*@fn impl=D trait=IsSymmetric name=is_symmetric file=src/op/is_symmetric.rs props=C12,C13
    requires
        self.wf(),
    ensures
        r == (forall|u: int, v: int| #[trigger] self.has(u, v) ==> self.has(v, u)),
    @closure 1 |p: (usize, usize)| -> (b: bool)
    ensures
        b == self.has(p.1 as int, p.0 as int),
    @*/

    /*@fn impl=D trait=IsOriented name=is_oriented file=src/op/is_oriented.rs props=C12,C13
    requires
        self.wf(),
    ensures
        r == (forall|u: int, v: int| #[trigger] self.has(u, v) ==> !self.has(v, u)),
    @closure 1 |p: (usize, usize)| -> (b: bool)
    ensures
        b == !self.has(p.1 as int, p.0 as int),
    @*/
    /*@fn impl=D trait=IsSubdigraph name=is_subdigraph file=src/op/is_subdigraph.rs props=C12,C13 wrap=collect
    requires
        self.wf(),
        d.wf(),
    ensures
        r == (self.ord() <= d.ord() && forall|u: int, v: int| #[trigger] self.has(u, v) ==> d.has(u, v)),
    @closure 1 |p: (usize, usize)| -> (b: bool)
    ensures
        b == (d.has(p.0 as int, p.1 as int) && p.0 < self.ord() && p.1 < self.ord()),
    @closure 2 |u: &usize| -> (b2: bool)
    ensures
        b2 == (*u < d.ord()),
    @fn_start
        broadcast use vstd::std_specs::btree::group_btree_axioms;
    @after `let dv =`
        proof {
            lemma_vertex_set(self.ord());
            lemma_vertex_set(d.ord());
            assert(forall|x: usize| #[trigger] hv@.contains(x) == (x < self.ord()));
            assert(forall|x: usize| #[trigger] dv@.contains(x) == (x < d.ord()));
            // the iterator over hv is consumed in the tail expression: state the meaning of its item sequence for every candidate
            assert forall|src: Seq<&usize>| #[trigger] src.unref().to_set() == hv@ implies vertex_items(src, self.ord()) by {
                lemma_vertex_items(src, self.ord());
            }
        }
    @*/

    /*@fn impl=D trait=IsSuperdigraph name=is_superdigraph file=src/op/is_superdigraph.rs props=C12,C13
    requires
        self.wf(),
        d.wf(),
    ensures
        r == (d.ord() <= self.ord() && forall|u: int, v: int| #[trigger] d.has(u, v) ==> self.has(u, v)),
    @*/

    /*@fn impl=D trait=IsSpanningSubdigraph name=is_spanning_subdigraph file=src/op/is_spanning_subdigraph.rs props=C12,C13 wrap=eq
    requires
        self.wf(),
        d.wf(),
    ensures
        r == (self.ord() == d.ord() && forall|u: int, v: int| #[trigger] self.has(u, v) ==> d.has(u, v)),
    @closure 1 |p: (usize, usize)| -> (b: bool)
    ensures
        b == d.has(p.0 as int, p.1 as int),
    @fn_start
        proof {
            if self.ord() != d.ord() { assert(vertex_seq(self.ord()).len() != vertex_seq(d.ord()).len()); }
        }
    @*/
    /*@fn impl=D trait=OutdegreeSequence name=outdegree_sequence file=src/op/outdegree_sequence.rs props=C02,C13
    requires
        self.wf(),
    ensures
        r.obeys_prophetic_iter_laws(),
        r.decrease() is Some,
        r.remaining().len() <= self.ord(),
        forall|k: int| 0 <= k < r.remaining().len() ==> #[trigger] r.remaining()[k] == self.outdeg(k),
        r.will_return_none() ==> r.remaining().len() == self.ord(),
    @closure 1 |v: usize| -> (d: usize)
    ensures
        d == self.outdeg(v as int),
    @fn_start
        broadcast use vstd::std_specs::iter::group_iter_axioms;
    @*/

    /*@fn impl=D trait=SemidegreeSequence name=semidegree_sequence file=src/op/semidegree_sequence.rs props=C02,C13
    requires
        self.wf(),
    ensures
        r.obeys_prophetic_iter_laws(),
        r.decrease() is Some,
        r.remaining().len() <= self.ord(),
        forall|k: int| 0 <= k < r.remaining().len() ==> (#[trigger] r.remaining()[k]).0 == self.indeg(k) && r.remaining()[k].1 == self.outdeg(k),
        r.will_return_none() ==> r.remaining().len() == self.ord(),
    @closure 1 |u: usize| -> (d: (usize, usize))
    ensures
        d.0 == self.indeg(u as int) && d.1 == self.outdeg(u as int),
    @fn_start
        broadcast use vstd::std_specs::iter::group_iter_axioms;
    @*/
}
