//@file src/repr/adjacency_map/mod.rs
// ---- AdjacencyMap::{converse, complement, is_semicomplete, is_tournament} (C11 / C12) and the iterators they are built on ----
// The contracts hold for EVERY well-formed map, whatever its vertex ids (finding F6: these four functions used vertex ids as
// positions; repaired in /repo).  Hints are calls of UNCONDITIONAL step lemmas ("state before && what the statements did ==>
// state after"), so a wrong statement surfaces as a failed invariant / postcondition, not as a failed lemma precondition.

type MpMap = Map<usize, BTreeSet<usize>>;

/// the map collected from `keys().map(|&u| (u, BTreeSet::new()))`: the keys of g, every row empty
spec fn conv_empty(g: AdjacencyMap, m: MpMap) -> bool {
    &&& m.dom() == g.arcs@.dom()
    &&& forall|x: usize| g.arcs@.contains_key(x) ==> (#[trigger] m[x])@ == Set::<usize>::empty()
}

/// outer loop of converse, at the head with the first i items (key, row) of g visited: the map has the keys of g and row x
/// holds the visited predecessors of x
spec fn conv_outer(g: AdjacencyMap, m: MpMap, items: Seq<(&usize, &BTreeSet<usize>)>, i: int) -> bool {
    &&& g.wf()
    &&& items.no_duplicates()
    &&& map_items_of(g.arcs@, items)
    &&& 0 <= i <= items.len()
    &&& m.dom() == g.arcs@.dom()
    &&& forall|x: usize, a: usize| g.arcs@.contains_key(x) ==> #[trigger] m[x]@.contains(a) == (processed(items, i, a) && g.has(a as int, x as int))
}

/// inner loop of converse, at the head with the first j successors (listed in vs) of the vertex of item i visited
spec fn conv_inner(g: AdjacencyMap, m: MpMap, items: Seq<(&usize, &BTreeSet<usize>)>, i: int, vs: Seq<&usize>, j: int) -> bool {
    &&& g.wf()
    &&& items.no_duplicates()
    &&& map_items_of(g.arcs@, items)
    &&& 0 <= i < items.len()
    &&& vs.unref().to_set() == items[i].1@
    &&& 0 <= j <= vs.len()
    &&& m.dom() == g.arcs@.dom()
    &&& forall|x: usize, a: usize| g.arcs@.contains_key(x) ==> #[trigger] m[x]@.contains(a) ==
            ((processed(items, i, a) && g.has(a as int, x as int)) || (a == *items[i].0 && seen_id(vs, j, x as int)))
}

/// `arcs.entry(k).or_default().insert(x)`: key k is present afterwards, its row is the old row (or an empty one) plus x
spec fn conv_added(m0: MpMap, m1: MpMap, k: usize, x: usize) -> bool {
    &&& m1 == m0.insert(k, m1[k])
    &&& m0.contains_key(k) ==> m1[k]@ == m0[k]@.insert(x)
    &&& !m0.contains_key(k) ==> m1[k]@ == Set::<usize>::empty().insert(x)
}

/// what converse promises (C11)
spec fn conv_result(g: AdjacencyMap, q: AdjacencyMap) -> bool {
    &&& q.verts() == g.verts()
    &&& forall|a: int, b: int| #![trigger q.has(a, b)] q.has(a, b) == g.has(b, a)
    &&& q.wf()
}

/// collecting (key, empty set) for the keys of g
spec fn conv_init_ok(g: AdjacencyMap, ks: Seq<&usize>, rem: Seq<(usize, BTreeSet<usize>)>, m: BTreeMap<usize, BTreeSet<usize>>) -> bool {
    ks.unref().to_set() == g.arcs@.dom() && ks.no_duplicates() && rem.len() == ks.len()
        && (forall|k: int| 0 <= k < rem.len() ==> (#[trigger] rem[k]).0 == *ks[k] && rem[k].1@ == Set::<usize>::empty())
        && <BTreeMap<usize, BTreeSet<usize>> as vstd::std_specs::iter::FromIteratorSpec<(usize, BTreeSet<usize>)>>::from_iter_ensures(rem, m)
        ==> conv_empty(g, m@)
}
proof fn lemma_conv_init(g: AdjacencyMap, ks: Seq<&usize>, rem: Seq<(usize, BTreeSet<usize>)>, m: BTreeMap<usize, BTreeSet<usize>>)
    ensures conv_init_ok(g, ks, rem, m),
{
    if ks.unref().to_set() == g.arcs@.dom() && ks.no_duplicates() && rem.len() == ks.len()
        && (forall|k: int| 0 <= k < rem.len() ==> (#[trigger] rem[k]).0 == *ks[k] && rem[k].1@ == Set::<usize>::empty())
        && <BTreeMap<usize, BTreeSet<usize>> as vstd::std_specs::iter::FromIteratorSpec<(usize, BTreeSet<usize>)>>::from_iter_ensures(rem, m) {
        axiom_btree_map_from_iter(rem, m);
        let un = ks.unref();
        assert forall|i: int, j: int| 0 <= i < j < rem.len() implies rem[i].0 != rem[j].0 by {
            if rem[i].0 == rem[j].0 { assert(*ks[i] == *ks[j]); assert(ks[i] == ks[j]); }
        }
        assert forall|k: usize| m@.dom().contains(k) == g.arcs@.dom().contains(k) by {
            if m@.contains_key(k) {
                let i = choose|i: int| 0 <= i < rem.len() && (#[trigger] rem[i]).0 == k;
                assert(un[i] == k);
                assert(un.to_set().contains(k));
            }
            if g.arcs@.contains_key(k) {
                assert(un.to_set().contains(k));
                let i = choose|i: int| 0 <= i < un.len() && un[i] == k;
                assert(rem[i].0 == k);
            }
        }
        assert(m@.dom() =~= g.arcs@.dom());
        assert forall|x: usize| g.arcs@.contains_key(x) implies (#[trigger] m@[x])@ == Set::<usize>::empty() by {
            assert(un.to_set().contains(x));
            let i = choose|i: int| 0 <= i < un.len() && un[i] == x;
            assert(rem[i].0 == x);
            assert(m@[rem[i].0] == rem[i].1);
        }
    }
}

/// before the outer loop: nothing visited
proof fn lemma_conv_start(g: AdjacencyMap, m: MpMap, items: Seq<(&usize, &BTreeSet<usize>)>)
    ensures g.wf() && conv_empty(g, m) && items.no_duplicates() && map_items_of(g.arcs@, items) ==> conv_outer(g, m, items, 0),
{
    if g.wf() && conv_empty(g, m) && items.no_duplicates() && map_items_of(g.arcs@, items) {
        assert forall|x: usize, a: usize| g.arcs@.contains_key(x) implies #[trigger] m[x]@.contains(a) == (processed(items, 0, a) && g.has(a as int, x as int)) by {
            assert(m[x]@ == Set::<usize>::empty());
        }
    }
}

/// entering the inner loop
proof fn lemma_conv_enter(g: AdjacencyMap, m: MpMap, items: Seq<(&usize, &BTreeSet<usize>)>, i: int, vs: Seq<&usize>)
    ensures conv_outer(g, m, items, i) && i < items.len() && vs.unref().to_set() == items[i].1@ ==> conv_inner(g, m, items, i, vs, 0),
{
    if conv_outer(g, m, items, i) && i < items.len() && vs.unref().to_set() == items[i].1@ {
        assert forall|x: usize, a: usize| g.arcs@.contains_key(x) implies #[trigger] m[x]@.contains(a) ==
            ((processed(items, i, a) && g.has(a as int, x as int)) || (a == *items[i].0 && seen_id(vs, 0, x as int))) by {
            assert(!seen_id(vs, 0, x as int));
        }
    }
}

/// one round of the inner loop: the successor v = vs[j] of u (the vertex of item i) gets the predecessor u
proof fn lemma_conv_inner_step(g: AdjacencyMap, m0: MpMap, m2: MpMap, items: Seq<(&usize, &BTreeSet<usize>)>, i: int, vs: Seq<&usize>, j: int, u: usize, v: usize)
    ensures
        conv_inner(g, m0, items, i, vs, j) && j < vs.len() && *vs[j] == v && *items[i].0 == u && conv_added(m0, m2, v, u)
            ==> conv_inner(g, m2, items, i, vs, j + 1),
{
    if conv_inner(g, m0, items, i, vs, j) && j < vs.len() && *vs[j] == v && *items[i].0 == u && conv_added(m0, m2, v, u) {
        // v is a successor of u, hence a vertex, hence a key of the map under construction
        assert(vs.unref()[j] == v);
        assert(vs.unref().to_set().contains(v));
        assert(g.arcs@.contains_key(u) && g.arcs@[u] == *items[i].1);
        assert(g.arcs@[u]@.contains(v));
        assert(g.arcs@.contains_key(v));
        assert(m0.dom().contains(v));
        assert(m0.contains_key(v));
        assert(m2.dom() =~= m0.dom());
        assert forall|x: usize, a: usize| g.arcs@.contains_key(x) implies #[trigger] m2[x]@.contains(a) ==
            ((processed(items, i, a) && g.has(a as int, x as int)) || (a == u && seen_id(vs, j + 1, x as int))) by {
            assert(m0[x]@.contains(a) == ((processed(items, i, a) && g.has(a as int, x as int)) || (a == u && seen_id(vs, j, x as int))));
            if seen_id(vs, j + 1, x as int) {
                let k = choose|k: int| 0 <= k < j + 1 && *(#[trigger] vs[k]) == x as int;
                if k < j { assert(seen_id(vs, j, x as int)); }
            }
            if seen_id(vs, j, x as int) {
                let k = choose|k: int| 0 <= k < j && *(#[trigger] vs[k]) == x as int;
                assert(0 <= k < j + 1);
            }
            if x == v {
                assert(*vs[j] == x as int);
                assert(seen_id(vs, j + 1, x as int));
                assert(m2[x]@ == m0[x]@.insert(u));
            } else {
                assert(m2[x] == m0[x]);
            }
        }
    }
}

/// end of one round of the outer loop: the inner loop has visited every successor of the vertex of item i
proof fn lemma_conv_outer_step(g: AdjacencyMap, m: MpMap, items: Seq<(&usize, &BTreeSet<usize>)>, i: int)
    ensures
        (exists|vs: Seq<&usize>| #[trigger] conv_inner(g, m, items, i, vs, vs.len() as int)) ==> conv_outer(g, m, items, i + 1),
{
    if exists|vs: Seq<&usize>| #[trigger] conv_inner(g, m, items, i, vs, vs.len() as int) {
        let vs = choose|vs: Seq<&usize>| #[trigger] conv_inner(g, m, items, i, vs, vs.len() as int);
        let u = *items[i].0;
        assert(g.arcs@.contains_key(u) && g.arcs@[u] == *items[i].1);
        assert forall|x: usize, a: usize| g.arcs@.contains_key(x) implies #[trigger] m[x]@.contains(a) == (processed(items, i + 1, a) && g.has(a as int, x as int)) by {
            lemma_seen_id_all(items[i].1@, vs, x);
            assert(seen_id(vs, vs.len() as int, x as int) == g.has(u as int, x as int));
            if processed(items, i + 1, a) {
                let k = choose|k: int| 0 <= k < i + 1 && *(#[trigger] items[k]).0 == a;
                if k < i { assert(processed(items, i, a)); }
            }
            if processed(items, i, a) {
                let k = choose|k: int| 0 <= k < i && *(#[trigger] items[k]).0 == a;
                assert(0 <= k < i + 1);
            }
            if a == u { assert(*items[i].0 == a); assert(processed(items, i + 1, a)); }
        }
    }
}

/// the outer loop ran to its end: the map is the converse
proof fn lemma_conv_result(g: AdjacencyMap, q: AdjacencyMap, items: Seq<(&usize, &BTreeSet<usize>)>)
    ensures conv_outer(g, q.arcs@, items, items.len() as int) ==> conv_result(g, q),
{
    if conv_outer(g, q.arcs@, items, items.len() as int) {
        broadcast use lemma_map_verts_contains;
        let m = q.arcs@;
        assert(q.verts() =~= g.verts());
        assert forall|a: int, b: int| #![trigger q.has(a, b)] q.has(a, b) == g.has(b, a) by {
            if 0 <= a <= usize::MAX && 0 <= b <= usize::MAX {
                lemma_processed_all(g.arcs@, items, b as usize);
                if m.contains_key(a as usize) {
                    assert(g.arcs@.contains_key(a as usize));
                    assert(m[a as usize]@.contains(b as usize) == (processed(items, items.len() as int, b as usize) && g.has(b, a)));
                }
                if g.has(b, a) {
                    assert(g.arcs@[b as usize]@.contains(a as usize));
                    assert(g.arcs@.contains_key(a as usize));
                    assert(m.dom().contains(a as usize));
                }
            }
        }
        assert(q.wf()) by {
            assert(m.len() == g.arcs@.len());
            assert forall|u: usize, x: usize| m.contains_key(u) && #[trigger] m[u]@.contains(x) implies m.contains_key(x) && x != u by {
                assert(g.arcs@.contains_key(u));
                assert(q.has(u as int, x as int));
                assert(g.has(x as int, u as int));
                assert(g.arcs@[x]@.contains(u));
                assert(m.dom().contains(x));
            }
        }
    }
}

impl AdjacencyMap {
    /*@fn impl=AdjacencyMap trait=Converse name=converse props=C13 clauseprops=C11
    requires
        self.wf(),
    ensures
        r.verts() == self.verts(),
        forall|a: int, b: int| #![trigger r.has(a, b)] r.has(a, b) == self.has(b, a),
        r.wf(),
    @closure 1 |p: &usize| -> (q: (usize, BTreeSet<usize>))
    ensures
        q.0 == *p,
        q.1@ == Set::<usize>::empty(),
    @fn_start
        broadcast use vstd::laws_cmp::group_laws_cmp;
        broadcast use vstd::std_specs::iter::group_iter_axioms;
        proof {
            // the collected map has the keys of self, each with an empty row
            assert forall|ks: Seq<&usize>, rem: Seq<(usize, BTreeSet<usize>)>, m: BTreeMap<usize, BTreeSet<usize>>|
                #![trigger ks.no_duplicates(), <BTreeMap<usize, BTreeSet<usize>> as vstd::std_specs::iter::FromIteratorSpec<(usize, BTreeSet<usize>)>>::from_iter_ensures(rem, m)]
                conv_init_ok(*self, ks, rem, m) by {
                lemma_conv_init(*self, ks, rem, m);
            }
        }
    @before `for (u, out_neighbors) in &self.arcs`
        proof {
            // the loop's iterator does not exist yet: for every item listing
            assert forall|items: Seq<(&usize, &BTreeSet<usize>)>| #![trigger map_items_of(self.arcs@, items)]
                self.wf() && conv_empty(*self, arcs@) && items.no_duplicates() && map_items_of(self.arcs@, items) ==> conv_outer(*self, arcs@, items, 0)
            by { lemma_conv_start(*self, arcs@, items); }
        }
    @loop 1
    invariant
        conv_outer(*self, arcs@, it1.seq(), it1.index() as int),
    @before `for v in out_neighbors`
        proof {
            // the inner loop's iterator does not exist yet: for every successor listing
            assert forall|vs: Seq<&usize>| #![trigger vs.unref()]
                conv_outer(*self, arcs@, it1.seq(), it1.index() as int) && it1.index() < it1.seq().len() && vs.unref().to_set() == it1.seq()[it1.index() as int].1@
                    ==> conv_inner(*self, arcs@, it1.seq(), it1.index() as int, vs, 0)
            by { lemma_conv_enter(*self, arcs@, it1.seq(), it1.index() as int, vs); }
        }
    @loop 2
    invariant
        0 <= it1.index() < it1.seq().len(),
        (u, out_neighbors) == it1.seq()[it1.index() as int],
        conv_inner(*self, arcs@, it1.seq(), it1.index() as int, it2.seq(), it2.index() as int),
    @loop_start 2
        let ghost m0 = arcs@;
    @loop_end 2
        proof { lemma_conv_inner_step(*self, m0, arcs@, it1.seq(), it1.index() as int, it2.seq(), it2.index() as int, *u, *v); }
    @loop_end 1
        proof { lemma_conv_outer_step(*self, arcs@, it1.seq(), it1.index() as int); }
    @fn_end
        proof {
            // the loop's ghost iterator is out of scope here: state the conclusion for every item listing
            assert forall|items: Seq<(&usize, &BTreeSet<usize>)>| #![trigger conv_outer(*self, arcs@, items, items.len() as int)]
                conv_outer(*self, arcs@, items, items.len() as int) ==> conv_result(*self, AdjacencyMap { arcs })
            by { lemma_conv_result(*self, AdjacencyMap { arcs }, items); }
        }
    @*/
}

/// strictly ascending ids
spec fn ascending_ids(s: Seq<usize>) -> bool {
    forall|i: int, j: int| 0 <= i < j < s.len() ==> #[trigger] s[i] < #[trigger] s[j]
}

/// ks lists the vertex set `dom` in ascending order
spec fn is_key_seq(dom: Set<usize>, ks: Seq<usize>) -> bool {
    ascending_ids(ks) && ks.to_set() == dom
}

/// an ascending listing of a set is unique
proof fn lemma_key_seq_unique(dom: Set<usize>, a: Seq<usize>, b: Seq<usize>)
    requires is_key_seq(dom, a), is_key_seq(dom, b),
    ensures a == b,
    decreases a.len(),
{
    if a.len() == 0 {
        if b.len() > 0 { assert(b.to_set().contains(b[0])); assert(a.to_set().contains(b[0])); }
        assert(a =~= b);
    } else if b.len() == 0 {
        assert(a.to_set().contains(a[0])); assert(b.to_set().contains(a[0]));
    } else {
        // the last items are the maximum of the set
        let la = a.last();
        let lb = b.last();
        assert(a.to_set().contains(la) && b.to_set().contains(lb));
        assert(b.to_set().contains(la) && a.to_set().contains(lb));
        let ia = choose|i: int| 0 <= i < a.len() && a[i] == lb;
        let ib = choose|i: int| 0 <= i < b.len() && b[i] == la;
        assert(la == lb) by {
            if ia < a.len() - 1 { assert(a[ia] < a[a.len() - 1]); }
            if ib < b.len() - 1 { assert(b[ib] < b[b.len() - 1]); }
        }
        let a1 = a.drop_last();
        let b1 = b.drop_last();
        let d1 = dom.remove(la);
        assert(is_key_seq(d1, a1)) by {
            assert forall|x: usize| a1.to_set().contains(x) == d1.contains(x) by {
                if a1.to_set().contains(x) {
                    let k = choose|k: int| 0 <= k < a1.len() && a1[k] == x;
                    assert(a[k] == x && a[k] < a[a.len() - 1]);
                    assert(a.to_set().contains(x));
                }
                if d1.contains(x) {
                    assert(a.to_set().contains(x));
                    let k = choose|k: int| 0 <= k < a.len() && a[k] == x;
                    assert(a1[k] == x);
                }
            }
            assert(a1.to_set() =~= d1);
        }
        assert(is_key_seq(d1, b1)) by {
            assert forall|x: usize| b1.to_set().contains(x) == d1.contains(x) by {
                if b1.to_set().contains(x) {
                    let k = choose|k: int| 0 <= k < b1.len() && b1[k] == x;
                    assert(b[k] == x && b[k] < b[b.len() - 1]);
                    assert(b.to_set().contains(x));
                }
                if d1.contains(x) {
                    assert(b.to_set().contains(x));
                    let k = choose|k: int| 0 <= k < b.len() && b[k] == x;
                    assert(b1[k] == x);
                }
            }
            assert(b1.to_set() =~= d1);
        }
        lemma_key_seq_unique(d1, a1, b1);
        assert(a =~= a1.push(la));
        assert(b =~= b1.push(lb));
    }
}

/// meaning of vstd's `increasing_seq` on usize items: strictly ascending
proof fn lemma_increasing_ids(ks: Seq<usize>)
    requires vstd::std_specs::btree::increasing_seq(ks),
    ensures ascending_ids(ks),
{
    broadcast use vstd::laws_cmp::group_laws_cmp;
    assert(vstd::laws_cmp::obeys_cmp::<usize>());
    vstd::std_specs::btree::axiom_increasing_seq_meaning(ks);
    assert forall|i: int, j: int| 0 <= i < j < ks.len() implies #[trigger] ks[i] < #[trigger] ks[j] by {
        assert(<usize as vstd::std_specs::cmp::OrdSpec>::cmp_spec(&ks[i], &ks[j]) is Less);
    }
}

/// meaning of vstd's `increasing_seq` on `&usize` items: strictly ascending
proof fn lemma_ref_increasing_ids(ks: Seq<&usize>)
    requires vstd::std_specs::btree::increasing_seq(ks),
    ensures ascending_ids(ks.unref()),
{
    broadcast use vstd::laws_cmp::group_laws_cmp;
    assert(vstd::laws_cmp::obeys_cmp::<&usize>());
    vstd::std_specs::btree::axiom_increasing_seq_meaning(ks);
    let un = ks.unref();
    assert forall|i: int, j: int| 0 <= i < j < un.len() implies #[trigger] un[i] < #[trigger] un[j] by {
        assert(<&usize as vstd::std_specs::cmp::OrdSpec>::cmp_spec(&ks[i], &ks[j]) is Less);
        assert(un[i] == *ks[i] && un[j] == *ks[j]);
    }
}

/// s[0] + .. + s[k-1] where s[i] is the size of the row of the i-th vertex
proof fn lemma_seq_sum_rows(g: AdjacencyMap, s: Seq<usize>, k: int)
    requires 0 <= k == s.len(), forall|i: int| 0 <= i < k ==> #[trigger] s[i] == g.arcs@[g.key_seq()[i]]@.len(),
    ensures seq_sum(s) == g.rows_sum(k),
    decreases k,
{
    if k > 0 {
        let s1 = s.drop_last();
        assert forall|i: int| 0 <= i < k - 1 implies #[trigger] s1[i] == g.arcs@[g.key_seq()[i]]@.len() by { assert(s1[i] == s[i]); }
        lemma_seq_sum_rows(g, s1, k - 1);
    }
}

impl AdjacencyMap {
    /// the vertex ids in ascending order
    spec fn key_seq(&self) -> Seq<usize> {
        choose|ks: Seq<usize>| is_key_seq(self.arcs@.dom(), ks)
    }

    /// |row of the 1st vertex| + .. + |row of the k-th vertex|
    spec fn rows_sum(&self, k: int) -> int
        decreases k,
    {
        if k <= 0 { 0 } else { self.rows_sum(k - 1) + self.arcs@[self.key_seq()[k - 1]]@.len() }
    }

    /// number of arcs
    spec fn arc_count(&self) -> int { self.rows_sum(self.ord()) }

    /*@fn impl=AdjacencyMap trait=Vertices name=vertices props=C01,C13 wrap=copied
    ensures
        r.obeys_prophetic_iter_laws(),
        r.decrease() is Some,
        is_key_seq(self.arcs@.dom(), self.key_seq()),
        self.key_seq().len() == self.ord(),
        r.remaining() == self.key_seq(),
    @fn_start
        broadcast use vstd::laws_cmp::group_laws_cmp;
        proof {
            let dom = self.arcs@.dom();
            assert forall|ks: Seq<&usize>| #[trigger] vstd::std_specs::btree::increasing_seq(ks) && ks.unref().to_set() == dom implies
                is_key_seq(dom, self.key_seq()) && ks.unref() == self.key_seq() by {
                lemma_ref_increasing_ids(ks);
                assert(is_key_seq(dom, ks.unref()));
                lemma_key_seq_unique(dom, ks.unref(), self.key_seq());
            }
        }
    @*/

    /*@fn impl=AdjacencyMap trait=Size name=size props=C12,C13 wrap=sum
    ensures
        is_key_seq(self.arcs@.dom(), self.key_seq()),
        self.key_seq().len() == self.ord(),
        self.arc_count() <= usize::MAX ==> r == self.arc_count(),
    @fn_start
        broadcast use vstd::laws_cmp::group_laws_cmp;
        broadcast use vstd::std_specs::iter::group_iter_axioms;
        proof {
            let dom = self.arcs@.dom();
            // `values()` lists the rows in ascending key order: that key sequence is key_seq()
            assert forall|ks: Seq<usize>| #[trigger] vstd::std_specs::btree::increasing_seq(ks) && ks.to_set() == dom implies
                is_key_seq(dom, self.key_seq()) && ks == self.key_seq() by {
                lemma_increasing_ids(ks);
                assert(is_key_seq(dom, ks));
                lemma_key_seq_unique(dom, ks, self.key_seq());
            }
            // the summed sequence holds the row sizes in that order
            assert forall|rem: Seq<usize>| rem.len() == self.ord()
                && (forall|i: int| 0 <= i < rem.len() ==> #[trigger] rem[i] == self.arcs@[self.key_seq()[i]]@.len())
                implies #[trigger] seq_sum(rem) == self.arc_count() by {
                lemma_seq_sum_rows(*self, rem, self.ord());
            }
        }
    @*/
}

// `empty_set()` (a `static mut` + `Once` + `MaybeUninit` singleton, out of reach for Verus) is only the fallback of
// `self.arcs.get(&u).unwrap_or_else(|| empty_set())` for a vertex u without a row.  This stand-in has the precondition
// `false`: the units prove that the fallback closure is never called (u comes from `vertices()`, so it has a row), hence
// nothing is assumed about the real function.
fn empty_set() -> (r: &'static BTreeSet<usize>)
    requires false,
{
    vpanic()
}

impl AdjacencyMap {
    /*@fn impl=AdjacencyMap trait=IsSemicomplete name=is_semicomplete props=C13 clauseprops=C12 wrap=enumerate
    requires
        self.wf(),
        // the product order * (order - 1) needs order <= 2^32 (a digraph that large cannot be built)
        self.ord() <= 0x1_0000_0000,
    ensures
        r == map_semicomplete(*self),
    @closure 1 || -> (x: &BTreeSet<usize>)
    requires
        false,
    @after `let order = self.order();`
        broadcast use lemma_map_verts_contains;
        proof { assert(order * (order - 1) <= usize::MAX) by (nonlinear_arith) requires 1 <= order <= 0x1_0000_0000; }
    @before #1 `return false;`
        proof {
            // fewer arcs than unordered pairs: some pair is not joined
            lemma_rows_sum_bound(*self, order as int);
            lemma_map_pair_count(*self);
            assert(order * (order - 1) == order * order - order) by (nonlinear_arith) requires order >= 1;
            assert((order - 1) * order == order * (order - 1)) by (nonlinear_arith) requires order >= 1;  // robust against commuted operands
            assert(self.arc_count() <= order * (order - 1));
        }
    @loop 1
    invariant
        it1.iter.obeys_prophetic_iter_laws(),
        it1.iter.decrease() is Some,
        self.wf(),
        order == self.ord(),
        is_key_seq(self.arcs@.dom(), self.key_seq()),
        self.key_seq().len() == order,
        it1.seq() == self.key_seq(),
        out_neighbors@.len() == it1.index(),
        forall|k: int| 0 <= k < it1.index() ==> *(#[trigger] out_neighbors@[k]) == self.arcs@[self.key_seq()[k]],
    @loop_start 1
        proof {
            // u is a vertex: it has a row, the fallback `empty_set()` is not reached
            assert(self.key_seq().to_set().contains(self.key_seq()[it1.index() as int]));
            assert(self.arcs@.contains_key(u));
        }
    @loop 2
    invariant
        it2.iter.obeys_prophetic_iter_laws(),
        it2.iter.decrease() is Some,
        self.wf(),
        order == self.ord(),
        is_key_seq(self.arcs@.dom(), self.key_seq()),
        self.key_seq().len() == order,
        enumerated_keys(*self, it2.seq()),
        rows_at(*self, out_neighbors@),
        forall|i: int, b: usize| 0 <= i < it2.index() && self.arcs@.contains_key(b) && b != self.key_seq()[i]
            ==> #[trigger] map_joined(*self, self.key_seq()[i] as int, b as int),
    @loop 3
    invariant
        it3.iter.obeys_prophetic_iter_laws(),
        it3.iter.decrease() is Some,
        self.wf(),
        order == self.ord(),
        is_key_seq(self.arcs@.dom(), self.key_seq()),
        self.key_seq().len() == order,
        enumerated_keys(*self, it3.seq()),
        rows_at(*self, out_neighbors@),
        0 <= it2.index() < order,
        i == it2.index(),
        u == self.key_seq()[it2.index() as int],
        forall|j: int| 0 <= j < it3.index() && self.key_seq()[j] != u ==> #[trigger] map_joined(*self, u as int, self.key_seq()[j] as int),
    @loop_start 3
        proof {
            // (i, u) and (j, v): position and id of a vertex; `out_neighbors` is indexed by POSITION and holds the row of that vertex
            assert(self.key_seq().to_set().contains(self.key_seq()[it2.index() as int]));
            assert(self.key_seq().to_set().contains(self.key_seq()[it3.index() as int]));
        }
    @before #2 `return false;`
        // the pair (u, v) is the witness (naming the term is enough: nothing is asserted here)
        let ghost witness = map_joined(*self, u as int, v as int);
    @loop_end 2
        proof {
            // the inner loop has compared u with every vertex
            assert forall|b: usize| self.arcs@.contains_key(b) && b != u implies map_joined(*self, u as int, b as int) by {
                assert(self.key_seq().to_set().contains(b));
                let j = choose|j: int| 0 <= j < self.key_seq().len() && self.key_seq()[j] == b;
                assert(map_joined(*self, u as int, self.key_seq()[j] as int));
            }
        }
    @fn_end
        proof {
            assert forall|a: int, b: int| self.verts().contains(a) && self.verts().contains(b) && a != b implies #[trigger] map_joined(*self, a, b) by {
                assert(self.key_seq().to_set().contains(a as usize));
                let i = choose|i: int| 0 <= i < self.key_seq().len() && self.key_seq()[i] == a as usize;
                assert(map_joined(*self, self.key_seq()[i] as int, (b as usize) as int));
            }
        }
    @*/
}

impl AdjacencyMap {
    /*@fn impl=AdjacencyMap trait=IsTournament name=is_tournament props=C13 clauseprops=C12 wrap=enumerate
    requires
        self.wf(),
        // the product order * (order - 1) needs order <= 2^32 (a digraph that large cannot be built)
        self.ord() <= 0x1_0000_0000,
    ensures
        r == map_tournament(*self),
    @closure 1 || -> (x: &BTreeSet<usize>)
    requires
        false,
    @after `let order = self.order();`
        broadcast use lemma_map_verts_contains;
        proof { assert(order * (order - 1) <= usize::MAX) by (nonlinear_arith) requires 1 <= order <= 0x1_0000_0000; }
    @before #1 `return false;`
        proof {
            // the number of arcs differs from the number of unordered pairs: some pair is not joined exactly once
            lemma_rows_sum_bound(*self, order as int);
            lemma_map_pair_count(*self);
            assert(order * (order - 1) == order * order - order) by (nonlinear_arith) requires order >= 1;
            assert((order - 1) * order == order * (order - 1)) by (nonlinear_arith) requires order >= 1;  // robust against commuted operands
            assert(self.arc_count() <= order * (order - 1));
        }
    @loop 1
    invariant
        it1.iter.obeys_prophetic_iter_laws(),
        it1.iter.decrease() is Some,
        self.wf(),
        order == self.ord(),
        is_key_seq(self.arcs@.dom(), self.key_seq()),
        self.key_seq().len() == order,
        it1.seq() == self.key_seq(),
        out_neighbors@.len() == it1.index(),
        forall|k: int| 0 <= k < it1.index() ==> *(#[trigger] out_neighbors@[k]) == self.arcs@[self.key_seq()[k]],
    @loop_start 1
        proof {
            // u is a vertex: it has a row, the fallback `empty_set()` is not reached
            assert(self.key_seq().to_set().contains(self.key_seq()[it1.index() as int]));
            assert(self.arcs@.contains_key(u));
        }
    @loop 2
    invariant
        it2.iter.obeys_prophetic_iter_laws(),
        it2.iter.decrease() is Some,
        self.wf(),
        order == self.ord(),
        is_key_seq(self.arcs@.dom(), self.key_seq()),
        self.key_seq().len() == order,
        enumerated_keys(*self, it2.seq()),
        rows_at(*self, out_neighbors@),
        forall|i: int, b: usize| 0 <= i < it2.index() && self.arcs@.contains_key(b) && b != self.key_seq()[i]
            ==> #[trigger] map_joined_once(*self, self.key_seq()[i] as int, b as int),
    @loop 3
    invariant
        it3.iter.obeys_prophetic_iter_laws(),
        it3.iter.decrease() is Some,
        self.wf(),
        order == self.ord(),
        is_key_seq(self.arcs@.dom(), self.key_seq()),
        self.key_seq().len() == order,
        enumerated_keys(*self, it3.seq()),
        rows_at(*self, out_neighbors@),
        0 <= it2.index() < order,
        i == it2.index(),
        u == self.key_seq()[it2.index() as int],
        forall|j: int| 0 <= j < it3.index() && self.key_seq()[j] != u ==> #[trigger] map_joined_once(*self, u as int, self.key_seq()[j] as int),
    @loop_start 3
        proof {
            // (i, u) and (j, v): position and id of a vertex; `out_neighbors` is indexed by POSITION and holds the row of that vertex
            assert(self.key_seq().to_set().contains(self.key_seq()[it2.index() as int]));
            assert(self.key_seq().to_set().contains(self.key_seq()[it3.index() as int]));
        }
    @before #2 `return false;`
        // the pair (u, v) is the witness (naming the term is enough: nothing is asserted here)
        let ghost witness = map_joined_once(*self, u as int, v as int);
    @loop_end 2
        proof {
            // the inner loop has compared u with every vertex
            assert forall|b: usize| self.arcs@.contains_key(b) && b != u implies map_joined_once(*self, u as int, b as int) by {
                assert(self.key_seq().to_set().contains(b));
                let j = choose|j: int| 0 <= j < self.key_seq().len() && self.key_seq()[j] == b;
                assert(map_joined_once(*self, u as int, self.key_seq()[j] as int));
            }
        }
    @fn_end
        proof {
            assert forall|a: int, b: int| self.verts().contains(a) && self.verts().contains(b) && a != b implies #[trigger] map_joined_once(*self, a, b) by {
                assert(self.key_seq().to_set().contains(a as usize));
                let i = choose|i: int| 0 <= i < self.key_seq().len() && self.key_seq()[i] == a as usize;
                assert(map_joined_once(*self, self.key_seq()[i] as int, (b as usize) as int));
            }
        }
    @*/
}

spec fn map_joined(g: AdjacencyMap, a: int, b: int) -> bool { g.has(a, b) || g.has(b, a) }
spec fn map_joined_once(g: AdjacencyMap, a: int, b: int) -> bool { g.has(a, b) != g.has(b, a) }

/// C12: every unordered pair of distinct vertices is joined by at least one arc
spec fn map_semicomplete(g: AdjacencyMap) -> bool {
    forall|a: int, b: int| g.verts().contains(a) && g.verts().contains(b) && a != b ==> #[trigger] map_joined(g, a, b)
}

/// C12: every unordered pair of distinct vertices is joined by exactly one arc
spec fn map_tournament(g: AdjacencyMap) -> bool {
    forall|a: int, b: int| g.verts().contains(a) && g.verts().contains(b) && a != b ==> #[trigger] map_joined_once(g, a, b)
}

impl AdjacencyMap {
    /*@fn impl=AdjacencyMap trait=Complement name=complement props=C13 clauseprops=C11 wrap=copied
    requires
        self.wf(),
    ensures
        r.verts() == self.verts(),
        forall|a: int, b: int| #![trigger r.has(a, b)] r.has(a, b) == (self.verts().contains(a) && self.verts().contains(b) && a != b && !self.has(a, b)),
        r.wf(),
    @closure 1 |p: (&usize, &BTreeSet<usize>)| -> (q: (usize, BTreeSet<usize>))
    ensures
        q.0 == *p.0,
        q.1@ == vertices@.difference(p.1@).remove(*p.0),
    @fn_start
        broadcast use vstd::laws_cmp::group_laws_cmp;
        broadcast use vstd::std_specs::iter::group_iter_axioms;
        broadcast use axiom_btree_set_from_iter;
    @before `Self {`
        proof {
            // the collected map has the keys of self and, at key k, the elements of `vertices` that are neither k nor successors of k
            assert forall|src: Seq<(&usize, &BTreeSet<usize>)>, rem: Seq<(usize, BTreeSet<usize>)>, m: BTreeMap<usize, BTreeSet<usize>>|
                map_items_of(self.arcs@, src) && rem.len() == src.len()
                && (forall|k: int| 0 <= k < rem.len() ==> (#[trigger] rem[k]).0 == *src[k].0 && rem[k].1@ == vertices@.difference(src[k].1@).remove(*src[k].0))
                && #[trigger] src.no_duplicates()
                && #[trigger] <BTreeMap<usize, BTreeSet<usize>> as vstd::std_specs::iter::FromIteratorSpec<(usize, BTreeSet<usize>)>>::from_iter_ensures(rem, m)
                implies complement_rows(*self, m@, vertices@) by {
                lemma_collect_complement(*self, src, rem, m, vertices@);
            }
            // `vertices` being the vertex set, that is the complement
            assert forall|q: AdjacencyMap| #[trigger] complement_rows(*self, q.arcs@, vertices@) implies complement_result_ok(*self, q, vertices@) by {
                lemma_complement_result(*self, q, vertices@);
            }
        }
    @*/
}

/// key a is among the first n items of the map's iterator
spec fn processed(items: Seq<(&usize, &BTreeSet<usize>)>, n: int, a: usize) -> bool {
    exists|k: int| 0 <= k < n && *(#[trigger] items[k]).0 == a
}

/// id x is among the first j items of a row's iterator
spec fn seen_id(items: Seq<&usize>, j: int, x: int) -> bool {
    exists|k: int| 0 <= k < j && *(#[trigger] items[k]) == x
}

proof fn lemma_seen_id_all(row: Set<usize>, items: Seq<&usize>, x: usize)
    requires items.unref().to_set() == row,
    ensures seen_id(items, items.len() as int, x as int) == row.contains(x),
{
    let un = items.unref();
    if seen_id(items, items.len() as int, x as int) {
        let k = choose|k: int| 0 <= k < items.len() && *(#[trigger] items[k]) == x as int;
        assert(un[k] == x);
        assert(un.to_set().contains(x));
    }
    if row.contains(x) {
        assert(un.to_set().contains(x));
        let k = choose|k: int| 0 <= k < un.len() && un[k] == x;
        assert(*items[k] == x as int);
    }
}

proof fn lemma_processed_all(m: Map<usize, BTreeSet<usize>>, items: Seq<(&usize, &BTreeSet<usize>)>, a: usize)
    requires map_items_of(m, items),
    ensures processed(items, items.len() as int, a) == m.contains_key(a),
{
    if processed(items, items.len() as int, a) {
        let k = choose|k: int| 0 <= k < items.len() && *(#[trigger] items[k]).0 == a;
        assert(m.contains_key(*items[k].0));
    }
    if m.contains_key(a) {
        let p = (&a, &m[a]);
        assert(items.contains(p));
        let k = choose|k: int| 0 <= k < items.len() && items[k] == p;
        assert(*items[k].0 == a);
    }
}

/// `out` holds, at position k, the row of the k-th vertex (in ascending id order)
spec fn rows_at(g: AdjacencyMap, out: Seq<&BTreeSet<usize>>) -> bool {
    &&& out.len() == g.ord()
    &&& forall|k: int| 0 <= k < out.len() ==> *(#[trigger] out[k]) == g.arcs@[g.key_seq()[k]]
}

/// the items of `vertices().enumerate()`: (k, k-th vertex in ascending id order)
spec fn enumerated_keys(g: AdjacencyMap, items: Seq<(usize, usize)>) -> bool {
    &&& items.len() == g.key_seq().len()
    &&& forall|k: int| 0 <= k < items.len() ==> #[trigger] items[k] == (k as usize, g.key_seq()[k])
}

/// every row of a well-formed map lies inside V minus its own vertex: at most |V| - 1 arcs per row
proof fn lemma_rows_sum_bound(g: AdjacencyMap, k: int)
    requires g.wf(), is_key_seq(g.arcs@.dom(), g.key_seq()), 0 <= k <= g.key_seq().len(),
    ensures 0 <= g.rows_sum(k) <= k * (g.ord() - 1),
    decreases k,
{
    if k > 0 {
        lemma_rows_sum_bound(g, k - 1);
        let x = g.key_seq()[k - 1];
        assert(g.key_seq().to_set().contains(x));
        let dom = g.arcs@.dom();
        let row = g.arcs@[x]@;
        assert(row.subset_of(dom.remove(x)));
        vstd::set_lib::lemma_len_subset(row, dom.remove(x));
        assert(k * (g.ord() - 1) == (k - 1) * (g.ord() - 1) + (g.ord() - 1)) by (nonlinear_arith);
    } else {
        assert(k * (g.ord() - 1) == 0) by (nonlinear_arith) requires k == 0;
    }
}

// ---- counting: the number of unordered pairs of n vertices is n(n-1)/2 ----

/// the position pairs (0, b), .., (k-1, b)
spec fn mp_column(k: int, b: int) -> Set<(int, int)> { Set::<int>::range(0, k).map(|a: int| (a, b)) }

/// the unordered pairs of positions 0..n, coded as (a, b) with a < b
spec fn mp_upper_pairs(n: int) -> Set<(int, int)>
    decreases n,
{
    if n <= 1 { Set::empty() } else { mp_upper_pairs(n - 1) + mp_column(n - 1, n - 1) }
}

proof fn lemma_mp_column(k: int, b: int)
    requires k >= 0,
    ensures mp_column(k, b).finite(), mp_column(k, b).len() == k, forall|p: (int, int)| #[trigger] mp_column(k, b).contains(p) == (0 <= p.0 < k && p.1 == b),
{
    let rn = Set::<int>::range(0, k);
    vstd::set_lib::range_set_properties::<int>(0, k);
    let g = |a: int| (a, b);
    assert(rn.injective_on(g)) by {
        assert forall|x1: int, x2: int| rn.contains(x1) && rn.contains(x2) && g(x1) == g(x2) implies x1 == x2 by {}
    }
    assert forall|p: (int, int)| #[trigger] mp_column(k, b).contains(p) == (0 <= p.0 < k && p.1 == b) by {
        rn.lemma_map_contains(g, p);
        if 0 <= p.0 < k && p.1 == b { assert(rn.contains(p.0) && g(p.0) == p); }
    }
    vstd::set_lib::lemma_map_size(rn, mp_column(k, b), g);
}

proof fn lemma_mp_upper_pairs(n: int)
    requires n >= 0,
    ensures
        mp_upper_pairs(n).finite(),
        mp_upper_pairs(n).len() * 2 == n * n - n,
        forall|p: (int, int)| #[trigger] mp_upper_pairs(n).contains(p) == (0 <= p.0 < p.1 < n),
    decreases n,
{
    if n <= 1 {
        assert(n * n - n == 0) by (nonlinear_arith) requires n == 0 || n == 1;
        assert(mp_upper_pairs(n).len() == 0);
    } else {
        lemma_mp_upper_pairs(n - 1);
        lemma_mp_column(n - 1, n - 1);
        let prev = mp_upper_pairs(n - 1);
        let col = mp_column(n - 1, n - 1);
        assert(prev.disjoint(col));
        vstd::set_lib::lemma_set_disjoint_lens(prev, col);
        assert(mp_upper_pairs(n) == prev + col);
        assert(mp_upper_pairs(n).len() == prev.len() + (n - 1));
        assert((n - 1) * (n - 1) - (n - 1) + 2 * (n - 1) == n * n - n) by (nonlinear_arith);
    }
}

// ---- the number of arcs of a map: sum of the row sizes = size of the arc set ----

/// the arcs leaving the i-th vertex, as id pairs
spec fn mp_row_pairs(g: AdjacencyMap, i: int) -> Set<(int, int)> {
    g.arcs@[g.key_seq()[i]]@.map(|x: usize| (g.key_seq()[i] as int, x as int))
}

/// the arcs leaving the first k vertices
spec fn mp_arcs_upto(g: AdjacencyMap, k: int) -> Set<(int, int)>
    decreases k,
{
    if k <= 0 { Set::empty() } else { mp_arcs_upto(g, k - 1) + mp_row_pairs(g, k - 1) }
}

/// x is one of the first k vertices
spec fn mp_key_below(g: AdjacencyMap, x: int, k: int) -> bool {
    exists|i: int| 0 <= i < k && #[trigger] g.key_seq()[i] == x
}

proof fn lemma_mp_row_pairs(g: AdjacencyMap, i: int)
    requires is_key_seq(g.arcs@.dom(), g.key_seq()), 0 <= i < g.key_seq().len(),
    ensures
        mp_row_pairs(g, i).finite(),
        mp_row_pairs(g, i).len() == g.arcs@[g.key_seq()[i]]@.len(),
        forall|p: (int, int)| #[trigger] mp_row_pairs(g, i).contains(p) == (p.0 == g.key_seq()[i] && g.has(p.0, p.1)),
{
    let k = g.key_seq()[i];
    assert(g.key_seq().to_set().contains(k));
    let row = g.arcs@[k]@;
    let f = |x: usize| (k as int, x as int);
    assert(row.injective_on(f)) by {
        assert forall|x1: usize, x2: usize| row.contains(x1) && row.contains(x2) && f(x1) == f(x2) implies x1 == x2 by {}
    }
    assert forall|p: (int, int)| #[trigger] mp_row_pairs(g, i).contains(p) == (p.0 == k && g.has(p.0, p.1)) by {
        row.lemma_map_contains(f, p);
        if p.0 == k && g.has(p.0, p.1) { assert(row.contains(p.1 as usize) && f(p.1 as usize) == p); }
    }
    vstd::set_lib::lemma_map_size(row, mp_row_pairs(g, i), f);
}

/// faithfulness of the count: the arc set of the first k vertices has rows_sum(k) elements and is the relation `has` there
proof fn lemma_mp_arcs_upto(g: AdjacencyMap, k: int)
    requires is_key_seq(g.arcs@.dom(), g.key_seq()), 0 <= k <= g.key_seq().len(),
    ensures
        mp_arcs_upto(g, k).finite(),
        mp_arcs_upto(g, k).len() == g.rows_sum(k),
        forall|p: (int, int)| #[trigger] mp_arcs_upto(g, k).contains(p) == (mp_key_below(g, p.0, k) && g.has(p.0, p.1)),
    decreases k,
{
    if k > 0 {
        lemma_mp_arcs_upto(g, k - 1);
        lemma_mp_row_pairs(g, k - 1);
        let prev = mp_arcs_upto(g, k - 1);
        let row = mp_row_pairs(g, k - 1);
        assert(prev.disjoint(row)) by {
            assert forall|p: (int, int)| !(prev.contains(p) && row.contains(p)) by {
                if prev.contains(p) && row.contains(p) {
                    let i = choose|i: int| 0 <= i < k - 1 && #[trigger] g.key_seq()[i] == p.0;
                    assert(g.key_seq()[i] < g.key_seq()[k - 1]);
                }
            }
        }
        vstd::set_lib::lemma_set_disjoint_lens(prev, row);
        assert(mp_arcs_upto(g, k) == prev + row);
        assert forall|p: (int, int)| #[trigger] mp_arcs_upto(g, k).contains(p) == (mp_key_below(g, p.0, k) && g.has(p.0, p.1)) by {
            if mp_key_below(g, p.0, k) {
                let i = choose|i: int| 0 <= i < k && #[trigger] g.key_seq()[i] == p.0;
                if i < k - 1 { assert(mp_key_below(g, p.0, k - 1)); }
            }
            if mp_key_below(g, p.0, k - 1) {
                let i = choose|i: int| 0 <= i < k - 1 && #[trigger] g.key_seq()[i] == p.0;
                assert(0 <= i < k);
            }
            if p.0 == g.key_seq()[k - 1] { assert(mp_key_below(g, p.0, k)); }
        }
    } else {
        assert forall|p: (int, int)| !mp_key_below(g, p.0, k) by {}
    }
}

/// the arc chosen for the unordered pair of the vertices at positions p.0 < p.1: forwards if present, else backwards
spec fn mp_pair_arc(g: AdjacencyMap, p: (int, int)) -> (int, int) {
    let a = g.key_seq()[p.0] as int;
    let b = g.key_seq()[p.1] as int;
    if g.has(a, b) { (a, b) } else { (b, a) }
}

/// semicomplete ==> at least one arc per unordered pair ==> |A| >= n(n-1)/2;  tournament ==> exactly one ==> |A| == n(n-1)/2
proof fn lemma_map_pair_count(g: AdjacencyMap)
    requires g.wf(), is_key_seq(g.arcs@.dom(), g.key_seq()), g.key_seq().len() == g.ord(),
    ensures
        map_semicomplete(g) ==> g.arc_count() * 2 >= g.ord() * g.ord() - g.ord(),
        map_tournament(g) ==> g.arc_count() * 2 == g.ord() * g.ord() - g.ord(),
{
    broadcast use lemma_map_verts_contains;
    let n = g.ord();
    let ks = g.key_seq();
    let arcs = mp_arcs_upto(g, n);
    lemma_mp_arcs_upto(g, n);
    lemma_mp_upper_pairs(n);
    let u = mp_upper_pairs(n);
    let f = |p: (int, int)| mp_pair_arc(g, p);
    // the arc set is exactly the relation `has`
    assert forall|p: (int, int)| #[trigger] arcs.contains(p) == g.has(p.0, p.1) by {
        if g.has(p.0, p.1) {
            assert(ks.to_set().contains(p.0 as usize));
            let i = choose|i: int| 0 <= i < ks.len() && ks[i] == p.0 as usize;
            assert(mp_key_below(g, p.0, n));
        }
    }
    assert forall|i: int| 0 <= i < n implies g.verts().contains(#[trigger] ks[i] as int) by {
        assert(ks.to_set().contains(ks[i]));
    }
    if map_tournament(g) {
        assert forall|a: int, b: int| g.verts().contains(a) && g.verts().contains(b) && a != b implies #[trigger] map_joined(g, a, b) by {
            assert(map_joined_once(g, a, b));
        }
    }
    if map_semicomplete(g) {
        assert(u.injective_on(f)) by {
            assert forall|x1: (int, int), x2: (int, int)| u.contains(x1) && u.contains(x2) && f(x1) == f(x2) implies x1 == x2 by {
                assert(ks[x1.0] < ks[x1.1] && ks[x2.0] < ks[x2.1]);
                if x1.0 < x2.0 { assert(ks[x1.0] < ks[x2.0]); }
                if x2.0 < x1.0 { assert(ks[x2.0] < ks[x1.0]); }
                if x1.1 < x2.1 { assert(ks[x1.1] < ks[x2.1]); }
                if x2.1 < x1.1 { assert(ks[x2.1] < ks[x1.1]); }
            }
        }
        let img = u.map(f);
        assert(img.subset_of(arcs)) by {
            assert forall|q: (int, int)| img.contains(q) implies arcs.contains(q) by {
                u.lemma_map_contains(f, q);
                let p = choose|p: (int, int)| u.contains(p) && q == f(p);
                assert(ks[p.0] < ks[p.1]);
                assert(map_joined(g, ks[p.0] as int, ks[p.1] as int));
            }
        }
        vstd::set_lib::lemma_map_size(u, img, f);
        vstd::set_lib::lemma_len_subset(img, arcs);
        if map_tournament(g) {
            assert(arcs.subset_of(img)) by {
                assert forall|q: (int, int)| arcs.contains(q) implies img.contains(q) by {
                    u.lemma_map_contains(f, q);
                    assert(g.has(q.0, q.1));
                    assert(g.arcs@[q.0 as usize]@.contains(q.1 as usize));
                    assert(ks.to_set().contains(q.0 as usize) && ks.to_set().contains(q.1 as usize));
                    let i = choose|i: int| 0 <= i < ks.len() && ks[i] == q.0 as usize;
                    let j = choose|j: int| 0 <= j < ks.len() && ks[j] == q.1 as usize;
                    assert(map_joined_once(g, q.0, q.1));
                    if i < j {
                        assert(u.contains((i, j)) && f((i, j)) == q);
                    } else {
                        assert(i != j);
                        assert(u.contains((j, i)) && f((j, i)) == q);
                    }
                }
            }
            assert(arcs =~= img);
        }
    }
}

/// m has the keys of g and, at key k, the elements of `full` that are neither k nor successors of k
spec fn complement_rows(g: AdjacencyMap, m: Map<usize, BTreeSet<usize>>, full: Set<usize>) -> bool {
    &&& m.dom() == g.arcs@.dom()
    &&& forall|k: usize| g.arcs@.contains_key(k) ==> (#[trigger] m[k])@ == full.difference(g.arcs@[k]@).remove(k)
}

proof fn lemma_collect_complement(g: AdjacencyMap, src: Seq<(&usize, &BTreeSet<usize>)>, rem: Seq<(usize, BTreeSet<usize>)>, m: BTreeMap<usize, BTreeSet<usize>>, full: Set<usize>)
    requires
        map_items_of(g.arcs@, src),
        src.no_duplicates(),
        rem.len() == src.len(),
        forall|k: int| 0 <= k < rem.len() ==> (#[trigger] rem[k]).0 == *src[k].0 && rem[k].1@ == full.difference(src[k].1@).remove(*src[k].0),
        <BTreeMap<usize, BTreeSet<usize>> as vstd::std_specs::iter::FromIteratorSpec<(usize, BTreeSet<usize>)>>::from_iter_ensures(rem, m),
    ensures complement_rows(g, m@, full),
{
    axiom_btree_map_from_iter(rem, m);
    assert forall|i: int, j: int| 0 <= i < j < rem.len() implies rem[i].0 != rem[j].0 by {
        if rem[i].0 == rem[j].0 {
            assert(*src[i].0 == *src[j].0);
            assert(g.arcs@[*src[i].0] == *src[i].1 && g.arcs@[*src[j].0] == *src[j].1);
            assert(src[i] == src[j]);
        }
    }
    assert forall|k: usize| m@.dom().contains(k) == g.arcs@.dom().contains(k) by {
        if m@.contains_key(k) {
            let i = choose|i: int| 0 <= i < rem.len() && (#[trigger] rem[i]).0 == k;
            assert(g.arcs@.contains_key(*src[i].0));
        }
        if g.arcs@.contains_key(k) {
            let p = (&k, &g.arcs@[k]);
            assert(src.contains(p));
            let i = choose|i: int| 0 <= i < src.len() && src[i] == p;
            assert(rem[i].0 == k);
        }
    }
    assert(m@.dom() =~= g.arcs@.dom());
    assert forall|k: usize| g.arcs@.contains_key(k) implies (#[trigger] m@[k])@ == full.difference(g.arcs@[k]@).remove(k) by {
        let p = (&k, &g.arcs@[k]);
        assert(src.contains(p));
        let i = choose|i: int| 0 <= i < src.len() && src[i] == p;
        assert(rem[i].0 == k);
        assert(m@[rem[i].0] == rem[i].1);
    }
}

/// `full` is the vertex set of g and q has the complement rows over it ==> q is the complement of g (C11)
spec fn complement_result_ok(g: AdjacencyMap, q: AdjacencyMap, full: Set<usize>) -> bool {
    g.wf() && full == g.arcs@.dom() && complement_rows(g, q.arcs@, full) ==> {
        &&& q.verts() == g.verts()
        &&& q.wf()
        &&& forall|a: int, b: int| #![trigger q.has(a, b)] q.has(a, b) == (g.verts().contains(a) && g.verts().contains(b) && a != b && !g.has(a, b))
    }
}

proof fn lemma_complement_result(g: AdjacencyMap, q: AdjacencyMap, full: Set<usize>)
    ensures complement_result_ok(g, q, full),
{
    if g.wf() && full == g.arcs@.dom() && complement_rows(g, q.arcs@, full) {
        broadcast use lemma_map_verts_contains;
        assert(q.verts() =~= g.verts());
        assert forall|a: int, b: int| #![trigger q.has(a, b)] q.has(a, b) == (g.verts().contains(a) && g.verts().contains(b) && a != b && !g.has(a, b)) by {
            if 0 <= a <= usize::MAX && 0 <= b <= usize::MAX && g.arcs@.contains_key(a as usize) {
                assert(q.arcs@[a as usize]@ == full.difference(g.arcs@[a as usize]@).remove(a as usize));
            }
        }
        assert(q.wf()) by {
            assert(q.arcs@.len() == g.arcs@.len());
            assert forall|u: usize, x: usize| q.arcs@.contains_key(u) && #[trigger] q.arcs@[u]@.contains(x) implies q.arcs@.contains_key(x) && x != u by {
                assert(q.arcs@[u]@ == full.difference(g.arcs@[u]@).remove(u));
            }
        }
    }
}
