//@file src/repr/adjacency_map/mod.rs
// ---- C11 filter_vertices: the subdigraph induced by the vertices satisfying the predicate ----
// `filter_vertices` calls `vertices` and `out_neighbors`.  Their contracts are owned by unit map_more
// (units/inc/map_more.inc.rs); that fragment cannot be imported here because it contains a `trivial` stand-in with
// `requires false`, which would clash with the real `trivial` above.  Both functions are therefore extracted and verified
// again in this unit, with the SAME contracts (helper predicates renamed mm_ -> mc_).

/// strictly ascending item sequence of a key / element iterator
spec fn mc_ascending(rem: Seq<&usize>) -> bool {
    forall|i: int, j: int| 0 <= i < j < rem.len() ==> *(#[trigger] rem[i]) < *(#[trigger] rem[j])
}

/// meaning of vstd's `increasing_seq` on `&usize` items: strictly ascending
proof fn lemma_mc_ref_increasing(rem: Seq<&usize>)
    requires vstd::std_specs::btree::increasing_seq(rem),
    ensures mc_ascending(rem),
{
    broadcast use vstd::laws_cmp::group_laws_cmp;
    assert(vstd::laws_cmp::obeys_cmp::<&usize>());
    vstd::std_specs::btree::axiom_increasing_seq_meaning(rem);
    assert forall|i: int, j: int| 0 <= i < j < rem.len() implies *(#[trigger] rem[i]) < *(#[trigger] rem[j]) by {
        assert(<&usize as vstd::std_specs::cmp::OrdSpec>::cmp_spec(&rem[i], &rem[j]) is Less);
    }
}

/// ks lists the vertex set `dom` in ascending order (hence each vertex once)
spec fn mc_is_key_seq(dom: Set<usize>, ks: Seq<usize>) -> bool {
    &&& ks.to_set() == dom
    &&& ks.no_duplicates()
    &&& forall|i: int, j: int| 0 <= i < j < ks.len() ==> #[trigger] ks[i] < #[trigger] ks[j]
}

impl AdjacencyMap {
    // C01 vertices: every vertex exactly once, ascending (same contract as in unit map_more)
    /*@fn impl=AdjacencyMap trait=Vertices name=vertices wrap=copied props=C01,C13 subst="Iterator<Item=usize>=>Iterator<Item=usize>+use<'_>"
    ensures
        r.obeys_prophetic_iter_laws(),
        r.decrease() is Some,
        mc_is_key_seq(self.arcs@.dom(), r.remaining()),
        r.remaining().len() == self.ord(),
    @fn_start
        proof {
            assert forall|rem: Seq<&usize>| #[trigger] vstd::std_specs::btree::increasing_seq(rem) implies mc_ascending(rem) by { lemma_mc_ref_increasing(rem); }
        }
    @*/

    // C02 out_neighbors: exactly the out-neighbours of u, ascending, no repeats; u outside V panics (same contract as in map_more)
    /*@fn impl=AdjacencyMap trait=OutNeighbors name=out_neighbors wrap=copied props=C02,C13 subst="Iterator<Item=usize>=>Iterator<Item=usize>+use<'_>"
    ensures
        self.verts().contains(u as int),
        r.obeys_prophetic_iter_laws(),
        r.decrease() is Some,
        forall|i: int| 0 <= i < r.remaining().len() ==> self.has(u as int, #[trigger] r.remaining()[i] as int),
        forall|v: int| #[trigger] self.has(u as int, v) ==> r.remaining().contains(v as usize),
        forall|i: int, j: int| 0 <= i < j < r.remaining().len() ==> r.remaining()[i] < r.remaining()[j],
        r.remaining().no_duplicates(),
    @fn_start
        broadcast use lemma_map_verts_contains;
        proof {
            assert forall|rem: Seq<&usize>| #[trigger] vstd::std_specs::btree::increasing_seq(rem) implies mc_ascending(rem) by { lemma_mc_ref_increasing(rem); }
            if self.arcs@.contains_key(u) {
                let row = self.arcs@[u]@;
                assert forall|s: Seq<usize>, v: int| #[trigger] s.to_set() == row && #[trigger] self.has(u as int, v) implies s.contains(v as usize) by {
                    assert(s.to_set().contains(v as usize));
                }
                assert forall|s: Seq<usize>, i: int| #[trigger] s.to_set() == row && 0 <= i < s.len() implies self.has(u as int, #[trigger] s[i] as int) by {
                    assert(s.to_set().contains(s[i]));
                }
            }
        }
    @*/
}

// what a `P: Fn(usize) -> bool` predicate says (closures are known through their requires/ensures only, and
// `f.ensures(args, r)` is only a NECESSARY condition for "f(args) returned r"); same rendering as prelude/dg_johnson.rs
spec fn mc_fv_callable<P: Fn(usize) -> bool>(f: P) -> bool { forall|v: usize| #[trigger] f.requires((v,)) }
/// "calling f on v can return r"
spec fn mc_fv_says<P: Fn(usize) -> bool>(f: P, v: usize, r: bool) -> bool { f.ensures((v,), r) }
/// the predicate is a function of its argument
spec fn mc_fv_det<P: Fn(usize) -> bool>(f: P) -> bool {
    forall|v: usize, r1: bool, r2: bool| #[trigger] mc_fv_says(f, v, r1) && #[trigger] mc_fv_says(f, v, r2) ==> r1 == r2
}
/// the predicate can accept / can reject vertex x
spec fn mc_fv_yes<P: Fn(usize) -> bool>(f: P, x: int) -> bool { 0 <= x <= usize::MAX && mc_fv_says(f, x as usize, true) }
spec fn mc_fv_no<P: Fn(usize) -> bool>(f: P, x: int) -> bool { 0 <= x <= usize::MAX && mc_fv_says(f, x as usize, false) }

type McMap = Map<usize, BTreeSet<usize>>;

/// the map under construction is inside the induced subdigraph: its keys are accepted vertices of g, its arcs are arcs
/// of g whose head was accepted.  ("Every head is a key" is NOT part of the loop state: it is derived once every vertex of g
/// has been visited, so the proof does not depend on WHEN an accepted head is admitted as a key.)
spec fn mc_fv_sub<P: Fn(usize) -> bool>(g: AdjacencyMap, p: P, m: McMap) -> bool {
    &&& forall|a: usize| #[trigger] m.contains_key(a) ==> g.arcs@.contains_key(a) && mc_fv_says(p, a, true)
    &&& forall|a: usize, b: usize| m.contains_key(a) && #[trigger] m[a]@.contains(b) ==> g.arcs@[a]@.contains(b) && mc_fv_says(p, b, true)
}

/// vertex a of g has been treated: it is a key unless it was rejected, and each of its arcs is there unless an endpoint was rejected
spec fn mc_fv_done<P: Fn(usize) -> bool>(g: AdjacencyMap, p: P, m: McMap, a: usize) -> bool {
    &&& m.contains_key(a) || mc_fv_says(p, a, false)
    &&& forall|b: usize| #[trigger] g.arcs@[a]@.contains(b) ==> (m.contains_key(a) && m[a]@.contains(b)) || mc_fv_says(p, a, false) || mc_fv_says(p, b, false)
}

/// the first n vertices of ks have been treated
spec fn mc_fv_done_upto<P: Fn(usize) -> bool>(g: AdjacencyMap, p: P, m: McMap, ks: Seq<usize>, n: int) -> bool {
    forall|k: int| 0 <= k < n ==> mc_fv_done(g, p, m, #[trigger] ks[k])
}

/// the map only grows: keys stay, rows only gain elements
spec fn mc_grows(m0: McMap, m1: McMap) -> bool {
    forall|a: usize| #[trigger] m0.contains_key(a) ==> m1.contains_key(a) && m0[a]@.subset_of(m1[a]@)
}

/// `arcs.entry(k).or_default()` with the reference dropped unused: key k is present afterwards, with its old row or an empty one
spec fn mc_touched(m0: McMap, m1: McMap, k: usize) -> bool {
    &&& m1 == m0.insert(k, m1[k])
    &&& m0.contains_key(k) ==> m1[k] == m0[k]
    &&& !m0.contains_key(k) ==> m1[k]@ == Set::<usize>::empty()
}

/// `arcs.entry(k).or_default().insert(x)`: key k is present afterwards, its row is the old row (or an empty one) plus x
spec fn mc_added(m0: McMap, m1: McMap, k: usize, x: usize) -> bool {
    &&& m1 == m0.insert(k, m1[k])
    &&& m0.contains_key(k) ==> m1[k]@ == m0[k]@.insert(x)
    &&& !m0.contains_key(k) ==> m1[k]@ == Set::<usize>::empty().insert(x)
}

/// the statements of the inner loop body: the arc k -> x is added, and x is admitted either at once (second statement) or
/// not yet (it will be when the outer loop reaches it)
spec fn mc_arc_added(m0: McMap, m2: McMap, k: usize, x: usize) -> bool {
    mc_added(m0, m2, k, x) || exists|m1: McMap| mc_added(m0, m1, k, x) && #[trigger] mc_touched(m1, m2, x)
}

proof fn lemma_mc_grows_done<P: Fn(usize) -> bool>(g: AdjacencyMap, p: P, m0: McMap, m1: McMap, ks: Seq<usize>, n: int)
    requires mc_grows(m0, m1), mc_fv_done_upto(g, p, m0, ks, n),
    ensures mc_fv_done_upto(g, p, m1, ks, n),
{
    assert forall|k: int| 0 <= k < n implies mc_fv_done(g, p, m1, #[trigger] ks[k]) by {
        let a = ks[k];
        assert(mc_fv_done(g, p, m0, a));
        assert forall|b: usize| #[trigger] g.arcs@[a]@.contains(b) implies (m1.contains_key(a) && m1[a]@.contains(b)) || mc_fv_says(p, a, false) || mc_fv_says(p, b, false) by {
            if m0.contains_key(a) && m0[a]@.contains(b) { assert(m0[a]@.subset_of(m1[a]@)); }
        }
    }
}

/// an accepted vertex u of g is admitted
proof fn lemma_mc_fv_touch<P: Fn(usize) -> bool>(g: AdjacencyMap, p: P, m0: McMap, m1: McMap, u: usize)
    requires
        mc_fv_sub(g, p, m0),
        g.arcs@.contains_key(u),
        mc_fv_says(p, u, true),
        mc_touched(m0, m1, u),
    ensures
        mc_fv_sub(g, p, m1),
        mc_grows(m0, m1),
        m1.contains_key(u),
{
    assert forall|a: usize, b: usize| m1.contains_key(a) && #[trigger] m1[a]@.contains(b) implies g.arcs@[a]@.contains(b) && mc_fv_says(p, b, true) by {
        if a == u && !m0.contains_key(u) { assert(false); }
        assert(m0.contains_key(a) && m0[a]@.contains(b));
    }
}

/// an arc u -> v of g with accepted head is added to the row of the admitted vertex u
proof fn lemma_mc_fv_add<P: Fn(usize) -> bool>(g: AdjacencyMap, p: P, m0: McMap, m1: McMap, u: usize, v: usize)
    requires
        mc_fv_sub(g, p, m0),
        m0.contains_key(u),
        g.arcs@[u]@.contains(v),
        mc_fv_says(p, v, true),
        mc_added(m0, m1, u, v),
    ensures
        mc_fv_sub(g, p, m1),
        mc_grows(m0, m1),
        m1.contains_key(u),
        m1[u]@.contains(v),
{
    assert forall|a: usize| #[trigger] m0.contains_key(a) implies m1.contains_key(a) && m0[a]@.subset_of(m1[a]@) by {
        if a != u { assert(m1[a] == m0[a]); }
    }
    assert forall|a: usize| #[trigger] m1.contains_key(a) implies g.arcs@.contains_key(a) && mc_fv_says(p, a, true) by {
        assert(m0.contains_key(a));
    }
    assert forall|a: usize, b: usize| m1.contains_key(a) && #[trigger] m1[a]@.contains(b) implies g.arcs@[a]@.contains(b) && mc_fv_says(p, b, true) by {
        if a == u { if b != v { assert(m0[u]@.contains(b)); } }
        else { assert(m1[a] == m0[a] && m0.contains_key(a)); assert(m0[a]@.contains(b)); }
    }
}

/// growing is transitive
proof fn lemma_mc_grows_trans(m0: McMap, m1: McMap, m2: McMap)
    requires mc_grows(m0, m1), mc_grows(m1, m2),
    ensures mc_grows(m0, m2),
{
    assert forall|a: usize| #[trigger] m0.contains_key(a) implies m2.contains_key(a) && m0[a]@.subset_of(m2[a]@) by {
        assert(m1.contains_key(a));
        assert(m0[a]@.subset_of(m1[a]@) && m1[a]@.subset_of(m2[a]@));
    }
}

/// vs lists the out-neighbours of u in g
spec fn mc_nb_seq(g: AdjacencyMap, u: usize, vs: Seq<usize>) -> bool {
    &&& forall|j: int| 0 <= j < vs.len() ==> g.has(u as int, #[trigger] vs[j] as int)
    &&& forall|v: int| #[trigger] g.has(u as int, v) ==> vs.contains(v as usize)
}

/// the first n out-neighbours listed in vs are heads in row u unless they were rejected
spec fn mc_fv_row_upto<P: Fn(usize) -> bool>(p: P, m: McMap, u: usize, vs: Seq<usize>, n: int) -> bool {
    forall|j: int| 0 <= j < n ==> m[u]@.contains(#[trigger] vs[j]) || mc_fv_says(p, vs[j], false)
}

/// vertex u was accepted and all its out-neighbours have been looked at: u is treated
proof fn lemma_mc_fv_vertex_done<P: Fn(usize) -> bool>(g: AdjacencyMap, p: P, m: McMap, u: usize, vs: Seq<usize>)
    requires
        m.contains_key(u),
        g.arcs@.contains_key(u),
        mc_nb_seq(g, u, vs),
        mc_fv_row_upto(p, m, u, vs, vs.len() as int),
    ensures
        mc_fv_done(g, p, m, u),
{
    assert forall|b: usize| #[trigger] g.arcs@[u]@.contains(b) implies (m.contains_key(u) && m[u]@.contains(b)) || mc_fv_says(p, u, false) || mc_fv_says(p, b, false) by {
        assert(g.has(u as int, b as int));
        assert(vs.contains(b));
        let j = choose|j: int| 0 <= j < vs.len() && vs[j] == b;
        assert(m[u]@.contains(vs[j]) || mc_fv_says(p, vs[j], false));
    }
}

// ---- the loop invariants of filter_vertices as named states, and one UNCONDITIONAL step lemma per program point (each of the
// form "state before && what the statements did ==> state after"), so that a wrong statement surfaces as a failed invariant /
// postcondition of the function and never as a failed lemma precondition inside a hint ----

/// outer loop, at the head with i vertices of ks visited
spec fn mc_fv_outer<P: Fn(usize) -> bool>(g: AdjacencyMap, p: P, m: McMap, ks: Seq<usize>, i: int) -> bool {
    &&& g.wf()
    &&& mc_is_key_seq(g.arcs@.dom(), ks)
    &&& 0 <= i <= ks.len()
    &&& mc_fv_sub(g, p, m)
    &&& mc_fv_done_upto(g, p, m, ks, i)
}

/// inner loop, at the head with j out-neighbours (listed in vs) of the accepted vertex u = ks[i] visited
spec fn mc_fv_inner<P: Fn(usize) -> bool>(g: AdjacencyMap, p: P, m: McMap, ks: Seq<usize>, i: int, u: usize, vs: Seq<usize>, j: int) -> bool {
    &&& mc_fv_outer(g, p, m, ks, i)
    &&& i < ks.len() && ks[i] == u
    &&& mc_nb_seq(g, u, vs)
    &&& 0 <= j <= vs.len()
    &&& m.contains_key(u)
    &&& mc_fv_row_upto(p, m, u, vs, j)
}

/// entering the inner loop: u = ks[i] was accepted and admitted
spec fn mc_fv_enter_ok<P: Fn(usize) -> bool>(g: AdjacencyMap, p: P, m0: McMap, m1: McMap, ks: Seq<usize>, i: int, u: usize, vs: Seq<usize>) -> bool {
    mc_fv_outer(g, p, m0, ks, i) && i < ks.len() && ks[i] == u && mc_fv_says(p, u, true) && mc_touched(m0, m1, u) && mc_nb_seq(g, u, vs)
        ==> mc_fv_inner(g, p, m1, ks, i, u, vs, 0)
}
proof fn lemma_mc_fv_enter<P: Fn(usize) -> bool>(g: AdjacencyMap, p: P, m0: McMap, m1: McMap, ks: Seq<usize>, i: int, u: usize, vs: Seq<usize>)
    ensures mc_fv_enter_ok(g, p, m0, m1, ks, i, u, vs),
{
    if mc_fv_outer(g, p, m0, ks, i) && i < ks.len() && ks[i] == u && mc_fv_says(p, u, true) && mc_touched(m0, m1, u) && mc_nb_seq(g, u, vs) {
        assert(ks.to_set().contains(ks[i]));
        lemma_mc_fv_touch(g, p, m0, m1, u);
        lemma_mc_grows_done(g, p, m0, m1, ks, i);
    }
}

/// one round of the inner loop: v = vs[j] was rejected and nothing changed, or it was accepted and u -> v added, v admitted
proof fn lemma_mc_fv_inner_step<P: Fn(usize) -> bool>(g: AdjacencyMap, p: P, m0: McMap, m2: McMap, ks: Seq<usize>, i: int, u: usize, vs: Seq<usize>, j: int, v: usize)
    ensures
        mc_fv_inner(g, p, m0, ks, i, u, vs, j) && j < vs.len() && vs[j] == v
            && ((mc_fv_says(p, v, false) && m2 == m0) || (mc_fv_says(p, v, true) && mc_arc_added(m0, m2, u, v)))
            ==> mc_fv_inner(g, p, m2, ks, i, u, vs, j + 1),
{
    if mc_fv_inner(g, p, m0, ks, i, u, vs, j) && j < vs.len() && vs[j] == v
        && ((mc_fv_says(p, v, false) && m2 == m0) || (mc_fv_says(p, v, true) && mc_arc_added(m0, m2, u, v))) {
        assert(ks.to_set().contains(ks[i]));
        assert(g.has(u as int, vs[j] as int));
        if mc_fv_says(p, v, true) && mc_arc_added(m0, m2, u, v) {
            if mc_added(m0, m2, u, v) {
                lemma_mc_fv_add(g, p, m0, m2, u, v);
            } else {
                let m1 = choose|m1: McMap| mc_added(m0, m1, u, v) && #[trigger] mc_touched(m1, m2, v);
                lemma_mc_fv_add(g, p, m0, m1, u, v);
                assert(g.arcs@.contains_key(v));
                lemma_mc_fv_touch(g, p, m1, m2, v);
                lemma_mc_grows_trans(m0, m1, m2);
                assert(m1[u]@.subset_of(m2[u]@));
            }
            lemma_mc_grows_done(g, p, m0, m2, ks, i);
            assert forall|jj: int| 0 <= jj < j + 1 implies m2[u]@.contains(#[trigger] vs[jj]) || mc_fv_says(p, vs[jj], false) by {
                if jj < j { assert(m0[u]@.subset_of(m2[u]@)); }
            }
        }
    }
}

/// end of one round of the outer loop: u = ks[i] was rejected and nothing changed, or the inner loop ran to its end
proof fn lemma_mc_fv_outer_step<P: Fn(usize) -> bool>(g: AdjacencyMap, p: P, m0: McMap, m2: McMap, ks: Seq<usize>, i: int, u: usize)
    ensures
        mc_fv_outer(g, p, m0, ks, i) && i < ks.len() && ks[i] == u
            && ((mc_fv_says(p, u, false) && m2 == m0) || (exists|vs: Seq<usize>| #[trigger] mc_fv_inner(g, p, m2, ks, i, u, vs, vs.len() as int)))
            ==> mc_fv_outer(g, p, m2, ks, i + 1),
{
    if mc_fv_outer(g, p, m0, ks, i) && i < ks.len() && ks[i] == u
        && ((mc_fv_says(p, u, false) && m2 == m0) || (exists|vs: Seq<usize>| #[trigger] mc_fv_inner(g, p, m2, ks, i, u, vs, vs.len() as int))) {
        assert(ks.to_set().contains(ks[i]));
        if exists|vs: Seq<usize>| #[trigger] mc_fv_inner(g, p, m2, ks, i, u, vs, vs.len() as int) {
            let vs = choose|vs: Seq<usize>| #[trigger] mc_fv_inner(g, p, m2, ks, i, u, vs, vs.len() as int);
            lemma_mc_fv_vertex_done(g, p, m2, u, vs);
        }
        assert(mc_fv_done(g, p, m2, u));
        assert forall|k: int| 0 <= k < i + 1 implies mc_fv_done(g, p, m2, #[trigger] ks[k]) by {}
    }
}

/// what filter_vertices promises (C11): a valid digraph, the subdigraph induced by the accepted vertices
spec fn mc_fv_result<P: Fn(usize) -> bool>(g: AdjacencyMap, p: P, r: AdjacencyMap) -> bool {
    &&& r.wf()
    &&& forall|x: int| #[trigger] r.verts().contains(x) ==> g.verts().contains(x) && mc_fv_yes(p, x)
    &&& forall|x: int| #![trigger r.verts().contains(x)] g.verts().contains(x) && !r.verts().contains(x) ==> mc_fv_no(p, x)
    &&& forall|u: int, v: int| #[trigger] r.has(u, v) ==> g.has(u, v) && mc_fv_yes(p, u) && mc_fv_yes(p, v)
    &&& forall|u: int, v: int| #![trigger r.has(u, v)] g.has(u, v) && !r.has(u, v) ==> mc_fv_no(p, u) || mc_fv_no(p, v)
}

/// ... which, the predicate being a function of its argument, is EXACTLY the induced subdigraph
spec fn mc_fv_induced<P: Fn(usize) -> bool>(g: AdjacencyMap, p: P, r: AdjacencyMap) -> bool {
    &&& forall|x: int| #[trigger] r.verts().contains(x) == (g.verts().contains(x) && mc_fv_yes(p, x))
    &&& forall|u: int, v: int| #[trigger] r.has(u, v) == (g.has(u, v) && mc_fv_yes(p, u) && mc_fv_yes(p, v))
}

/// the outer loop ran to its end and the map is not empty: the promised result
spec fn mc_fv_result_ok<P: Fn(usize) -> bool>(g: AdjacencyMap, p: P, r: AdjacencyMap, ks: Seq<usize>) -> bool {
    mc_fv_det(p) && mc_fv_outer(g, p, r.arcs@, ks, ks.len() as int) && r.arcs@.len() > 0
        ==> mc_fv_result(g, p, r) && mc_fv_induced(g, p, r)
}
proof fn lemma_mc_fv_result<P: Fn(usize) -> bool>(g: AdjacencyMap, p: P, r: AdjacencyMap, ks: Seq<usize>)
    ensures mc_fv_result_ok(g, p, r, ks),
{
    if mc_fv_det(p) && mc_fv_outer(g, p, r.arcs@, ks, ks.len() as int) && r.arcs@.len() > 0 {
        broadcast use lemma_map_verts_contains;
        let m = r.arcs@;
        assert forall|a: usize| g.arcs@.contains_key(a) implies mc_fv_done(g, p, m, a) by {
            assert(ks.to_set().contains(a));
            let k = choose|k: int| 0 <= k < ks.len() && ks[k] == a;
            assert(mc_fv_done(g, p, m, ks[k]));
        }
        // every head is a key: it is an accepted vertex of g, every vertex of g has been treated, and the predicate is a function
        assert forall|u: usize, x: usize| m.contains_key(u) && #[trigger] m[u]@.contains(x) implies m.contains_key(x) && x != u by {
            assert(g.arcs@[u]@.contains(x));
            assert(g.arcs@.contains_key(x));
            assert(mc_fv_done(g, p, m, x));
            assert(mc_fv_says(p, x, true));
        }
        assert forall|x: int| #![trigger r.verts().contains(x)] g.verts().contains(x) && !r.verts().contains(x) implies mc_fv_no(p, x) by {
            assert(mc_fv_done(g, p, m, x as usize));
        }
        assert forall|u: int, v: int| #[trigger] r.has(u, v) implies g.has(u, v) && mc_fv_yes(p, u) && mc_fv_yes(p, v) by {
            assert(m[u as usize]@.contains(v as usize));
        }
        assert forall|u: int, v: int| #![trigger r.has(u, v)] g.has(u, v) && !r.has(u, v) implies mc_fv_no(p, u) || mc_fv_no(p, v) by {
            assert(mc_fv_done(g, p, m, u as usize));
            assert(g.arcs@[u as usize]@.contains(v as usize));
        }
        assert forall|x: int| #[trigger] r.verts().contains(x) == (g.verts().contains(x) && mc_fv_yes(p, x)) by {
            if g.verts().contains(x) && mc_fv_yes(p, x) && !r.verts().contains(x) {
                assert(mc_fv_no(p, x));
                assert(mc_fv_says(p, x as usize, true) && mc_fv_says(p, x as usize, false));
            }
        }
        assert forall|u: int, v: int| #[trigger] r.has(u, v) == (g.has(u, v) && mc_fv_yes(p, u) && mc_fv_yes(p, v)) by {
            if g.has(u, v) && mc_fv_yes(p, u) && mc_fv_yes(p, v) && !r.has(u, v) {
                assert(mc_fv_no(p, u) || mc_fv_no(p, v));
                assert(mc_fv_says(p, u as usize, true) && mc_fv_says(p, v as usize, true));
            }
        }
    }
}

impl AdjacencyMap {
    // C11: the result is the subdigraph induced by the vertices satisfying the predicate, a valid digraph (the panic on an
    // empty selection is an allowed outcome: "returned normally ==> at least one vertex" is part of `r.wf()`); `self` is
    // borrowed immutably.  The predicate must be callable on every id and be a function of its argument.
    // The hints are calls of unconditional lemmas only (no assertion that could fail in place of a contract clause).
    /*@fn impl=AdjacencyMap trait=FilterVertices name=filter_vertices props=C11,C13
    requires
        self.wf(),
        mc_fv_callable(predicate),
        mc_fv_det(predicate),
    ensures
        mc_fv_result(*self, predicate, r),
        mc_fv_induced(*self, predicate, r),
    @loop 1
    invariant
        it1.iter.obeys_prophetic_iter_laws(),
        it1.iter.decrease() is Some,
        mc_fv_callable(predicate),
        mc_fv_outer(*self, predicate, arcs@, it1.seq(), it1.index() as int),
    @loop_start 1
        let ghost m_in = arcs@;
    @before `for v in self.out_neighbors(u)`
        proof {
            // the inner loop's iterator does not exist yet: for every out-neighbour listing
            assert forall|vs: Seq<usize>| #![trigger mc_nb_seq(*self, u, vs)] mc_fv_enter_ok(*self, predicate, m_in, arcs@, it1.seq(), it1.index() as int, u, vs)
            by { lemma_mc_fv_enter(*self, predicate, m_in, arcs@, it1.seq(), it1.index() as int, u, vs); }
        }
    @loop 2
    invariant
        it2.iter.obeys_prophetic_iter_laws(),
        it2.iter.decrease() is Some,
        mc_fv_callable(predicate),
        mc_fv_inner(*self, predicate, arcs@, it1.seq(), it1.index() as int, u, it2.seq(), it2.index() as int),
    @loop_start 2
        let ghost m0 = arcs@;
    @loop_end 2
        proof { lemma_mc_fv_inner_step(*self, predicate, m0, arcs@, it1.seq(), it1.index() as int, u, it2.seq(), it2.index() as int, v); }
    @loop_end 1
        proof { lemma_mc_fv_outer_step(*self, predicate, m_in, arcs@, it1.seq(), it1.index() as int, u); }
    @fn_end
        proof {
            // the loop's ghost iterator is out of scope here: state the conclusion for every vertex listing
            assert forall|ks: Seq<usize>| #![trigger mc_is_key_seq(self.arcs@.dom(), ks)] mc_fv_result_ok(*self, predicate, AdjacencyMap { arcs }, ks)
            by { lemma_mc_fv_result(*self, predicate, AdjacencyMap { arcs }, ks); }
        }
    @*/
}

// ---- C16: conversion from another representation, `impl From<$type> for AdjacencyMap` (macro `impl_from_arcs_order`, instances
// AdjacencyList / AdjacencyMatrix / EdgeList).  The source is the opaque `Dg` (prelude/dg.rs): the converter only uses `order()`
// and `arcs()`, whose trait contracts `Dg` carries; `Dg` is NOT assumed well-formed.
// Unlike the converters into the fixed-order representations (units/inc/conversions.inc.rs), this one checks the HEAD only
// (`u != v`, `v < order`): `AdjacencyMap::add_arc` admits an unknown tail as a new vertex instead of panicking.  So an arc whose
// TAIL is outside 0..order does not panic but enlarges V.  The contract says exactly that, without a precondition: the arc
// relation is always preserved, V is 0..order plus the tails, and if all tails are in 0..order (a structural fact of the three
// instance types, whose tails are row indices / checked by their add_arc) the result has the same order and V = 0..order.

/// vertex ids are `usize` by type; the opaque source `Dg` states its arc relation over `int`
spec fn mc_is_id(a: int) -> bool { 0 <= a <= usize::MAX }

/// C16 (normal return): at least one vertex, no self-loop, every head in V; a source violating this makes the conversion panic
spec fn mc_dg_heads_ok(d: Dg) -> bool {
    &&& d.ord() > 0
    &&& forall|u: int, v: int| mc_is_id(u) && mc_is_id(v) && #[trigger] d.has(u, v) ==> 0 <= v < d.ord() && u != v
}

/// every tail is in V
spec fn mc_dg_tails_in(d: Dg) -> bool {
    forall|u: int, v: int| mc_is_id(u) && mc_is_id(v) && #[trigger] d.has(u, v) ==> 0 <= u < d.ord()
}

/// the source is a valid digraph (same text as `dg_valid` in units/inc/conversions.inc.rs)
spec fn mc_dg_valid(d: Dg) -> bool {
    &&& d.ord() > 0
    &&& forall|u: int, v: int| mc_is_id(u) && mc_is_id(v) && #[trigger] d.has(u, v) ==> 0 <= u < d.ord() && 0 <= v < d.ord() && u != v
}

/// x is the tail of some arc of the source
spec fn mc_dg_tail(d: Dg, x: int) -> bool {
    mc_is_id(x) && exists|b: int| mc_is_id(b) && #[trigger] d.has(x, b)
}

/// the items of `Dg::arcs()` (trait contract): exactly the arcs of the source
spec fn mc_arcs_of(d: Dg, s: Seq<(usize, usize)>) -> bool {
    &&& forall|u: usize, v: usize| d.has(u as int, v as int) ==> s.contains((u, v))
    &&& forall|i: int| 0 <= i < s.len() ==> d.has((#[trigger] s[i]).0 as int, s[i].1 as int)
}

/// x is the tail of one of the first n items
spec fn mc_fd_tail_upto(s: Seq<(usize, usize)>, n: int, x: int) -> bool {
    exists|i: int| 0 <= i < n && (#[trigger] s[i]).0 == x
}

/// loop state of from_dg with the first n items of s converted
spec fn mc_fd_state(h: AdjacencyMap, s: Seq<(usize, usize)>, n: int, order: int) -> bool {
    &&& h.wf()
    &&& 0 <= n <= s.len()
    &&& 0 < order <= usize::MAX
    &&& forall|i: int| 0 <= i < n ==> (#[trigger] s[i]).1 < order && s[i].0 != s[i].1 && h.has(s[i].0 as int, s[i].1 as int)
    &&& forall|a: int, b: int| #![trigger h.has(a, b)] h.has(a, b) ==> exists|i: int| 0 <= i < n && s[i] == (a as usize, b as usize)
    &&& forall|x: int| #[trigger] h.verts().contains(x) == (0 <= x < order || mc_fd_tail_upto(s, n, x))
}

/// what `add_arc` promises (its contract in units/inc/map_core.inc.rs)
spec fn mc_arc_added_to(h0: AdjacencyMap, h1: AdjacencyMap, u: usize, v: usize) -> bool {
    &&& h1.wf()
    &&& h1.verts() == h0.verts().insert(u as int).insert(v as int)
    &&& forall|a: int, b: int| #![trigger h1.has(a, b)] h1.has(a, b) == (h0.has(a, b) || (a == u && b == v))
}

/// the state right after `empty(order)`
proof fn lemma_mc_fd_init(h: AdjacencyMap, s: Seq<(usize, usize)>, order: int)
    ensures
        h.wf() && 0 < order <= usize::MAX && (forall|x: int| #[trigger] h.verts().contains(x) == (0 <= x < order))
            && (forall|a: int, b: int| #![trigger h.has(a, b)] !h.has(a, b)) ==> mc_fd_state(h, s, 0, order),
{
}

/// one round: item n = (u, v) passed both checks and was added
proof fn lemma_mc_fd_step(h0: AdjacencyMap, h1: AdjacencyMap, s: Seq<(usize, usize)>, n: int, order: int, u: usize, v: usize)
    ensures
        mc_fd_state(h0, s, n, order) && n < s.len() && s[n] == (u, v) && u != v && v < order && mc_arc_added_to(h0, h1, u, v)
            ==> mc_fd_state(h1, s, n + 1, order),
{
    if mc_fd_state(h0, s, n, order) && n < s.len() && s[n] == (u, v) && u != v && v < order && mc_arc_added_to(h0, h1, u, v) {
        assert forall|i: int| 0 <= i < n + 1 implies (#[trigger] s[i]).1 < order && s[i].0 != s[i].1 && h1.has(s[i].0 as int, s[i].1 as int) by {
            if i < n { assert(h0.has(s[i].0 as int, s[i].1 as int)); }
        }
        assert forall|a: int, b: int| #![trigger h1.has(a, b)] h1.has(a, b) implies exists|i: int| 0 <= i < n + 1 && s[i] == (a as usize, b as usize) by {
            if h0.has(a, b) {
                let i = choose|i: int| 0 <= i < n && s[i] == (a as usize, b as usize);
                assert(0 <= i < n + 1 && s[i] == (a as usize, b as usize));
            } else {
                assert(s[n] == (a as usize, b as usize));
            }
        }
        assert forall|x: int| #[trigger] h1.verts().contains(x) == (0 <= x < order || mc_fd_tail_upto(s, n + 1, x)) by {
            if mc_fd_tail_upto(s, n, x) {
                let i = choose|i: int| 0 <= i < n && (#[trigger] s[i]).0 == x;
                assert(0 <= i < n + 1 && s[i].0 == x);
            }
            if x == u { assert(s[n].0 == x); }
            if mc_fd_tail_upto(s, n + 1, x) {
                let i = choose|i: int| 0 <= i < n + 1 && (#[trigger] s[i]).0 == x;
                if i < n { assert(mc_fd_tail_upto(s, n, x)); }
            }
        }
    }
}

/// what from_dg promises (C16)
spec fn mc_fd_result(d: Dg, r: AdjacencyMap) -> bool {
    &&& r.wf()
    &&& mc_dg_heads_ok(d)
    &&& forall|a: int, b: int| #![trigger r.has(a, b)] r.has(a, b) == (mc_is_id(a) && mc_is_id(b) && d.has(a, b))
    &&& forall|x: int| #[trigger] r.verts().contains(x) == (0 <= x < d.ord() || mc_dg_tail(d, x))
    &&& mc_dg_tails_in(d) ==> {
        &&& mc_dg_valid(d)
        &&& r.ord() == d.ord()
        &&& forall|x: int| #[trigger] r.verts().contains(x) == (0 <= x < d.ord())
    }
}

spec fn mc_fd_result_ok(d: Dg, r: AdjacencyMap, s: Seq<(usize, usize)>, order: int) -> bool {
    mc_fd_state(r, s, s.len() as int, order) && mc_arcs_of(d, s) && order == d.ord() ==> mc_fd_result(d, r)
}

/// every item converted: the promised result
proof fn lemma_mc_fd_result(d: Dg, r: AdjacencyMap, s: Seq<(usize, usize)>, order: int)
    ensures mc_fd_result_ok(d, r, s, order),
{
    if mc_fd_state(r, s, s.len() as int, order) && mc_arcs_of(d, s) && order == d.ord() {
        broadcast use lemma_map_verts_contains;
        let n = s.len() as int;
        assert forall|u: int, v: int| mc_is_id(u) && mc_is_id(v) && #[trigger] d.has(u, v) implies 0 <= v < d.ord() && u != v && r.has(u, v) by {
            assert(d.has(u as usize as int, v as usize as int));
            assert(s.contains((u as usize, v as usize)));
            let i = choose|i: int| 0 <= i < s.len() && s[i] == (u as usize, v as usize);
            assert(s[i].1 < order && s[i].0 != s[i].1 && r.has(s[i].0 as int, s[i].1 as int));
        }
        assert forall|a: int, b: int| #![trigger r.has(a, b)] r.has(a, b) == (mc_is_id(a) && mc_is_id(b) && d.has(a, b)) by {
            if r.has(a, b) {
                let i = choose|i: int| 0 <= i < n && s[i] == (a as usize, b as usize);
                assert(d.has(s[i].0 as int, s[i].1 as int));
            }
        }
        assert forall|x: int| #[trigger] r.verts().contains(x) == (0 <= x < d.ord() || mc_dg_tail(d, x)) by {
            if mc_fd_tail_upto(s, n, x) {
                let i = choose|i: int| 0 <= i < n && (#[trigger] s[i]).0 == x;
                assert(d.has(s[i].0 as int, s[i].1 as int));
                assert(mc_is_id(s[i].1 as int));
            }
            if mc_dg_tail(d, x) {
                let b = choose|b: int| mc_is_id(b) && #[trigger] d.has(x, b);
                assert(d.has(x as usize as int, b as usize as int));
                assert(s.contains((x as usize, b as usize)));
                let i = choose|i: int| 0 <= i < s.len() && s[i] == (x as usize, b as usize);
                assert(s[i].0 == x);
            }
        }
        if mc_dg_tails_in(d) {
            assert forall|x: int| #[trigger] r.verts().contains(x) == (0 <= x < d.ord()) by {
                if mc_dg_tail(d, x) {
                    let b = choose|b: int| mc_is_id(b) && #[trigger] d.has(x, b);
                }
            }
            assert(r.verts() =~= Set::<int>::range(0, order));
            range_set_properties::<int>(0, order);
            lemma_map_verts_len(r);
        }
    }
}

impl AdjacencyMap {
    // No precondition.  The hints are calls of unconditional lemmas only.
    /*@fn impl=AdjacencyMap trait=From name=from rename=from_dg macro=impl_from_arcs_order macroarg=Dg props=C16,C13
    ensures
        mc_fd_result(digraph, r),
    @before `for (u, v)`
        proof {
            assert forall|s: Seq<(usize, usize)>| #![trigger mc_arcs_of(digraph, s)] (h.wf() && 0 < order <= usize::MAX && (forall|x: int| #[trigger] h.verts().contains(x) == (0 <= x < order))
                && (forall|a: int, b: int| #![trigger h.has(a, b)] !h.has(a, b)) ==> mc_fd_state(h, s, 0, order as int)) by { lemma_mc_fd_init(h, s, order as int); }
        }
    @loop 1
    invariant
        it1.iter.obeys_prophetic_iter_laws(),
        it1.iter.decrease() is Some,
        mc_arcs_of(digraph, it1.seq()),
        order == digraph.ord(),
        mc_fd_state(h, it1.seq(), it1.index() as int, order as int),
    @loop_start 1
        let ghost h0 = h;
    @loop_end 1
        proof { lemma_mc_fd_step(h0, h, it1.seq(), it1.index() as int, order as int, u, v); }
    @fn_end
        proof {
            // the loop's ghost iterator is out of scope here: state the conclusion for every item sequence
            assert forall|s: Seq<(usize, usize)>| #![trigger mc_arcs_of(digraph, s)] mc_fd_result_ok(digraph, h, s, order as int) by { lemma_mc_fd_result(digraph, h, s, order as int); }
        }
    @*/
}
