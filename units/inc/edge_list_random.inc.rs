//@file src/repr/edge_list/mod.rs
// ---- C15: seeded random generators of EdgeList, for EVERY value stream of the PRNG (rule E14b: fused collect pipelines) ----

/// some arc of the set leaves vertex a
spec fn set_has_out(s: Set<(usize, usize)>, a: int) -> bool {
    exists|b: int| 0 <= a <= usize::MAX && 0 <= b <= usize::MAX && #[trigger] s.contains((a as usize, b as usize))
}

impl EdgeList {
    /// some arc leaves vertex a
    spec fn has_out(&self, a: int) -> bool { set_has_out(self.arcs@, a) }

    /*@fn trait=Empty name=trivial file=src/gen/empty.rs dropwhere=Self
    ensures
        r.wf(),
        r.ord() == 1,
        forall|a: int, b: int| !r.has(a, b),
    @*/

    /*@fn impl=EdgeList trait=RandomRecursiveTree name=random_recursive_tree loopify=BTreeSet noisolation fuse props=C15,C13
    ensures
        order >= 1,
        r.wf(),
        r.ord() == order,
        // a recursive tree: every vertex u >= 1 has exactly one arc, to a smaller vertex; vertex 0 has none
        forall|a: int, b: int| #![trigger r.has(a, b)] r.has(a, b) ==> 0 <= b < a < order,
        forall|a: int| #![trigger r.has_out(a)] 1 <= a < order ==> r.has_out(a),
        forall|a: int, b: int, c: int| #![trigger r.has(a, b), r.has(a, c)] r.has(a, b) && r.has(a, c) ==> b == c,
    @loop 1
    invariant
        order > 1,
        forall|p: (usize, usize)| #[trigger] vx_acc1@.contains(p) ==> p.1 < p.0 && p.0 < vx_x1,
        forall|a: int| #![trigger set_has_out(vx_acc1@, a)] 1 <= a < vx_x1 ==> set_has_out(vx_acc1@, a),
        // at most one arc per tail: each iteration inserts one arc whose tail vx_x1 is fresh
        forall|p: (usize, usize), q: (usize, usize)| #![trigger vx_acc1@.contains(p), vx_acc1@.contains(q)]
            vx_acc1@.contains(p) && vx_acc1@.contains(q) && p.0 == q.0 ==> p.1 == q.1,
    @loop_start 1
        let ghost acc0 = vx_acc1@;
        let ghost x0 = vx_x1;
    @loop_end 1
        proof { lemma_set_tree_step(acc0, vx_acc1@, x0 as int, vx_s1_1); }
    @*/

    // C15, erdos_renyi: a simple digraph on V = 0..order for EVERY value stream of the PRNG and WHATEVER the f64 comparison
    // `rng.next_f64() < p` returns (hence every seed and every p): `wf` says that every arc joins two distinct vertices of
    // 0..order (vertex set 0..order, no self-loop).  The clauses "p = 0 gives no arc" / "p = 1 gives every arc" CANNOT be
    // stated: f64 comparison and `RangeInclusive<f64>::contains` are uninterpreted in this vstd (they pass through Verus as
    // opaque total operations, exactly as in units/inc/random_more.inc.rs) and `next_f64` is unconstrained.
    // E14/E14b: outer `collect()` -> BTreeSet `vx_acc1` (loops 1, 2), inner `collect::<Vec<_>>()` -> Vec `vx_acc2` (loop 3 over
    // `vx_chain(0..u, (u + 1)..order)`, the `filter` / `map` stages fused into its body).
    /*@fn impl=EdgeList trait=ErdosRenyi name=erdos_renyi loopify=BTreeSet,Vec noisolation fuse wrap=chain props=C15,C13
    ensures
        order >= 1,
        r.wf(),
        r.ord() == order,
    @fn_start
        broadcast use vstd::std_specs::iter::group_iter_axioms;
    @loop 1
    invariant
        order > 0,
        forall|q: (usize, usize)| #[trigger] vx_acc1@.contains(q) ==> q.0 < order && q.1 < order && q.0 != q.1,
    @loop 2
    invariant
        order > 0,
        u < order,
        it2.iter.obeys_prophetic_iter_laws(),
        it2.iter.decrease() is Some,
        row_ok(it2.seq(), u, order),
        forall|q: (usize, usize)| #[trigger] vx_acc1@.contains(q) ==> q.0 < order && q.1 < order && q.0 != q.1,
    @loop_start 2
        assert(vx_x2 == it2.seq()[it2.index@]);
    @loop 3
    invariant
        order > 0,
        u < order,
        it3.iter.obeys_prophetic_iter_laws(),
        it3.iter.decrease() is Some,
        // the candidates v are the vertices other than u
        forall|j: int| 0 <= j < it3.seq().len() ==> #[trigger] it3.seq()[j] < order && it3.seq()[j] != u,
        // (a named predicate also fixes the element type of `Vec::new()`, which rustc must know before the invariant is typed)
        row_ok(vx_acc2@, u, order),
    @loop_start 3
        assert(vx_x3 == it3.seq()[it3.index@]);
    @*/
}

/// every pair of the row collected for vertex u is an arc from u to another vertex of 0..order
spec fn row_ok(s: Seq<(usize, usize)>, u: usize, order: usize) -> bool {
    forall|i: int| 0 <= i < s.len() ==> (#[trigger] s[i]).0 == u && s[i].1 < order && s[i].1 != u
}

/// inserting the arc (u, q) keeps the out-arc witnesses of the earlier vertices and gives u its own
/// (stated as an implication so that a failing premise surfaces at the loop invariant, not at this hint)
proof fn lemma_set_tree_step(s0: Set<(usize, usize)>, s1: Set<(usize, usize)>, u: int, arc: (usize, usize))
    ensures
        (s1 == s0.insert(arc) && arc.0 == u
            && (forall|a: int| #![trigger set_has_out(s0, a)] 1 <= a < u ==> set_has_out(s0, a)))
        ==> (forall|a: int| #![trigger set_has_out(s1, a)] 1 <= a < u + 1 ==> set_has_out(s1, a)),
{
    if s1 == s0.insert(arc) && arc.0 == u
        && (forall|a: int| #![trigger set_has_out(s0, a)] 1 <= a < u ==> set_has_out(s0, a)) {
        assert forall|a: int| #![trigger set_has_out(s1, a)] 1 <= a < u + 1 implies set_has_out(s1, a) by {
            if a < u {
                assert(set_has_out(s0, a));
                let b = choose|b: int| 0 <= a <= usize::MAX && 0 <= b <= usize::MAX && #[trigger] s0.contains((a as usize, b as usize));
                assert(s1.contains((a as usize, b as usize)));
            } else {
                assert(s1.contains((a as usize, arc.1 as int as usize)));
            }
        }
    }
}
