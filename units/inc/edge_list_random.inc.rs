//@file src/repr/edge_list/mod.rs
// ---- C15: seeded random generators of EdgeList, for EVERY value stream of the PRNG (rule E14b: fused collect pipelines) ----

/// some arc of the set leaves vertex a
spec fn set_has_out(s: Set<(usize, usize)>, a: int) -> bool {
    exists|b: int| 0 <= a <= usize::MAX && 0 <= b <= usize::MAX && #[trigger] s.contains((a as usize, b as usize))
}

impl EdgeList {
    /// some arc leaves vertex a
    spec fn has_out(&self, a: int) -> bool { set_has_out(self.arcs@, a) }

    /*@fn trait=Empty name=trivial file=src/gen/empty.rs dropwhere=Self
    ensures
        r.wf(),
        r.ord() == 1,
        forall|a: int, b: int| !r.has(a, b),
    @*/

    /*@fn impl=EdgeList trait=RandomRecursiveTree name=random_recursive_tree loopify=BTreeSet fuse props=C15,C13
    ensures
        order >= 1,
        r.wf(),
        r.ord() == order,
        // a recursive tree: every vertex u >= 1 has exactly one arc, to a smaller vertex; vertex 0 has none
        forall|a: int, b: int| #![trigger r.has(a, b)] r.has(a, b) ==> 0 <= b < a < order,
        forall|a: int| #![trigger r.has_out(a)] 1 <= a < order ==> r.has_out(a),
    @loop 1
    invariant
        order > 1,
        forall|p: (usize, usize)| #[trigger] vx_acc1@.contains(p) ==> p.1 < p.0 && p.0 < vx_x1,
        forall|a: int| #![trigger set_has_out(vx_acc1@, a)] 1 <= a < vx_x1 ==> set_has_out(vx_acc1@, a),
    @*/
}
