//@file src/repr/adjacency_list/mod.rs
// ---- C15: seeded random generators of AdjacencyList, for EVERY value stream of the PRNG, hence every seed (and, for erdos_renyi,
// whatever the f64 comparison `rng.next_f64() < p` returns, hence every p) (rules E14 / E14b: fused collect pipelines) ----
// `empty` / `trivial` and their contracts come from the imported units/inc/list_ops.inc.rs.

/// the set has an element
spec fn set_nonempty(s: Set<usize>) -> bool { exists|x: usize| #[trigger] s.contains(x) }

/// row i of a recursive tree: every out-neighbour is smaller than i (so row 0 is empty), there is at most one, and exactly one for i >= 1
spec fn tree_row(s: Set<usize>, i: int) -> bool {
    &&& forall|x: usize| #[trigger] s.contains(x) ==> x < i
    &&& forall|x: usize, y: usize| #[trigger] s.contains(x) && #[trigger] s.contains(y) ==> x == y
    &&& i >= 1 ==> set_nonempty(s)
}

/// all rows collected so far are rows of a recursive tree
spec fn tree_rows(rows: Seq<BTreeSet<usize>>) -> bool {
    forall|i: int| 0 <= i < rows.len() ==> tree_row(#[trigger] rows[i]@, i)
}

/// row i of a simple digraph on 0..n: every out-neighbour is a vertex other than i
spec fn simple_row(s: Set<usize>, i: int, n: int) -> bool {
    forall|x: usize| #[trigger] s.contains(x) ==> x < n && x != i
}

spec fn simple_rows(rows: Seq<BTreeSet<usize>>, n: int) -> bool {
    forall|i: int| 0 <= i < rows.len() ==> simple_row(#[trigger] rows[i]@, i, n)
}

impl AdjacencyList {
    /// some arc leaves vertex a
    spec fn has_out(&self, a: int) -> bool { exists|b: int| #[trigger] self.has(a, b) }

    /// C15: a recursive tree (the four arc clauses of random_recursive_tree's contract, over the list's own order)
    spec fn tree_list(&self) -> bool {
        &&& self.wf()
        &&& forall|a: int, b: int| #![trigger self.has(a, b)] self.has(a, b) ==> 0 <= b < a < self.ord()
        &&& forall|a: int| #![trigger self.has_out(a)] 1 <= a < self.ord() ==> self.has_out(a)
        &&& forall|a: int, b: int, c: int| #![trigger self.has(a, b), self.has(a, c)] self.has(a, b) && self.has(a, c) ==> b == c
    }

    /*@fn impl=AdjacencyList trait=RandomRecursiveTree name=random_recursive_tree loopify=Vec noisolation fuse wrap=fn:once props=C15,C13
    ensures
        order >= 1,
        r.wf(),
        r.ord() == order,
        // a recursive tree: vertex 0 has no out-arc, every vertex u >= 1 has exactly one, to a vertex smaller than u
        forall|a: int, b: int| #![trigger r.has(a, b)] r.has(a, b) ==> 0 <= b < a < order,
        forall|a: int| #![trigger r.has_out(a)] 1 <= a < order ==> r.has_out(a),
        forall|a: int, b: int, c: int| #![trigger r.has(a, b), r.has(a, c)] r.has(a, b) && r.has(a, c) ==> b == c,
    @fn_start
        proof {
            broadcast use vstd::laws_cmp::group_laws_cmp;
            assert(vstd::laws_cmp::obeys_cmp::<usize>());
            // the list is the tail expression: its contract is derived from the collected rows for any candidate result
            assert forall|g: AdjacencyList| #[trigger] tree_rows(g.arcs@) && g.arcs@.len() > 0 implies g.tree_list() by {
                lemma_list_tree_rows(g);
            }
        }
    @loop 1
    invariant
        order > 1,
        it1.iter.obeys_prophetic_iter_laws(),
        it1.iter.decrease() is Some,
        it1.seq().len() == 1,
        it1.seq()[0]@ == Set::<usize>::empty(),
        vx_acc1@.len() == it1.index(),
        tree_rows(vx_acc1@),
    @loop 2
    invariant
        order > 1,
        vstd::laws_cmp::obeys_cmp::<usize>(),
        vx_acc1@.len() == vx_x2,
        tree_rows(vx_acc1@),
    @loop_end 2
        // the row just built, `BTreeSet::from([x % u])`, is the set of the one-element array
        proof {
            // a one-element array has its element in its set (witness for `set_nonempty`)
            assert forall|a: Seq<usize>| a.len() == 1 implies (#[trigger] a.to_set()).contains(a[0]) by {
                assert(a.contains(a[0]));
            }
        }
    @*/

    // C15 for erdos_renyi: "a digraph with vertex set 0..order and no self-loops" is `r.ord() == order && r.wf()` (wf: every arc
    // joins two DISTINCT vertices of 0..order).  The clauses "no arcs when p = 0 and all arcs when p = 1" cannot be stated in this
    // vstd: `f64` comparison (`rng.next_f64() < p`) and `RangeInclusive<f64>::contains` are uninterpreted, and the stream's
    // `next_f64` is left unconstrained (its [0, 1) range is the Kani half of C15).  What IS proved holds for every outcome of
    // every comparison, hence for every p and every seed.  "panics for p outside [0, 1]" is the `assert!` kept as a `vpanic()` site.
    /*@fn impl=AdjacencyList trait=ErdosRenyi name=erdos_renyi loopify=Vec,BTreeSet noisolation fuse wrap=chain props=C15,C13
    ensures
        order >= 1,
        r.wf(),
        r.ord() == order,
    @fn_start
        proof {
            // the list is the tail expression: well-formedness is derived from the collected rows for any candidate result
            assert forall|g: AdjacencyList| #[trigger] simple_rows(g.arcs@, g.arcs@.len() as int) && g.arcs@.len() > 0 implies g.wf() by {
                lemma_list_simple_rows(g);
            }
        }
    @loop 1
    invariant
        order > 1,
        vx_acc1@.len() == vx_x1,
        simple_rows(vx_acc1@, order as int),
    @loop 2
    invariant
        order > 1,
        u < order,
        it2.iter.obeys_prophetic_iter_laws(),
        it2.iter.decrease() is Some,
        // the candidates are vertices other than u
        forall|j: int| 0 <= j < it2.seq().len() ==> #[trigger] it2.seq()[j] < order && it2.seq()[j] != u,
        simple_row(vx_acc2@, u as int, order as int),
    @loop_start 2
        assert(vx_x2 == it2.seq()[it2.index@]);
    @*/
}

/// rows of a recursive tree, read as the arc relation of the list
proof fn lemma_list_tree_rows(g: AdjacencyList)
    ensures
        tree_rows(g.arcs@) && g.arcs@.len() > 0 ==> g.tree_list(),
{
    let rows = g.arcs@;
    if tree_rows(rows) && rows.len() > 0 {
        assert forall|u: int, x: usize| 0 <= u < g.arcs@.len() && #[trigger] g.arcs@[u]@.contains(x) implies x < g.arcs@.len() && x != u by {
            assert(tree_row(rows[u]@, u));
        }
        assert forall|a: int, b: int| #![trigger g.has(a, b)] g.has(a, b) implies 0 <= b < a < rows.len() by {
            assert(tree_row(rows[a]@, a));
            assert(rows[a]@.contains(b as usize));
        }
        assert forall|a: int| #![trigger g.has_out(a)] 1 <= a < rows.len() implies g.has_out(a) by {
            assert(tree_row(rows[a]@, a));
            assert(set_nonempty(rows[a]@));
            let x = choose|x: usize| #[trigger] rows[a]@.contains(x);
            assert(g.has(a, x as int));
        }
        assert forall|a: int, b: int, c: int| #![trigger g.has(a, b), g.has(a, c)] g.has(a, b) && g.has(a, c) implies b == c by {
            assert(tree_row(rows[a]@, a));
            assert(rows[a]@.contains(b as usize) && rows[a]@.contains(c as usize));
        }
    }
}

/// rows of a simple digraph on 0..n, read as the representation invariant of the list
proof fn lemma_list_simple_rows(g: AdjacencyList)
    ensures
        simple_rows(g.arcs@, g.arcs@.len() as int) && g.arcs@.len() > 0 ==> g.wf(),
{
    let rows = g.arcs@;
    if simple_rows(rows, rows.len() as int) && rows.len() > 0 {
        assert forall|u: int, x: usize| 0 <= u < g.arcs@.len() && #[trigger] g.arcs@[u]@.contains(x) implies x < g.arcs@.len() && x != u by {
            assert(simple_row(rows[u]@, u, rows.len() as int));
        }
    }
}
