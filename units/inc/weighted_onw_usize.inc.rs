//@file src/repr/adjacency_list_weighted/mod.rs
// the struct, its specs (ord / row / has / wt / wf), the other methods and `lemma_weighted_increasing`
//@import units/inc/weighted_core.inc.rs

/// `out_neighbors_weighted` at the instance W = usize, the instance used by Dijkstra (properties C03 / C05; opaque type
/// `Dgw` of prelude/dgw_usize.rs).  Unit weighted_core verifies the same generic source function at W = isize; with a generic W
/// Verus cannot discharge the trait bounds of vstd's `Map` adapter axioms.  Same contract, closure annotation and hints,
/// `isize` replaced by `usize`.
impl AdjacencyListWeighted<usize> {
    /*@fn impl=AdjacencyListWeighted trait=OutNeighborsWeighted name=out_neighbors_weighted subst="Iterator<Item=(usize,&Self::Weight)>=>Iterator<Item=(usize,&usize)>" safeindex props=C03,C05,C01,C13
    ensures
        u < self.ord(),
        r.obeys_prophetic_iter_laws(),
        r.decrease() is Some,
        forall|i: int| 0 <= i < r.remaining().len() ==> self.has(u as int, (#[trigger] r.remaining()[i]).0 as int)
            && *r.remaining()[i].1 == self.wt(u as int, r.remaining()[i].0 as int),
        forall|i: int, j: int| 0 <= i < j < r.remaining().len() ==> (#[trigger] r.remaining()[i]).0 < (#[trigger] r.remaining()[j]).0,
        r.will_return_none() ==>
            forall|v: usize| self.has(u as int, v as int) ==> exists|i: int| 0 <= i < r.remaining().len() && (#[trigger] r.remaining()[i]).0 == v,
    @closure 1 |p: (&usize, &usize)| -> (q: (usize, &usize))
    ensures
        q.0 == *p.0,
        q.1 == p.1,
    @fn_start
        broadcast use vstd::std_specs::iter::group_iter_axioms;
        proof {
            // the returned iterator is the tail expression, so the facts about the row's `iter()` item sequence `src` and the
            // mapped item sequence `rem` are stated for every candidate sequence (triggers: terms of the std contracts)
            let m = self.arcs@[u as int]@;
            // ascending: `BTreeMap::iter` promises `increasing_seq` of the key projection `f` of its items
            assert forall|src: Seq<(&usize, &usize)>, f: spec_fn((&usize, &usize)) -> usize, i: int, j: int|
                #[trigger] vstd::std_specs::btree::increasing_seq(src.map_values(f)) && 0 <= i < j < src.len()
                implies f(#[trigger] src[i]) < f(#[trigger] src[j]) by {
                lemma_weighted_increasing(src.map_values(f), i, j);
            }
            assert forall|src: Seq<(&usize, &usize)>, rem: Seq<(usize, &usize)>, v: usize|
                #[trigger] src.contains((&v, &m[v])) && #[trigger] rem.len() == src.len()
                && (forall|k: int| 0 <= k < rem.len() ==> (#[trigger] rem[k]).0 == *src[k].0)
                implies exists|i: int| 0 <= i < rem.len() && (#[trigger] rem[i]).0 == v
            by {
                let i = choose|i: int| 0 <= i < src.len() && src[i] == (&v, &m[v]);
                assert(rem[i].0 == v);
            }
        }
    @*/
}
