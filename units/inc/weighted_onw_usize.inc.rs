//@file src/repr/adjacency_list_weighted/mod.rs
// the struct, its specs (ord / row / has / wt / wf), the other methods and `lemma_weighted_increasing`
//@import units/inc/weighted_core.inc.rs

/// `out_neighbors_weighted` at the instance W = usize, the instance used by Dijkstra (properties C03 / C05; opaque type
/// `Dgw` of prelude/dgw_usize.rs).  Unit weighted_core verifies the same generic source function at W = isize; with a generic W
/// Verus cannot discharge the trait bounds of vstd's `Map` adapter axioms.  Same contract, closure annotation and hints,
/// `isize` replaced by `usize`.
impl AdjacencyListWeighted<usize> {
    /*@fn impl=AdjacencyListWeighted trait=OutNeighborsWeighted name=out_neighbors_weighted subst="Iterator<Item=(usize,&Self::Weight)>=>Iterator<Item=(usize,&usize)>" safeindex props=C03,C05,C01,C13
    ensures
        u < self.ord(),
        r.obeys_prophetic_iter_laws(),
        r.decrease() is Some,
        forall|i: int| 0 <= i < r.remaining().len() ==> self.has(u as int, (#[trigger] r.remaining()[i]).0 as int)
            && *r.remaining()[i].1 == self.wt(u as int, r.remaining()[i].0 as int),
        forall|i: int, j: int| 0 <= i < j < r.remaining().len() ==> (#[trigger] r.remaining()[i]).0 < (#[trigger] r.remaining()[j]).0,
        r.will_return_none() ==>
            forall|v: usize| self.has(u as int, v as int) ==> exists|i: int| 0 <= i < r.remaining().len() && (#[trigger] r.remaining()[i]).0 == v,
    @closure 1 |p: (&usize, &usize)| -> (q: (usize, &usize))
    ensures
        q.0 == *p.0,
        q.1 == p.1,
    @fn_start
        broadcast use vstd::std_specs::iter::group_iter_axioms;
        proof {
            // the returned iterator is the tail expression, so the facts about the row's `iter()` item sequence `src` and the
            // mapped item sequence `rem` are stated for every candidate sequence (triggers: terms of the std contracts)
            let m = self.arcs@[u as int]@;
            // ascending: `BTreeMap::iter` promises `increasing_seq` of the key projection `f` of its items
            assert forall|src: Seq<(&usize, &usize)>, f: spec_fn((&usize, &usize)) -> usize, i: int, j: int|
                #[trigger] vstd::std_specs::btree::increasing_seq(src.map_values(f)) && 0 <= i < j < src.len()
                implies f(#[trigger] src[i]) < f(#[trigger] src[j]) by {
                lemma_weighted_increasing(src.map_values(f), i, j);
            }
            assert forall|src: Seq<(&usize, &usize)>, rem: Seq<(usize, &usize)>, v: usize|
                #[trigger] src.contains((&v, &m[v])) && #[trigger] rem.len() == src.len()
                && (forall|k: int| 0 <= k < rem.len() ==> (#[trigger] rem[k]).0 == *src[k].0)
                implies exists|i: int| 0 <= i < rem.len() && (#[trigger] rem[i]).0 == v
            by {
                let i = choose|i: int| 0 <= i < src.len() && src[i] == (&v, &m[v]);
                assert(rem[i].0 == v);
            }
        }
    @*/
}

// ---- the proved postcondition at W = usize implies the Dgw trait-contract clauses (usize twin of
// `lemma_weighted_meets_out_neighbors_weighted` of units/inc/rep_trait_contracts.inc.rs, which is stated at W = isize) ----

/// the arc relation / weight function of the weighted list as the `has` / `wt` of a trait contract (ord := g.ord());
/// same definitions as in units/inc/rep_trait_contracts.inc.rs
spec fn whas<W>(g: AdjacencyListWeighted<W>) -> spec_fn(int, int) -> bool { |a: int, b: int| g.has(a, b) }
spec fn wwt_usize(g: AdjacencyListWeighted<usize>) -> spec_fn(int, int) -> int { |a: int, b: int| g.wt(a, b) as int }
spec fn val_usize() -> spec_fn(usize) -> int { |w: usize| w as int }

/// OutNeighborsWeighted::out_neighbors_weighted at W = usize (the instance `Dgw`): the hypotheses are exactly the
/// postcondition proved above.  Protocol, no vertex twice, soundness (Dgw clauses 1, 2, 3, 5) unconditionally; coverage
/// (clause 4) under `r.will_return_none()`.
proof fn lemma_weighted_usize_meets_out_neighbors_weighted<'a, I: Iterator<Item = (usize, &'a usize)>>(g: AdjacencyListWeighted<usize>, u: usize, r: I)
    requires
        u < g.ord(),
        r.obeys_prophetic_iter_laws(),
        r.decrease() is Some,
        forall|i: int| 0 <= i < r.remaining().len() ==> g.has(u as int, (#[trigger] r.remaining()[i]).0 as int)
            && *r.remaining()[i].1 == g.wt(u as int, r.remaining()[i].0 as int),
        forall|i: int, j: int| 0 <= i < j < r.remaining().len() ==> (#[trigger] r.remaining()[i]).0 < (#[trigger] r.remaining()[j]).0,
        r.will_return_none() ==>
            forall|v: usize| g.has(u as int, v as int) ==> exists|i: int| 0 <= i < r.remaining().len() && (#[trigger] r.remaining()[i]).0 == v,
    ensures
        tc_iter(r),
        tc_nbw_sound(whas(g), wwt_usize(g), val_usize(), u, r.remaining()),
        r.will_return_none() ==> tc_nbw_cover(whas(g), u, r.remaining()),
{
    let rem = r.remaining();
    assert forall|i: int| 0 <= i < rem.len() implies whas(g)(u as int, (#[trigger] rem[i]).0 as int)
        && val_usize()(*rem[i].1) == wwt_usize(g)(u as int, rem[i].0 as int) by {
        assert(g.has(u as int, rem[i].0 as int));
    }
    if r.will_return_none() {
        assert forall|v: usize| #![trigger whas(g)(u as int, v as int)] whas(g)(u as int, v as int) implies exists|i: int| 0 <= i < rem.len() && (#[trigger] rem[i]).0 == v by {
            assert(g.has(u as int, v as int));
        }
    }
}
