//@file src/repr/edge_list/mod.rs
// ---- C11: EdgeList::complement (rules E14 / E14b / E14c: both collects become accumulator loops, map / copied stages fused) ----

impl EdgeList {
    /*@fn impl=EdgeList trait=Complement name=complement loopify=BTreeSet fuse wrap=chain props=C11,C13
    requires
        self.wf(),
    ensures
        r.wf(),
        r.ord() == self.ord(),
        forall|a: int, b: int| #![trigger r.has(a, b)] r.has(a, b) == (0 <= a < self.ord() && 0 <= b < self.ord() && a != b && !self.has(a, b)),
    @*/
}
