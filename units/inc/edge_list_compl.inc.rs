//@file src/repr/edge_list/mod.rs
// ---- C11: EdgeList::complement (rules E14 / E14b / E14c: both collects become accumulator loops, map / copied stages fused) ----

/// the j-th item of `(0..u).chain((u + 1)..n)`: the range 0..n with u left out
spec fn compl_skip_idx(u: int, j: int) -> int { if j < u { j } else { j + 1 } }

/// the first n items of s are all in acc (named trigger for loop 3)
spec fn compl_covered(s: Seq<(usize, usize)>, n: int, acc: Set<(usize, usize)>) -> bool {
    forall|i: int| 0 <= i < n && i < s.len() ==> acc.contains(#[trigger] s[i])
}

/// once every item is covered, the set of items is included in acc (fires after loop 3, where no hint can be placed)
broadcast proof fn lemma_compl_covered_all(s: Seq<(usize, usize)>, n: int, acc: Set<(usize, usize)>)
    requires
        #[trigger] compl_covered(s, n, acc),
        n >= s.len(),
    ensures
        s.to_set().subset_of(acc),
{
    assert forall|p: (usize, usize)| s.to_set().contains(p) implies acc.contains(p) by {
        assert(s.contains(p));
        let i = choose|i: int| 0 <= i < s.len() && s[i] == p;
        assert(acc.contains(s[i]));
    }
}

impl EdgeList {
    /*@fn impl=EdgeList trait=Complement name=complement loopify=BTreeSet noisolation fuse wrap=chain props=C11,C13
    requires
        self.wf(),
    ensures
        r.wf(),
        r.ord() == self.ord(),
        forall|a: int, b: int| #![trigger r.has(a, b)] r.has(a, b) == (0 <= a < self.ord() && 0 <= b < self.ord() && a != b && !self.has(a, b)),
    @fn_start
        broadcast use {vstd::std_specs::iter::group_iter_axioms, lemma_compl_covered_all};
        assert(vstd::std_specs::btree::key_obeys_cmp_spec::<(usize, usize)>());
    @loop 1
    invariant
        order == self.order,
        order > 0,
        forall|p: (usize, usize)| #[trigger] vx_acc2@.contains(p) == (p.0 < u && p.1 < order && p.0 != p.1),
    @loop 2
    invariant
        order == self.order,
        order > 0,
        u < order,
        it2.iter.obeys_prophetic_iter_laws(),
        it2.iter.decrease() is Some,
        it2.seq().len() <= order - 1,
        it2.iter.will_return_none() ==> it2.seq().len() == order - 1,
        forall|j: int| 0 <= j < it2.seq().len() ==> #[trigger] it2.seq()[j] == compl_skip_idx(u as int, j) as usize,
        forall|p: (usize, usize)| #[trigger] vx_acc2@.contains(p) == ((p.0 < u && p.1 < order && p.0 != p.1) || (p.0 == u && p.1 != u && p.1 < compl_skip_idx(u as int, it2.index() as int))),
    @loop_start 2
        assert(vx_x2 == it2.seq()[it2.index@]);
    @loop 3
    invariant
        order == self.order,
        order > 0,
        it3.iter.obeys_prophetic_iter_laws(),
        it3.iter.decrease() is Some,
        it3.seq().unref().to_set() == vx_tmp1@.difference(self.arcs@),
        forall|p: (usize, usize)| #[trigger] vx_tmp1@.contains(p) == (p.0 < order && p.1 < order && p.0 != p.1),
        forall|p: (usize, usize)| #[trigger] vx_acc1@.contains(p) ==> vx_tmp1@.contains(p) && !self.arcs@.contains(p),
        compl_covered(it3.seq().unref(), it3.index() as int, vx_acc1@),
    @loop_start 3
        assert(vx_x3 == it3.seq()[it3.index@]);
        assert(*vx_x3 == it3.seq().unref()[it3.index@]);
        assert(it3.seq().unref().contains(it3.seq().unref()[it3.index@]));
        assert(it3.seq().unref().to_set().contains(*vx_x3));
    @*/
}
