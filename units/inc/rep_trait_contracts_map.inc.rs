//@file src/repr/adjacency_map/mod.rs
// ---- Closing trait-contract assumptions, AdjacencyMap part 2: the methods under contract in unit map_more ----
// (part 1 - wf, order, has_arc, outdegree - is in unit rep_trait_contracts; the `tc_*` predicates are the shared text
// units/inc/rep_trait_contracts_tc.inc.rs, proved equal to the Dg / Dgo ensures texts there)

// ---- AdjacencyMap (unit map_more).  As in unit rep_trait_contracts: the vertex set of an AdjacencyMap is its KEY SET, the
// opaque types model V = 0..ord, so the lemmas carry the hypothesis `map_contiguous(g)` (keys == 0..ord) ----
mod map_more_side {
use super::*;
//@import units/inc/map_core.inc.rs
//@import units/inc/map_more.inc.rs

/// the arc relation of the map as the `has` of a trait contract (ord := g.ord())
spec fn phas(g: AdjacencyMap) -> spec_fn(int, int) -> bool { |a: int, b: int| g.has(a, b) }

/// the vertex ids are exactly 0..ord
spec fn map_contiguous(g: AdjacencyMap) -> bool {
    forall|k: usize| #[trigger] g.arcs@.contains_key(k) == (k < g.ord())
}

/// OutNeighbors::out_neighbors (proved in map_more: `self.verts().contains(u as int)` - u outside V panics -, protocol,
/// every item an out-neighbour, every out-neighbour an item, strictly ascending, no repeats).  ALL data clauses of Dg / Dgo
/// follow unconditionally, for ANY map; contiguity is only needed to read "u in V" as `u < ord`.
proof fn lemma_map_meets_out_neighbors<I: Iterator<Item = usize>>(g: AdjacencyMap, u: usize, r: I)
    requires
        g.verts().contains(u as int),
        r.obeys_prophetic_iter_laws(),
        r.decrease() is Some,
        forall|i: int| 0 <= i < r.remaining().len() ==> g.has(u as int, #[trigger] r.remaining()[i] as int),
        forall|v: int| #[trigger] g.has(u as int, v) ==> r.remaining().contains(v as usize),
        forall|i: int, j: int| 0 <= i < j < r.remaining().len() ==> r.remaining()[i] < r.remaining()[j],
        r.remaining().no_duplicates(),
    ensures
        tc_iter(r),
        tc_nb_sound(phas(g), u, r.remaining()),
        tc_nb_cover(phas(g), u, r.remaining()),
        map_contiguous(g) ==> u < g.ord(),
{
    let rem = r.remaining();
    assert forall|i: int| 0 <= i < rem.len() implies phas(g)(u as int, #[trigger] rem[i] as int) by {
        assert(g.has(u as int, rem[i] as int));
    }
    assert forall|v: usize| phas(g)(u as int, v as int) implies #[trigger] rem.contains(v) by {
        assert(g.has(u as int, v as int));
        assert(rem.contains((v as int) as usize));
    }
    lemma_map_verts_contains(g, u as int);
}

/// Indegree::indegree (proved in map_more: `self.verts().contains(v as int)`, `r == self.indeg(v as int)`, the number of KEYS a
/// with has(a, v)).  For a contiguous map that is the cardinality of Dgo (vertices below ord with has(a, v)).
proof fn lemma_map_meets_indegree(g: AdjacencyMap, v: usize, r: usize)
    requires map_contiguous(g), g.verts().contains(v as int), r == g.indeg(v as int),
    ensures tc_indegree(g.ord() as nat, phas(g), v, r),
{
    lemma_map_verts_contains(g, v as int);
    let keys = g.in_keys(v as int);
    let ins = tc_in_set(g.ord() as nat, phas(g), v as int);
    let f = |x: usize| x as int;
    range_set_properties::<int>(0, g.ord());
    assert(g.arcs@.dom().finite());
    lemma_len_subset(keys, g.arcs@.dom());
    assert(keys.finite());
    assert(keys.injective_on(f));
    assert(keys.map(f) =~= ins) by {
        assert forall|b: int| #![auto] keys.map(f).contains(b) == ins.contains(b) by {
            keys.lemma_map_contains(f, b);
            if ins.contains(b) {
                assert(phas(g)(b, v as int));
                assert(g.has(b, v as int));
                assert(g.arcs@.dom().contains(b as usize));
                assert(keys.contains(b as usize) && f(b as usize) == b);
            }
            if keys.map(f).contains(b) {
                let a = choose|a: usize| keys.contains(a) && b == f(a);
                assert(g.arcs@.contains_key(a));
                assert(g.has(a as int, v as int));
                assert(phas(g)(b, v as int));
            }
        }
    }
    lemma_map_size(keys, ins, f);
}

/// Vertices::vertices (proved in map_more: protocol, `mm_is_key_seq(self.arcs@.dom(), r.remaining())` - the items list the
/// key set strictly ascending, each once -, `r.remaining().len() == self.ord()`).  For a contiguous map that listing is
/// 0, 1, .., ord-1: the ensures of Dg::vertices / Dgi::vertices / Dgo::vertices.
proof fn lemma_map_meets_vertices<I: Iterator<Item = usize>>(g: AdjacencyMap, r: I, n: usize)
    requires
        map_contiguous(g),
        n == g.ord(),   // postcondition of `order()`: the order fits usize
        r.obeys_prophetic_iter_laws(),
        r.decrease() is Some,
        mm_is_key_seq(g.arcs@.dom(), r.remaining()),
        r.remaining().len() == g.ord(),
    ensures
        tc_iter(r),
        tc_vertices(g.ord() as nat, r.remaining()),
        tc_vertices_o(g.ord() as nat, r.remaining()),
{
    let rem = r.remaining();
    assert forall|x: usize| #[trigger] rem.contains(x) == (x < g.ord() as nat) by {
        assert(rem.contains(x) == rem.to_set().contains(x));
        assert(g.arcs@.dom().contains(x) == g.arcs@.contains_key(x));
    }
    lemma_asc_initial(rem, g.ord() as nat);
    assert(rem =~= vertex_seq(g.ord() as nat));
}
} // mod map_more_side
