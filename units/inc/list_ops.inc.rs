//@file src/repr/adjacency_list/mod.rs
// ---- merge_two_sorted (helper of the threaded `union`): merging two strictly increasing slices ----

spec fn strictly_inc(s: Seq<usize>) -> bool {
    forall|a: int, b: int| 0 <= a < b < s.len() ==> s[a] < s[b]
}

/// loop invariant of the merge: `out` is strictly increasing, holds exactly l[..i] and r[..j], and lies below both cursors
spec fn merged(out: Seq<usize>, l: Seq<usize>, r: Seq<usize>, i: int, j: int) -> bool {
    &&& 0 <= i <= l.len() && 0 <= j <= r.len()
    &&& strictly_inc(out)
    &&& forall|k: int| 0 <= k < out.len() ==> (exists|a: int| 0 <= a < i && l[a] == #[trigger] out[k]) || (exists|b: int| 0 <= b < j && r[b] == out[k])
    &&& forall|a: int| 0 <= a < i ==> out.contains(#[trigger] l[a])
    &&& forall|b: int| 0 <= b < j ==> out.contains(#[trigger] r[b])
    &&& forall|k: int| 0 <= k < out.len() ==> (i < l.len() ==> #[trigger] out[k] < l[i]) && (j < r.len() ==> out[k] < r[j])
}

/// pushing x (the smaller cursor element) keeps the invariant; di/dj say which cursors advance
proof fn lemma_merge_push(out: Seq<usize>, l: Seq<usize>, r: Seq<usize>, i: int, j: int, x: usize, di: int, dj: int)
    requires
        merged(out, l, r, i, j), strictly_inc(l), strictly_inc(r),
        (di == 0 || di == 1) && (dj == 0 || dj == 1) && di + dj >= 1,
        di == 1 ==> i < l.len() && l[i] == x,
        dj == 1 ==> j < r.len() && r[j] == x,
        di == 0 && i < l.len() ==> x < l[i],
        dj == 0 && j < r.len() ==> x < r[j],
    ensures
        merged(out.push(x), l, r, i + di, j + dj),
{
    let o2 = out.push(x);
    assert forall|k: int| 0 <= k < o2.len() implies (exists|a: int| 0 <= a < i + di && l[a] == #[trigger] o2[k]) || (exists|b: int| 0 <= b < j + dj && r[b] == o2[k]) by {
        if k < out.len() {
            assert(o2[k] == out[k]);
            if exists|a: int| 0 <= a < i && l[a] == out[k] {
                let a = choose|a: int| 0 <= a < i && l[a] == out[k];
                assert(0 <= a < i + di && l[a] == o2[k]);
            } else {
                let b = choose|b: int| 0 <= b < j && r[b] == out[k];
                assert(0 <= b < j + dj && r[b] == o2[k]);
            }
        } else {
            if di == 1 { assert(0 <= i < i + di && l[i] == o2[k]); } else { assert(0 <= j < j + dj && r[j] == o2[k]); }
        }
    }
    assert forall|a: int| 0 <= a < i + di implies o2.contains(#[trigger] l[a]) by {
        if a < i {
            let k = choose|k: int| 0 <= k < out.len() && out[k] == l[a];
            assert(o2[k] == l[a]);
        } else {
            assert(o2[out.len() as int] == l[a]);
        }
    }
    assert forall|b: int| 0 <= b < j + dj implies o2.contains(#[trigger] r[b]) by {
        if b < j {
            let k = choose|k: int| 0 <= k < out.len() && out[k] == r[b];
            assert(o2[k] == r[b]);
        } else {
            assert(o2[out.len() as int] == r[b]);
        }
    }
    assert forall|k: int| 0 <= k < o2.len() implies (i + di < l.len() ==> #[trigger] o2[k] < l[i + di]) && (j + dj < r.len() ==> o2[k] < r[j + dj]) by {
        if k < out.len() { assert(o2[k] == out[k]); }
    }
    assert(strictly_inc(o2)) by {
        assert forall|a: int, b: int| 0 <= a < b < o2.len() implies o2[a] < o2[b] by {
            if b < out.len() { assert(o2[a] == out[a] && o2[b] == out[b]); } else { assert(o2[a] == out[a]); }
        }
    }
}

/// at the end of the merge the output holds exactly the union
proof fn lemma_merge_done(out: Seq<usize>, l: Seq<usize>, r: Seq<usize>)
    requires merged(out, l, r, l.len() as int, r.len() as int),
    ensures forall|x: usize| out.contains(x) == (l.contains(x) || r.contains(x)),
{
    assert forall|x: usize| out.contains(x) == (l.contains(x) || r.contains(x)) by {
        if out.contains(x) {
            let k = choose|k: int| 0 <= k < out.len() && out[k] == x;
            assert((exists|a: int| 0 <= a < l.len() && l[a] == out[k]) || (exists|b: int| 0 <= b < r.len() && r[b] == out[k]));
        }
        if l.contains(x) {
            let a = choose|a: int| 0 <= a < l.len() && l[a] == x;
            assert(out.contains(l[a]));
        }
        if r.contains(x) {
            let b = choose|b: int| 0 <= b < r.len() && r[b] == x;
            assert(out.contains(r[b]));
        }
    }
}

// `lhs.len() + rhs.len()` cannot overflow in Rust (a slice of usize has at most isize::MAX / 8 elements); Verus does not
// know the allocation bound, so it is a precondition here.
/*@fn name=merge_two_sorted props=C11,C13
requires
    strictly_inc(lhs@),
    strictly_inc(rhs@),
    lhs@.len() + rhs@.len() <= usize::MAX,
ensures
    strictly_inc(r@),
    forall|x: usize| r@.contains(x) == (lhs@.contains(x) || rhs@.contains(x)),
@loop 1
invariant
    lhs_len == lhs@.len(),
    rhs_len == rhs@.len(),
    strictly_inc(lhs@),
    strictly_inc(rhs@),
    merged(out@, lhs@, rhs@, i as int, j as int),
decreases
    lhs_len - i + rhs_len - j,
@loop 2
invariant
    strictly_inc(lhs@),
    strictly_inc(rhs@),
    i == lhs@.len() || j == rhs@.len(),
    merged(out@, lhs@, rhs@, i as int, j as int),
decreases
    lhs@.len() - i,
@loop 3
invariant
    strictly_inc(lhs@),
    strictly_inc(rhs@),
    i == lhs@.len(),
    merged(out@, lhs@, rhs@, i as int, j as int),
decreases
    rhs@.len() - j,
@before #1 `out.push(a_i);`
    proof { lemma_merge_push(out@, lhs@, rhs@, i as int, j as int, a_i, 1, 0); }
@before `out.push(b_j);`
    proof { lemma_merge_push(out@, lhs@, rhs@, i as int, j as int, b_j, 0, 1); }
@before #2 `out.push(a_i);`
    proof { lemma_merge_push(out@, lhs@, rhs@, i as int, j as int, a_i, 1, 1); }
@before `out.push(*lhs.get_unchecked(i));`
    proof { lemma_merge_push(out@, lhs@, rhs@, i as int, j as int, lhs@[i as int], 1, 0); }
@before `out.push(*rhs.get_unchecked(j));`
    proof { lemma_merge_push(out@, lhs@, rhs@, i as int, j as int, rhs@[j as int], 0, 1); }
@fn_end
    proof { lemma_merge_done(out@, lhs@, rhs@); }
@*/

// ---- C12 definitions (same wording as units/inc/matrix_ops.inc.rs) ----

/// the unordered pair {u, v} is joined by exactly one arc
spec fn joined_once(g: AdjacencyList, u: int, v: int) -> bool { g.has(u, v) != g.has(v, u) }

/// C12: every unordered pair of distinct vertices is joined by exactly one arc
spec fn tournament(g: AdjacencyList) -> bool {
    forall|u: int, v: int| 0 <= u < g.ord() && 0 <= v < g.ord() && u != v ==> #[trigger] joined_once(g, u, v)
}

/// what the inner loop of is_tournament decides for one u
spec fn row_joined_once(g: AdjacencyList, u: int) -> bool {
    forall|v: int| u < v < g.ord() ==> #[trigger] joined_once(g, u, v)
}

proof fn lemma_tournament_rows(g: AdjacencyList)
    ensures tournament(g) == (forall|u: int| 0 <= u < g.ord() ==> #[trigger] row_joined_once(g, u)),
{
    if forall|u: int| 0 <= u < g.ord() ==> #[trigger] row_joined_once(g, u) {
        assert forall|u: int, v: int| 0 <= u < g.ord() && 0 <= v < g.ord() && u != v implies #[trigger] joined_once(g, u, v) by {
            if u < v { assert(row_joined_once(g, u)); } else { assert(row_joined_once(g, v)); assert(joined_once(g, v, u)); }
        }
    }
}

// ---- counting over an abstract arc set: the number of unordered pairs of n vertices is n(n-1)/2 ----

/// the pairs (0, b), .., (k-1, b)
spec fn column(k: int, b: int) -> Set<(int, int)> { Set::<int>::range(0, k).map(|a: int| (a, b)) }

/// the unordered pairs of 0..n, coded as (a, b) with a < b
spec fn upper_pairs(n: int) -> Set<(int, int)>
    decreases n,
{
    if n <= 1 { Set::empty() } else { upper_pairs(n - 1) + column(n - 1, n - 1) }
}

proof fn lemma_column(k: int, b: int)
    requires k >= 0,
    ensures column(k, b).len() == k, forall|p: (int, int)| #[trigger] column(k, b).contains(p) == (0 <= p.0 < k && p.1 == b),
{
    let rn = Set::<int>::range(0, k);
    vstd::set_lib::range_set_properties::<int>(0, k);
    let g = |a: int| (a, b);
    assert(rn.injective_on(g)) by {
        assert forall|x1: int, x2: int| rn.contains(x1) && rn.contains(x2) && g(x1) == g(x2) implies x1 == x2 by {}
    }
    assert forall|p: (int, int)| #[trigger] column(k, b).contains(p) == (0 <= p.0 < k && p.1 == b) by {
        rn.lemma_map_contains(g, p);
        if 0 <= p.0 < k && p.1 == b { assert(rn.contains(p.0) && g(p.0) == p); }
    }
    vstd::set_lib::lemma_map_size(rn, column(k, b), g);
}

proof fn lemma_upper_pairs(n: int)
    requires n >= 0,
    ensures
        upper_pairs(n).len() * 2 == n * n - n,
        forall|p: (int, int)| #[trigger] upper_pairs(n).contains(p) == (0 <= p.0 < p.1 < n),
    decreases n,
{
    if n <= 1 {
        assert(n * n - n == 0) by (nonlinear_arith) requires n == 0 || n == 1;
        assert(upper_pairs(n).len() == 0);
    } else {
        lemma_upper_pairs(n - 1);
        lemma_column(n - 1, n - 1);
        let prev = upper_pairs(n - 1);
        let col = column(n - 1, n - 1);
        assert(prev.disjoint(col));
        vstd::set_lib::lemma_set_disjoint_lens(prev, col);
        assert(upper_pairs(n) == prev + col);
        assert(upper_pairs(n).len() == prev.len() + (n - 1));
        assert((n - 1) * (n - 1) - (n - 1) + 2 * (n - 1) == n * n - n) by (nonlinear_arith);
    }
}

/// the arc set is inside V x V minus the diagonal
spec fn arcs_in_range(n: int, arcs: Set<(int, int)>) -> bool {
    forall|p: (int, int)| #[trigger] arcs.contains(p) ==> 0 <= p.0 < n && 0 <= p.1 < n && p.0 != p.1
}
spec fn set_joined(arcs: Set<(int, int)>, u: int, v: int) -> bool { arcs.contains((u, v)) || arcs.contains((v, u)) }
spec fn set_joined_once(arcs: Set<(int, int)>, u: int, v: int) -> bool { arcs.contains((u, v)) != arcs.contains((v, u)) }
spec fn set_semicomplete(n: int, arcs: Set<(int, int)>) -> bool {
    forall|u: int, v: int| 0 <= u < n && 0 <= v < n && u != v ==> #[trigger] set_joined(arcs, u, v)
}
spec fn set_tournament(n: int, arcs: Set<(int, int)>) -> bool {
    forall|u: int, v: int| 0 <= u < n && 0 <= v < n && u != v ==> #[trigger] set_joined_once(arcs, u, v)
}
/// the arc chosen for the unordered pair p = (a, b), a < b: a -> b if present, else b -> a
spec fn pair_arc(arcs: Set<(int, int)>, p: (int, int)) -> (int, int) { if arcs.contains(p) { p } else { (p.1, p.0) } }

/// semicomplete ==> at least one arc per unordered pair ==> |A| >= n(n-1)/2;  tournament ==> exactly one ==> |A| == n(n-1)/2
proof fn lemma_set_pair_count(n: int, arcs: Set<(int, int)>)
    requires n >= 1, arcs_in_range(n, arcs),
    ensures
        set_semicomplete(n, arcs) ==> arcs.len() * 2 >= n * n - n,
        set_tournament(n, arcs) ==> arcs.len() * 2 == n * n - n,
{
    let u = upper_pairs(n);
    let f = |p: (int, int)| pair_arc(arcs, p);
    lemma_upper_pairs(n);
    if set_tournament(n, arcs) {
        assert forall|a: int, b: int| 0 <= a < n && 0 <= b < n && a != b implies #[trigger] set_joined(arcs, a, b) by {
            assert(set_joined_once(arcs, a, b));
        }
    }
    if set_semicomplete(n, arcs) {
        assert(u.injective_on(f)) by {
            assert forall|x1: (int, int), x2: (int, int)| u.contains(x1) && u.contains(x2) && f(x1) == f(x2) implies x1 == x2 by {}
        }
        let img = u.map(f);
        assert(img.subset_of(arcs)) by {
            assert forall|q: (int, int)| img.contains(q) implies arcs.contains(q) by {
                u.lemma_map_contains(f, q);
                let p = choose|p: (int, int)| u.contains(p) && q == f(p);
                assert(set_joined(arcs, p.0, p.1));
            }
        }
        vstd::set_lib::lemma_map_size(u, img, f);
        vstd::set_lib::lemma_len_subset(img, arcs);
        if set_tournament(n, arcs) {
            assert(arcs.subset_of(img)) by {
                assert forall|q: (int, int)| arcs.contains(q) implies img.contains(q) by {
                    u.lemma_map_contains(f, q);
                    if q.0 < q.1 {
                        assert(u.contains(q) && f(q) == q);
                    } else {
                        let t = (q.1, q.0);
                        assert(set_joined_once(arcs, q.0, q.1));
                        assert(u.contains(t) && f(t) == q);
                    }
                }
            }
            assert(arcs =~= img);
        }
    }
}


// ---- the number of arcs of a list: sum of the row sizes = size of the arc set ----

/// |row 0| + .. + |row k-1|
spec fn rows_sum(g: AdjacencyList, k: int) -> int
    decreases k,
{
    if k <= 0 { 0 } else { rows_sum(g, k - 1) + g.arcs@[k - 1]@.len() }
}

/// the arcs leaving u, as pairs
spec fn row_pairs(g: AdjacencyList, u: int) -> Set<(int, int)> { g.arcs@[u]@.map(|x: usize| (u, x as int)) }

/// the arcs leaving 0..k
spec fn arcs_upto(g: AdjacencyList, k: int) -> Set<(int, int)>
    decreases k,
{
    if k <= 0 { Set::empty() } else { arcs_upto(g, k - 1) + row_pairs(g, k - 1) }
}

proof fn lemma_row_pairs(g: AdjacencyList, u: int)
    requires 0 <= u < g.ord(),
    ensures
        row_pairs(g, u).len() == g.arcs@[u]@.len(),
        forall|p: (int, int)| #[trigger] row_pairs(g, u).contains(p) == (p.0 == u && g.has(p.0, p.1)),
{
    let row = g.arcs@[u]@;
    let f = |x: usize| (u, x as int);
    assert(row.injective_on(f)) by {
        assert forall|x1: usize, x2: usize| row.contains(x1) && row.contains(x2) && f(x1) == f(x2) implies x1 == x2 by {}
    }
    assert forall|p: (int, int)| #[trigger] row_pairs(g, u).contains(p) == (p.0 == u && g.has(p.0, p.1)) by {
        row.lemma_map_contains(f, p);
        if p.0 == u && g.has(p.0, p.1) { assert(row.contains(p.1 as usize) && f(p.1 as usize) == p); }
    }
    vstd::set_lib::lemma_map_size(row, row_pairs(g, u), f);
}

/// faithfulness of the count: the arc set of rows 0..k has rows_sum(k) elements and is exactly the relation `has` there
proof fn lemma_arcs_upto(g: AdjacencyList, k: int)
    requires 0 <= k <= g.ord(),
    ensures
        arcs_upto(g, k).len() == rows_sum(g, k),
        forall|p: (int, int)| #[trigger] arcs_upto(g, k).contains(p) == (0 <= p.0 < k && g.has(p.0, p.1)),
    decreases k,
{
    if k > 0 {
        lemma_arcs_upto(g, k - 1);
        lemma_row_pairs(g, k - 1);
        let prev = arcs_upto(g, k - 1);
        let row = row_pairs(g, k - 1);
        assert(prev.disjoint(row));
        vstd::set_lib::lemma_set_disjoint_lens(prev, row);
        assert(arcs_upto(g, k) == prev + row);
    }
}

/// the counting fact at the list: a tournament has exactly n(n-1)/2 arcs
proof fn lemma_pair_count(g: AdjacencyList)
    requires g.wf(),
    ensures
        tournament(g) ==> rows_sum(g, g.ord()) * 2 == g.ord() * g.ord() - g.ord(),
{
    let n = g.ord();
    let arcs = arcs_upto(g, n);
    lemma_arcs_upto(g, n);
    lemma_list_wf_has(g);
    assert(arcs_in_range(n, arcs)) by {
        assert forall|p: (int, int)| #[trigger] arcs.contains(p) implies 0 <= p.0 < n && 0 <= p.1 < n && p.0 != p.1 by {
            assert(g.has(p.0, p.1));
        }
    }
    if tournament(g) {
        assert forall|u: int, v: int| 0 <= u < n && 0 <= v < n && u != v implies #[trigger] set_joined_once(arcs, u, v) by {
            assert(joined_once(g, u, v));
        }
    }
    lemma_set_pair_count(n, arcs);
}

/// s lists the sizes of the rows
spec fn row_sizes(g: AdjacencyList, s: Seq<usize>) -> bool {
    s.len() == g.arcs@.len() && forall|k: int| 0 <= k < s.len() ==> #[trigger] s[k] == g.arcs@[k]@.len()
}

/// the sum of the first k row sizes is `rows_sum` (list_ops) and at most k * (n - 1): a row of a well-formed list avoids its own vertex
proof fn lemma_row_sizes_sum(g: AdjacencyList, s: Seq<usize>, k: int)
    requires g.wf(), row_sizes(g, s), 0 <= k <= s.len(), g.ord() <= usize::MAX,
    ensures seq_sum(s.take(k)) == rows_sum(g, k), 0 <= rows_sum(g, k) <= k * (g.ord() - 1),
    decreases k
{
    if k > 0 {
        lemma_row_sizes_sum(g, s, k - 1);
        assert(s.take(k).drop_last() =~= s.take(k - 1));
        assert(s.take(k).last() == s[k - 1]);
        let n = g.arcs@.len();
        let row = g.arcs@[k - 1]@;
        lemma_below(n);
        let full = below(n).remove((k - 1) as usize);
        assert(row.subset_of(full));
        vstd::set_lib::lemma_len_subset(row, full);
        assert(k * (g.ord() - 1) == (k - 1) * (g.ord() - 1) + (g.ord() - 1)) by (nonlinear_arith);
    } else {
        assert(0 * (g.ord() - 1) == 0) by (nonlinear_arith);
    }
}

/// the whole sum: `rows_sum`, inside usize for at most 2^32 vertices
proof fn lemma_row_sizes(g: AdjacencyList, s: Seq<usize>)
    requires g.wf(), row_sizes(g, s), g.ord() <= 0x1_0000_0000,
    ensures seq_sum(s) == rows_sum(g, g.ord()), seq_sum(s) <= usize::MAX,
{
    let n = g.ord();
    lemma_row_sizes_sum(g, s, n);
    assert(s.take(n) =~= s);
    assert(n * (n - 1) <= usize::MAX) by (nonlinear_arith) requires 1 <= n <= 0x1_0000_0000;
}

impl AdjacencyList {
    // AdjacencyList::size (`self.arcs.iter().map(BTreeSet::len).sum()`): proved through the E12 wrapper vx_sum (prelude/iter_wrappers.rs).
    // `order <= 2^32` keeps the sum inside usize (each of the n rows of a well-formed list has at most n - 1 elements).
    /*@fn impl=AdjacencyList trait=Size name=size wrap=sum props=C02,C13
    requires
        self.wf(),
        self.ord() <= 0x1_0000_0000,
    ensures
        r == rows_sum(*self, self.ord()),
        r == arcs_upto(*self, self.ord()).len(),
        forall|p: (int, int)| #[trigger] arcs_upto(*self, self.ord()).contains(p) == self.has(p.0, p.1),
    @fn_start
        broadcast use vstd::std_specs::iter::group_iter_axioms;
        proof {
            lemma_arcs_upto(*self, self.ord());
            // the Map iterator is consumed in the tail expression: state the meaning of its item sequence for every candidate
            assert forall|s: Seq<usize>| row_sizes(*self, s) implies #[trigger] seq_sum(s) == rows_sum(*self, self.ord()) && seq_sum(s) <= usize::MAX by {
                lemma_row_sizes(*self, s);
            }
        }
    @*/

    // `order * (order - 1)` overflows usize for order > 2^32 (a Vec of more than 2^32 BTreeSets, > 96 GiB): debug builds
    // panic, release builds wrap.  The contract is proved for order <= 2^32.
    /*@fn impl=AdjacencyList trait=IsTournament name=is_tournament props=C12,C13
    requires
        self.wf(),
        self.ord() <= 0x1_0000_0000,
    ensures
        r == tournament(*self),
    @after `let order = self.order();`
        proof {
            assert(order * (order - 1) == order * order - order) by (nonlinear_arith) requires order >= 1;
            assert((order - 1) * order == order * (order - 1)) by (nonlinear_arith) requires order >= 1;  // robust against commuted operands
            assert(order * (order - 1) <= usize::MAX) by (nonlinear_arith) requires 1 <= order <= 0x1_0000_0000;
            lemma_pair_count(*self);
            lemma_tournament_rows(*self);
        }
    @loop 1
    invariant
        order == self.ord(),
        forall|a: int| 0 <= a < u ==> #[trigger] row_joined_once(*self, a),
    @loop 2
    invariant
        order == self.ord(),
        u < order,
        forall|c: int| u < c < v ==> #[trigger] joined_once(*self, u as int, c),
    @before #2 `return false;`
        proof { assert(!joined_once(*self, u as int, v as int)); }
    @*/
}

// ---- the list's own arc iterator (used by `From<I>`): contract of `next` over the abstract "pending arcs" state ----
// (same contract as in units/inc/conversions.inc.rs, restated here so that this unit is self-contained)

spec fn is_id(a: int) -> bool { 0 <= a <= usize::MAX }

/*@struct name=ArcsIterator @*/

impl<'a> ArcsIterator<'a> {
    /// items the row iterator still holds (row u - 1)
    #[verifier::prophetic]
    spec fn rem(&self) -> Seq<&'a usize> {
        if self.inner is Some { self.inner->0.remaining() } else { Seq::empty() }
    }
    /// abstract state: the arc (a, b) has not been produced yet and will be
    #[verifier::prophetic]
    spec fn pending(&self, a: int, b: int) -> bool {
        ||| self.u <= a < self.arcs@.len() && is_id(b) && self.arcs@[a]@.contains(b as usize)
        ||| a == self.u - 1 && exists|i: int| 0 <= i < self.rem().len() && *(#[trigger] self.rem()[i]) == b
    }
    /// representation invariant of the iterator
    #[verifier::prophetic]
    spec fn inv(&self) -> bool {
        &&& self.u <= self.arcs@.len()
        &&& self.inner is Some ==> {
            &&& self.u >= 1
            &&& self.inner->0.obeys_prophetic_iter_laws()
            &&& self.inner->0.decrease() is Some
            &&& self.row_left() >= 0
            &&& forall|i: int| 0 <= i < self.rem().len() ==> self.arcs@[self.u - 1]@.contains(*(#[trigger] self.rem()[i]))
            &&& forall|i: int, j: int| 0 <= i < j < self.rem().len() ==> *(#[trigger] self.rem()[i]) != *(#[trigger] self.rem()[j])
        }
    }
    /// termination measure of a driver loop: rows not loaded yet, items left in the loaded row
    spec fn rows_left(&self) -> int { self.arcs@.len() - self.u }
    spec fn row_left(&self) -> int {
        if self.inner is Some && self.inner->0.decrease() is Some { self.inner->0.decrease()->0 as int } else { 0 }
    }

    /*@fn impl=ArcsIterator trait=Iterator name=next subst=Self::Item=>(usize,usize)
    requires
        old(self).inv(),
    ensures
        list_arcs_step(*old(self), *final(self), r),
    @loop 1
    invariant
        self.inv(),
        self.arcs == old(self).arcs,
        forall|a: int, b: int| #![trigger self.pending(a, b)] self.pending(a, b) == old(self).pending(a, b),
        self.rows_left() <= old(self).rows_left(),
        self.rows_left() == old(self).rows_left() ==> self.row_left() <= old(self).row_left(),
    decreases
        self.rows_left(),
    @loop_start 1
        let ghost s0 = *self;
    @before `return Some((self.u - 1, v));`
        proof {
            let r0 = s0.rem();
            let r1 = self.rem();
            assert(r0.len() > 0 && r1 == r0.drop_first() && v == *r0[0]);
            assert forall|i: int| 0 <= i < r1.len() implies #[trigger] r1[i] == r0[i + 1] by {}
            assert forall|a: int, b: int| #![trigger self.pending(a, b)] self.pending(a, b) == (s0.pending(a, b) && !(a == self.u - 1 && b == v)) by {
                if a == self.u - 1 {
                    if self.pending(a, b) {
                        let i = choose|i: int| 0 <= i < r1.len() && *(#[trigger] r1[i]) == b;
                        assert(*r0[i + 1] == b);
                    }
                    if s0.pending(a, b) && b != v {
                        let i = choose|i: int| 0 <= i < r0.len() && *(#[trigger] r0[i]) == b;
                        assert(*r1[i - 1] == b);
                    }
                }
            }
            assert(s0.pending(self.u - 1, v as int)) by { assert(*r0[0] == v); }
        }
    @before `if self.u >= self.arcs.len()`
        let ghost s1 = *self;
        proof {
            assert(s1.rem().len() == 0);
            assert forall|a: int, b: int| #![trigger s1.pending(a, b)] s1.pending(a, b) == s0.pending(a, b) by {}
        }
    @before `return None;`
        proof {
            assert forall|a: int, b: int| !old(self).pending(a, b) && !self.pending(a, b) by {
                assert(s0.pending(a, b) == old(self).pending(a, b));
                assert(s1.pending(a, b) == s0.pending(a, b));
            }
        }
    @after `self.u += 1;`
        proof {
            broadcast use vstd::laws_cmp::group_laws_cmp;
            assert(vstd::laws_cmp::obeys_cmp::<usize>());
            let row = self.arcs@[s1.u as int]@;
            let r1 = self.rem();
            assert(r1.unref().to_set() == row);
            assert forall|i: int| 0 <= i < r1.len() implies row.contains(*(#[trigger] r1[i])) by {
                assert(r1.unref()[i] == *r1[i]);
                assert(r1.unref().to_set().contains(r1.unref()[i]));
            }
            assert forall|a: int, b: int| #![trigger self.pending(a, b)] self.pending(a, b) == s1.pending(a, b) by {
                if a == s1.u && is_id(b) {
                    if row.contains(b as usize) {
                        assert(r1.unref().to_set().contains(b as usize));
                        let i = choose|i: int| 0 <= i < r1.unref().len() && r1.unref()[i] == b as usize;
                        assert(*r1[i] == b);
                    }
                }
            }
        }
    @*/
}

/// contract of one `next()` call from state s to state t with result r
#[verifier::prophetic]
spec fn list_arcs_step(s: ArcsIterator, t: ArcsIterator, r: Option<(usize, usize)>) -> bool {
    &&& t.inv()
    &&& t.arcs == s.arcs
    &&& r matches Some(p) ==> {
        &&& p.0 < s.arcs@.len()
        &&& s.arcs@[p.0 as int]@.contains(p.1)
        &&& s.pending(p.0 as int, p.1 as int)
        &&& forall|a: int, b: int| #![trigger t.pending(a, b)] t.pending(a, b) == (s.pending(a, b) && !(a == p.0 && b == p.1))
        &&& (t.rows_left() < s.rows_left() || (t.rows_left() == s.rows_left() && t.row_left() < s.row_left()))
    }
    &&& r is None ==> forall|a: int, b: int| !s.pending(a, b) && !t.pending(a, b)
}


/// building from an iterator of out-neighbour sets: the rows are kept as given
spec fn rows_kept(g: AdjacencyList, rows: Seq<BTreeSet<usize>>) -> bool {
    &&& g.arcs@.len() == rows.len()
    &&& forall|i: int| 0 <= i < rows.len() ==> #[trigger] g.arcs@[i]@ == rows[i]@
}

impl AdjacencyList {
    /*@fn impl=AdjacencyList trait=From implhas='impl<I> From<I>' name=from subst=I=>Vec<BTreeSet<usize>> drop=I dropwhere=I props=C14,C13 iterinline=arcs=>@literal
    ensures
        r.wf(),
        rows_kept(r, iter@),
    @loop 1
    invariant
        arcs_it.inv(),
        arcs_it.arcs@ == digraph.arcs@,
        order == digraph.arcs@.len(),
        forall|a: int, b: int| #![trigger digraph.has(a, b)] digraph.has(a, b) && !arcs_it.pending(a, b) ==> b < order && a != b,
    ensures
        forall|a: int, b: int| !arcs_it.pending(a, b),
    decreases
        arcs_it.rows_left(), arcs_it.row_left(),
    @fn_end
        proof { lemma_list_wf_has(digraph); }
    @*/

    /*@fn impl=AdjacencyList trait=Empty name=empty props=C14,C13
    ensures
        order > 0,
        r.wf(),
        r.ord() == order,
        forall|a: int, b: int| #![trigger r.has(a, b)] !r.has(a, b),
    @*/

    /*@fn trait=Empty name=trivial file=src/gen/empty.rs dropwhere=Self props=C14
    ensures
        r.wf(),
        r.ord() == 1,
        forall|a: int, b: int| #![trigger r.has(a, b)] !r.has(a, b),
    @*/
}

// ---- C14: defining arc predicates, each written from the property text (identical to units/inc/matrix_gen.inc.rs) ----

/// complete(n) has all n(n-1) arcs: every ordered pair of distinct vertices
spec fn complete_arc(n: int, a: int, b: int) -> bool {
    0 <= a < n && 0 <= b < n && a != b
}

/// circuit(n) has the arcs i -> (i+1) mod n (none for n = 1)
spec fn circuit_arc(n: int, a: int, b: int) -> bool {
    n > 1 && 0 <= a < n && 0 <= b < n && b == (a + 1) % n
}

/// cycle(n) has those arcs and their reverses
spec fn cycle_arc(n: int, a: int, b: int) -> bool {
    circuit_arc(n, a, b) || circuit_arc(n, b, a)
}

/// path(n) has i -> i+1 for i < n-1
spec fn path_arc(n: int, a: int, b: int) -> bool {
    0 <= a < n - 1 && b == a + 1
}

/// biclique(m, n) has u <-> v exactly for u < m <= v < m+n
spec fn biclique_arc(m: int, n: int, a: int, b: int) -> bool {
    (0 <= a < m && m <= b < m + n) || (0 <= b < m && m <= a < m + n)
}

// ---- proof helpers: `% n` free form of the circuit predicate ----

/// successor on the n-circuit without `%`
spec fn circuit_lin(n: int, a: int, b: int) -> bool {
    n > 1 && 0 <= a < n && b == (if a == n - 1 { 0 } else { a + 1 })
}

spec fn circuit_mod_ok(n: int) -> bool {
    forall|a: int, b: int| #[trigger] circuit_arc(n, a, b) == circuit_lin(n, a, b)
}

proof fn lemma_circuit_lin(n: int)
    ensures circuit_mod_ok(n),
{
    assert forall|a: int, b: int| #[trigger] circuit_arc(n, a, b) == circuit_lin(n, a, b) by {
        if n > 1 && 0 <= a < n {
            if a == n - 1 {
                vstd::arithmetic::div_mod::lemma_mod_self_0(n);
            } else {
                vstd::arithmetic::div_mod::lemma_small_mod((a + 1) as nat, n as nat);
            }
        }
    }
}


impl AdjacencyList {
    /*@fn impl=AdjacencyList trait=Circuit name=circuit props=C14,C13
    ensures
        order >= 1,
        r.wf(),
        r.ord() == order,
        forall|a: int, b: int| #![trigger r.has(a, b)] r.has(a, b) == circuit_arc(order as int, a, b),
    @closure 1 |u: usize| -> (s: BTreeSet<usize>)
    requires
        order > 1,
    ensures
        forall|x: usize| #[trigger] s@.contains(x) == (x == u % order),
    @fn_start
        broadcast use vstd::std_specs::iter::group_iter_axioms;
        proof {
            // the list is the tail expression: well-formedness is derived from the arc postcondition for any candidate result
            let n = order as int;
            lemma_circuit_lin(n);
            assert forall|g: AdjacencyList| n > 1 && g.ord() == n && (forall|a: int, b: int| #![trigger g.has(a, b)] g.has(a, b) == circuit_arc(n, a, b))
                implies #[trigger] g.wf() by {
                lemma_list_wf_has(g);
                assert forall|a: int, b: int| #[trigger] g.has(a, b) implies 0 <= a < n && 0 <= b < n && a != b by {
                    assert(circuit_arc(n, a, b) == circuit_lin(n, a, b));
                }
            }
        }
    @*/

    // `u + order - 1` needs order <= usize::MAX / 2 + 1.  A Vec<BTreeSet<usize>> has at most isize::MAX / 24 elements (larger
    // orders end in the allocator's capacity-overflow panic before the closure runs); Verus does not model the allocation
    // bound, so it is a precondition here.
    /*@fn impl=AdjacencyList trait=Cycle name=cycle props=C14,C13
    requires
        order <= 0x7fff_ffff_ffff_ffff,
    ensures
        order >= 1,
        r.wf(),
        r.ord() == order,
        forall|a: int, b: int| #![trigger r.has(a, b)] r.has(a, b) == cycle_arc(order as int, a, b),
    @closure 1 |u: usize| -> (s: BTreeSet<usize>)
    requires
        order > 1,
        u < order,
        order <= 0x7fff_ffff_ffff_ffff,
    ensures
        forall|x: usize| #[trigger] s@.contains(x) == (x == (u + order - 1) % (order as int) || x == (u + 1) % (order as int)),
    @fn_start
        broadcast use vstd::std_specs::iter::group_iter_axioms;
        proof {
            let n = order as int;
            lemma_circuit_lin(n);
            assert forall|g: AdjacencyList| n > 1 && g.ord() == n && (forall|a: int, b: int| #![trigger g.has(a, b)] g.has(a, b) == cycle_arc(n, a, b))
                implies #[trigger] g.wf() by {
                lemma_list_wf_has(g);
                assert forall|a: int, b: int| #[trigger] g.has(a, b) implies 0 <= a < n && 0 <= b < n && a != b by {
                    assert(circuit_arc(n, a, b) == circuit_lin(n, a, b));
                    assert(circuit_arc(n, b, a) == circuit_lin(n, b, a));
                }
            }
            // predecessor on the n-circuit: (u + n - 1) % n == b  <==>  (b + 1) % n == u
            assert forall|u: int, b: int| 0 <= u < n && 0 <= b < n && n > 1 implies (#[trigger] circuit_arc(n, b, u) == (b == (u + n - 1) % n)) by {
                assert(circuit_arc(n, b, u) == circuit_lin(n, b, u));
                if u == 0 {
                    vstd::arithmetic::div_mod::lemma_small_mod((n - 1) as nat, n as nat);
                } else {
                    vstd::arithmetic::div_mod::lemma_mod_add_multiples_vanish(u - 1, n);
                    vstd::arithmetic::div_mod::lemma_small_mod((u - 1) as nat, n as nat);
                }
            }
        }
    @*/

    /*@fn impl=AdjacencyList trait=Biclique name=biclique props=C14,C13
    ensures
        m >= 1 && n >= 1,
        r.wf(),
        r.ord() == m + n,
        forall|a: int, b: int| #![trigger r.has(a, b)] r.has(a, b) == biclique_arc(m as int, n as int, a, b),
    @fn_start
        broadcast use vstd::std_specs::iter::group_iter_axioms;
        broadcast use axiom_btree_set_from_iter;
    @after `let clique_2 =`
        proof {
            let rem1 = (core::ops::Range { start: 0usize, end: m }).remaining();
            let rem2 = (core::ops::Range { start: m, end: order }).remaining();
            assert forall|x: usize| #[trigger] clique_1@.contains(x) == (x < m) by {
                if x < m { assert(rem1[x as int] == x); }
            }
            assert forall|x: usize| #[trigger] clique_2@.contains(x) == (m <= x < order) by {
                if m <= x < order { assert(rem2[x - m] == x); }
            }
        }
    @fn_end
        proof {
            assert(arcs@.len() == m + n);
            assert forall|i: int| 0 <= i < m implies (#[trigger] arcs@[i])@ == clique_2@ by {}
            assert forall|i: int| m <= i < m + n implies (#[trigger] arcs@[i])@ == clique_1@ by {}
        }
    @*/
}
