//@file src/repr/adjacency_list/mod.rs
// ---- merge_two_sorted (helper of the threaded `union`): merging two strictly increasing slices ----

spec fn strictly_inc(s: Seq<usize>) -> bool {
    forall|a: int, b: int| 0 <= a < b < s.len() ==> s[a] < s[b]
}

/// loop invariant of the merge: `out` is strictly increasing, holds exactly l[..i] and r[..j], and lies below both cursors
spec fn merged(out: Seq<usize>, l: Seq<usize>, r: Seq<usize>, i: int, j: int) -> bool {
    &&& 0 <= i <= l.len() && 0 <= j <= r.len()
    &&& strictly_inc(out)
    &&& forall|k: int| 0 <= k < out.len() ==> (exists|a: int| 0 <= a < i && l[a] == #[trigger] out[k]) || (exists|b: int| 0 <= b < j && r[b] == out[k])
    &&& forall|a: int| 0 <= a < i ==> out.contains(#[trigger] l[a])
    &&& forall|b: int| 0 <= b < j ==> out.contains(#[trigger] r[b])
    &&& forall|k: int| 0 <= k < out.len() ==> (i < l.len() ==> #[trigger] out[k] < l[i]) && (j < r.len() ==> out[k] < r[j])
}

/// pushing x (the smaller cursor element) keeps the invariant; di/dj say which cursors advance
proof fn lemma_merge_push(out: Seq<usize>, l: Seq<usize>, r: Seq<usize>, i: int, j: int, x: usize, di: int, dj: int)
    requires
        merged(out, l, r, i, j), strictly_inc(l), strictly_inc(r),
        (di == 0 || di == 1) && (dj == 0 || dj == 1) && di + dj >= 1,
        di == 1 ==> i < l.len() && l[i] == x,
        dj == 1 ==> j < r.len() && r[j] == x,
        di == 0 && i < l.len() ==> x < l[i],
        dj == 0 && j < r.len() ==> x < r[j],
    ensures
        merged(out.push(x), l, r, i + di, j + dj),
{
    let o2 = out.push(x);
    assert forall|k: int| 0 <= k < o2.len() implies (exists|a: int| 0 <= a < i + di && l[a] == #[trigger] o2[k]) || (exists|b: int| 0 <= b < j + dj && r[b] == o2[k]) by {
        if k < out.len() {
            assert(o2[k] == out[k]);
            if exists|a: int| 0 <= a < i && l[a] == out[k] {
                let a = choose|a: int| 0 <= a < i && l[a] == out[k];
                assert(0 <= a < i + di && l[a] == o2[k]);
            } else {
                let b = choose|b: int| 0 <= b < j && r[b] == out[k];
                assert(0 <= b < j + dj && r[b] == o2[k]);
            }
        } else {
            if di == 1 { assert(0 <= i < i + di && l[i] == o2[k]); } else { assert(0 <= j < j + dj && r[j] == o2[k]); }
        }
    }
    assert forall|a: int| 0 <= a < i + di implies o2.contains(#[trigger] l[a]) by {
        if a < i {
            let k = choose|k: int| 0 <= k < out.len() && out[k] == l[a];
            assert(o2[k] == l[a]);
        } else {
            assert(o2[out.len() as int] == l[a]);
        }
    }
    assert forall|b: int| 0 <= b < j + dj implies o2.contains(#[trigger] r[b]) by {
        if b < j {
            let k = choose|k: int| 0 <= k < out.len() && out[k] == r[b];
            assert(o2[k] == r[b]);
        } else {
            assert(o2[out.len() as int] == r[b]);
        }
    }
    assert forall|k: int| 0 <= k < o2.len() implies (i + di < l.len() ==> #[trigger] o2[k] < l[i + di]) && (j + dj < r.len() ==> o2[k] < r[j + dj]) by {
        if k < out.len() { assert(o2[k] == out[k]); }
    }
    assert(strictly_inc(o2)) by {
        assert forall|a: int, b: int| 0 <= a < b < o2.len() implies o2[a] < o2[b] by {
            if b < out.len() { assert(o2[a] == out[a] && o2[b] == out[b]); } else { assert(o2[a] == out[a]); }
        }
    }
}

/// at the end of the merge the output holds exactly the union
proof fn lemma_merge_done(out: Seq<usize>, l: Seq<usize>, r: Seq<usize>)
    requires merged(out, l, r, l.len() as int, r.len() as int),
    ensures forall|x: usize| out.contains(x) == (l.contains(x) || r.contains(x)),
{
    assert forall|x: usize| out.contains(x) == (l.contains(x) || r.contains(x)) by {
        if out.contains(x) {
            let k = choose|k: int| 0 <= k < out.len() && out[k] == x;
            assert((exists|a: int| 0 <= a < l.len() && l[a] == out[k]) || (exists|b: int| 0 <= b < r.len() && r[b] == out[k]));
        }
        if l.contains(x) {
            let a = choose|a: int| 0 <= a < l.len() && l[a] == x;
            assert(out.contains(l[a]));
        }
        if r.contains(x) {
            let b = choose|b: int| 0 <= b < r.len() && r[b] == x;
            assert(out.contains(r[b]));
        }
    }
}

// `lhs.len() + rhs.len()` cannot overflow in Rust (a slice of usize has at most isize::MAX / 8 elements); Verus does not
// know the allocation bound, so it is a precondition here.
/*@fn name=merge_two_sorted props=C11,C13
requires
    strictly_inc(lhs@),
    strictly_inc(rhs@),
    lhs@.len() + rhs@.len() <= usize::MAX,
ensures
    strictly_inc(r@),
    forall|x: usize| r@.contains(x) == (lhs@.contains(x) || rhs@.contains(x)),
@loop 1
invariant
    lhs_len == lhs@.len(),
    rhs_len == rhs@.len(),
    strictly_inc(lhs@),
    strictly_inc(rhs@),
    merged(out@, lhs@, rhs@, i as int, j as int),
decreases
    lhs_len - i + rhs_len - j,
@loop 2
invariant
    strictly_inc(lhs@),
    strictly_inc(rhs@),
    i == lhs@.len() || j == rhs@.len(),
    merged(out@, lhs@, rhs@, i as int, j as int),
decreases
    lhs@.len() - i,
@loop 3
invariant
    strictly_inc(lhs@),
    strictly_inc(rhs@),
    i == lhs@.len(),
    merged(out@, lhs@, rhs@, i as int, j as int),
decreases
    rhs@.len() - j,
@fn_end
    proof { lemma_merge_done(out@, lhs@, rhs@); }
@*/
