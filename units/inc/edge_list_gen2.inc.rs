//@file src/repr/edge_list/mod.rs
// ---- EdgeList generators whose bodies are `flat_map(..).chain(..).collect()` chains (rule E14: collect -> accumulator loops) ----

/// biclique(m, n) has u <-> v exactly for u < m <= v < m+n
spec fn biclique_arc(m: int, n: int, a: int, b: int) -> bool {
    (0 <= a < m && m <= b < m + n) || (0 <= b < m && m <= a < m + n)
}

impl EdgeList {
    /*@fn impl=EdgeList trait=Biclique name=biclique loopify=BTreeSet noisolation props=C14,C13
    ensures
        m >= 1 && n >= 1 && m + n <= usize::MAX,
        r.wf(),
        r.ord() == m + n,
        forall|a: int, b: int| #![trigger r.has(a, b)] r.has(a, b) == biclique_arc(m as int, n as int, a, b),
    @closure 2 |v: usize| -> (p: (usize, usize))
    ensures
        p == (u, v),
    @closure 4 |v: usize| -> (p: (usize, usize))
    ensures
        p == (u, v),
    @fn_start
        broadcast use vstd::std_specs::iter::group_iter_axioms;
    @loop 1
    invariant
        order == m + n,
        forall|p: (usize, usize)| #[trigger] vx_acc@.contains(p) == (p.0 < u && m <= p.1 < order),
    @loop 2
    invariant
        order == m + n,
        u < m,
        it2.iter.obeys_prophetic_iter_laws(),
        it2.iter.decrease() is Some,
        it2.seq().len() <= order - m,
        it2.iter.will_return_none() ==> it2.seq().len() == order - m,
        forall|j: int| 0 <= j < it2.seq().len() ==> #[trigger] it2.seq()[j] == (u, (m + j) as usize),
        forall|p: (usize, usize)| #[trigger] vx_acc@.contains(p) == ((p.0 < u && m <= p.1 < order) || (p.0 == u && m <= p.1 < m + it2.index())),
    @loop 3
    invariant
        order == m + n,
        forall|p: (usize, usize)| #[trigger] vx_acc@.contains(p) == ((p.0 < m && m <= p.1 < order) || (m <= p.0 < u && p.1 < m)),
    @loop 4
    invariant
        order == m + n,
        m <= u < order,
        it4.iter.obeys_prophetic_iter_laws(),
        it4.iter.decrease() is Some,
        it4.seq().len() <= m,
        it4.iter.will_return_none() ==> it4.seq().len() == m,
        forall|j: int| 0 <= j < it4.seq().len() ==> #[trigger] it4.seq()[j] == (u, j as usize),
        forall|p: (usize, usize)| #[trigger] vx_acc@.contains(p) == ((p.0 < m && m <= p.1 < order) || (m <= p.0 < u && p.1 < m) || (p.0 == u && p.1 < it4.index())),
    @*/

    // `complete_arc` and the contract of `trivial` come from units/inc/edge_list_ops.inc.rs (imported by the unit).
    // E14: `(0..order).flat_map(|u| (0..u).chain((u + 1)..order).map(move |v| (u, v))).collect()` becomes two nested accumulator
    // loops; the inner one runs over `vx_chain(0..u, (u + 1)..order).map(closure)` (E12 wrapper, prelude/edge_list_more_std.rs).
    /*@fn impl=EdgeList trait=Complete name=complete loopify=BTreeSet noisolation wrap=chain props=C14,C13
    ensures
        order >= 1,
        r.wf(),
        r.ord() == order,
        forall|a: int, b: int| #![trigger r.has(a, b)] r.has(a, b) == complete_arc(order as int, a, b),
    @closure 2 |v: usize| -> (p: (usize, usize))
    ensures
        p == (u, v),
    @fn_start
        broadcast use vstd::std_specs::iter::group_iter_axioms;
    @loop 1
    invariant
        order > 1,
        forall|p: (usize, usize)| #[trigger] vx_acc@.contains(p) == (p.0 < u && p.1 < order && p.0 != p.1),
    @loop 2
    invariant
        order > 1,
        u < order,
        it2.iter.obeys_prophetic_iter_laws(),
        it2.iter.decrease() is Some,
        it2.seq().len() <= order - 1,
        it2.iter.will_return_none() ==> it2.seq().len() == order - 1,
        forall|j: int| 0 <= j < it2.seq().len() ==> #[trigger] it2.seq()[j] == (u, skip_idx(u as int, j) as usize),
        forall|p: (usize, usize)| #[trigger] vx_acc@.contains(p) == ((p.0 < u && p.1 < order && p.0 != p.1) || (p.0 == u && p.1 != u && p.1 < skip_idx(u as int, it2.index() as int))),
    @*/
}

/// the j-th item of `(0..u).chain((u + 1)..n)`: the range 0..n with u left out
spec fn skip_idx(u: int, j: int) -> int { if j < u { j } else { j + 1 } }

// ---- C12: is_complete is true iff every ordered pair of distinct vertices is an arc ----
// `is_complete` compares `*self` with `Self::complete(self.order())` through the DERIVED `PartialEq` of
// `struct EdgeList { arcs: BTreeSet<(usize, usize)>, order: usize }`.  The extractor drops derives, so the derived impl is stated
// here as an assumed contract (as for AdjacencyMatrix in units/inc/matrix_more.inc.rs):
// A: `#[derive(PartialEq)]` is fieldwise.  rustdoc of the PartialEq derive: "When derived on structs, two instances are equal
// if all fields are equal, and not equal if any fields are not equal."  The fields are compared with their own `==`
// (`BTreeSet<(usize, usize)>`: axiom_btree_set_eq in prelude/edge_list_gen2_std.rs; `usize`).
impl vstd::std_specs::cmp::PartialEqSpecImpl for EdgeList {
    closed spec fn obeys_eq_spec() -> bool { true }
    closed spec fn eq_spec(&self, other: &Self) -> bool {
        &&& vstd::std_specs::cmp::PartialEqSpec::eq_spec(&self.arcs, &other.arcs)
        &&& vstd::std_specs::cmp::PartialEqSpec::eq_spec(&self.order, &other.order)
    }
}
impl PartialEq for EdgeList {
    #[verifier::external_body]
    fn eq(&self, other: &Self) -> bool { self.arcs == other.arcs && self.order == other.order }
}

/// the assumed meaning of the derived `==` in terms of the fields' values
proof fn lemma_edge_list_eq_spec(a: EdgeList, b: EdgeList)
    ensures vstd::std_specs::cmp::PartialEqSpec::eq_spec(&a, &b) == (a.arcs@ == b.arcs@ && a.order == b.order),
{
    broadcast use axiom_btree_set_eq;
}

/// every ordered pair of distinct vertices is an arc
spec fn all_pairs_arcs(g: EdgeList) -> bool {
    forall|a: int, b: int| 0 <= a < g.ord() && 0 <= b < g.ord() && a != b ==> #[trigger] g.has(a, b)
}

impl EdgeList {
    /*@fn impl=EdgeList trait=IsComplete name=is_complete props=C12,C13
    requires
        self.wf(),
    ensures
        r == all_pairs_arcs(*self),
        r == (forall|a: int, b: int| 0 <= a < self.ord() && 0 <= b < self.ord() && a != b ==> self.has(a, b)),
    @fn_start
        proof {
            // for every candidate value c of `Self::complete(self.order())`
            assert forall|c: EdgeList| c.wf() && c.ord() == self.ord()
                && (forall|a: int, b: int| #![trigger c.has(a, b)] c.has(a, b) == complete_arc(self.ord(), a, b))
                implies #[trigger] vstd::std_specs::cmp::PartialEqSpec::eq_spec(self, &c) == all_pairs_arcs(*self) by {
                lemma_edge_list_eq_spec(*self, c);
                if all_pairs_arcs(*self) {
                    assert forall|a: int, b: int| self.has(a, b) == c.has(a, b) by {
                        if self.has(a, b) { assert(self.arcs@.contains((a as usize, b as usize))); }
                    }
                    lemma_edge_canonical(*self, c);
                }
                if self.arcs@ == c.arcs@ {
                    assert forall|a: int, b: int| 0 <= a < self.ord() && 0 <= b < self.ord() && a != b implies #[trigger] self.has(a, b) by {
                        assert(c.has(a, b));
                    }
                }
            }
            // the same with the operands of `==` the other way round (`Self::complete(..) == *self` is the same test)
            assert forall|c: EdgeList| c.wf() && c.ord() == self.ord()
                && (forall|a: int, b: int| #![trigger c.has(a, b)] c.has(a, b) == complete_arc(self.ord(), a, b))
                implies #[trigger] vstd::std_specs::cmp::PartialEqSpec::eq_spec(&c, self) == all_pairs_arcs(*self) by {
                lemma_edge_list_eq_spec(c, *self);
                lemma_edge_list_eq_spec(*self, c);
                assert(vstd::std_specs::cmp::PartialEqSpec::eq_spec(self, &c) == all_pairs_arcs(*self));
            }
        }
    @*/
}

// `<EdgeList as Complement>::complement` (C11) is under contract in unit edge_list_compl (rules E14b / E14c: fused stages, the nested
// collected set bound before the loop).
