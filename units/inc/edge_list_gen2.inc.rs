//@file src/repr/edge_list/mod.rs
// ---- EdgeList generators whose bodies are `flat_map(..).chain(..).collect()` chains (rule E14: collect -> accumulator loops) ----

/// biclique(m, n) has u <-> v exactly for u < m <= v < m+n
spec fn biclique_arc(m: int, n: int, a: int, b: int) -> bool {
    (0 <= a < m && m <= b < m + n) || (0 <= b < m && m <= a < m + n)
}

impl EdgeList {
    /*@fn impl=EdgeList trait=Biclique name=biclique loopify=BTreeSet props=C14,C13
    ensures
        m >= 1 && n >= 1 && m + n <= usize::MAX,
        r.wf(),
        r.ord() == m + n,
        forall|a: int, b: int| #![trigger r.has(a, b)] r.has(a, b) == biclique_arc(m as int, n as int, a, b),
    @closure 2 |v: usize| -> (p: (usize, usize))
    ensures
        p == (u, v),
    @closure 4 |v: usize| -> (p: (usize, usize))
    ensures
        p == (u, v),
    @fn_start
        broadcast use vstd::std_specs::iter::group_iter_axioms;
    @loop 1
    invariant
        order == m + n,
        forall|p: (usize, usize)| #[trigger] vx_acc@.contains(p) == (p.0 < u && m <= p.1 < order),
    @loop 2
    invariant
        order == m + n,
        u < m,
        it2.iter.obeys_prophetic_iter_laws(),
        it2.iter.decrease() is Some,
        it2.seq().len() <= order - m,
        it2.iter.will_return_none() ==> it2.seq().len() == order - m,
        forall|j: int| 0 <= j < it2.seq().len() ==> #[trigger] it2.seq()[j] == (u, (m + j) as usize),
        forall|p: (usize, usize)| #[trigger] vx_acc@.contains(p) == ((p.0 < u && m <= p.1 < order) || (p.0 == u && m <= p.1 < m + it2.index())),
    @loop 3
    invariant
        order == m + n,
        forall|p: (usize, usize)| #[trigger] vx_acc@.contains(p) == ((p.0 < m && m <= p.1 < order) || (m <= p.0 < u && p.1 < m)),
    @loop 4
    invariant
        order == m + n,
        m <= u < order,
        it4.iter.obeys_prophetic_iter_laws(),
        it4.iter.decrease() is Some,
        it4.seq().len() <= m,
        it4.iter.will_return_none() ==> it4.seq().len() == m,
        forall|j: int| 0 <= j < it4.seq().len() ==> #[trigger] it4.seq()[j] == (u, j as usize),
        forall|p: (usize, usize)| #[trigger] vx_acc@.contains(p) == ((p.0 < m && m <= p.1 < order) || (m <= p.0 < u && p.1 < m) || (p.0 == u && p.1 < it4.index())),
    @*/
}
