//@file src/repr/adjacency_list/mod.rs
// ---- C02 / C13: has_walk is total (any ids, any length) and decides the walk predicate ----

/// the walk predicate of C02: at least two vertices and every consecutive pair is an arc
spec fn list_walk(g: AdjacencyList, w: Seq<usize>) -> bool {
    w.len() >= 2 && forall|i: int| 0 <= i < w.len() - 1 ==> #[trigger] g.has(w[i] as int, w[i + 1] as int)
}

impl AdjacencyList {
    /*@fn impl=AdjacencyList trait=HasWalk name=has_walk
    ensures
        r == list_walk(*self, walk@),
    @loop 1
    invariant
        len == walk@.len(),
        len > 1,
        end__i == len - 1,
        ptr__i <= end__i,
        forall|i: int| 0 <= i < ptr__i ==> #[trigger] self.has(walk@[i] as int, walk@[i + 1] as int),
    decreases end__i - ptr__i,
    @*/
}

// ---- C01: ArcsIterator walks the rows in ascending order and every row in ascending order ----

/*@struct name=ArcsIterator @*/

/// strictly ascending item sequence of a row iterator
spec fn ascending(rem: Seq<&usize>) -> bool {
    forall|i: int, j: int| 0 <= i < j < rem.len() ==> *(#[trigger] rem[i]) < *(#[trigger] rem[j])
}

/// meaning of vstd's `increasing_seq` on `&usize` items: strictly ascending
proof fn lemma_ref_increasing(rem: Seq<&usize>)
    requires vstd::std_specs::btree::increasing_seq(rem),
    ensures ascending(rem),
{
    broadcast use vstd::laws_cmp::group_laws_cmp;
    assert(vstd::laws_cmp::obeys_cmp::<&usize>());
    vstd::std_specs::btree::axiom_increasing_seq_meaning(rem);
    assert forall|i: int, j: int| 0 <= i < j < rem.len() implies *(#[trigger] rem[i]) < *(#[trigger] rem[j]) by {
        assert(<&usize as vstd::std_specs::cmp::OrdSpec>::cmp_spec(&rem[i], &rem[j]) is Less);
    }
}

/// the remaining items of a freshly created row iterator are exactly the row, ascending
proof fn lemma_row_iter(row: Set<usize>, rem: Seq<&usize>)
    requires rem.unref().to_set() == row, vstd::std_specs::btree::increasing_seq(rem),
    ensures ascending(rem), forall|b: usize| rem_has(rem, b) == row.contains(b),
{
    lemma_ref_increasing(rem);
    let un = rem.unref();
    assert forall|b: usize| rem_has(rem, b) == row.contains(b) by {
        if rem_has(rem, b) {
            let k = choose|k: int| 0 <= k < rem.len() && *(#[trigger] rem[k]) == b;
            assert(un[k] == b);
            assert(un.to_set().contains(b));
        }
        if row.contains(b) {
            assert(un.to_set().contains(b));
            let k = choose|k: int| 0 <= k < un.len() && un[k] == b;
            assert(*rem[k] == b);
        }
    }
}

/// taking the first item off an ascending item sequence removes exactly that item, the least one
proof fn lemma_rem_pop(rem: Seq<&usize>)
    requires ascending(rem), rem.len() > 0,
    ensures
        ascending(rem.drop_first()),
        forall|b: usize| rem_has(rem, b) ==> *rem[0] <= b,
        forall|b: usize| rem_has(rem.drop_first(), b) == (rem_has(rem, b) && b != *rem[0]),
{
    let t = rem.drop_first();
    assert forall|i: int, j: int| 0 <= i < j < t.len() implies *(#[trigger] t[i]) < *(#[trigger] t[j]) by {
        assert(t[i] == rem[i + 1] && t[j] == rem[j + 1]);
    }
    assert forall|b: usize| rem_has(rem, b) implies *rem[0] <= b by {
        let k = choose|k: int| 0 <= k < rem.len() && *(#[trigger] rem[k]) == b;
        if k > 0 { assert(*rem[0] < *rem[k]); }
    }
    assert forall|b: usize| rem_has(t, b) == (rem_has(rem, b) && b != *rem[0]) by {
        if rem_has(t, b) {
            let k = choose|k: int| 0 <= k < t.len() && *(#[trigger] t[k]) == b;
            assert(t[k] == rem[k + 1]);
            assert(*rem[0] < *rem[k + 1]);
        }
        if rem_has(rem, b) && b != *rem[0] {
            let k = choose|k: int| 0 <= k < rem.len() && *(#[trigger] rem[k]) == b;
            assert(t[k - 1] == rem[k]);
        }
    }
}

/// item k of a row iterator's remaining items
spec fn rem_has(rem: Seq<&usize>, b: usize) -> bool {
    exists|k: int| 0 <= k < rem.len() && *(#[trigger] rem[k]) == b
}

impl<'a> ArcsIterator<'a> {
    /// the arc relation of the rows the iterator borrows
    spec fn has(&self, a: int, b: int) -> bool {
        0 <= a < self.arcs@.len() && 0 <= b <= usize::MAX && self.arcs@[a]@.contains(b as usize)
    }

    /// abstract state: the arc (a, b) has not been produced yet and will be
    /// (arcs of the rows not opened yet, plus the items left in the open row `u - 1`)
    #[verifier::prophetic]
    spec fn pending(&self, a: int, b: int) -> bool {
        ||| self.u <= a && self.has(a, b)
        ||| self.inner is Some && a == self.u - 1 && 0 <= b <= usize::MAX && rem_has(self.inner->0.remaining(), b as usize)
    }

    /// representation invariant of the iterator
    #[verifier::prophetic]
    spec fn inv(&self) -> bool {
        &&& self.u <= self.arcs@.len()
        &&& self.inner matches Some(it) ==> {
            &&& self.u >= 1
            &&& it.obeys_prophetic_iter_laws()
            &&& it.decrease() is Some
            &&& ascending(it.remaining())
            &&& forall|k: int| 0 <= k < it.remaining().len() ==> self.arcs@[self.u - 1]@.contains(*(#[trigger] it.remaining()[k]))
        }
    }

    /*@fn impl=ArcsIterator trait=Iterator name=next subst=Self::Item=>(usize,usize)
    requires
        old(self).inv(),
    ensures
        list_arcs_step(*old(self), *final(self), r),
    @loop 1
    invariant
        self.inv(),
        self.arcs == old(self).arcs,
        forall|a: int, b: int| #[trigger] self.pending(a, b) == old(self).pending(a, b),
    decreases
        self.arcs@.len() - self.u,
    @loop_start 1
        let ghost s0 = *self;
    @before `return Some((`
        proof {
            // the open row's iterator gave its first remaining item: it is the least pending arc and exactly it leaves
            let rem0 = s0.inner->0.remaining();
            lemma_rem_pop(rem0);
            let a0 = self.u - 1;
            assert(self.inner->0.remaining() == rem0.drop_first());
            assert(v == *rem0[0]);
            assert(rem_has(rem0, v));
            assert(s0.pending(a0, v as int));
            assert(old(self).pending(a0, v as int));
            assert(self.inv()) by {
                let t = self.inner->0.remaining();
                assert forall|k: int| 0 <= k < t.len() implies self.arcs@[self.u - 1]@.contains(*(#[trigger] t[k])) by {
                    assert(t[k] == rem0[k + 1]);
                }
            }
            assert forall|a: int, b: int| #[trigger] self.pending(a, b) == (s0.pending(a, b) && (a, b) != (a0, v as int)) by {
                if a == a0 && 0 <= b <= usize::MAX {
                    assert(rem_has(rem0.drop_first(), b as usize) == (rem_has(rem0, b as usize) && b as usize != *rem0[0]));
                }
            }
            assert forall|a: int, b: int| #[trigger] s0.pending(a, b) implies (a, b) == (a0, v as int) || lex_lt((a0, v as int), (a, b)) by {
                if a == a0 { assert(rem_has(rem0, b as usize)); }
            }
            assert forall|a: int, b: int| #[trigger] old(self).pending(a, b) implies (a, b) == (a0, v as int) || lex_lt((a0, v as int), (a, b)) by {
                assert(s0.pending(a, b));
            }
            assert forall|a: int, b: int| #[trigger] self.pending(a, b) == (old(self).pending(a, b) && (a, b) != (a0, v as int)) by {
                assert(s0.pending(a, b) == old(self).pending(a, b));
            }
        }
    @before `if self.u`
        // the open row (if any) is exhausted: nothing of it is pending
        let ghost s1 = *self;
        proof {
            if s0.inner is Some {
                assert(s0.inner->0.remaining().len() == 0);
                assert(self.inner->0.remaining() == s0.inner->0.remaining());
            }
            assert(s1.inv());
            assert forall|a: int, b: int| #[trigger] s1.pending(a, b) == s0.pending(a, b) by {}
            assert forall|a: int, b: int| #[trigger] s1.pending(a, b) implies s1.u <= a && s1.has(a, b) by {
                if s1.inner is Some && a == s1.u - 1 && 0 <= b <= usize::MAX && rem_has(s1.inner->0.remaining(), b as usize) {}
            }
        }
    @before `return None;`
        proof {
            assert forall|a: int, b: int| !old(self).pending(a, b) && !self.pending(a, b) by {
                assert(s1.pending(a, b) == old(self).pending(a, b));
            }
        }
    @loop_end 1
        proof {
            // opening row u: its arcs move from "row not opened yet" to "items left in the open row"
            broadcast use vstd::laws_cmp::group_laws_cmp;
            let row = s1.arcs@[s1.u as int];
            let rem = self.inner->0.remaining();
            lemma_row_iter(row@, rem);
            assert forall|a: int, b: int| #[trigger] self.pending(a, b) == s1.pending(a, b) by {
                if a == s1.u && 0 <= b <= usize::MAX { assert(rem_has(rem, b as usize) == row@.contains(b as usize)); }
            }
            assert forall|k: int| 0 <= k < rem.len() implies row@.contains(*(#[trigger] rem[k])) by {
                assert(rem_has(rem, *rem[k]));
            }
            assert forall|a: int, b: int| #[trigger] self.pending(a, b) == old(self).pending(a, b) by {
                assert(s1.pending(a, b) == s0.pending(a, b));
            }
        }
    @*/
}

spec fn lex_lt(p: (int, int), q: (int, int)) -> bool {
    p.0 < q.0 || (p.0 == q.0 && p.1 < q.1)
}

/// contract of one `next()` call from state s to state t with result r:
/// `Some((u, v))`: (u, v) is the lexicographically LEAST pending arc, it is an arc, and exactly it leaves the pending set;
/// `None`: nothing was pending (and nothing is: the iterator is fused).
#[verifier::prophetic]
spec fn list_arcs_step(s: ArcsIterator, t: ArcsIterator, r: Option<(usize, usize)>) -> bool {
    &&& t.inv()
    &&& t.arcs == s.arcs
    &&& r matches Some(p) ==> {
        &&& s.has(p.0 as int, p.1 as int)
        &&& s.pending(p.0 as int, p.1 as int)
        &&& forall|a: int, b: int| #[trigger] s.pending(a, b) ==> (a, b) == (p.0 as int, p.1 as int) || lex_lt((p.0 as int, p.1 as int), (a, b))
        &&& forall|a: int, b: int| #[trigger] t.pending(a, b) == (s.pending(a, b) && (a, b) != (p.0 as int, p.1 as int))
    }
    &&& r is None ==> forall|a: int, b: int| !s.pending(a, b) && !t.pending(a, b)
}

impl AdjacencyList {
    /*@fn impl=AdjacencyList trait=Arcs name=arcs rettype="ArcsIterator<'_>"
    ensures
        list_arcs_init(*self, r),
        r.inv(),
        forall|a: int, b: int| #[trigger] r.pending(a, b) == self.has(a, b),
    @*/
}

// ---- C01 as a theorem about any complete run arcs(); next()*; next() == None ----

/// the state `AdjacencyList::arcs` starts from (its struct literal: the rows of g, no row opened)
#[verifier::prophetic]
spec fn list_arcs_init(g: AdjacencyList, s: ArcsIterator) -> bool {
    s.arcs@ == g.arcs@ && s.u == 0 && s.inner is None
}

proof fn lemma_list_arcs_init(g: AdjacencyList, s: ArcsIterator)
    requires list_arcs_init(g, s),
    ensures s.inv(), forall|a: int, b: int| #[trigger] s.pending(a, b) == g.has(a, b),
{
}

/// a complete run over g: states[0] is the iterator `g.arcs()` starts from, call i (< outs.len()) returns Some(outs[i]),
/// the last call returns None
#[verifier::prophetic]
spec fn list_arcs_run(g: AdjacencyList, states: Seq<ArcsIterator>, outs: Seq<(usize, usize)>) -> bool {
    &&& states.len() == outs.len() + 2
    &&& list_arcs_init(g, states[0])
    &&& forall|i: int| 0 <= i < outs.len() ==> #[trigger] list_arcs_step(states[i], states[i + 1], Some(outs[i]))
    &&& list_arcs_step(states[outs.len() as int], states[outs.len() as int + 1], None)
}

spec fn pair_int(p: (usize, usize)) -> (int, int) { (p.0 as int, p.1 as int) }

/// C01: the outputs are arcs, strictly ascending in lexicographic order (hence no repeats), and every arc occurs
spec fn list_lists_arcs_ascending(g: AdjacencyList, outs: Seq<(usize, usize)>) -> bool {
    &&& forall|i: int| 0 <= i < outs.len() ==> g.has((#[trigger] outs[i]).0 as int, outs[i].1 as int)
    &&& forall|i: int, j: int| 0 <= i < j < outs.len() ==> lex_lt(pair_int(#[trigger] outs[i]), pair_int(#[trigger] outs[j]))
    &&& forall|u: int, v: int| #[trigger] g.has(u, v) ==> exists|i: int| 0 <= i < outs.len() && #[trigger] outs[i] == (u as usize, v as usize)
}

proof fn lemma_list_run_prefix(g: AdjacencyList, states: Seq<ArcsIterator>, outs: Seq<(usize, usize)>, i: int)
    requires list_arcs_run(g, states, outs), 0 <= i <= outs.len(),
    ensures
        states[i].inv(),
        states[i].arcs@ == g.arcs@,
        forall|k: int| 0 <= k < i ==> g.has((#[trigger] outs[k]).0 as int, outs[k].1 as int),
        // every arc is still pending or has been produced
        forall|a: int, b: int| #[trigger] g.has(a, b) ==> states[i].pending(a, b) || exists|k: int| 0 <= k < i && pair_int(#[trigger] outs[k]) == (a, b),
        // everything produced lies strictly below everything pending
        forall|k: int, a: int, b: int| 0 <= k < i && #[trigger] states[i].pending(a, b) ==> lex_lt(pair_int(#[trigger] outs[k]), (a, b)),
        // produced arcs are strictly ascending
        forall|k: int, l: int| 0 <= k < l < i ==> lex_lt(pair_int(#[trigger] outs[k]), pair_int(#[trigger] outs[l])),
    decreases i
{
    if i == 0 {
        lemma_list_arcs_init(g, states[0]);
    } else {
        lemma_list_run_prefix(g, states, outs, i - 1);
        let i1 = i - 1;
        let s = states[i1];
        let t = states[i1 + 1];
        let c = pair_int(outs[i1]);
        assert(list_arcs_step(states[i1], states[i1 + 1], Some(outs[i1])));
        assert(s.pending(c.0, c.1));
        assert(s.has(c.0, c.1));
        assert(g.has(c.0, c.1));
        assert forall|a: int, b: int| #[trigger] g.has(a, b) implies t.pending(a, b) || exists|k: int| 0 <= k < i && pair_int(#[trigger] outs[k]) == (a, b) by {
            if s.pending(a, b) {
                assert(t.pending(a, b) == (s.pending(a, b) && (a, b) != c));
                if (a, b) == c { assert(pair_int(outs[i - 1]) == (a, b)); }
            } else {
                let k = choose|k: int| 0 <= k < i - 1 && pair_int(#[trigger] outs[k]) == (a, b);
                assert(pair_int(outs[k]) == (a, b));
            }
        }
        assert forall|k: int, a: int, b: int| 0 <= k < i && #[trigger] t.pending(a, b) implies lex_lt(pair_int(#[trigger] outs[k]), (a, b)) by {
            assert(t.pending(a, b) == (s.pending(a, b) && (a, b) != c));
            assert(s.pending(a, b));
        }
        assert forall|k: int, l: int| 0 <= k < l < i implies lex_lt(pair_int(#[trigger] outs[k]), pair_int(#[trigger] outs[l])) by {
            if l == i - 1 { assert(s.pending(c.0, c.1)); }
        }
    }
}

/// C01 for AdjacencyList::arcs(): any complete run lists every arc exactly once in ascending lexicographic order
proof fn lemma_list_arcs_c01(g: AdjacencyList, states: Seq<ArcsIterator>, outs: Seq<(usize, usize)>)
    requires list_arcs_run(g, states, outs),
    ensures list_lists_arcs_ascending(g, outs),
{
    let n = outs.len() as int;
    lemma_list_run_prefix(g, states, outs, n);
    assert(list_arcs_step(states[n], states[n + 1], None));
    assert forall|u: int, v: int| #[trigger] g.has(u, v) implies exists|i: int| 0 <= i < outs.len() && #[trigger] outs[i] == (u as usize, v as usize) by {
        assert(!states[n].pending(u, v));
        let k = choose|k: int| 0 <= k < n && pair_int(#[trigger] outs[k]) == (u, v);
        assert(outs[k] == (u as usize, v as usize));
    }
}

// ---- C13: indegree_sequence counts through a raw pointer indexed by successor ids ----

/// number of rows a < n with an arc a -> v
spec fn indeg_upto(g: AdjacencyList, v: int, n: int) -> int
    decreases n
{
    if n <= 0 { 0 } else { indeg_upto(g, v, n - 1) + if g.has(n - 1, v) { 1int } else { 0int } }
}

proof fn lemma_indeg_upto_le(g: AdjacencyList, v: int, n: int)
    requires 0 <= n,
    ensures 0 <= indeg_upto(g, v, n) <= n,
    decreases n
{
    if n > 0 { lemma_indeg_upto_le(g, v, n - 1); }
}

/// x occurs among the first j items
spec fn seen(items: Seq<&usize>, j: int, x: int) -> bool {
    exists|k: int| 0 <= k < j && *(#[trigger] items[k]) == x
}

proof fn lemma_seen_all(row: Set<usize>, items: Seq<&usize>, x: usize)
    requires items.unref().to_set() == row,
    ensures seen(items, items.len() as int, x as int) == row.contains(x),
{
    let un = items.unref();
    if seen(items, items.len() as int, x as int) {
        let k = choose|k: int| 0 <= k < items.len() && *(#[trigger] items[k]) == x as int;
        assert(un[k] == x);
        assert(un.to_set().contains(x));
    }
    if row.contains(x) {
        assert(un.to_set().contains(x));
        let k = choose|k: int| 0 <= k < un.len() && un[k] == x;
        assert(*items[k] == x as int);
    }
}

impl AdjacencyList {
    /// indegree of v: the number of vertices a with an arc a -> v
    spec fn indeg(&self, v: int) -> int { indeg_upto(*self, v, self.ord()) }

    /*@fn impl=AdjacencyList trait=IndegreeSequence name=indegree_sequence
    requires
        self.wf(),
    ensures
        r.obeys_prophetic_iter_laws(),
        r.decrease() is Some,
        r.remaining() == Seq::new(self.ord() as nat, |v: int| self.indeg(v) as usize),
    @loop 1
    invariant
        self.wf(),
        order == self.ord(),
        indegrees@.len() == order,
        it1.seq() == self.arcs@.as_ref(),
        forall|x: int| 0 <= x < order ==> #[trigger] indegrees@[x] == indeg_upto(*self, x, it1.index() as int),
    @loop 2
    invariant
        self.wf(),
        order == self.ord(),
        indegrees@.len() == order,
        it1.seq() == self.arcs@.as_ref(),
        0 <= it1.index() < order,
        *set == self.arcs@[it1.index() as int],
        ascending(it2.seq()),
        it2.seq().unref().to_set() == set@,
        forall|x: int| 0 <= x < order ==> #[trigger] indegrees@[x] == indeg_upto(*self, x, it1.index() as int) + if seen(it2.seq(), it2.index() as int, x) { 1int } else { 0int },
    @loop_start 1
        proof {
            assert(*it1.seq()[it1.index() as int] == self.arcs@[it1.index() as int]);
            broadcast use vstd::laws_cmp::group_laws_cmp;
            assert forall|rem: Seq<&usize>| #[trigger] vstd::std_specs::btree::increasing_seq(rem) implies ascending(rem) by { lemma_ref_increasing(rem); }
        }
    @before `*ptr.add(`
        proof {
            let j = it2.index() as int;
            let i = it1.index() as int;
            assert(it2.seq().unref()[j] == v);
            assert(it2.seq().unref().to_set().contains(v));
            assert(self.arcs@[i]@.contains(v));
            assert(!seen(it2.seq(), j, v as int)) by {
                if seen(it2.seq(), j, v as int) {
                    let k = choose|k: int| 0 <= k < j && *(#[trigger] it2.seq()[k]) == v as int;
                    assert(*it2.seq()[k] < *it2.seq()[j]);
                }
            }
            lemma_indeg_upto_le(*self, v as int, i);
        }
    @loop_end 2
        proof {
            let j = it2.index() as int;
            assert forall|x: int| 0 <= x < order implies seen(it2.seq(), j + 1, x) == (seen(it2.seq(), j, x) || x == v) by {
                if seen(it2.seq(), j + 1, x) {
                    let k = choose|k: int| 0 <= k < j + 1 && *(#[trigger] it2.seq()[k]) == x;
                    if k < j { assert(seen(it2.seq(), j, x)); }
                }
                if seen(it2.seq(), j, x) {
                    let k = choose|k: int| 0 <= k < j && *(#[trigger] it2.seq()[k]) == x;
                    assert(0 <= k < j + 1);
                }
                if x == v { assert(*it2.seq()[j] == x); }
            }
        }
    @loop_end 1
        proof {
            let i = it1.index() as int;
            // all items of row i have been seen: seen == membership in the row == has(i, x)
            // (the inner loop's ghost iterator is out of scope here: stated for every item sequence with its invariant)
            assert forall|items: Seq<&usize>, x: int| items.unref().to_set() == set@ && 0 <= x < order implies
                #[trigger] seen(items, items.len() as int, x) == self.has(i, x) by {
                lemma_seen_all(set@, items, x as usize);
            }
        }
    @*/
}
