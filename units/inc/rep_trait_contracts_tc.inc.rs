// ---- shared by the units rep_trait_contracts, rep_trait_contracts_list, rep_trait_contracts_edge_list, rep_trait_contracts_wm ----
// Every trait-contract clause of the opaque digraphs Dg / Dgo / Dgw / Dgi (prelude/dg.rs, dg_ops.rs, dgw_usize.rs,
// dgw_isize.rs), stated once over the abstract digraph (ord, has[, wt]) it talks about.  Unit rep_trait_contracts proves
// (lemmas `text_*`) that these predicates at (d.ord(), d.has, d.wt) ARE the ensures texts of the opaque types.
// needs prelude/dg.rs (`lex_lt`) and prelude/dg_ops.rs (`vertex_seq`).

/// `wf` of Dg / Dgo: at least one vertex, arcs join distinct vertices of V = 0..ord
spec fn tc_wf(ord: nat, has: spec_fn(int, int) -> bool) -> bool {
    &&& ord > 0
    &&& ord <= usize::MAX
    &&& forall|u: int, v: int| #[trigger] has(u, v) ==> 0 <= u < ord && 0 <= v < ord && u != v
}

/// `wf` of Dgw (lo, hi = 0, usize::MAX) / Dgi (lo, hi = isize::MIN, isize::MAX)
spec fn tc_wf_weighted(ord: nat, has: spec_fn(int, int) -> bool, wt: spec_fn(int, int) -> int, lo: int, hi: int) -> bool {
    &&& ord > 0
    &&& ord <= usize::MAX
    &&& forall|u: int, v: int| #[trigger] has(u, v) ==> 0 <= u < ord && 0 <= v < ord && u != v && lo <= wt(u, v) <= hi
}

/// order / contiguous_order (Dg, Dgo, Dgw, Dgi)
spec fn tc_order(ord: nat, r: usize) -> bool { r == ord }

/// has_arc (Dg, Dgo): total
spec fn tc_has_arc(has: spec_fn(int, int) -> bool, u: usize, v: usize, r: bool) -> bool { r == has(u as int, v as int) }

/// protocol clauses of every iterator-valued method
#[verifier::prophetic]
spec fn tc_iter<I: Iterator>(r: I) -> bool { r.obeys_prophetic_iter_laws() && r.decrease() is Some }

/// vertices (Dg, Dgi): 0..ord ascending
spec fn tc_vertices(ord: nat, rem: Seq<usize>) -> bool {
    rem.len() == ord && forall|i: int| 0 <= i < rem.len() ==> #[trigger] rem[i] == i
}

/// vertices (Dgo)
spec fn tc_vertices_o(ord: nat, rem: Seq<usize>) -> bool { rem == vertex_seq(ord) }

/// out_neighbors (Dg, Dgo), clauses 3 and 5: no repeats, every item is an out-neighbour of u
spec fn tc_nb_sound(has: spec_fn(int, int) -> bool, u: usize, rem: Seq<usize>) -> bool {
    &&& rem.no_duplicates()
    &&& forall|i: int| 0 <= i < rem.len() ==> has(u as int, #[trigger] rem[i] as int)
}

/// out_neighbors (Dg, Dgo), clause 4: every out-neighbour of u is an item
spec fn tc_nb_cover(has: spec_fn(int, int) -> bool, u: usize, rem: Seq<usize>) -> bool {
    forall|v: usize| has(u as int, v as int) ==> #[trigger] rem.contains(v)
}

/// arcs (Dg, Dgo): every arc exactly once, in ascending lexicographic order
spec fn tc_arcs(has: spec_fn(int, int) -> bool, rem: Seq<(usize, usize)>) -> bool {
    &&& rem.no_duplicates()
    &&& forall|u: usize, v: usize| has(u as int, v as int) ==> #[trigger] rem.contains((u, v))
    &&& forall|i: int| 0 <= i < rem.len() ==> has((#[trigger] rem[i]).0 as int, rem[i].1 as int)
    &&& forall|i: int, j: int| 0 <= i < j < rem.len() ==> lex_lt(#[trigger] rem[i], #[trigger] rem[j])
}

/// the in- / out-neighbour sets of Dgo (`in_set`, `out_set`)
spec fn tc_in_set(ord: nat, has: spec_fn(int, int) -> bool, v: int) -> Set<int> { Set::range(0, ord as int).filter(|a: int| has(a, v)) }
spec fn tc_out_set(ord: nat, has: spec_fn(int, int) -> bool, u: int) -> Set<int> { Set::range(0, ord as int).filter(|b: int| has(u, b)) }

/// indegree / outdegree (Dgo): returning implies the vertex is in V; the value is the cardinality defined from (V, A)
spec fn tc_indegree(ord: nat, has: spec_fn(int, int) -> bool, v: usize, r: usize) -> bool {
    v < ord && r == tc_in_set(ord, has, v as int).len()
}
spec fn tc_outdegree(ord: nat, has: spec_fn(int, int) -> bool, u: usize, r: usize) -> bool {
    u < ord && r == tc_out_set(ord, has, u as int).len()
}

/// out_neighbors_weighted (Dgw), clauses 3 and 5: no vertex twice, every item is an out-neighbour of u with its weight
/// (`val` embeds the weight type into int: Dgw states its weights as int)
spec fn tc_nbw_sound<W>(has: spec_fn(int, int) -> bool, wt: spec_fn(int, int) -> int, val: spec_fn(W) -> int, u: usize, rem: Seq<(usize, &W)>) -> bool {
    &&& forall|i: int, j: int| 0 <= i < j < rem.len() ==> (#[trigger] rem[i]).0 != (#[trigger] rem[j]).0
    &&& forall|i: int| 0 <= i < rem.len() ==> has(u as int, (#[trigger] rem[i]).0 as int) && val(*rem[i].1) == wt(u as int, rem[i].0 as int)
}

/// out_neighbors_weighted (Dgw), clause 4: every out-neighbour of u is an item
spec fn tc_nbw_cover<W>(has: spec_fn(int, int) -> bool, u: usize, rem: Seq<(usize, &W)>) -> bool {
    forall|v: usize| #![trigger has(u as int, v as int)] has(u as int, v as int) ==> exists|i: int| 0 <= i < rem.len() && (#[trigger] rem[i]).0 == v
}

/// arcs_weighted (Dgi): every arc exactly once with its weight
spec fn tc_arcs_weighted<W>(has: spec_fn(int, int) -> bool, wt: spec_fn(int, int) -> int, val: spec_fn(W) -> int, rem: Seq<(usize, usize, &W)>) -> bool {
    &&& forall|i: int, j: int| 0 <= i < j < rem.len() ==> !((#[trigger] rem[i]).0 == (#[trigger] rem[j]).0 && rem[i].1 == rem[j].1)
    &&& forall|u: usize, v: usize| #![trigger has(u as int, v as int)] has(u as int, v as int) ==> exists|i: int| 0 <= i < rem.len() && (#[trigger] rem[i]).0 == u && rem[i].1 == v
    &&& forall|i: int| 0 <= i < rem.len() ==> has((#[trigger] rem[i]).0 as int, rem[i].1 as int) && val(*rem[i].2) == wt(rem[i].0 as int, rem[i].1 as int)
}

// ---- a listing lemma used for AdjacencyMap::vertices ----

/// strictly ascending ids (map_positional's `ascending_ids`)
spec fn asc_ids(s: Seq<usize>) -> bool {
    forall|i: int, j: int| 0 <= i < j < s.len() ==> #[trigger] s[i] < #[trigger] s[j]
}

/// an ascending listing of {0, .., n-1} is 0, 1, .., n-1
proof fn lemma_asc_initial(s: Seq<usize>, n: nat)
    requires asc_ids(s), n <= usize::MAX + 1, forall|x: usize| #[trigger] s.contains(x) == (x < n),
    ensures s.len() == n, forall|i: int| 0 <= i < s.len() ==> #[trigger] s[i] == i,
    decreases s.len(),
{
    if s.len() == 0 {
        if n > 0 { assert(s.contains(0usize)); }
    } else {
        let last = s.last();
        assert(s.contains(last));
        let top = (n - 1) as usize;
        assert(s.contains(top));
        let k = choose|k: int| 0 <= k < s.len() && s[k] == top;
        if k < s.len() - 1 { assert(s[k] < s[s.len() - 1]); }
        assert(last < n && top == n - 1 && top <= last);
        assert(last == top);
        let p = s.drop_last();
        assert forall|x: usize| #[trigger] p.contains(x) == (x < (n - 1) as nat) by {
            if p.contains(x) {
                let i = choose|i: int| 0 <= i < p.len() && p[i] == x;
                assert(s[i] == x && s[i] < s[s.len() - 1]);
            }
            if x < n - 1 {
                assert(s.contains(x));
                let i = choose|i: int| 0 <= i < s.len() && s[i] == x;
                assert(i < s.len() - 1);
                assert(p[i] == x);
            }
        }
        assert(asc_ids(p)) by {
            assert forall|i: int, j: int| 0 <= i < j < p.len() implies #[trigger] p[i] < #[trigger] p[j] by { assert(s[i] < s[j]); }
        }
        lemma_asc_initial(p, (n - 1) as nat);
        assert forall|i: int| 0 <= i < s.len() implies #[trigger] s[i] == i by {
            if i < s.len() - 1 { assert(p[i] == i); }
        }
    }
}

