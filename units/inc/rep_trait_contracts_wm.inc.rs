//@file src/repr/adjacency_list_weighted/mod.rs
// ---- Closing trait-contract assumptions, AdjacencyListWeighted part 2: the methods under contract in unit weighted_more ----
// (part 1 - wf, order, contiguous_order, has_arc, vertices, outdegree, out_neighbors_weighted - is in unit rep_trait_contracts;
// the `tc_*` predicates are the shared text units/inc/rep_trait_contracts_tc.inc.rs, proved equal to the Dg / Dgo ensures
// texts there.  The map_more methods of AdjacencyMap are compared in unit rep_trait_contracts, module map_side.)

mod weighted_more_side {
use super::*;
//@import units/inc/weighted_core.inc.rs
//@import units/inc/weighted_more.inc.rs

/// the arc relation of the weighted list as the `has` of a trait contract (ord := g.ord())
spec fn whas<W>(g: AdjacencyListWeighted<W>) -> spec_fn(int, int) -> bool { |a: int, b: int| g.has(a, b) }

/// OutNeighbors::out_neighbors (proved in weighted_more for every W, under the precondition `u < self.ord()` - which is also
/// the precondition of Dg::out_neighbors / Dgo::out_neighbors: protocol, every item an out-neighbour, every out-neighbour an
/// item, strictly ascending, no repeats).  ALL clauses of Dg / Dgo follow, coverage included and unconditionally (the key
/// iterator of the row is a source).
proof fn lemma_weighted_meets_out_neighbors<W, I: Iterator<Item = usize>>(g: AdjacencyListWeighted<W>, u: usize, r: I)
    requires
        u < g.ord(),
        r.obeys_prophetic_iter_laws(),
        r.decrease() is Some,
        forall|i: int| 0 <= i < r.remaining().len() ==> g.has(u as int, #[trigger] r.remaining()[i] as int),
        forall|v: int| #[trigger] g.has(u as int, v) ==> r.remaining().contains(v as usize),
        forall|i: int, j: int| 0 <= i < j < r.remaining().len() ==> r.remaining()[i] < r.remaining()[j],
        r.remaining().no_duplicates(),
    ensures
        tc_iter(r),
        tc_nb_sound(whas(g), u, r.remaining()),
        tc_nb_cover(whas(g), u, r.remaining()),
{
    let rem = r.remaining();
    assert forall|i: int| 0 <= i < rem.len() implies whas(g)(u as int, #[trigger] rem[i] as int) by {
        assert(g.has(u as int, rem[i] as int));
    }
    assert forall|v: usize| whas(g)(u as int, v as int) implies #[trigger] rem.contains(v) by {
        assert(g.has(u as int, v as int));
        assert(rem.contains((v as int) as usize));
    }
}

/// Indegree::indegree (proved in weighted_more at the instances W = isize and W = usize - the generic impl cannot be verified
/// with a generic W, see there: `v < self.ord()`, `r == self.indeg(v as int)`, the cardinality of the set of vertices a below
/// ord with has(a, v)): the ensures of Dgo::indegree.  (The lemma is generic: the postcondition has the same text at both
/// instances.)
proof fn lemma_weighted_meets_indegree<W>(g: AdjacencyListWeighted<W>, v: usize, r: usize)
    requires v < g.ord(), r == g.indeg(v as int),
    ensures tc_indegree(g.ord() as nat, whas(g), v, r),
{
    range_set_properties::<int>(0, g.ord());
    assert(wm_in_set_below(g, v as int, g.ord()) =~= tc_in_set(g.ord() as nat, whas(g), v as int));
}
} // mod weighted_more_side
