//@file src/repr/edge_list/mod.rs
// ---- C14: defining arc predicates, each written from the property text (identical to units/inc/matrix_gen.inc.rs) ----

/// complete(n) has all n(n-1) arcs: every ordered pair of distinct vertices
spec fn complete_arc(n: int, a: int, b: int) -> bool {
    0 <= a < n && 0 <= b < n && a != b
}

/// circuit(n) has the arcs i -> (i+1) mod n (none for n = 1)
spec fn circuit_arc(n: int, a: int, b: int) -> bool {
    n > 1 && 0 <= a < n && 0 <= b < n && b == (a + 1) % n
}

/// cycle(n) has those arcs and their reverses
spec fn cycle_arc(n: int, a: int, b: int) -> bool {
    circuit_arc(n, a, b) || circuit_arc(n, b, a)
}

/// path(n) has i -> i+1 for i < n-1
spec fn path_arc(n: int, a: int, b: int) -> bool {
    0 <= a < n - 1 && b == a + 1
}

// ---- proof helpers: `% n` free form of the circuit predicate ----

/// successor on the n-circuit without `%`
spec fn circuit_lin(n: int, a: int, b: int) -> bool {
    n > 1 && 0 <= a < n && b == (if a == n - 1 { 0 } else { a + 1 })
}

spec fn circuit_mod_ok(n: int) -> bool {
    forall|a: int, b: int| #[trigger] circuit_arc(n, a, b) == circuit_lin(n, a, b)
}

proof fn lemma_circuit_lin(n: int)
    ensures circuit_mod_ok(n),
{
    assert forall|a: int, b: int| #[trigger] circuit_arc(n, a, b) == circuit_lin(n, a, b) by {
        if n > 1 && 0 <= a < n {
            if a == n - 1 {
                vstd::arithmetic::div_mod::lemma_mod_self_0(n);
            } else {
                vstd::arithmetic::div_mod::lemma_small_mod((a + 1) as nat, n as nat);
            }
        }
    }
}

/// what `collect::<BTreeSet<_>>()` promises about the item sequence `rem` it consumed (see prelude/list_ops_std.rs)
spec fn collected(rem: Seq<(usize, usize)>, s: BTreeSet<(usize, usize)>) -> bool {
    <BTreeSet<(usize, usize)> as vstd::std_specs::iter::FromIteratorSpec<(usize, usize)>>::from_iter_ensures(rem, s)
}

impl EdgeList {
    /*@fn trait=Empty name=trivial file=src/gen/empty.rs dropwhere=Self
    ensures
        r.wf(),
        r.ord() == 1,
        forall|a: int, b: int| #![trigger r.has(a, b)] !r.has(a, b),
    @*/

    /*@fn impl=EdgeList trait=Circuit name=circuit props=C14,C13
    ensures
        order >= 1,
        r.wf(),
        r.ord() == order,
        forall|a: int, b: int| #![trigger r.has(a, b)] r.has(a, b) == circuit_arc(order as int, a, b),
    @closure 1 |u: usize| -> (p: (usize, usize))
    requires
        u < order,
    ensures
        p == (u, ((u + 1) % (order as int)) as usize),
    @fn_start
        broadcast use vstd::std_specs::iter::group_iter_axioms;
        broadcast use axiom_btree_set_from_iter;
        proof {
            let n = order as int;
            assert forall|rem: Seq<(usize, usize)>, s: BTreeSet<(usize, usize)>|
                #[trigger] <BTreeSet<(usize, usize)> as vstd::std_specs::iter::FromIteratorSpec<(usize, usize)>>::from_iter_ensures(rem, s) && n > 1 && rem.len() == n
                && (forall|k: int| 0 <= k < n ==> #[trigger] rem[k] == (k as usize, ((k + 1) % n) as usize))
                implies (forall|p: (usize, usize)| #[trigger] s@.contains(p) == circuit_arc(n, p.0 as int, p.1 as int))
                    && (forall|p: (usize, usize)| #[trigger] s@.contains(p) ==> p.0 != p.1) by {
                assert forall|p: (usize, usize)| #[trigger] s@.contains(p) == circuit_arc(n, p.0 as int, p.1 as int) && (s@.contains(p) ==> p.0 != p.1) by {
                    if circuit_arc(n, p.0 as int, p.1 as int) { assert(rem[p.0 as int] == p); }
                    lemma_circuit_lin(n);
                    assert(circuit_arc(n, p.0 as int, p.1 as int) == circuit_lin(n, p.0 as int, p.1 as int));
                }
            }
        }
    @*/

    /*@fn impl=EdgeList trait=Path name=path props=C14,C13
    ensures
        order >= 1,
        r.wf(),
        r.ord() == order,
        forall|a: int, b: int| #![trigger r.has(a, b)] r.has(a, b) == path_arc(order as int, a, b),
    @closure 1 |u: usize| -> (p: (usize, usize))
    requires
        u < order - 1,
    ensures
        p == (u, (u + 1) as usize),
    @fn_start
        broadcast use vstd::std_specs::iter::group_iter_axioms;
        broadcast use axiom_btree_set_from_iter;
        proof {
            let n = order as int;
            assert forall|rem: Seq<(usize, usize)>, s: BTreeSet<(usize, usize)>|
                #[trigger] <BTreeSet<(usize, usize)> as vstd::std_specs::iter::FromIteratorSpec<(usize, usize)>>::from_iter_ensures(rem, s)
                && n > 1 && rem.len() == n - 1
                && (forall|k: int| 0 <= k < n - 1 ==> #[trigger] rem[k] == (k as usize, (k + 1) as usize))
                implies (forall|p: (usize, usize)| #[trigger] s@.contains(p) == path_arc(n, p.0 as int, p.1 as int)) by {
                assert forall|p: (usize, usize)| #[trigger] s@.contains(p) == path_arc(n, p.0 as int, p.1 as int) by {
                    if path_arc(n, p.0 as int, p.1 as int) { assert(rem[p.0 as int] == p); }
                }
            }
        }
    @*/

    // A: `#[derive(Clone)]` on `struct EdgeList { arcs: BTreeSet<(usize, usize)>, order: usize }` is fieldwise (rustdoc of the
    // Clone derive: "the derived implementation of Clone calls clone on each field"); `BTreeSet::clone` returns a set with
    // the same elements (vstd) and `usize::clone` an equal value.  The extractor drops derives, so the derived method is
    // stated here as an assumed inherent contract.
    #[verifier::external_body]
    fn clone(&self) -> (r: Self)
        ensures r.arcs@ == self.arcs@, r.order == self.order,
    { unimplemented!() }

    /*@fn impl=EdgeList trait=Converse name=converse props=C11,C13
    requires
        self.wf(),
    ensures
        r.wf(),
        r.ord() == self.ord(),
        forall|a: int, b: int| #![trigger r.has(a, b)] r.has(a, b) == self.has(b, a),
    @closure 1 |t: &(usize, usize)| -> (p: (usize, usize))
    ensures
        p == (t.1, t.0),
    @fn_start
        broadcast use vstd::std_specs::iter::group_iter_axioms;
        broadcast use axiom_btree_set_from_iter;
        proof {
            // the collected set is the tail expression, so the facts about the item sequence `src` of `self.arcs.iter()` and
            // the mapped item sequence `rem` are stated for every candidate (triggers: terms of the std contracts)
            assert forall|src: Seq<&(usize, usize)>, rem: Seq<(usize, usize)>, s: BTreeSet<(usize, usize)>|
                #[trigger] <BTreeSet<(usize, usize)> as vstd::std_specs::iter::FromIteratorSpec<(usize, usize)>>::from_iter_ensures(rem, s)
                && #[trigger] src.unref().to_set() == self.arcs@ && rem.len() == src.len()
                && (forall|k: int| 0 <= k < rem.len() ==> #[trigger] rem[k] == ((*src[k]).1, (*src[k]).0))
                implies (forall|p: (usize, usize)| #[trigger] s@.contains(p) == self.arcs@.contains((p.1, p.0))) by {
                assert forall|p: (usize, usize)| #[trigger] s@.contains(p) == self.arcs@.contains((p.1, p.0)) by {
                    let q = (p.1, p.0);
                    if s@.contains(p) {
                        let k = choose|k: int| 0 <= k < rem.len() && rem[k] == p;
                        assert(src.unref()[k] == q);
                        assert(src.unref().to_set().contains(q));
                    }
                    if self.arcs@.contains(q) {
                        assert(src.unref().to_set().contains(q));
                        let k = choose|k: int| 0 <= k < src.len() && src.unref()[k] == q;
                        assert(rem[k] == p);
                    }
                }
            }
        }
    @*/

    /*@fn impl=EdgeList trait=Union name=union props=C11,C13
    requires
        self.wf(),
        other.wf(),
    ensures
        r.wf(),
        r.ord() == (if self.ord() >= other.ord() { self.ord() } else { other.ord() }),
        forall|a: int, b: int| #![trigger r.has(a, b)] r.has(a, b) == (self.has(a, b) || other.has(a, b)),
    @fn_start
        let ghost other0 = *other;
    @loop 1
    invariant
        self.wf(),
        other0.wf(),
        *other == *self || *other == other0,
        union.wf(),
        union.ord() == (if self.ord() >= other0.ord() { self.ord() } else { other0.ord() }),
        it1.seq().unref().to_set() == other.arcs@,
        forall|a: int, b: int| #![trigger union.has(a, b)] union.has(a, b) ==> self.has(a, b) || other0.has(a, b),
        forall|a: int, b: int| #![trigger union.has(a, b)] (if *other == *self { other0.has(a, b) } else { self.has(a, b) }) ==> union.has(a, b),
        forall|i: int| 0 <= i < it1.index() ==> union.has((#[trigger] it1.seq()[i]).0 as int, it1.seq()[i].1 as int),
    @before `union.add_arc(`
        proof {
            let k = it1.index() as int;
            assert(it1.seq().unref()[k] == (u, v));
            assert(it1.seq().unref().to_set().contains((u, v)));
            assert(other.has(u as int, v as int));
        }
    @*/
}
