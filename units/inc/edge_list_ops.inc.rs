//@file src/repr/edge_list/mod.rs
// ---- C14: defining arc predicates, each written from the property text (identical to units/inc/matrix_gen.inc.rs) ----

/// complete(n) has all n(n-1) arcs: every ordered pair of distinct vertices
spec fn complete_arc(n: int, a: int, b: int) -> bool {
    0 <= a < n && 0 <= b < n && a != b
}

/// circuit(n) has the arcs i -> (i+1) mod n (none for n = 1)
spec fn circuit_arc(n: int, a: int, b: int) -> bool {
    n > 1 && 0 <= a < n && 0 <= b < n && b == (a + 1) % n
}

/// cycle(n) has those arcs and their reverses
spec fn cycle_arc(n: int, a: int, b: int) -> bool {
    circuit_arc(n, a, b) || circuit_arc(n, b, a)
}

/// path(n) has i -> i+1 for i < n-1
spec fn path_arc(n: int, a: int, b: int) -> bool {
    0 <= a < n - 1 && b == a + 1
}

// ---- proof helpers: `% n` free form of the circuit predicate ----

/// successor on the n-circuit without `%`
spec fn circuit_lin(n: int, a: int, b: int) -> bool {
    n > 1 && 0 <= a < n && b == (if a == n - 1 { 0 } else { a + 1 })
}

spec fn circuit_mod_ok(n: int) -> bool {
    forall|a: int, b: int| #[trigger] circuit_arc(n, a, b) == circuit_lin(n, a, b)
}

proof fn lemma_circuit_lin(n: int)
    ensures circuit_mod_ok(n),
{
    assert forall|a: int, b: int| #[trigger] circuit_arc(n, a, b) == circuit_lin(n, a, b) by {
        if n > 1 && 0 <= a < n {
            if a == n - 1 {
                vstd::arithmetic::div_mod::lemma_mod_self_0(n);
            } else {
                vstd::arithmetic::div_mod::lemma_small_mod((a + 1) as nat, n as nat);
            }
        }
    }
}

// The generators below build the arc set as `(range).map(closure).collect()` inside the returned struct literal, so the
// collected set cannot be named in a hint.  Each hint therefore states, for EVERY candidate item sequence `rem` and set `s`
// related by vstd's `collect` contract (`FromIteratorSpec::from_iter_ensures(rem, s)`, given meaning for BTreeSet by the
// assumed axiom_btree_set_from_iter in prelude/list_ops_std.rs), that items of the expected shape give the defining predicate.

impl EdgeList {
    /*@fn trait=Empty name=trivial file=src/gen/empty.rs dropwhere=Self
    ensures
        r.wf(),
        r.ord() == 1,
        forall|a: int, b: int| #![trigger r.has(a, b)] !r.has(a, b),
    @*/

    /*@fn impl=EdgeList trait=Circuit name=circuit props=C14,C13
    ensures
        order >= 1,
        r.wf(),
        r.ord() == order,
        forall|a: int, b: int| #![trigger r.has(a, b)] r.has(a, b) == circuit_arc(order as int, a, b),
    @closure 1 |u: usize| -> (p: (usize, usize))
    requires
        u < order,
    ensures
        p == (u, ((u + 1) % (order as int)) as usize),
    @fn_start
        broadcast use vstd::std_specs::iter::group_iter_axioms;
        broadcast use axiom_btree_set_from_iter;
        proof {
            let n = order as int;
            assert forall|rem: Seq<(usize, usize)>, s: BTreeSet<(usize, usize)>|
                #[trigger] <BTreeSet<(usize, usize)> as vstd::std_specs::iter::FromIteratorSpec<(usize, usize)>>::from_iter_ensures(rem, s) && n > 1 && rem.len() == n
                && (forall|k: int| 0 <= k < n ==> #[trigger] rem[k] == (k as usize, ((k + 1) % n) as usize))
                implies (forall|p: (usize, usize)| #[trigger] s@.contains(p) == circuit_arc(n, p.0 as int, p.1 as int))
                    && (forall|p: (usize, usize)| #[trigger] s@.contains(p) ==> p.0 != p.1) by {
                assert forall|p: (usize, usize)| #[trigger] s@.contains(p) == circuit_arc(n, p.0 as int, p.1 as int) && (s@.contains(p) ==> p.0 != p.1) by {
                    if circuit_arc(n, p.0 as int, p.1 as int) { assert(rem[p.0 as int] == p); }
                    lemma_circuit_lin(n);
                    assert(circuit_arc(n, p.0 as int, p.1 as int) == circuit_lin(n, p.0 as int, p.1 as int));
                }
            }
        }
    @*/

    /*@fn impl=EdgeList trait=Path name=path props=C14,C13
    ensures
        order >= 1,
        r.wf(),
        r.ord() == order,
        forall|a: int, b: int| #![trigger r.has(a, b)] r.has(a, b) == path_arc(order as int, a, b),
    @closure 1 |u: usize| -> (p: (usize, usize))
    requires
        u < order - 1,
    ensures
        p == (u, (u + 1) as usize),
    @fn_start
        broadcast use vstd::std_specs::iter::group_iter_axioms;
        broadcast use axiom_btree_set_from_iter;
        proof {
            let n = order as int;
            assert forall|rem: Seq<(usize, usize)>, s: BTreeSet<(usize, usize)>|
                #[trigger] <BTreeSet<(usize, usize)> as vstd::std_specs::iter::FromIteratorSpec<(usize, usize)>>::from_iter_ensures(rem, s)
                && n > 1 && rem.len() == n - 1
                && (forall|k: int| 0 <= k < n - 1 ==> #[trigger] rem[k] == (k as usize, (k + 1) as usize))
                implies (forall|p: (usize, usize)| #[trigger] s@.contains(p) == path_arc(n, p.0 as int, p.1 as int)) by {
                assert forall|p: (usize, usize)| #[trigger] s@.contains(p) == path_arc(n, p.0 as int, p.1 as int) by {
                    if path_arc(n, p.0 as int, p.1 as int) { assert(rem[p.0 as int] == p); }
                }
            }
        }
    @*/

    // A: `#[derive(Clone)]` on `struct EdgeList { arcs: BTreeSet<(usize, usize)>, order: usize }` is fieldwise (rustdoc of the
    // Clone derive: "the derived implementation of Clone calls clone on each field"); `BTreeSet::clone` returns a set with
    // the same elements (vstd) and `usize::clone` an equal value.  The extractor drops derives, so the derived method is
    // stated here as an assumed inherent contract.
    #[verifier::external_body]
    fn clone(&self) -> (r: Self)
        ensures r.arcs@ == self.arcs@, r.order == self.order,
    { unimplemented!() }

    /*@fn impl=EdgeList trait=Converse name=converse props=C11,C13
    requires
        self.wf(),
    ensures
        r.wf(),
        r.ord() == self.ord(),
        forall|a: int, b: int| #![trigger r.has(a, b)] r.has(a, b) == self.has(b, a),
    @closure 1 |t: &(usize, usize)| -> (p: (usize, usize))
    ensures
        p == (t.1, t.0),
    @fn_start
        broadcast use vstd::std_specs::iter::group_iter_axioms;
        broadcast use axiom_btree_set_from_iter;
        proof {
            // the collected set is the tail expression, so the facts about the item sequence `src` of `self.arcs.iter()` and
            // the mapped item sequence `rem` are stated for every candidate (triggers: terms of the std contracts)
            assert forall|src: Seq<&(usize, usize)>, rem: Seq<(usize, usize)>, s: BTreeSet<(usize, usize)>|
                #[trigger] <BTreeSet<(usize, usize)> as vstd::std_specs::iter::FromIteratorSpec<(usize, usize)>>::from_iter_ensures(rem, s)
                && #[trigger] src.unref().to_set() == self.arcs@ && rem.len() == src.len()
                && (forall|k: int| 0 <= k < rem.len() ==> #[trigger] rem[k] == ((*src[k]).1, (*src[k]).0))
                implies (forall|p: (usize, usize)| #[trigger] s@.contains(p) == self.arcs@.contains((p.1, p.0))) by {
                assert forall|p: (usize, usize)| #[trigger] s@.contains(p) == self.arcs@.contains((p.1, p.0)) by {
                    let q = (p.1, p.0);
                    if s@.contains(p) {
                        let k = choose|k: int| 0 <= k < rem.len() && rem[k] == p;
                        assert(src.unref()[k] == q);
                        assert(src.unref().to_set().contains(q));
                    }
                    if self.arcs@.contains(q) {
                        assert(src.unref().to_set().contains(q));
                        let k = choose|k: int| 0 <= k < src.len() && src.unref()[k] == q;
                        assert(rem[k] == p);
                    }
                }
            }
        }
    @*/

    /*@fn impl=EdgeList trait=Union name=union props=C11,C13
    requires
        self.wf(),
        other.wf(),
    ensures
        r.wf(),
        r.ord() == (if self.ord() >= other.ord() { self.ord() } else { other.ord() }),
        forall|a: int, b: int| #![trigger r.has(a, b)] r.has(a, b) == (self.has(a, b) || other.has(a, b)),
    @fn_start
        let ghost other0 = *other;
    @loop 1
    invariant
        self.wf(),
        other0.wf(),
        *other == *self || *other == other0,
        union.wf(),
        union.ord() == (if self.ord() >= other0.ord() { self.ord() } else { other0.ord() }),
        it1.seq().unref().to_set() == other.arcs@,
        forall|a: int, b: int| #![trigger union.has(a, b)] union.has(a, b) ==> self.has(a, b) || other0.has(a, b),
        forall|a: int, b: int| #![trigger union.has(a, b)] (if *other == *self { other0.has(a, b) } else { self.has(a, b) }) ==> union.has(a, b),
        forall|i: int| 0 <= i < it1.index() ==> union.has((#[trigger] it1.seq()[i]).0 as int, it1.seq()[i].1 as int),
    @before `union.add_arc(`
        proof {
            let k = it1.index() as int;
            assert(it1.seq().unref()[k] == (u, v));
            assert(it1.seq().unref().to_set().contains((u, v)));
            assert(other.has(u as int, v as int));
        }
    @*/
}

// ---- C12 definitions (same wording as units/inc/matrix_ops.inc.rs) ----

/// the unordered pair {u, v} is joined by at least one arc
spec fn joined(g: EdgeList, u: int, v: int) -> bool { g.has(u, v) || g.has(v, u) }

/// ... by exactly one arc
spec fn joined_once(g: EdgeList, u: int, v: int) -> bool { g.has(u, v) != g.has(v, u) }

/// C12: every unordered pair of distinct vertices is joined by at least one arc
spec fn semicomplete(g: EdgeList) -> bool {
    forall|u: int, v: int| 0 <= u < g.ord() && 0 <= v < g.ord() && u != v ==> #[trigger] joined(g, u, v)
}

/// C12: every unordered pair of distinct vertices is joined by exactly one arc
spec fn tournament(g: EdgeList) -> bool {
    forall|u: int, v: int| 0 <= u < g.ord() && 0 <= v < g.ord() && u != v ==> #[trigger] joined_once(g, u, v)
}

/// what the inner `all` of is_semicomplete decides for one u
spec fn row_joined(g: EdgeList, u: int) -> bool {
    forall|v: int| u < v < g.ord() ==> #[trigger] joined(g, u, v)
}

/// what the inner `all` of is_tournament decides for one u
spec fn row_joined_once(g: EdgeList, u: int) -> bool {
    forall|v: int| u < v < g.ord() ==> #[trigger] joined_once(g, u, v)
}

proof fn lemma_tournament_rows(g: EdgeList)
    ensures tournament(g) == (forall|u: int| 0 <= u < g.ord() ==> #[trigger] row_joined_once(g, u)),
{
    if forall|u: int| 0 <= u < g.ord() ==> #[trigger] row_joined_once(g, u) {
        assert forall|u: int, v: int| 0 <= u < g.ord() && 0 <= v < g.ord() && u != v implies #[trigger] joined_once(g, u, v) by {
            if u < v { assert(row_joined_once(g, u)); } else { assert(row_joined_once(g, v)); assert(joined_once(g, v, u)); }
        }
    }
}

proof fn lemma_semicomplete_rows(g: EdgeList)
    ensures semicomplete(g) == (forall|u: int| 0 <= u < g.ord() ==> #[trigger] row_joined(g, u)),
{
    if forall|u: int| 0 <= u < g.ord() ==> #[trigger] row_joined(g, u) {
        assert forall|u: int, v: int| 0 <= u < g.ord() && 0 <= v < g.ord() && u != v implies #[trigger] joined(g, u, v) by {
            if u < v { assert(row_joined(g, u)); } else { assert(row_joined(g, v)); assert(joined(g, v, u)); }
        }
    }
}

// ---- counting over an abstract arc set: the number of unordered pairs of n vertices is n(n-1)/2 ----

/// the pairs (0, b), .., (k-1, b)
spec fn column(k: int, b: int) -> Set<(int, int)> { Set::<int>::range(0, k).map(|a: int| (a, b)) }

/// the unordered pairs of 0..n, coded as (a, b) with a < b
spec fn upper_pairs(n: int) -> Set<(int, int)>
    decreases n,
{
    if n <= 1 { Set::empty() } else { upper_pairs(n - 1) + column(n - 1, n - 1) }
}

proof fn lemma_column(k: int, b: int)
    requires k >= 0,
    ensures column(k, b).len() == k, forall|p: (int, int)| #[trigger] column(k, b).contains(p) == (0 <= p.0 < k && p.1 == b),
{
    let rn = Set::<int>::range(0, k);
    vstd::set_lib::range_set_properties::<int>(0, k);
    let g = |a: int| (a, b);
    assert(rn.injective_on(g)) by {
        assert forall|x1: int, x2: int| rn.contains(x1) && rn.contains(x2) && g(x1) == g(x2) implies x1 == x2 by {}
    }
    assert forall|p: (int, int)| #[trigger] column(k, b).contains(p) == (0 <= p.0 < k && p.1 == b) by {
        rn.lemma_map_contains(g, p);
        if 0 <= p.0 < k && p.1 == b { assert(rn.contains(p.0) && g(p.0) == p); }
    }
    vstd::set_lib::lemma_map_size(rn, column(k, b), g);
}

proof fn lemma_upper_pairs(n: int)
    requires n >= 0,
    ensures
        upper_pairs(n).len() * 2 == n * n - n,
        forall|p: (int, int)| #[trigger] upper_pairs(n).contains(p) == (0 <= p.0 < p.1 < n),
    decreases n,
{
    if n <= 1 {
        assert(n * n - n == 0) by (nonlinear_arith) requires n == 0 || n == 1;
        assert(upper_pairs(n).len() == 0);
    } else {
        lemma_upper_pairs(n - 1);
        lemma_column(n - 1, n - 1);
        let prev = upper_pairs(n - 1);
        let col = column(n - 1, n - 1);
        assert(prev.disjoint(col));
        vstd::set_lib::lemma_set_disjoint_lens(prev, col);
        assert(upper_pairs(n) == prev + col);
        assert(upper_pairs(n).len() == prev.len() + (n - 1));
        assert((n - 1) * (n - 1) - (n - 1) + 2 * (n - 1) == n * n - n) by (nonlinear_arith);
    }
}

/// the arc set is inside V x V minus the diagonal
spec fn arcs_in_range(n: int, arcs: Set<(int, int)>) -> bool {
    forall|p: (int, int)| #[trigger] arcs.contains(p) ==> 0 <= p.0 < n && 0 <= p.1 < n && p.0 != p.1
}
spec fn set_joined(arcs: Set<(int, int)>, u: int, v: int) -> bool { arcs.contains((u, v)) || arcs.contains((v, u)) }
spec fn set_joined_once(arcs: Set<(int, int)>, u: int, v: int) -> bool { arcs.contains((u, v)) != arcs.contains((v, u)) }
spec fn set_semicomplete(n: int, arcs: Set<(int, int)>) -> bool {
    forall|u: int, v: int| 0 <= u < n && 0 <= v < n && u != v ==> #[trigger] set_joined(arcs, u, v)
}
spec fn set_tournament(n: int, arcs: Set<(int, int)>) -> bool {
    forall|u: int, v: int| 0 <= u < n && 0 <= v < n && u != v ==> #[trigger] set_joined_once(arcs, u, v)
}
/// the arc chosen for the unordered pair p = (a, b), a < b: a -> b if present, else b -> a
spec fn pair_arc(arcs: Set<(int, int)>, p: (int, int)) -> (int, int) { if arcs.contains(p) { p } else { (p.1, p.0) } }

/// semicomplete ==> at least one arc per unordered pair ==> |A| >= n(n-1)/2;  tournament ==> exactly one ==> |A| == n(n-1)/2
proof fn lemma_set_pair_count(n: int, arcs: Set<(int, int)>)
    requires n >= 1, arcs_in_range(n, arcs),
    ensures
        set_semicomplete(n, arcs) ==> arcs.len() * 2 >= n * n - n,
        set_tournament(n, arcs) ==> arcs.len() * 2 == n * n - n,
{
    let u = upper_pairs(n);
    let f = |p: (int, int)| pair_arc(arcs, p);
    lemma_upper_pairs(n);
    if set_tournament(n, arcs) {
        assert forall|a: int, b: int| 0 <= a < n && 0 <= b < n && a != b implies #[trigger] set_joined(arcs, a, b) by {
            assert(set_joined_once(arcs, a, b));
        }
    }
    if set_semicomplete(n, arcs) {
        assert(u.injective_on(f)) by {
            assert forall|x1: (int, int), x2: (int, int)| u.contains(x1) && u.contains(x2) && f(x1) == f(x2) implies x1 == x2 by {}
        }
        let img = u.map(f);
        assert(img.subset_of(arcs)) by {
            assert forall|q: (int, int)| img.contains(q) implies arcs.contains(q) by {
                u.lemma_map_contains(f, q);
                let p = choose|p: (int, int)| u.contains(p) && q == f(p);
                assert(set_joined(arcs, p.0, p.1));
            }
        }
        vstd::set_lib::lemma_map_size(u, img, f);
        vstd::set_lib::lemma_len_subset(img, arcs);
        if set_tournament(n, arcs) {
            assert(arcs.subset_of(img)) by {
                assert forall|q: (int, int)| arcs.contains(q) implies img.contains(q) by {
                    u.lemma_map_contains(f, q);
                    if q.0 < q.1 {
                        assert(u.contains(q) && f(q) == q);
                    } else {
                        let t = (q.1, q.0);
                        assert(set_joined_once(arcs, q.0, q.1));
                        assert(u.contains(t) && f(t) == q);
                    }
                }
            }
            assert(arcs =~= img);
        }
    }
}

/// the counting facts at the EdgeList: `size()` is |arcs@| = |arc_set()|
proof fn lemma_pair_count(g: EdgeList)
    requires g.wf(),
    ensures
        semicomplete(g) ==> g.arcs@.len() * 2 >= g.ord() * g.ord() - g.ord(),
        tournament(g) ==> g.arcs@.len() * 2 == g.ord() * g.ord() - g.ord(),
{
    let n = g.ord();
    let arcs = g.arc_set();
    lemma_edge_arc_set(g);
    lemma_edge_wf_has(g);
    assert(arcs_in_range(n, arcs)) by {
        assert forall|p: (int, int)| #[trigger] arcs.contains(p) implies 0 <= p.0 < n && 0 <= p.1 < n && p.0 != p.1 by {
            assert(g.has(p.0, p.1));
        }
    }
    if semicomplete(g) {
        assert forall|u: int, v: int| 0 <= u < n && 0 <= v < n && u != v implies #[trigger] set_joined(arcs, u, v) by {
            assert(joined(g, u, v));
        }
    }
    if tournament(g) {
        assert forall|u: int, v: int| 0 <= u < n && 0 <= v < n && u != v implies #[trigger] set_joined_once(arcs, u, v) by {
            assert(joined_once(g, u, v));
        }
    }
    lemma_set_pair_count(n, arcs);
}

impl EdgeList {
    // FINDING (C12/C13, see report): `order * (order - 1)` overflows usize for order > 2^32, e.g.
    // `EdgeList::empty(1 << 33).is_tournament()` panics in a debug build ("attempt to multiply with overflow", not a
    // documented panic) and silently wraps in a release build.  The contract is therefore proved for order <= 2^32 only.
    /*@fn impl=EdgeList trait=IsSemicomplete name=is_semicomplete props=C12,C13
    requires
        self.wf(),
        self.ord() <= 0x1_0000_0000,
    ensures
        r == semicomplete(*self),
    @closure 1 |u: usize| -> (b: bool)
    requires
        u < order,
    ensures
        b == row_joined(*self, u as int),
    @closure 2 |v: usize| -> (b2: bool)
    ensures
        b2 == joined(*self, u as int, v as int),
    @after `let order = self.order();`
        proof {
            assert(order * (order - 1) == order * order - order) by (nonlinear_arith) requires order >= 1;
            assert((order - 1) * order == order * (order - 1)) by (nonlinear_arith) requires order >= 1;  // robust against commuted operands
            assert(order * (order - 1) <= usize::MAX) by (nonlinear_arith) requires 1 <= order <= 0x1_0000_0000;
            lemma_pair_count(*self);
            lemma_semicomplete_rows(*self);
            let rem = (core::ops::Range { start: 0usize, end: order }).remaining();
            assert forall|a: int| 0 <= a < order implies #[trigger] row_joined(*self, a) == row_joined(*self, rem[a] as int) by {}
        }
    @before `(u +`
        proof {
            let rem2 = (core::ops::Range { start: (u + 1) as usize, end: order }).remaining();
            assert forall|c: int| u < c < order implies #[trigger] joined(*self, u as int, c) == joined(*self, u as int, rem2[c - u - 1] as int) by {}
        }
    @*/

    /*@fn impl=EdgeList trait=IsTournament name=is_tournament props=C12,C13
    requires
        self.wf(),
        self.ord() <= 0x1_0000_0000,
    ensures
        r == tournament(*self),
    @closure 1 |u: usize| -> (b: bool)
    requires
        u < order,
    ensures
        b == row_joined_once(*self, u as int),
    @closure 2 |v: usize| -> (b2: bool)
    ensures
        b2 == joined_once(*self, u as int, v as int),
    @after `let order = self.order();`
        proof {
            assert(order * (order - 1) == order * order - order) by (nonlinear_arith) requires order >= 1;
            assert((order - 1) * order == order * (order - 1)) by (nonlinear_arith) requires order >= 1;  // robust against commuted operands
            assert(order * (order - 1) <= usize::MAX) by (nonlinear_arith) requires 1 <= order <= 0x1_0000_0000;
            lemma_pair_count(*self);
            lemma_tournament_rows(*self);
            let rem = (core::ops::Range { start: 0usize, end: order }).remaining();
            assert forall|a: int| 0 <= a < order implies #[trigger] row_joined_once(*self, a) == row_joined_once(*self, rem[a] as int) by {}
        }
    @before `(u +`
        proof {
            let rem2 = (core::ops::Range { start: (u + 1) as usize, end: order }).remaining();
            assert forall|c: int| u < c < order implies #[trigger] joined_once(*self, u as int, c) == joined_once(*self, u as int, rem2[c - u - 1] as int) by {}
        }
    @*/
}
