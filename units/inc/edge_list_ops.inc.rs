//@file src/repr/edge_list/mod.rs
// ---- C14: defining arc predicates, each written from the property text (identical to units/inc/matrix_gen.inc.rs) ----

/// complete(n) has all n(n-1) arcs: every ordered pair of distinct vertices
spec fn complete_arc(n: int, a: int, b: int) -> bool {
    0 <= a < n && 0 <= b < n && a != b
}

/// circuit(n) has the arcs i -> (i+1) mod n (none for n = 1)
spec fn circuit_arc(n: int, a: int, b: int) -> bool {
    n > 1 && 0 <= a < n && 0 <= b < n && b == (a + 1) % n
}

/// cycle(n) has those arcs and their reverses
spec fn cycle_arc(n: int, a: int, b: int) -> bool {
    circuit_arc(n, a, b) || circuit_arc(n, b, a)
}

/// path(n) has i -> i+1 for i < n-1
spec fn path_arc(n: int, a: int, b: int) -> bool {
    0 <= a < n - 1 && b == a + 1
}

/// what `collect::<BTreeSet<_>>()` promises about the item sequence `rem` it consumed (see prelude/list_ops_std.rs)
spec fn collected(rem: Seq<(usize, usize)>, s: BTreeSet<(usize, usize)>) -> bool {
    <BTreeSet<(usize, usize)> as vstd::std_specs::iter::FromIteratorSpec<(usize, usize)>>::from_iter_ensures(rem, s)
}

impl EdgeList {
    /*@fn trait=Empty name=trivial file=src/gen/empty.rs dropwhere=Self
    ensures
        r.wf(),
        r.ord() == 1,
        forall|a: int, b: int| #![trigger r.has(a, b)] !r.has(a, b),
    @*/

    /*@fn impl=EdgeList trait=Circuit name=circuit props=C14,C13
    ensures
        order >= 1,
        r.wf(),
        r.ord() == order,
        forall|a: int, b: int| #![trigger r.has(a, b)] r.has(a, b) == circuit_arc(order as int, a, b),
    @closure 1 |u: usize| -> (p: (usize, usize))
    requires
        u < order,
    ensures
        p == (u, ((u + 1) % (order as int)) as usize),
    @fn_start
        broadcast use vstd::std_specs::iter::group_iter_axioms;
        broadcast use axiom_btree_set_from_iter;
        proof {
            let n = order as int;
            assert forall|rem: Seq<(usize, usize)>, s: BTreeSet<(usize, usize)>|
                #[trigger] collected(rem, s) && n > 1 && rem.len() == n
                && (forall|k: int| 0 <= k < n ==> #[trigger] rem[k] == (k as usize, ((k + 1) % n) as usize))
                implies (forall|p: (usize, usize)| #[trigger] s@.contains(p) == circuit_arc(n, p.0 as int, p.1 as int)) by {
                assert forall|p: (usize, usize)| #[trigger] s@.contains(p) == circuit_arc(n, p.0 as int, p.1 as int) by {
                    if circuit_arc(n, p.0 as int, p.1 as int) { assert(rem[p.0 as int] == p); }
                }
            }
        }
    @*/
}
