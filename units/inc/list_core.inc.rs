//@file src/repr/adjacency_list/mod.rs
broadcast use vstd::std_specs::btree::group_btree_axioms;

/*@struct name=AdjacencyList @*/

impl AdjacencyList {
    /// |V|; V = 0..ord()
    spec fn ord(&self) -> int { self.arcs@.len() as int }
    /// out-neighbour set of row u
    spec fn row(&self, u: int) -> Set<usize> { self.arcs@[u]@ }
    /// arc relation of the abstract digraph
    spec fn has(&self, u: int, v: int) -> bool {
        0 <= u < self.arcs@.len() && 0 <= v <= usize::MAX && self.arcs@[u]@.contains(v as usize)
    }
    /// representation invariant: at least one vertex, every arc joins distinct vertices of V
    spec fn wf(&self) -> bool {
        &&& self.arcs@.len() > 0
        &&& forall|u: int, x: usize| 0 <= u < self.arcs@.len() && #[trigger] self.arcs@[u]@.contains(x) ==> x < self.arcs@.len() && x != u
    }

    /*@fn impl=AdjacencyList trait=Order name=order
    ensures
        r == self.ord(),
    @*/

    /*@fn impl=AdjacencyList trait=ContiguousOrder name=contiguous_order
    ensures
        r == self.ord(),
    @*/

    /*@fn impl=AdjacencyList trait=AddArc name=add_arc
    requires
        old(self).wf(),
    ensures
        final(self).wf(),
        final(self).ord() == old(self).ord(),
        u != v && u < old(self).ord() && v < old(self).ord(),
        forall|a: int, b: int| #![trigger final(self).has(a, b)] final(self).has(a, b) == (old(self).has(a, b) || (a == u && b == v)),
    @panic *
        assert(*self == *old(self));
    @*/

    /*@fn impl=AdjacencyList trait=HasArc name=has_arc
    ensures
        r == self.has(u as int, v as int),
    @closure 1 |set: &BTreeSet<usize>| -> (b: bool)
    ensures
        b == set@.contains(v),
    @*/

    /*@fn impl=AdjacencyList trait=HasEdge name=has_edge
    ensures
        r == (self.has(u as int, v as int) && self.has(v as int, u as int)),
    @*/

    /*@fn impl=AdjacencyList trait=RemoveArc name=remove_arc
    requires
        old(self).wf(),
    ensures
        final(self).wf(),
        final(self).ord() == old(self).ord(),
        r == old(self).has(u as int, v as int),
        forall|a: int, b: int| #![trigger final(self).has(a, b)] final(self).has(a, b) == (old(self).has(a, b) && !(a == u && b == v)),
    @closure 1 |set: &mut BTreeSet<usize>| -> (b: bool)
    ensures
        b == old(set)@.contains(v),
        final(set)@ == old(set)@.remove(v),
    @*/

    /*@fn impl=AdjacencyList trait=Indegree name=is_source
    ensures
        r == (forall|a: int| !self.has(a, v as int)),
    @closure 1 |set: &BTreeSet<usize>| -> (b: bool)
    ensures
        b == !set@.contains(v),
    @fn_start
        proof {
            // the iterator's item sequence is `self.arcs@.as_ref()`: name its elements so that the
            // quantifiers of `Iterator::all`'s contract are instantiated for every row
            let rem = self.arcs@.as_ref();
            assert forall|a: int| 0 <= a < self.arcs@.len() implies *rem[a] == #[trigger] self.arcs@[a] by {}
            assert forall|a: int| 0 <= a < self.arcs@.len() implies (#[trigger] rem[a])@.contains(v) == self.has(a, v as int) by {}
        }
    @*/

    /*@fn impl=AdjacencyList trait=IsComplete name=is_complete
    requires
        self.wf(),
    ensures
        r == (forall|a: int, b: int| 0 <= a < self.ord() && 0 <= b < self.ord() && a != b ==> self.has(a, b)),
    @loop 1
    invariant
        self.wf(),
        it1.seq() == self.arcs@.as_ref(),
        expected_outdegree == self.arcs@.len() - 1,
        forall|i: int| 0 <= i < it1.index() ==> (#[trigger] self.arcs@[i])@.len() == expected_outdegree,
    @before `return false;`
        proof {
            let k = it1.index();
            assert(*it1.seq()[k] == self.arcs@[k]);
            lemma_list_complete_rows(*self);
        }
    @fn_end
        proof { lemma_list_complete_rows(*self); }
    @*/

    /*@fn impl=AdjacencyList trait=Vertices name=vertices
    ensures
        r.obeys_prophetic_iter_laws(),
        r.decrease() is Some,
        r.remaining() == Seq::new(self.ord() as nat, |i: int| i as usize),
    @*/

    /*@fn impl=AdjacencyList trait=Outdegree name=outdegree
    ensures
        u < self.ord(),
        r == self.row(u as int).len(),
    @closure 1 || -> (x: usize)
    ensures
        false,
    @*/

    /*@fn impl=AdjacencyList trait=Outdegree name=is_sink
    ensures
        u < self.ord(),
        r == (forall|b: int| !self.has(u as int, b)),
    @closure 1 || -> (x: bool)
    ensures
        false,
    @fn_start
        proof {
            if u < self.arcs@.len() {
                let s = self.arcs@[u as int]@;
                if s.is_empty() {
                    assert forall|b: int| !self.has(u as int, b) by {
                        if 0 <= b <= usize::MAX { assert(!s.contains(b as usize)); }
                    }
                } else {
                    let x = choose|x: usize| s.contains(x);
                    assert(self.has(u as int, x as int));
                }
            }
        }
    @*/
}

/// {0, .., n-1} as a set of usize
spec fn below(n: nat) -> Set<usize>
    decreases n
{
    if n == 0 { Set::empty() } else { below((n - 1) as nat).insert((n - 1) as usize) }
}

proof fn lemma_below(n: nat)
    requires n <= usize::MAX + 1,
    ensures below(n).len() == n, forall|x: usize| below(n).contains(x) == (x < n),
    decreases n
{
    if n > 0 { lemma_below((n - 1) as nat); }
}

/// a row inside V \ {u} has |V| - 1 elements iff it is all of V \ {u}
proof fn lemma_row_full(row: Set<usize>, n: nat, u: usize)
    requires 0 < n <= usize::MAX + 1, u < n, forall|x: usize| row.contains(x) ==> x < n && x != u,
    ensures (row.len() == n - 1) == (forall|x: usize| x < n && x != u ==> row.contains(x)),
{
    lemma_below(n);
    let full = below(n).remove(u);
    assert(row.subset_of(full));
    vstd::set_lib::lemma_len_subset(row, full);
    if row.len() == n - 1 {
        vstd::set_lib::lemma_subset_equality(row, full);
        assert(row =~= full);
    }
    if forall|x: usize| x < n && x != u ==> row.contains(x) {
        assert(row =~= full);
    }
}

proof fn lemma_list_complete_rows(g: AdjacencyList)
    requires g.wf(), g.ord() <= usize::MAX + 1,
    ensures
        (forall|a: int, b: int| 0 <= a < g.ord() && 0 <= b < g.ord() && a != b ==> g.has(a, b))
            == (forall|i: int| 0 <= i < g.ord() ==> (#[trigger] g.arcs@[i])@.len() == g.ord() - 1),
{
    let n = g.arcs@.len();
    assert forall|i: int| 0 <= i < n implies
        ((#[trigger] g.arcs@[i])@.len() == n - 1) == (forall|b: int| 0 <= b < n && i != b ==> g.has(i, b)) by {
        let row = g.arcs@[i]@;
        lemma_row_full(row, n, i as usize);
        if forall|x: usize| x < n && x != i ==> row.contains(x) {
            assert forall|b: int| 0 <= b < n && i != b implies g.has(i, b) by { assert(row.contains(b as usize)); }
        }
        if forall|b: int| 0 <= b < n && i != b ==> g.has(i, b) {
            assert forall|x: usize| x < n && x != i implies row.contains(x) by { assert(g.has(i, x as int)); }
        }
    }
}

/// view of the representation: one out-neighbour set per vertex
spec fn list_rows(g: AdjacencyList) -> Seq<Set<usize>> {
    Seq::new(g.arcs@.len(), |i: int| g.arcs@[i]@)
}

/// C20 support, canonical form: two lists denoting the same digraph (V, A) have extensionally equal
/// field views (same number of rows, each row the same set). No wf needed: the list has no slack.
proof fn lemma_list_canonical(a: AdjacencyList, b: AdjacencyList)
    requires
        a.ord() == b.ord(),
        forall|u: int, v: int| a.has(u, v) == b.has(u, v),
    ensures
        a.arcs@.len() == b.arcs@.len(),
        forall|i: int| 0 <= i < a.arcs@.len() ==> #[trigger] a.arcs@[i]@ == b.arcs@[i]@,
        list_rows(a) == list_rows(b),
{
    assert forall|i: int| 0 <= i < a.arcs@.len() implies #[trigger] a.arcs@[i]@ == b.arcs@[i]@ by {
        assert forall|x: usize| a.arcs@[i]@.contains(x) == b.arcs@[i]@.contains(x) by {
            assert(a.has(i, x as int) == b.has(i, x as int));
        }
        assert(a.arcs@[i]@ =~= b.arcs@[i]@);
    }
    assert(list_rows(a) =~= list_rows(b));
}

/// converse: equal field views denote the same digraph and agree on well-formedness
proof fn lemma_list_canonical_conv(a: AdjacencyList, b: AdjacencyList)
    requires
        list_rows(a) == list_rows(b),
    ensures
        a.ord() == b.ord(),
        forall|u: int, v: int| a.has(u, v) == b.has(u, v),
        a.wf() == b.wf(),
{
    assert(list_rows(a).len() == a.arcs@.len() && list_rows(b).len() == b.arcs@.len());
    assert forall|i: int| 0 <= i < a.arcs@.len() implies #[trigger] a.arcs@[i]@ == b.arcs@[i]@ by {
        assert(list_rows(a)[i] == a.arcs@[i]@ && list_rows(b)[i] == b.arcs@[i]@);
    }
    assert forall|u: int, v: int| a.has(u, v) == b.has(u, v) by {
        if 0 <= u < a.arcs@.len() { assert(a.arcs@[u]@ == b.arcs@[u]@); }
    }
    lemma_list_wf_has(a);
    lemma_list_wf_has(b);
}

/// wf stated over the abstract arc relation only
spec fn list_wf_abs(g: AdjacencyList) -> bool {
    &&& g.ord() > 0
    &&& forall|u: int, v: int| #[trigger] g.has(u, v) ==> 0 <= u < g.ord() && 0 <= v < g.ord() && u != v
}

proof fn lemma_list_wf_has(g: AdjacencyList)
    ensures g.wf() == list_wf_abs(g),
{
    if g.wf() {
        assert forall|u: int, v: int| #[trigger] g.has(u, v) implies 0 <= u < g.ord() && 0 <= v < g.ord() && u != v by {
            assert(g.arcs@[u]@.contains(v as usize));
        }
    }
    if list_wf_abs(g) {
        assert forall|u: int, x: usize| 0 <= u < g.arcs@.len() && #[trigger] g.arcs@[u]@.contains(x) implies x < g.arcs@.len() && x != u by {
            assert(g.has(u, x as int));
        }
    }
}
