//@file src/repr/adjacency_map/mod.rs
broadcast use vstd::std_specs::btree::group_btree_axioms;

/*@struct name=AdjacencyMap @*/

impl AdjacencyMap {
    /// V: the key set of the map (ids need not be contiguous)
    spec fn verts(&self) -> Set<int> {
        self.arcs@.dom().map(|k: usize| k as int)
    }
    /// |V|
    spec fn ord(&self) -> int { self.arcs@.len() as int }
    /// out-neighbour set of vertex u (u in V)
    spec fn row(&self, u: int) -> Set<usize> { self.arcs@[u as usize]@ }
    /// arc relation of the abstract digraph
    spec fn has(&self, u: int, v: int) -> bool {
        0 <= u <= usize::MAX && 0 <= v <= usize::MAX && self.arcs@.contains_key(u as usize)
            && self.arcs@[u as usize]@.contains(v as usize)
    }
    /// representation invariant: at least one vertex, every arc joins distinct vertices of V
    spec fn wf(&self) -> bool {
        &&& self.arcs@.len() > 0
        &&& forall|u: usize, x: usize| self.arcs@.contains_key(u) && #[trigger] self.arcs@[u]@.contains(x) ==> self.arcs@.contains_key(x) && x != u
    }

    /*@fn impl=AdjacencyMap trait=Order name=order
    ensures
        r == self.ord(),
    @*/

    /*@fn impl=AdjacencyMap trait=AddArc name=add_arc
    requires
        old(self).wf(),
    ensures
        u != v,
        final(self).arcs@.dom() == old(self).arcs@.dom().insert(u).insert(v),
        final(self).verts() == old(self).verts().insert(u as int).insert(v as int),
        final(self).wf(),
        forall|a: int, b: int| #![trigger final(self).has(a, b)] final(self).has(a, b) == (old(self).has(a, b) || (a == u && b == v)),
    @fn_start
        broadcast use lemma_map_verts_contains;
    @panic *
        assert(*self == *old(self));
    @*/

    /*@fn impl=AdjacencyMap trait=HasArc name=has_arc
    ensures
        r == self.has(u as int, v as int),
    @closure 1 |set: &BTreeSet<usize>| -> (b: bool)
    ensures
        b == set@.contains(v),
    @*/

    /*@fn impl=AdjacencyMap trait=HasEdge name=has_edge
    ensures
        r == (self.has(u as int, v as int) && self.has(v as int, u as int)),
    @*/

    /*@fn impl=AdjacencyMap trait=RemoveArc name=remove_arc
    requires
        old(self).wf(),
    ensures
        final(self).arcs@.dom() == old(self).arcs@.dom(),
        final(self).verts() == old(self).verts(),
        final(self).wf(),
        final(self).ord() == old(self).ord(),
        r == old(self).has(u as int, v as int),
        forall|a: int, b: int| #![trigger final(self).has(a, b)] final(self).has(a, b) == (old(self).has(a, b) && !(a == u && b == v)),
    @closure 1 |set: &mut BTreeSet<usize>| -> (b: bool)
    ensures
        b == old(set)@.contains(v),
        final(set)@ == old(set)@.remove(v),
    @fn_start
        broadcast use lemma_map_verts_contains;
    @*/

    /*@fn impl=AdjacencyMap trait=HasWalk name=has_walk
    ensures
        r == map_walk(*self, walk@),
    @loop 1
    invariant
        len == walk@.len(),
        len > 1,
        end__i == len - 1,
        ptr__i <= end__i,
        forall|i: int| 0 <= i < ptr__i ==> #[trigger] self.has(walk@[i] as int, walk@[i + 1] as int),
    decreases end__i - ptr__i,
    @*/

    /*@fn impl=AdjacencyMap trait=Outdegree name=outdegree
    ensures
        self.verts().contains(u as int),
        r == self.row(u as int).len(),
    @closure 1 || -> (x: usize)
    ensures
        false,
    @fn_start
        broadcast use lemma_map_verts_contains;
    @*/

    /*@fn impl=AdjacencyMap trait=Outdegree name=is_sink
    ensures
        self.verts().contains(u as int),
        r == (forall|b: int| !self.has(u as int, b)),
    @closure 1 || -> (x: bool)
    ensures
        false,
    @fn_start
        broadcast use lemma_map_verts_contains;
        proof {
            if self.arcs@.contains_key(u) {
                let s = self.arcs@[u]@;
                if s.is_empty() {
                    assert forall|b: int| !self.has(u as int, b) by {
                        if 0 <= b <= usize::MAX { assert(!s.contains(b as usize)); }
                    }
                } else {
                    let x = choose|x: usize| s.contains(x);
                    assert(self.has(u as int, x as int));
                }
            }
        }
    @*/

    /*@fn impl=AdjacencyMap trait=Indegree name=is_source
    ensures
        r == (forall|a: int| !self.has(a, v as int)),
    @closure 1 |set: &BTreeSet<usize>| -> (b: bool)
    ensures
        b == !set@.contains(v),
    @fn_start
        proof {
            // `values()` yields exactly the rows of the map: name that fact for every candidate item sequence, so that
            // the quantifiers of `Iterator::all`'s contract are related to `has`
            assert forall|rem: Seq<&BTreeSet<usize>>| #[trigger] rem.unref().to_set() == self.arcs@.values() implies
                (forall|i: int| 0 <= i < rem.len() ==> !(#[trigger] rem[i])@.contains(v)) == (forall|a: int| !self.has(a, v as int))
            by { lemma_map_source_items(*self, rem, v); }
        }
    @*/

    /*@fn impl=AdjacencyMap trait=IsComplete name=is_complete
    requires
        self.wf(),
    ensures
        r == map_complete(*self),
    @loop 1
    invariant
        self.wf(),
        it1.seq().unref().to_set() == self.arcs@.values(),
        expected_outdegree == self.arcs@.len() - 1,
        forall|i: int| 0 <= i < it1.index() ==> (#[trigger] it1.seq()[i])@.len() == expected_outdegree,
    @before `return false;`
        proof { lemma_map_complete_rows(*self, it1.seq(), it1.index()); }
    @fn_end
        proof {
            // the loop's ghost iterator is out of scope here: state the conclusion for every item sequence with its invariant
            assert forall|items: Seq<&BTreeSet<usize>>| #[trigger] items.unref().to_set() == self.arcs@.values()
                && (forall|i: int| 0 <= i < items.len() ==> (#[trigger] items[i])@.len() == self.arcs@.len() - 1)
                implies map_complete(*self)
            by { lemma_map_complete_rows(*self, items, items.len() as int); }
        }
    @*/

    /*@fn impl=AdjacencyMap trait=IsSimple name=is_simple
    ensures
        r == (forall|a: int| !self.has(a, a)),
        self.wf() ==> r,
    @closure 1 |p: (&usize, &BTreeSet<usize>)| -> (b: bool)
    ensures
        b == !p.1@.contains(*p.0),
    @fn_start
        proof {
            // `iter()` yields exactly the (key, row) pairs of the map: name that fact for every candidate item sequence
            assert forall|rem: Seq<(&usize, &BTreeSet<usize>)>| #[trigger] rem.no_duplicates() && map_items_of(self.arcs@, rem) implies
                (forall|i: int| 0 <= i < rem.len() ==> !(#[trigger] rem[i]).1@.contains(*rem[i].0)) == (forall|a: int| !self.has(a, a))
            by { lemma_map_simple_items(*self, rem); }
            if self.wf() {
                assert forall|a: int| !self.has(a, a) by {
                    if self.has(a, a) { assert(self.arcs@[a as usize]@.contains(a as usize)); }
                }
            }
        }
    @*/
}

/// V as a set of ints: membership is key membership
broadcast proof fn lemma_map_verts_contains(g: AdjacencyMap, x: int)
    ensures #[trigger] g.verts().contains(x) == (0 <= x <= usize::MAX && g.arcs@.contains_key(x as usize)),
{
    if g.verts().contains(x) {
        let k = choose|k: usize| g.arcs@.dom().contains(k) && k as int == x;
        assert(k == x as usize);
    }
    if 0 <= x <= usize::MAX && g.arcs@.contains_key(x as usize) {
        assert(g.arcs@.dom().contains(x as usize) && (x as usize) as int == x);
    }
}

/// the walk predicate of C02: at least two vertices and every consecutive pair is an arc
spec fn map_walk(g: AdjacencyMap, w: Seq<usize>) -> bool {
    w.len() >= 2 && forall|i: int| 0 <= i < w.len() - 1 ==> #[trigger] g.has(w[i] as int, w[i + 1] as int)
}

/// `rem` lists (key, row) pairs of the map `m` and every pair of `m` occurs in it (the contract of `BTreeMap::iter`)
spec fn map_items_of(m: Map<usize, BTreeSet<usize>>, rem: Seq<(&usize, &BTreeSet<usize>)>) -> bool {
    &&& forall|i: int| 0 <= i < rem.len() ==> m.contains_key(*(#[trigger] rem[i]).0) && m[*rem[i].0] == *rem[i].1
    &&& forall|k: usize| #[trigger] m.contains_key(k) ==> rem.contains((&k, &m[k]))
}

proof fn lemma_map_simple_items(g: AdjacencyMap, rem: Seq<(&usize, &BTreeSet<usize>)>)
    requires map_items_of(g.arcs@, rem),
    ensures
        (forall|i: int| 0 <= i < rem.len() ==> !(#[trigger] rem[i]).1@.contains(*rem[i].0)) == (forall|a: int| !g.has(a, a)),
{
    let m = g.arcs@;
    if forall|i: int| 0 <= i < rem.len() ==> !(#[trigger] rem[i]).1@.contains(*rem[i].0) {
        assert forall|a: int| !g.has(a, a) by {
            if g.has(a, a) {
                let k = a as usize;
                assert(m.contains_key(k));
                let p = (&k, &m[k]);
                assert(rem.contains(p));
                let i = choose|i: int| 0 <= i < rem.len() && rem[i] == p;
                assert(rem[i].1@.contains(*rem[i].0));
            }
        }
    }
    if forall|a: int| !g.has(a, a) {
        assert forall|i: int| 0 <= i < rem.len() implies !(#[trigger] rem[i]).1@.contains(*rem[i].0) by {
            assert(!g.has(*rem[i].0 as int, *rem[i].0 as int));
        }
    }
}

proof fn lemma_map_source_items(g: AdjacencyMap, rem: Seq<&BTreeSet<usize>>, v: usize)
    requires rem.unref().to_set() == g.arcs@.values(),
    ensures
        (forall|i: int| 0 <= i < rem.len() ==> !(#[trigger] rem[i])@.contains(v)) == (forall|a: int| !g.has(a, v as int)),
{
    let m = g.arcs@;
    let un = rem.unref();
    if forall|i: int| 0 <= i < rem.len() ==> !(#[trigger] rem[i])@.contains(v) {
        assert forall|a: int| !g.has(a, v as int) by {
            if g.has(a, v as int) {
                let k = a as usize;
                assert(m.dom().contains(k));
                assert(m.values().contains(m[k]));
                assert(un.to_set().contains(m[k]));
                let i = choose|i: int| 0 <= i < un.len() && un[i] == m[k];
                assert(*rem[i] == un[i]);
                assert(rem[i]@.contains(v));
            }
        }
    }
    if forall|a: int| !g.has(a, v as int) {
        assert forall|i: int| 0 <= i < rem.len() implies !(#[trigger] rem[i])@.contains(v) by {
            assert(un[i] == *rem[i]);
            assert(un.to_set().contains(un[i]));
            assert(m.values().contains(un[i]));
            let k = choose|k: usize| m.dom().contains(k) && m[k] == un[i];
            assert(!g.has(k as int, v as int));
        }
    }
}

/// completeness over (V, A): every ordered pair of distinct vertices is an arc
spec fn map_complete(g: AdjacencyMap) -> bool {
    forall|a: int, b: int| g.verts().contains(a) && g.verts().contains(b) && a != b ==> #[trigger] g.has(a, b)
}

/// a row inside K \ {u} has |K| - 1 elements iff it is all of K \ {u}
proof fn lemma_map_row_full(row: Set<usize>, keys: Set<usize>, u: usize)
    requires keys.contains(u), forall|x: usize| row.contains(x) ==> keys.contains(x) && x != u,
    ensures (row.len() == keys.len() - 1) == (forall|x: usize| keys.contains(x) && x != u ==> row.contains(x)),
{
    let full = keys.remove(u);
    assert(row.subset_of(full));
    vstd::set_lib::lemma_len_subset(row, full);
    if row.len() == keys.len() - 1 {
        vstd::set_lib::lemma_subset_equality(row, full);
        assert(row =~= full);
    }
    if forall|x: usize| keys.contains(x) && x != u ==> row.contains(x) {
        assert(row =~= full);
    }
}

/// `items` are the rows of g (contract of `BTreeMap::values`); n of them have been checked to have |V| - 1 elements:
/// if that is all of them g is complete, and if item n has another size g is not complete
proof fn lemma_map_complete_rows(g: AdjacencyMap, items: Seq<&BTreeSet<usize>>, n: int)
    requires
        g.wf(),
        items.unref().to_set() == g.arcs@.values(),
        0 <= n <= items.len(),
        forall|i: int| 0 <= i < n ==> (#[trigger] items[i])@.len() == g.arcs@.len() - 1,
    ensures
        n == items.len() ==> map_complete(g),
        n < items.len() && items[n]@.len() != g.arcs@.len() - 1 ==> !map_complete(g),
{
    broadcast use lemma_map_verts_contains;
    let m = g.arcs@;
    let un = items.unref();
    if n == items.len() {
        assert forall|a: int, b: int| g.verts().contains(a) && g.verts().contains(b) && a != b implies #[trigger] g.has(a, b) by {
            let k = a as usize;
            assert(m.dom().contains(k));
            assert(m.values().contains(m[k]));
            assert(un.to_set().contains(m[k]));
            let i = choose|i: int| 0 <= i < un.len() && un[i] == m[k];
            assert(*items[i] == un[i]);
            lemma_map_row_full(m[k]@, m.dom(), k);
            assert(m[k]@.contains(b as usize));
        }
    }
    if n < items.len() && items[n]@.len() != m.len() - 1 {
        assert(un[n] == *items[n]);
        assert(un.to_set().contains(un[n]));
        assert(m.values().contains(un[n]));
        let k = choose|k: usize| m.dom().contains(k) && m[k] == un[n];
        lemma_map_row_full(m[k]@, m.dom(), k);
        let x = choose|x: usize| m.dom().contains(x) && x != k && !m[k]@.contains(x);
        assert(g.verts().contains(k as int) && g.verts().contains(x as int) && !g.has(k as int, x as int));
    }
}

/// |V| = number of keys
proof fn lemma_map_verts_len(g: AdjacencyMap)
    ensures g.verts().len() == g.ord(),
{
    let f = |k: usize| k as int;
    assert(vstd::relations::injective(f)) by {
        assert forall|p: usize, q: usize| #[trigger] f(p) == #[trigger] f(q) implies p == q by {}
    }
    vstd::set_lib::lemma_map_size(g.arcs@.dom(), g.verts(), f);
}

/// view of the representation: one out-neighbour set per key
spec fn map_rows(g: AdjacencyMap) -> Map<usize, Set<usize>> {
    g.arcs@.map_values(|s: BTreeSet<usize>| s@)
}

/// C20 support, canonical form: two maps denoting the same digraph (V, A) have extensionally equal field views
/// (same key set, each row the same set). No wf needed: the representation has no slack.
proof fn lemma_map_canonical(a: AdjacencyMap, b: AdjacencyMap)
    requires
        a.verts() == b.verts(),
        forall|u: int, v: int| a.has(u, v) == b.has(u, v),
    ensures
        a.arcs@.dom() == b.arcs@.dom(),
        forall|k: usize| a.arcs@.contains_key(k) ==> #[trigger] a.arcs@[k]@ == b.arcs@[k]@,
        map_rows(a) == map_rows(b),
{
    broadcast use lemma_map_verts_contains;
    assert forall|k: usize| a.arcs@.dom().contains(k) == b.arcs@.dom().contains(k) by {
        lemma_map_verts_contains(a, k as int);
        lemma_map_verts_contains(b, k as int);
        assert((k as int) as usize == k);
    }
    assert(a.arcs@.dom() =~= b.arcs@.dom());
    assert forall|k: usize| a.arcs@.contains_key(k) implies #[trigger] a.arcs@[k]@ == b.arcs@[k]@ by {
        assert forall|x: usize| a.arcs@[k]@.contains(x) == b.arcs@[k]@.contains(x) by {
            assert(a.has(k as int, x as int) == b.has(k as int, x as int));
        }
        assert(a.arcs@[k]@ =~= b.arcs@[k]@);
    }
    assert(map_rows(a) =~= map_rows(b));
}

/// converse: equal field views denote the same digraph and agree on well-formedness
proof fn lemma_map_canonical_conv(a: AdjacencyMap, b: AdjacencyMap)
    requires
        map_rows(a) == map_rows(b),
    ensures
        a.verts() == b.verts(),
        a.ord() == b.ord(),
        forall|u: int, v: int| a.has(u, v) == b.has(u, v),
        a.wf() == b.wf(),
{
    broadcast use lemma_map_verts_contains;
    assert(map_rows(a).dom() == a.arcs@.dom() && map_rows(b).dom() == b.arcs@.dom());
    assert(a.arcs@.dom() == b.arcs@.dom());
    assert forall|k: usize| a.arcs@.contains_key(k) implies #[trigger] a.arcs@[k]@ == b.arcs@[k]@ by {
        assert(map_rows(a)[k] == a.arcs@[k]@ && map_rows(b)[k] == b.arcs@[k]@);
    }
    assert(a.verts() =~= b.verts());
    assert forall|u: int, v: int| a.has(u, v) == b.has(u, v) by {
        if 0 <= u <= usize::MAX && a.arcs@.contains_key(u as usize) { assert(a.arcs@[u as usize]@ == b.arcs@[u as usize]@); }
    }
    lemma_map_wf_has(a);
    lemma_map_wf_has(b);
    lemma_map_verts_len(a);
    lemma_map_verts_len(b);
}

/// wf stated over the abstract digraph (V, A) only
spec fn map_wf_abs(g: AdjacencyMap) -> bool {
    &&& g.verts().len() > 0
    &&& forall|u: int, v: int| #[trigger] g.has(u, v) ==> g.verts().contains(u) && g.verts().contains(v) && u != v
}

proof fn lemma_map_wf_has(g: AdjacencyMap)
    ensures g.wf() == map_wf_abs(g),
{
    broadcast use lemma_map_verts_contains;
    lemma_map_verts_len(g);
    if g.wf() {
        assert forall|u: int, v: int| #[trigger] g.has(u, v) implies g.verts().contains(u) && g.verts().contains(v) && u != v by {
            assert(g.arcs@[u as usize]@.contains(v as usize));
        }
    }
    if map_wf_abs(g) {
        assert forall|u: usize, x: usize| g.arcs@.contains_key(u) && #[trigger] g.arcs@[u]@.contains(x) implies g.arcs@.contains_key(x) && x != u by {
            assert(g.has(u as int, x as int));
        }
    }
}
