//@file src/repr/adjacency_map/mod.rs
// ---- AdjacencyMap: the operations built on iterator methods vstd cannot specify (E12 wrappers) ----
// The vertex set is the KEY SET of the map (`verts()`); ids need not be contiguous.

/// strictly ascending item sequence of a key / element iterator
spec fn mm_ascending(rem: Seq<&usize>) -> bool {
    forall|i: int, j: int| 0 <= i < j < rem.len() ==> *(#[trigger] rem[i]) < *(#[trigger] rem[j])
}

/// meaning of vstd's `increasing_seq` on `&usize` items: strictly ascending
proof fn lemma_mm_ref_increasing(rem: Seq<&usize>)
    requires vstd::std_specs::btree::increasing_seq(rem),
    ensures mm_ascending(rem),
{
    broadcast use vstd::laws_cmp::group_laws_cmp;
    assert(vstd::laws_cmp::obeys_cmp::<&usize>());
    vstd::std_specs::btree::axiom_increasing_seq_meaning(rem);
    assert forall|i: int, j: int| 0 <= i < j < rem.len() implies *(#[trigger] rem[i]) < *(#[trigger] rem[j]) by {
        assert(<&usize as vstd::std_specs::cmp::OrdSpec>::cmp_spec(&rem[i], &rem[j]) is Less);
    }
}

impl AdjacencyMap {
    // C02 out_neighbors: exactly the out-neighbours of u, ascending, no repeats; u outside V panics (documented).
    // C13: `unwrap_unchecked` is reached only with `Some` (precondition of its assumed contract).
    /*@fn impl=AdjacencyMap trait=OutNeighbors name=out_neighbors wrap=copied props=C02,C13 subst="Iterator<Item=usize>=>Iterator<Item=usize>+use<'_>"
    ensures
        self.verts().contains(u as int),
        r.obeys_prophetic_iter_laws(),
        r.decrease() is Some,
        forall|i: int| 0 <= i < r.remaining().len() ==> self.has(u as int, #[trigger] r.remaining()[i] as int),
        forall|v: int| #[trigger] self.has(u as int, v) ==> r.remaining().contains(v as usize),
        forall|i: int, j: int| 0 <= i < j < r.remaining().len() ==> r.remaining()[i] < r.remaining()[j],
        r.remaining().no_duplicates(),
    @fn_start
        broadcast use lemma_map_verts_contains;
        proof {
            assert forall|rem: Seq<&usize>| #[trigger] vstd::std_specs::btree::increasing_seq(rem) implies mm_ascending(rem) by { lemma_mm_ref_increasing(rem); }
            if self.arcs@.contains_key(u) {
                let row = self.arcs@[u]@;
                assert forall|s: Seq<usize>, v: int| #[trigger] s.to_set() == row && #[trigger] self.has(u as int, v) implies s.contains(v as usize) by {
                    assert(s.to_set().contains(v as usize));
                }
                assert forall|s: Seq<usize>, i: int| #[trigger] s.to_set() == row && 0 <= i < s.len() implies self.has(u as int, #[trigger] s[i] as int) by {
                    assert(s.to_set().contains(s[i]));
                }
            }
        }
    @*/
}

// ---- C02 indegree: the number of vertices a with (a, v) in A ----

impl AdjacencyMap {
    /// the in-neighbours of v (as keys) and the indegree defined from (V, A)
    spec fn in_keys(&self, v: int) -> Set<usize> { self.arcs@.dom().filter(|k: usize| self.has(k as int, v)) }
    spec fn indeg(&self, v: int) -> nat { self.in_keys(v).len() }
}

/// faithfulness of `in_keys`: exactly the in-neighbours
proof fn lemma_mm_in_keys(g: AdjacencyMap, v: int)
    ensures
        forall|a: int| #[trigger] g.has(a, v) == (0 <= a <= usize::MAX && g.in_keys(v).contains(a as usize)),
        g.indeg(v) <= g.ord(),
{
    lemma_len_subset(g.in_keys(v), g.arcs@.dom());
}

/// the in-neighbours of v among the first n keys of ks
spec fn mm_in_keys_upto(g: AdjacencyMap, v: int, ks: Seq<usize>, n: int) -> Set<usize> {
    ks.take(n).to_set().filter(|k: usize| g.has(k as int, v))
}

/// trigger tag: names the triple (g, v, ks) for `lemma_mm_filter_count`
spec fn mm_tag(g: AdjacencyMap, v: int, ks: Seq<usize>) -> bool { true }

/// vstd's model of `Filter`: the items are `filter_index` of a prefix of the source; over the rows listed in the key order ks
/// with a predicate that decides `has(ks[.], v)` there are as many items as in-neighbours among the first n keys.
/// Broadcast because the filter iterator is consumed in the tail expression and cannot be named in a hint.
broadcast proof fn lemma_mm_filter_count<T>(g: AdjacencyMap, v: int, ks: Seq<usize>, s: Seq<T>, n: int, pred: spec_fn(int) -> bool)
    requires
        ks.no_duplicates(),
        0 <= n <= ks.len(),
        n <= s.len(),
        forall|j: int| 0 <= j < n ==> pred(j) == g.has(ks[j] as int, v),
    ensures
        #![trigger s.take(n).filter_index(pred), mm_tag(g, v, ks)]
        s.take(n).filter_index(pred).len() == mm_in_keys_upto(g, v, ks, n).len(),
    decreases n
{
    if n > 0 {
        lemma_mm_filter_count(g, v, ks, s, n - 1, pred);
        assert(s.take(n).drop_last() =~= s.take(n - 1));
        reveal_with_fuel(Seq::filter_index, 2);
        let prev = ks.take(n - 1).to_set();
        let x = ks[n - 1];
        assert(ks.take(n) =~= ks.take(n - 1).push(x));
        let t = ks.take(n);
        let t1 = ks.take(n - 1);
        assert(t.to_set() =~= prev.insert(x)) by {
            assert forall|y: usize| t.to_set().contains(y) == prev.insert(x).contains(y) by {
                if t.to_set().contains(y) {
                    let i = choose|i: int| 0 <= i < t.len() && t[i] == y;
                    if i < n - 1 { assert(t1[i] == y); }
                }
                if prev.contains(y) {
                    let i = choose|i: int| 0 <= i < t1.len() && t1[i] == y;
                    assert(t[i] == y);
                }
                if y == x { assert(t[n - 1] == y); }
            }
        }
        assert(!prev.contains(x)) by {
            if prev.contains(x) {
                let i = choose|i: int| 0 <= i < t1.len() && t1[i] == x;
                assert(ks[i] == ks[n - 1]);
            }
        }
        let p = mm_in_keys_upto(g, v, ks, n - 1);
        if g.has(x as int, v) { assert(mm_in_keys_upto(g, v, ks, n) =~= p.insert(x)); } else { assert(mm_in_keys_upto(g, v, ks, n) =~= p); }
    } else {
        assert(ks.take(0).to_set() =~= Set::<usize>::empty());
        assert(mm_in_keys_upto(g, v, ks, 0) =~= Set::<usize>::empty());
    }
}

impl AdjacencyMap {
    /*@fn impl=AdjacencyMap trait=Indegree name=indegree wrap=count props=C02,C13
    ensures
        self.verts().contains(v as int),
        r == self.indeg(v as int),
    @closure 1 |set: &&BTreeSet<usize>| -> (b: bool)
    ensures
        b == set@.contains(v),
    @fn_start
        broadcast use vstd::std_specs::iter::group_iter_axioms;
        broadcast use lemma_map_verts_contains;
        broadcast use lemma_mm_filter_count;
        proof {
            let dom = self.arcs@.dom();
            // `values()` lists the rows in the order of an (existentially given) duplicate-free key listing ks
            assert forall|ks: Seq<usize>| #![trigger ks.no_duplicates()] mm_tag(*self, v as int, ks) by {}
            assert forall|ks: Seq<usize>| #![trigger mm_tag(*self, v as int, ks)] ks.to_set() == dom implies
                mm_in_keys_upto(*self, v as int, ks, ks.len() as int) == self.in_keys(v as int)
                && (forall|j: int| 0 <= j < ks.len() ==> self.arcs@.contains_key(#[trigger] ks[j])) by {
                assert(ks.take(ks.len() as int) =~= ks);
                assert forall|j: int| 0 <= j < ks.len() implies self.arcs@.contains_key(#[trigger] ks[j]) by { assert(ks.to_set().contains(ks[j])); }
            }
        }
    @*/
}
