//@file src/repr/adjacency_map/mod.rs
// ---- AdjacencyMap: the operations built on iterator methods vstd cannot specify (E12 wrappers) ----
// The vertex set is the KEY SET of the map (`verts()`); ids need not be contiguous.

/// strictly ascending item sequence of a key / element iterator
spec fn mm_ascending(rem: Seq<&usize>) -> bool {
    forall|i: int, j: int| 0 <= i < j < rem.len() ==> *(#[trigger] rem[i]) < *(#[trigger] rem[j])
}

/// meaning of vstd's `increasing_seq` on `&usize` items: strictly ascending
proof fn lemma_mm_ref_increasing(rem: Seq<&usize>)
    requires vstd::std_specs::btree::increasing_seq(rem),
    ensures mm_ascending(rem),
{
    broadcast use vstd::laws_cmp::group_laws_cmp;
    assert(vstd::laws_cmp::obeys_cmp::<&usize>());
    vstd::std_specs::btree::axiom_increasing_seq_meaning(rem);
    assert forall|i: int, j: int| 0 <= i < j < rem.len() implies *(#[trigger] rem[i]) < *(#[trigger] rem[j]) by {
        assert(<&usize as vstd::std_specs::cmp::OrdSpec>::cmp_spec(&rem[i], &rem[j]) is Less);
    }
}

impl AdjacencyMap {
    // C02 out_neighbors: exactly the out-neighbours of u, ascending, no repeats; u outside V panics (documented).
    // C13: `unwrap_unchecked` is reached only with `Some` (precondition of its assumed contract).
    /*@fn impl=AdjacencyMap trait=OutNeighbors name=out_neighbors wrap=copied props=C02,C13 subst="Iterator<Item=usize>=>Iterator<Item=usize>+use<'_>"
    ensures
        self.verts().contains(u as int),
        r.obeys_prophetic_iter_laws(),
        r.decrease() is Some,
        forall|i: int| 0 <= i < r.remaining().len() ==> self.has(u as int, #[trigger] r.remaining()[i] as int),
        forall|v: int| #[trigger] self.has(u as int, v) ==> r.remaining().contains(v as usize),
        forall|i: int, j: int| 0 <= i < j < r.remaining().len() ==> r.remaining()[i] < r.remaining()[j],
        r.remaining().no_duplicates(),
    @fn_start
        broadcast use lemma_map_verts_contains;
        proof {
            assert forall|rem: Seq<&usize>| #[trigger] vstd::std_specs::btree::increasing_seq(rem) implies mm_ascending(rem) by { lemma_mm_ref_increasing(rem); }
            if self.arcs@.contains_key(u) {
                let row = self.arcs@[u]@;
                assert forall|s: Seq<usize>, v: int| #[trigger] s.to_set() == row && #[trigger] self.has(u as int, v) implies s.contains(v as usize) by {
                    assert(s.to_set().contains(v as usize));
                }
                assert forall|s: Seq<usize>, i: int| #[trigger] s.to_set() == row && 0 <= i < s.len() implies self.has(u as int, #[trigger] s[i] as int) by {
                    assert(s.to_set().contains(s[i]));
                }
            }
        }
    @*/
}
