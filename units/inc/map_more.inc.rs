//@file src/repr/adjacency_map/mod.rs
// ---- AdjacencyMap: the operations built on iterator methods vstd cannot specify (E12 wrappers) ----
// The vertex set is the KEY SET of the map (`verts()`); ids need not be contiguous.

/// strictly ascending item sequence of a key / element iterator
spec fn mm_ascending(rem: Seq<&usize>) -> bool {
    forall|i: int, j: int| 0 <= i < j < rem.len() ==> *(#[trigger] rem[i]) < *(#[trigger] rem[j])
}

/// meaning of vstd's `increasing_seq` on `&usize` items: strictly ascending
proof fn lemma_mm_ref_increasing(rem: Seq<&usize>)
    requires vstd::std_specs::btree::increasing_seq(rem),
    ensures mm_ascending(rem),
{
    broadcast use vstd::laws_cmp::group_laws_cmp;
    assert(vstd::laws_cmp::obeys_cmp::<&usize>());
    vstd::std_specs::btree::axiom_increasing_seq_meaning(rem);
    assert forall|i: int, j: int| 0 <= i < j < rem.len() implies *(#[trigger] rem[i]) < *(#[trigger] rem[j]) by {
        assert(<&usize as vstd::std_specs::cmp::OrdSpec>::cmp_spec(&rem[i], &rem[j]) is Less);
    }
}

impl AdjacencyMap {
    // C02 out_neighbors: exactly the out-neighbours of u, ascending, no repeats; u outside V panics (documented).
    // C13: `unwrap_unchecked` is reached only with `Some` (precondition of its assumed contract).
    /*@fn impl=AdjacencyMap trait=OutNeighbors name=out_neighbors wrap=copied props=C02,C13 subst="Iterator<Item=usize>=>Iterator<Item=usize>+use<'_>"
    ensures
        self.verts().contains(u as int),
        r.obeys_prophetic_iter_laws(),
        r.decrease() is Some,
        forall|i: int| 0 <= i < r.remaining().len() ==> self.has(u as int, #[trigger] r.remaining()[i] as int),
        forall|v: int| #[trigger] self.has(u as int, v) ==> r.remaining().contains(v as usize),
        forall|i: int, j: int| 0 <= i < j < r.remaining().len() ==> r.remaining()[i] < r.remaining()[j],
        r.remaining().no_duplicates(),
    @fn_start
        broadcast use lemma_map_verts_contains;
        proof {
            assert forall|rem: Seq<&usize>| #[trigger] vstd::std_specs::btree::increasing_seq(rem) implies mm_ascending(rem) by { lemma_mm_ref_increasing(rem); }
            if self.arcs@.contains_key(u) {
                let row = self.arcs@[u]@;
                assert forall|s: Seq<usize>, v: int| #[trigger] s.to_set() == row && #[trigger] self.has(u as int, v) implies s.contains(v as usize) by {
                    assert(s.to_set().contains(v as usize));
                }
                assert forall|s: Seq<usize>, i: int| #[trigger] s.to_set() == row && 0 <= i < s.len() implies self.has(u as int, #[trigger] s[i] as int) by {
                    assert(s.to_set().contains(s[i]));
                }
            }
        }
    @*/
}

// ---- C02 indegree: the number of vertices a with (a, v) in A ----

impl AdjacencyMap {
    /// the in-neighbours of v (as keys) and the indegree defined from (V, A)
    spec fn in_keys(&self, v: int) -> Set<usize> { self.arcs@.dom().filter(|k: usize| self.has(k as int, v)) }
    spec fn indeg(&self, v: int) -> nat { self.in_keys(v).len() }
}

/// faithfulness of `in_keys`: exactly the in-neighbours
proof fn lemma_mm_in_keys(g: AdjacencyMap, v: int)
    ensures
        forall|a: int| #[trigger] g.has(a, v) == (0 <= a <= usize::MAX && g.in_keys(v).contains(a as usize)),
        g.indeg(v) <= g.ord(),
{
    lemma_len_subset(g.in_keys(v), g.arcs@.dom());
}

/// the in-neighbours of v among the first n keys of ks
spec fn mm_in_keys_upto(g: AdjacencyMap, v: int, ks: Seq<usize>, n: int) -> Set<usize> {
    ks.take(n).to_set().filter(|k: usize| g.has(k as int, v))
}

/// trigger tag: names the triple (g, v, ks) for `lemma_mm_filter_count`
spec fn mm_tag(g: AdjacencyMap, v: int, ks: Seq<usize>) -> bool { true }

/// vstd's model of `Filter`: the items are `filter_index` of a prefix of the source; over the rows listed in the key order ks
/// with a predicate that decides `has(ks[.], v)` there are as many items as in-neighbours among the first n keys.
/// Broadcast because the filter iterator is consumed in the tail expression and cannot be named in a hint.
broadcast proof fn lemma_mm_filter_count<T>(g: AdjacencyMap, v: int, ks: Seq<usize>, s: Seq<T>, n: int, pred: spec_fn(int) -> bool)
    requires
        ks.no_duplicates(),
        0 <= n <= ks.len(),
        n <= s.len(),
        forall|j: int| 0 <= j < n ==> pred(j) == g.has(ks[j] as int, v),
    ensures
        #![trigger s.take(n).filter_index(pred), mm_tag(g, v, ks)]
        s.take(n).filter_index(pred).len() == mm_in_keys_upto(g, v, ks, n).len(),
    decreases n
{
    if n > 0 {
        lemma_mm_filter_count(g, v, ks, s, n - 1, pred);
        assert(s.take(n).drop_last() =~= s.take(n - 1));
        reveal_with_fuel(Seq::filter_index, 2);
        let prev = ks.take(n - 1).to_set();
        let x = ks[n - 1];
        assert(ks.take(n) =~= ks.take(n - 1).push(x));
        let t = ks.take(n);
        let t1 = ks.take(n - 1);
        assert(t.to_set() =~= prev.insert(x)) by {
            assert forall|y: usize| t.to_set().contains(y) == prev.insert(x).contains(y) by {
                if t.to_set().contains(y) {
                    let i = choose|i: int| 0 <= i < t.len() && t[i] == y;
                    if i < n - 1 { assert(t1[i] == y); }
                }
                if prev.contains(y) {
                    let i = choose|i: int| 0 <= i < t1.len() && t1[i] == y;
                    assert(t[i] == y);
                }
                if y == x { assert(t[n - 1] == y); }
            }
        }
        assert(!prev.contains(x)) by {
            if prev.contains(x) {
                let i = choose|i: int| 0 <= i < t1.len() && t1[i] == x;
                assert(ks[i] == ks[n - 1]);
            }
        }
        let p = mm_in_keys_upto(g, v, ks, n - 1);
        if g.has(x as int, v) { assert(mm_in_keys_upto(g, v, ks, n) =~= p.insert(x)); } else { assert(mm_in_keys_upto(g, v, ks, n) =~= p); }
    } else {
        assert(ks.take(0).to_set() =~= Set::<usize>::empty());
        assert(mm_in_keys_upto(g, v, ks, 0) =~= Set::<usize>::empty());
    }
}

impl AdjacencyMap {
    /*@fn impl=AdjacencyMap trait=Indegree name=indegree wrap=count props=C02,C13
    ensures
        self.verts().contains(v as int),
        r == self.indeg(v as int),
    @closure 1 |set: &&BTreeSet<usize>| -> (b: bool)
    ensures
        b == set@.contains(v),
    @fn_start
        broadcast use vstd::std_specs::iter::group_iter_axioms;
        broadcast use lemma_map_verts_contains;
        broadcast use lemma_mm_filter_count;
        proof {
            let dom = self.arcs@.dom();
            assert(self.arcs@.len() == self.arcs.len());
            // `values()` lists the rows in the order of an (existentially given) duplicate-free key listing ks
            assert forall|ks: Seq<usize>| #![trigger ks.no_duplicates()] mm_tag(*self, v as int, ks) by {}
            assert forall|ks: Seq<usize>| #![trigger mm_tag(*self, v as int, ks)] ks.to_set() == dom implies
                mm_in_keys_upto(*self, v as int, ks, ks.len() as int) == self.in_keys(v as int)
                && (forall|j: int| 0 <= j < ks.len() ==> self.arcs@.contains_key(#[trigger] ks[j])) by {
                assert(ks.take(ks.len() as int) =~= ks);
                assert forall|j: int| 0 <= j < ks.len() implies self.arcs@.contains_key(#[trigger] ks[j]) by { assert(ks.to_set().contains(ks[j])); }
            }
        }
    @*/
}

// ---- C02 in_neighbors: exactly the in-neighbours of v, ascending, no repeats ----

/// strictly ascending ids
spec fn mm_ascending_ids(s: Seq<usize>) -> bool {
    forall|i: int, j: int| 0 <= i < j < s.len() ==> #[trigger] s[i] < #[trigger] s[j]
}

/// the `Some` values of outs, where outs[j] is either None or Some(keys[j]) for an ascending key listing: ascending, each one a
/// selected key, every selected key among them
proof fn lemma_mm_somes(keys: Seq<usize>, outs: Seq<Option<usize>>)
    requires
        outs.len() <= keys.len(),
        mm_ascending_ids(keys),
        forall|j: int| 0 <= j < outs.len() && (#[trigger] outs[j]) is Some ==> outs[j]->0 == keys[j],
    ensures
        mm_ascending_ids(vx_somes(outs)),
        forall|i: int| #![trigger vx_somes(outs)[i]] 0 <= i < vx_somes(outs).len() ==> exists|j: int| 0 <= j < outs.len() && #[trigger] outs[j] == Some(vx_somes(outs)[i]),
        forall|j: int| 0 <= j < outs.len() && (#[trigger] outs[j]) is Some ==> vx_somes(outs).contains(keys[j]),
    decreases outs.len(),
{
    if outs.len() > 0 {
        let n = outs.len() - 1;
        let pre = outs.drop_last();
        lemma_mm_somes(keys, pre);
        let sp = vx_somes(pre);
        let s = vx_somes(outs);
        assert forall|i: int| #![trigger sp[i]] 0 <= i < sp.len() implies exists|j: int| 0 <= j < n && #[trigger] outs[j] == Some(sp[i]) by {
            let j = choose|j: int| 0 <= j < pre.len() && #[trigger] pre[j] == Some(sp[i]);
            assert(outs[j] == pre[j]);
        }
        if outs[n] is Some {
            assert(s == sp.push(keys[n]));
            assert forall|i: int, i2: int| 0 <= i < i2 < s.len() implies #[trigger] s[i] < #[trigger] s[i2] by {
                if i2 == sp.len() {
                    let j = choose|j: int| 0 <= j < n && #[trigger] outs[j] == Some(sp[i]);
                    assert(keys[j] < keys[n]);
                }
            }
            assert forall|i: int| #![trigger s[i]] 0 <= i < s.len() implies exists|j: int| 0 <= j < outs.len() && #[trigger] outs[j] == Some(s[i]) by {
                if i == sp.len() { assert(outs[n] == Some(s[i])); }
                else { let j = choose|j: int| 0 <= j < n && #[trigger] outs[j] == Some(sp[i]); }
            }
            assert forall|j: int| 0 <= j < outs.len() && (#[trigger] outs[j]) is Some implies s.contains(keys[j]) by {
                if j == n { assert(s[sp.len() as int] == keys[n]); }
                else {
                    assert(pre[j] == outs[j]);
                    assert(sp.contains(keys[j]));
                    let i = choose|i: int| 0 <= i < sp.len() && sp[i] == keys[j];
                    assert(s[i] == keys[j]);
                }
            }
        } else {
            assert(s == sp);
            assert forall|j: int| 0 <= j < outs.len() && (#[trigger] outs[j]) is Some implies s.contains(keys[j]) by {
                assert(pre[j] == outs[j]);
            }
        }
    }
}

/// meaning of vstd's `increasing_seq` on usize keys: strictly ascending
proof fn lemma_mm_increasing(ks: Seq<usize>, i: int, j: int)
    requires vstd::std_specs::btree::increasing_seq(ks), 0 <= i < j < ks.len(),
    ensures ks[i] < ks[j],
{
    broadcast use vstd::laws_cmp::group_laws_cmp;
    assert(vstd::laws_cmp::obeys_cmp::<usize>());
    vstd::std_specs::btree::axiom_increasing_seq_meaning(ks);
    assert(<usize as vstd::std_specs::cmp::OrdSpec>::cmp_spec(&ks[i], &ks[j]) is Less);
}

/// trigger tag: names (g, v, items) for `lemma_mm_in_nb`
spec fn mm_items_tag(g: AdjacencyMap, v: int, items: Seq<(&usize, &BTreeSet<usize>)>) -> bool { true }

/// what `in_neighbors` promises about its item sequence s: in-neighbours of v, ascending
spec fn mm_in_nb_items(g: AdjacencyMap, v: int, s: Seq<usize>) -> bool {
    &&& forall|i: int| 0 <= i < s.len() ==> g.has(#[trigger] s[i] as int, v)
    &&& forall|i: int, j: int| 0 <= i < j < s.len() ==> #[trigger] s[i] < #[trigger] s[j]
}
/// ... and all of them
spec fn mm_in_nb_all(g: AdjacencyMap, v: int, s: Seq<usize>) -> bool {
    forall|a: int| #[trigger] g.has(a, v) ==> s.contains(a as usize)
}

/// the model of `filter_map` (prelude/wm_more_std.rs) over the (key, row) items of the map, with a closure that answers
/// `Some(key)` exactly for the rows containing v.  Broadcast because the adapter is the tail expression of `in_neighbors`.
broadcast proof fn lemma_mm_in_nb(g: AdjacencyMap, v: int, items: Seq<(&usize, &BTreeSet<usize>)>, outs: Seq<Option<usize>>)
    requires
        0 <= v <= usize::MAX,
        map_items_of(g.arcs@, items),
        forall|i: int, j: int| 0 <= i < j < items.len() ==> *(#[trigger] items[i]).0 < *(#[trigger] items[j]).0,
        outs.len() <= items.len(),
        forall|j: int| 0 <= j < outs.len() ==> #[trigger] outs[j] == (if items[j].1@.contains(v as usize) { Some(*items[j].0) } else { None::<usize> }),
    ensures
        #![trigger vx_somes(outs), mm_items_tag(g, v, items)]
        mm_in_nb_items(g, v, vx_somes(outs)),
        outs.len() == items.len() ==> mm_in_nb_all(g, v, vx_somes(outs)),
{
    let keys = Seq::new(items.len(), |j: int| *items[j].0);
    assert forall|i: int, j: int| 0 <= i < j < keys.len() implies #[trigger] keys[i] < #[trigger] keys[j] by {
        assert(*items[i].0 < *items[j].0);
    }
    lemma_mm_somes(keys, outs);
    let s = vx_somes(outs);
    assert forall|i: int| 0 <= i < s.len() implies g.has(#[trigger] s[i] as int, v) by {
        let j = choose|j: int| 0 <= j < outs.len() && #[trigger] outs[j] == Some(s[i]);
        assert(g.arcs@.contains_key(*items[j].0) && g.arcs@[*items[j].0] == *items[j].1);
    }
    if outs.len() == items.len() {
        assert forall|a: int| #[trigger] g.has(a, v) implies s.contains(a as usize) by {
            let k = a as usize;
            assert(g.arcs@.contains_key(k));
            assert(items.contains((&k, &g.arcs@[k])));
            let j = choose|j: int| 0 <= j < items.len() && items[j] == (&k, &g.arcs@[k]);
            assert(outs[j] is Some);
            assert(keys[j] == k);
        }
    }
}

impl AdjacencyMap {
    /*@fn impl=AdjacencyMap trait=InNeighbors name=in_neighbors wrap=filter_map props=C02,C13 subst="Iterator<Item=usize>=>Iterator<Item=usize>+use<'_>"
    ensures
        r.obeys_prophetic_iter_laws(),
        r.decrease() is Some,
        forall|i: int| 0 <= i < r.remaining().len() ==> self.has(#[trigger] r.remaining()[i] as int, v as int),
        forall|i: int, j: int| 0 <= i < j < r.remaining().len() ==> r.remaining()[i] < r.remaining()[j],
        r.will_return_none() ==> forall|a: int| #[trigger] self.has(a, v as int) ==> r.remaining().contains(a as usize),
    @closure 1 |p: (&usize, &BTreeSet<usize>)| -> (o: Option<usize>)
    ensures
        o == (if p.1@.contains(v) { Some(*p.0) } else { None::<usize> }),
    @fn_start
        broadcast use lemma_mm_in_nb;
        proof {
            assert forall|items: Seq<(&usize, &BTreeSet<usize>)>| #![trigger items.no_duplicates()] mm_items_tag(*self, v as int, items) by {}
            // ascending: `BTreeMap::iter` promises `increasing_seq` of the key projection `f` of its items
            assert forall|src: Seq<(&usize, &BTreeSet<usize>)>, f: spec_fn((&usize, &BTreeSet<usize>)) -> usize, i: int, j: int|
                #[trigger] vstd::std_specs::btree::increasing_seq(src.map_values(f)) && 0 <= i < j < src.len()
                implies f(#[trigger] src[i]) < f(#[trigger] src[j]) by {
                lemma_mm_increasing(src.map_values(f), i, j);
            }
        }
    @*/
}

// ---- C14: deterministic generators of AdjacencyMap (`empty` / `trivial` / `From<rows>` themselves are in unit map_ctor,
// fragment units/inc/map_ctor_core.inc.rs) ----
// defining arc predicates, each written from the property text (identical to units/inc/matrix_gen.inc.rs)

/// complete(n) has all n(n-1) arcs: every ordered pair of distinct vertices
spec fn complete_arc(n: int, a: int, b: int) -> bool {
    0 <= a < n && 0 <= b < n && a != b
}
/// path(n) has i -> i+1 for i < n-1
spec fn path_arc(n: int, a: int, b: int) -> bool {
    0 <= a < n - 1 && b == a + 1
}
/// circuit(n) has the arcs i -> (i+1) mod n (none for n = 1)
spec fn circuit_arc(n: int, a: int, b: int) -> bool {
    n > 1 && 0 <= a < n && 0 <= b < n && b == (a + 1) % n
}
/// cycle(n) has those arcs and their reverses
spec fn cycle_arc(n: int, a: int, b: int) -> bool {
    circuit_arc(n, a, b) || circuit_arc(n, b, a)
}
/// star(n) has 0 <-> i for 1 <= i < n
spec fn star_arc(n: int, a: int, b: int) -> bool {
    (a == 0 && 1 <= b < n) || (b == 0 && 1 <= a < n)
}
/// the cycle through 1..n-1: cycle(n-1) on the vertices 1, .., n-1
spec fn rim_arc(n: int, a: int, b: int) -> bool {
    1 <= a < n && 1 <= b < n && cycle_arc(n - 1, a - 1, b - 1)
}
/// wheel(n >= 4) is the union of star(n) and the cycle through 1..n-1
spec fn wheel_arc(n: int, a: int, b: int) -> bool {
    star_arc(n, a, b) || rim_arc(n, a, b)
}
/// biclique(m, n) has u <-> v exactly for u < m <= v < m+n
spec fn biclique_arc(m: int, n: int, a: int, b: int) -> bool {
    (0 <= a < m && m <= b < m + n) || (0 <= b < m && m <= a < m + n)
}

// proof helpers: `% n` free forms of the circuit / rim predicates (as in matrix_gen)
spec fn circuit_lin(n: int, a: int, b: int) -> bool {
    n > 1 && 0 <= a < n && b == (if a == n - 1 { 0 } else { a + 1 })
}
proof fn lemma_circuit_lin(n: int)
    ensures forall|a: int, b: int| #[trigger] circuit_arc(n, a, b) == circuit_lin(n, a, b),
{
    assert forall|a: int, b: int| #[trigger] circuit_arc(n, a, b) == circuit_lin(n, a, b) by {
        if n > 1 && 0 <= a < n {
            if a == n - 1 {
                vstd::arithmetic::div_mod::lemma_mod_self_0(n);
            } else {
                vstd::arithmetic::div_mod::lemma_small_mod((a + 1) as nat, n as nat);
            }
        }
    }
}
/// `lo <= a, b < n` adjacent (|a - b| == 1) with smaller endpoint below `u`
spec fn adj_below(n: int, lo: int, u: int, a: int, b: int) -> bool {
    lo <= a < n && lo <= b < n && ((b == a + 1 && a < u) || (a == b + 1 && b < u))
}
/// the arc pair closing a cycle on lo..n-1
spec fn closing(n: int, lo: int, a: int, b: int) -> bool {
    (a == n - 1 && b == lo) || (a == lo && b == n - 1)
}
spec fn rim_lin_ok(n: int) -> bool {
    forall|a: int, b: int| #[trigger] rim_arc(n, a, b) == (adj_below(n, 1, n - 1, a, b) || closing(n, 1, a, b))
}
proof fn lemma_rim_lin(n: int)
    requires n >= 4,
    ensures rim_lin_ok(n),
{
    lemma_circuit_lin(n - 1);
    assert forall|a: int, b: int| #[trigger] rim_arc(n, a, b) == (adj_below(n, 1, n - 1, a, b) || closing(n, 1, a, b)) by {
        assert(circuit_arc(n - 1, a - 1, b - 1) == circuit_lin(n - 1, a - 1, b - 1));
        assert(circuit_arc(n - 1, b - 1, a - 1) == circuit_lin(n - 1, b - 1, a - 1));
    }
}

/// items lists, for k = 0..n, the pair (k, row k), row k being the heads b with arc(k, b)
spec fn mm_rows_from(items: Seq<(usize, BTreeSet<usize>)>, n: int, arc: spec_fn(int, int) -> bool) -> bool {
    &&& items.len() == n
    &&& forall|k: int| 0 <= k < n ==> (#[trigger] items[k]).0 == k
    &&& forall|k: int, x: usize| 0 <= k < n ==> (#[trigger] items[k].1@.contains(x)) == arc(k, x as int)
}

/// what a generator promises: V = 0..n, A = arc, a valid digraph
spec fn mm_generated(g: AdjacencyMap, n: int, arc: spec_fn(int, int) -> bool) -> bool {
    &&& g.wf()
    &&& g.ord() == n
    &&& forall|x: int| #[trigger] g.verts().contains(x) == (0 <= x < n)
    &&& forall|a: int, b: int| #![trigger g.has(a, b)] g.has(a, b) == arc(a, b)
}

/// a map with the keys 0..n whose row k holds the heads b with arc(k, b) is the digraph (0..n, arc), provided arc joins
/// distinct vertices of 0..n
proof fn lemma_mm_map(g: AdjacencyMap, n: int, arc: spec_fn(int, int) -> bool)
    requires
        0 < n <= usize::MAX,
        forall|k: usize| #[trigger] g.arcs@.contains_key(k) == (k < n),
        forall|k: usize, x: usize| k < n ==> (#[trigger] g.arcs@[k]@.contains(x)) == arc(k as int, x as int),
        forall|a: int, b: int| #[trigger] arc(a, b) ==> 0 <= a < n && 0 <= b < n && a != b,
    ensures
        mm_generated(g, n, arc),
{
    broadcast use lemma_map_verts_contains;
    let m = g.arcs;
    assert forall|x: int| #[trigger] g.verts().contains(x) == (0 <= x < n) by {}
    assert(g.verts() =~= Set::<int>::range(0, n));
    range_set_properties::<int>(0, n);
    let f = |k: usize| k as int;
    assert(m@.dom().injective_on(f)) by {
        assert forall|x1: usize, x2: usize| m@.dom().contains(x1) && m@.dom().contains(x2) && f(x1) == f(x2) implies x1 == x2 by {}
    }
    lemma_map_size(m@.dom(), g.verts(), f);
    assert forall|a: int, b: int| #![trigger g.has(a, b)] g.has(a, b) == arc(a, b) by {
        if 0 <= a < n && 0 <= b <= usize::MAX {
            assert(m@[a as usize]@.contains(b as usize) == arc(a as usize as int, b as usize as int));
        }
    }
    assert forall|u: usize, x: usize| m@.contains_key(u) && #[trigger] m@[u]@.contains(x) implies m@.contains_key(x) && x != u by {
        assert(g.has(u as int, x as int));
    }
}

/// collecting such a listing into a BTreeMap gives the digraph (0..n, arc), provided arc joins distinct vertices of 0..n
proof fn lemma_mm_collected(items: Seq<(usize, BTreeSet<usize>)>, m: BTreeMap<usize, BTreeSet<usize>>, n: int, arc: spec_fn(int, int) -> bool)
    requires
        <BTreeMap<usize, BTreeSet<usize>> as vstd::std_specs::iter::FromIteratorSpec<(usize, BTreeSet<usize>)>>::from_iter_ensures(items, m),
        mm_rows_from(items, n, arc),
        0 < n <= usize::MAX,
        forall|a: int, b: int| #[trigger] arc(a, b) ==> 0 <= a < n && 0 <= b < n && a != b,
    ensures
        mm_generated(AdjacencyMap { arcs: m }, n, arc),
{
    broadcast use axiom_btree_map_from_iter;
    let g = AdjacencyMap { arcs: m };
    assert forall|i: int, j: int| 0 <= i < j < items.len() implies items[i].0 != items[j].0 by {}
    assert forall|k: usize| #[trigger] m@.contains_key(k) == (k < n) by {
        if k < n { assert(items[k as int].0 == k); }
    }
    assert forall|k: usize, x: usize| k < n implies (#[trigger] m@[k]@.contains(x)) == arc(k as int, x as int) by {
        assert(m@[items[k as int].0] == items[k as int].1);
        assert(items[k as int].1@.contains(x) == arc(k as int, x as int));
    }
    lemma_mm_map(g, n, arc);
}

/// the items of a row listing: vertex k with the heads given by `row`
spec fn mm_item_is(it: (usize, BTreeSet<usize>), k: int, row: spec_fn(int) -> bool) -> bool {
    it.0 == k && forall|x: usize| #[trigger] it.1@.contains(x) == row(x as int)
}

/// the set collected from `lo..hi`
proof fn lemma_mm_range_set(lo: usize, hi: usize)
    ensures forall|x: usize| #[trigger] (core::ops::Range { start: lo, end: hi }).remaining().to_set().contains(x) == (lo <= x < hi),
{
    let rem = (core::ops::Range { start: lo, end: hi }).remaining();
    assert forall|x: usize| #[trigger] rem.to_set().contains(x) == (lo <= x < hi) by {
        if lo <= x < hi { assert(rem[x - lo] == x); }
    }
}

/// the row listing of `wheel`: hub, first rim vertex, the middle rim vertices, last rim vertex
proof fn lemma_mm_wheel_items(n: int, i0: (usize, BTreeSet<usize>), i1: (usize, BTreeSet<usize>), rm: Seq<(usize, BTreeSet<usize>)>, i3: (usize, BTreeSet<usize>), arc: spec_fn(int, int) -> bool)
    requires
        n >= 4,
        forall|a: int, b: int| #[trigger] arc(a, b) == wheel_arc(n, a, b),
        mm_item_is(i0, 0, |x: int| 1 <= x < n),
        mm_item_is(i1, 1, |x: int| x == 0 || x == n - 1 || x == 2),
        rm.len() == n - 3,
        forall|k: int| 0 <= k < rm.len() ==> mm_item_is(#[trigger] rm[k], k + 2, |x: int| x == 0 || x == k + 1 || x == k + 3),
        mm_item_is(i3, n - 1, |x: int| x == 0 || x == n - 2 || x == 1),
    ensures
        mm_rows_from(((seq![i0] + seq![i1]) + rm) + seq![i3], n, arc),
{
    let items = ((seq![i0] + seq![i1]) + rm) + seq![i3];
    lemma_rim_lin(n);
    assert forall|k: int| 0 <= k < n implies (#[trigger] items[k]).0 == k by {
        if 2 <= k < n - 1 { assert(items[k] == rm[k - 2]); }
    }
    assert forall|k: int, x: usize| 0 <= k < n implies (#[trigger] items[k].1@.contains(x)) == arc(k, x as int) by {
        assert(rim_arc(n, k, x as int) == (adj_below(n, 1, n - 1, k, x as int) || closing(n, 1, k, x as int)));
        if 2 <= k < n - 1 { assert(items[k] == rm[k - 2]); assert(mm_item_is(rm[k - 2], k, |y: int| y == 0 || y == (k - 2) + 1 || y == (k - 2) + 3)); }
    }
}

impl AdjacencyMap {
    /*@fn impl=AdjacencyMap trait=Wheel name=wheel wrap=chain,fn:once props=C14,C13
    ensures
        order >= 4,
        r.wf(),
        r.ord() == order,
        forall|x: int| #[trigger] r.verts().contains(x) == (0 <= x < order),
        forall|a: int, b: int| #![trigger r.has(a, b)] r.has(a, b) == wheel_arc(order as int, a, b),
    @closure 1 |u: usize| -> (kv: (usize, BTreeSet<usize>))
    requires
        2 <= u < last,
    ensures
        mm_item_is(kv, u as int, |x: int| x == 0 || x == u - 1 || x == u + 1),
    @fn_end
        broadcast use vstd::std_specs::iter::group_iter_axioms;
        broadcast use vstd::laws_cmp::group_laws_cmp;
        broadcast use axiom_btree_set_from_iter;
        proof {
            let n = order as int;
            let arc = |a: int, b: int| wheel_arc(n, a, b);
            lemma_rim_lin(n);
            lemma_mm_range_set(1, order);
            assert forall|a: int, b: int| #[trigger] arc(a, b) implies 0 <= a < n && 0 <= b < n && a != b by {
                assert(rim_arc(n, a, b) == (adj_below(n, 1, n - 1, a, b) || closing(n, 1, a, b)));
            }
            // the chain is the tail expression: state the meaning of its item sequence for every candidate of that shape
            assert forall|i0: (usize, BTreeSet<usize>), i1: (usize, BTreeSet<usize>), rm: Seq<(usize, BTreeSet<usize>)>, i3: (usize, BTreeSet<usize>)|
                mm_item_is(i0, 0, |x: int| 1 <= x < n)
                && mm_item_is(i1, 1, |x: int| x == 0 || x == n - 1 || x == 2)
                && rm.len() == n - 3
                && (forall|k: int| 0 <= k < rm.len() ==> mm_item_is(#[trigger] rm[k], k + 2, |x: int| x == 0 || x == k + 1 || x == k + 3))
                && mm_item_is(i3, n - 1, |x: int| x == 0 || x == n - 2 || x == 1)
                implies mm_rows_from(#[trigger] (((seq![i0] + seq![i1]) + rm) + seq![i3]), n, arc) by {
                lemma_mm_wheel_items(n, i0, i1, rm, i3, arc);
            }
            assert forall|items: Seq<(usize, BTreeSet<usize>)>, m: BTreeMap<usize, BTreeSet<usize>>|
                #[trigger] <BTreeMap<usize, BTreeSet<usize>> as vstd::std_specs::iter::FromIteratorSpec<(usize, BTreeSet<usize>)>>::from_iter_ensures(items, m)
                && mm_rows_from(items, n, arc) implies mm_generated(AdjacencyMap { arcs: m }, n, arc) by {
                lemma_mm_collected(items, m, n, arc);
            }
        }
    @*/
}

impl AdjacencyMap {
    /*@fn impl=AdjacencyMap trait=Biclique name=biclique wrap=fn:repeat_n,chain,enumerate props=C14,C13
    ensures
        m > 0,
        n > 0,
        m + n <= usize::MAX,
        r.wf(),
        r.ord() == m + n,
        forall|x: int| #[trigger] r.verts().contains(x) == (0 <= x < m + n),
        forall|a: int, b: int| #![trigger r.has(a, b)] r.has(a, b) == biclique_arc(m as int, n as int, a, b),
    @fn_end
        broadcast use vstd::std_specs::iter::group_iter_axioms;
        broadcast use vstd::laws_cmp::group_laws_cmp;
        broadcast use axiom_btree_set_from_iter;
        proof {
            let arc = |a: int, b: int| biclique_arc(m as int, n as int, a, b);
            lemma_mm_range_set(0, m);
            lemma_mm_range_set(m, order);
            assert forall|items: Seq<(usize, BTreeSet<usize>)>, mp: BTreeMap<usize, BTreeSet<usize>>|
                #[trigger] <BTreeMap<usize, BTreeSet<usize>> as vstd::std_specs::iter::FromIteratorSpec<(usize, BTreeSet<usize>)>>::from_iter_ensures(items, mp)
                && mm_rows_from(items, order as int, arc) implies mm_generated(AdjacencyMap { arcs: mp }, order as int, arc) by {
                lemma_mm_collected(items, mp, order as int, arc);
            }
        }
    @*/
}

// ---- C14, every order >= 1: circuit / cycle / path / star / complete ----
// Each of these starts with `if order == 1 { return Self::trivial(); }`.  `trivial()` = `empty(1)` = `From<rows>` are under
// contract in unit map_ctor (fragment units/inc/map_ctor_core.inc.rs, imported by the units that include this fragment; it
// rests on the assumed contract of `AdjacencyMap::arcs` in prelude/map_ctor_std.rs).  The order-1 branch is therefore verified
// against the contract of the real `trivial` (one vertex, no arcs); order 0 panics.  Each arc predicate is empty at n = 1
// (`lemma_mm_order1_no_arcs`), so the postconditions below state the C14 definition uniformly for every order >= 1.
proof fn lemma_mm_order1_no_arcs()
    ensures
        forall|a: int, b: int| !#[trigger] circuit_arc(1, a, b),
        forall|a: int, b: int| !#[trigger] cycle_arc(1, a, b),
        forall|a: int, b: int| !#[trigger] path_arc(1, a, b),
        forall|a: int, b: int| !#[trigger] star_arc(1, a, b),
        forall|a: int, b: int| !#[trigger] complete_arc(1, a, b),
{
}

impl AdjacencyMap {
    /*@fn impl=AdjacencyMap trait=Circuit name=circuit props=C14,C13
    ensures
        order >= 1,
        r.wf(),
        r.ord() == order,
        forall|x: int| #[trigger] r.verts().contains(x) == (0 <= x < order),
        forall|a: int, b: int| #![trigger r.has(a, b)] r.has(a, b) == circuit_arc(order as int, a, b),
    @closure 1 |u: usize| -> (kv: (usize, BTreeSet<usize>))
    requires
        u < order,
        order > 1,
    ensures
        mm_item_is(kv, u as int, |x: int| x == (u + 1) % (order as int)),
    @fn_end
        broadcast use vstd::std_specs::iter::group_iter_axioms;
        broadcast use vstd::laws_cmp::group_laws_cmp;
        proof {
            let n = order as int;
            let arc = |a: int, b: int| circuit_arc(n, a, b);
            lemma_circuit_lin(n);
            assert forall|a: int, b: int| #[trigger] arc(a, b) implies 0 <= a < n && 0 <= b < n && a != b by {
                assert(circuit_arc(n, a, b) == circuit_lin(n, a, b));
            }
            assert forall|items: Seq<(usize, BTreeSet<usize>)>, m: BTreeMap<usize, BTreeSet<usize>>|
                #[trigger] <BTreeMap<usize, BTreeSet<usize>> as vstd::std_specs::iter::FromIteratorSpec<(usize, BTreeSet<usize>)>>::from_iter_ensures(items, m)
                && mm_rows_from(items, n, arc) implies mm_generated(AdjacencyMap { arcs: m }, n, arc) by {
                lemma_mm_collected(items, m, n, arc);
            }
        }
    @*/
}

impl AdjacencyMap {
    // `u + order - 1` needs order <= usize::MAX / 2 + 1 (beyond it the sum overflows: debug panic / release wrap; such an order
    // cannot be allocated, but Verus does not model the allocation bound), so it is a precondition here (as for AdjacencyList).
    /*@fn impl=AdjacencyMap trait=Cycle name=cycle props=C14,C13
    requires
        order <= 0x7fff_ffff_ffff_ffff,
    ensures
        order >= 1,
        r.wf(),
        r.ord() == order,
        forall|x: int| #[trigger] r.verts().contains(x) == (0 <= x < order),
        forall|a: int, b: int| #![trigger r.has(a, b)] r.has(a, b) == cycle_arc(order as int, a, b),
    @closure 1 |u: usize| -> (kv: (usize, BTreeSet<usize>))
    requires
        u < order,
        order > 1,
        order <= 0x7fff_ffff_ffff_ffff,
    ensures
        mm_item_is(kv, u as int, |x: int| x == (u + order - 1) % (order as int) || x == (u + 1) % (order as int)),
    @fn_end
        broadcast use vstd::std_specs::iter::group_iter_axioms;
        broadcast use vstd::laws_cmp::group_laws_cmp;
        proof {
            let n = order as int;
            let arc = |a: int, b: int| cycle_arc(n, a, b);
            lemma_circuit_lin(n);
            assert forall|a: int, b: int| #[trigger] arc(a, b) implies 0 <= a < n && 0 <= b < n && a != b by {
                assert(circuit_arc(n, a, b) == circuit_lin(n, a, b));
                assert(circuit_arc(n, b, a) == circuit_lin(n, b, a));
            }
            // (k + n - 1) % n is the predecessor of k on the n-circuit
            assert forall|k: int, x: int| 0 <= k < n implies (#[trigger] circuit_arc(n, x, k)) == (0 <= x && x == (k + n - 1) % n) by {
                assert(circuit_arc(n, x, k) == circuit_lin(n, x, k));
                if k == 0 { vstd::arithmetic::div_mod::lemma_small_mod((n - 1) as nat, n as nat); }
                else { vstd::arithmetic::div_mod::lemma_mod_add_multiples_vanish(k - 1, n); vstd::arithmetic::div_mod::lemma_small_mod((k - 1) as nat, n as nat); }
            }
            assert forall|items: Seq<(usize, BTreeSet<usize>)>, m: BTreeMap<usize, BTreeSet<usize>>|
                #[trigger] <BTreeMap<usize, BTreeSet<usize>> as vstd::std_specs::iter::FromIteratorSpec<(usize, BTreeSet<usize>)>>::from_iter_ensures(items, m)
                && mm_rows_from(items, n, arc) implies mm_generated(AdjacencyMap { arcs: m }, n, arc) by {
                lemma_mm_collected(items, m, n, arc);
            }
        }
    @*/

    /*@fn impl=AdjacencyMap trait=Path name=path wrap=chain,fn:once props=C14,C13
    ensures
        order >= 1,
        r.wf(),
        r.ord() == order,
        forall|x: int| #[trigger] r.verts().contains(x) == (0 <= x < order),
        forall|a: int, b: int| #![trigger r.has(a, b)] r.has(a, b) == path_arc(order as int, a, b),
    @closure 1 |u: usize| -> (kv: (usize, BTreeSet<usize>))
    requires
        u < last,
    ensures
        mm_item_is(kv, u as int, |x: int| x == u + 1),
    @fn_end
        broadcast use vstd::std_specs::iter::group_iter_axioms;
        broadcast use vstd::laws_cmp::group_laws_cmp;
        proof {
            let n = order as int;
            let arc = |a: int, b: int| path_arc(n, a, b);
            assert forall|items: Seq<(usize, BTreeSet<usize>)>, m: BTreeMap<usize, BTreeSet<usize>>|
                #[trigger] <BTreeMap<usize, BTreeSet<usize>> as vstd::std_specs::iter::FromIteratorSpec<(usize, BTreeSet<usize>)>>::from_iter_ensures(items, m)
                && mm_rows_from(items, n, arc) implies mm_generated(AdjacencyMap { arcs: m }, n, arc) by {
                lemma_mm_collected(items, m, n, arc);
            }
        }
    @*/

    /*@fn impl=AdjacencyMap trait=Star name=star wrap=chain,fn:once props=C14,C13
    ensures
        order >= 1,
        r.wf(),
        r.ord() == order,
        forall|x: int| #[trigger] r.verts().contains(x) == (0 <= x < order),
        forall|a: int, b: int| #![trigger r.has(a, b)] r.has(a, b) == star_arc(order as int, a, b),
    @closure 1 |u: usize| -> (kv: (usize, BTreeSet<usize>))
    ensures
        mm_item_is(kv, u as int, |x: int| x == 0),
    @fn_end
        broadcast use vstd::std_specs::iter::group_iter_axioms;
        broadcast use vstd::laws_cmp::group_laws_cmp;
        broadcast use axiom_btree_set_from_iter;
        proof {
            let n = order as int;
            let arc = |a: int, b: int| star_arc(n, a, b);
            lemma_mm_range_set(1, order);
            assert forall|items: Seq<(usize, BTreeSet<usize>)>, m: BTreeMap<usize, BTreeSet<usize>>|
                #[trigger] <BTreeMap<usize, BTreeSet<usize>> as vstd::std_specs::iter::FromIteratorSpec<(usize, BTreeSet<usize>)>>::from_iter_ensures(items, m)
                && mm_rows_from(items, n, arc) implies mm_generated(AdjacencyMap { arcs: m }, n, arc) by {
                lemma_mm_collected(items, m, n, arc);
            }
        }
    @*/
}

/// the rows of the vertices below `upto` of complete(n) are in place: row k = 0..n without k
/// (a named predicate: `let mut arcs = BTreeMap::new()` gets its type only from the struct literal at the end)
spec fn mm_complete_rows(m: BTreeMap<usize, BTreeSet<usize>>, n: int, upto: int) -> bool {
    &&& forall|k: usize| #[trigger] m@.contains_key(k) == (k < upto)
    &&& forall|k: usize, x: usize| k < upto ==> (#[trigger] m@[k]@.contains(x)) == (x < n && x != k)
}

impl AdjacencyMap {
    /*@fn impl=AdjacencyMap trait=Complete name=complete props=C14,C13
    ensures
        order >= 1,
        r.wf(),
        r.ord() == order,
        forall|x: int| #[trigger] r.verts().contains(x) == (0 <= x < order),
        forall|a: int, b: int| #![trigger r.has(a, b)] r.has(a, b) == complete_arc(order as int, a, b),
    @before `let vertices`
        broadcast use vstd::std_specs::iter::group_iter_axioms;
        broadcast use vstd::laws_cmp::group_laws_cmp;
        broadcast use axiom_btree_set_from_iter;
        proof { lemma_mm_range_set(0, order); }
    @loop 1
    invariant
        order >= 2,
        forall|x: usize| #[trigger] vertices@.contains(x) == (x < order),
        it1.seq().len() == order,
        forall|i: int| 0 <= i < order ==> #[trigger] it1.seq()[i] == i,
        mm_complete_rows(arcs, order as int, it1.index@ as int),
    @fn_end
        proof {
            let n = order as int;
            let arc = |a: int, b: int| complete_arc(n, a, b);
            lemma_mm_map(AdjacencyMap { arcs }, n, arc);
        }
    @*/
}

// ---- C01 vertices (ascending, each once), C02 semidegree_sequence (blanket impl of src/op/semidegree_sequence.rs at
// D = AdjacencyMap), C12 is_regular ----

/// ks lists the vertex set `dom` in ascending order (hence each vertex once)
spec fn mm_is_key_seq(dom: Set<usize>, ks: Seq<usize>) -> bool {
    &&& ks.to_set() == dom
    &&& ks.no_duplicates()
    &&& forall|i: int, j: int| 0 <= i < j < ks.len() ==> #[trigger] ks[i] < #[trigger] ks[j]
}

impl AdjacencyMap {
    /// outdegree defined from (V, A): the number of b with (u, b) in A (`row(u)` is exactly that set: `has`)
    spec fn outdeg(&self, u: int) -> nat { self.row(u).len() }
}

/// every vertex has indegree c and outdegree c
spec fn mm_all_deg(g: AdjacencyMap, c: int) -> bool {
    forall|a: int| g.verts().contains(a) ==> #[trigger] g.indeg(a) == c && g.outdeg(a) == c
}
/// C12: all indegrees and outdegrees equal one constant
spec fn mm_regular(g: AdjacencyMap) -> bool { exists|c: int| mm_all_deg(g, c) }

/// s lists the semidegrees of the first s.len() vertices of ks
spec fn mm_semideg_items(g: AdjacencyMap, ks: Seq<usize>, s: Seq<(usize, usize)>) -> bool {
    &&& s.len() <= ks.len()
    &&& forall|i: int| 0 <= i < s.len() ==> (#[trigger] s[i]).0 == g.indeg(ks[i] as int) && s[i].1 == g.outdeg(ks[i] as int)
}

impl AdjacencyMap {
    /*@fn impl=AdjacencyMap trait=Vertices name=vertices wrap=copied props=C01,C13 subst="Iterator<Item=usize>=>Iterator<Item=usize>+use<'_>"
    ensures
        r.obeys_prophetic_iter_laws(),
        r.decrease() is Some,
        mm_is_key_seq(self.arcs@.dom(), r.remaining()),
        r.remaining().len() == self.ord(),
    @fn_start
        proof {
            assert forall|rem: Seq<&usize>| #[trigger] vstd::std_specs::btree::increasing_seq(rem) implies mm_ascending(rem) by { lemma_mm_ref_increasing(rem); }
        }
    @*/

    /*@fn impl=D trait=SemidegreeSequence name=semidegree_sequence file=src/op/semidegree_sequence.rs props=C02,C13
    ensures
        r.obeys_prophetic_iter_laws(),
        r.decrease() is Some,
        exists|ks: Seq<usize>| #[trigger] mm_is_key_seq(self.arcs@.dom(), ks) && ks.len() == self.ord() && mm_semideg_items(*self, ks, r.remaining())
            && (r.will_return_none() ==> r.remaining().len() == ks.len()),
    @closure 1 |u: usize| -> (d: (usize, usize))
    requires
        self.arcs@.contains_key(u),
    ensures
        d.0 == self.indeg(u as int),
        d.1 == self.outdeg(u as int),
    @fn_start
        broadcast use vstd::std_specs::iter::group_iter_axioms;
        broadcast use lemma_map_verts_contains;
        proof {
            assert forall|ks: Seq<usize>, i: int| #![trigger mm_is_key_seq(self.arcs@.dom(), ks), ks[i]] mm_is_key_seq(self.arcs@.dom(), ks) && 0 <= i < ks.len()
                implies self.arcs@.contains_key(ks[i]) by { assert(ks.to_set().contains(ks[i])); }
        }
    @*/

    /*@fn impl=AdjacencyMap trait=IsRegular name=is_regular wrap=all props=C12,C13
    ensures
        self.ord() > 0,
        r == mm_regular(*self),
    @closure 1 |p: (usize, usize)| -> (b: bool)
    ensures
        b == (p.0 == u && p.1 == v),
    @after `let mut semidegrees`
        let ghost s0 = semidegrees.remaining();
        let ghost ks = choose|ks: Seq<usize>| #[trigger] mm_is_key_seq(self.arcs@.dom(), ks) && ks.len() == self.ord() && mm_semideg_items(*self, ks, s0)
            && (semidegrees.will_return_none() ==> s0.len() == ks.len());
    @fn_end
        broadcast use lemma_map_verts_contains;
        proof {
            let rem1 = semidegrees.remaining();
            assert(rem1 == s0.drop_first());
            assert(u == self.indeg(ks[0] as int) && v == self.outdeg(ks[0] as int)) by { assert(s0[0] == (u, v)); }
            assert forall|i: int| 0 <= i < rem1.len() implies (#[trigger] rem1[i]).0 == self.indeg(ks[i + 1] as int) && rem1[i].1 == self.outdeg(ks[i + 1] as int) by {
                assert(rem1[i] == s0[i + 1]);
            }
            assert forall|i: int| 0 <= i < ks.len() implies self.verts().contains(#[trigger] ks[i] as int) by { assert(ks.to_set().contains(ks[i])); }
            // regular ==> the first pair is (c, c) and every later item equals it
            if mm_regular(*self) {
                let c = choose|c: int| mm_all_deg(*self, c);
                assert(self.indeg(ks[0] as int) == c && self.outdeg(ks[0] as int) == c);
                assert forall|i: int| 0 <= i < rem1.len() implies (#[trigger] rem1[i]).0 == u && rem1[i].1 == v by {
                    assert(self.indeg(ks[i + 1] as int) == c && self.outdeg(ks[i + 1] as int) == c);
                }
            }
            // the sequence was run to its end and every item equals (u, u) ==> regular with constant u
            // (`will_return_none()` is prophetic: no `if` on it, hence the one-point quantifier)
            assert forall|z: int| (#[trigger] mm_see(z)) && u == v && semidegrees.will_return_none()
                && (forall|i: int| 0 <= i < rem1.len() ==> (#[trigger] rem1[i]).0 == u && rem1[i].1 == v) implies mm_all_deg(*self, u as int) by {
                assert(s0.len() == ks.len());
                assert forall|i: int| 0 <= i < s0.len() implies (#[trigger] s0[i]).0 == u && s0[i].1 == u by {
                    if i > 0 { assert(rem1[i - 1].0 == u && rem1[i - 1].1 == v); }
                }
                lemma_mm_all_deg(*self, ks, s0, u);
            }
            assert(mm_see(0int));
        }
    @*/
}

/// always true: used to make a term appear in a quantifier instantiation
spec fn mm_see<A>(a: A) -> bool { true }

/// a complete semidegree listing (one item per vertex of the key listing ks) all of whose items are (c, c): every vertex has
/// indegree c and outdegree c
proof fn lemma_mm_all_deg(g: AdjacencyMap, ks: Seq<usize>, s: Seq<(usize, usize)>, c: usize)
    requires
        mm_is_key_seq(g.arcs@.dom(), ks),
        mm_semideg_items(g, ks, s),
        s.len() == ks.len(),
        forall|i: int| 0 <= i < s.len() ==> (#[trigger] s[i]).0 == c && s[i].1 == c,
    ensures
        mm_all_deg(g, c as int),
{
    broadcast use lemma_map_verts_contains;
    assert forall|a: int| g.verts().contains(a) implies #[trigger] g.indeg(a) == c as int && g.outdeg(a) == c as int by {
        assert(ks.to_set().contains(a as usize));
        let i = choose|i: int| 0 <= i < ks.len() && ks[i] == a as usize;
        assert(s[i].0 == c && s[i].1 == c);
    }
}
