//@file src/repr/edge_list/mod.rs
// ---- EdgeList::cycle / EdgeList::wheel: `flat_map(|u| once(..).chain(once(..)).map(..))` chains (rule E14 loopify + E12 wrap) ----
// `circuit_arc`, `cycle_arc`, `circuit_lin`, `lemma_circuit_lin` come from the imported units/inc/edge_list_ops.inc.rs (the
// definitions are identical to units/inc/map_more.inc.rs / matrix_gen.inc.rs).

/// predecessor / successor of a on the n-cycle 0..n-1, without `%`
spec fn cyc_prev(n: int, a: int) -> int { if a == 0 { n - 1 } else { a - 1 } }
spec fn cyc_next(n: int, a: int) -> int { if a == n - 1 { 0 } else { a + 1 } }

/// `%`-free form of cycle_arc: b is the predecessor or the successor of a
spec fn cyc_lin(n: int, a: int, b: int) -> bool {
    n > 1 && 0 <= a < n && (b == cyc_prev(n, a) || b == cyc_next(n, a))
}

spec fn cyc_lin_ok(n: int) -> bool {
    forall|a: int, b: int| #[trigger] cycle_arc(n, a, b) == cyc_lin(n, a, b)
}

proof fn lemma_cyc_lin(n: int)
    ensures cyc_lin_ok(n),
{
    lemma_circuit_lin(n);
    assert forall|a: int, b: int| #[trigger] cycle_arc(n, a, b) == cyc_lin(n, a, b) by {
        assert(circuit_arc(n, a, b) == circuit_lin(n, a, b));
        assert(circuit_arc(n, b, a) == circuit_lin(n, b, a));
    }
}

/// the two `%` expressions of `cycle` are the predecessor and the successor
proof fn lemma_cyc_mod(n: int, u: int)
    requires n > 1, 0 <= u < n,
    ensures (u + n - 1) % n == cyc_prev(n, u), (u + 1) % n == cyc_next(n, u),
{
    if u == 0 {
        vstd::arithmetic::div_mod::lemma_small_mod((n - 1) as nat, n as nat);
    } else {
        vstd::arithmetic::div_mod::lemma_mod_add_multiples_vanish(u - 1, n);
        vstd::arithmetic::div_mod::lemma_small_mod((u - 1) as nat, n as nat);
    }
    if u == n - 1 {
        vstd::arithmetic::div_mod::lemma_mod_self_0(n);
    } else {
        vstd::arithmetic::div_mod::lemma_small_mod((u + 1) as nat, n as nat);
    }
}

// ---- wheel: defining predicates written from the property text, exactly as in units/inc/map_more.inc.rs ----

/// star(n) has 0 <-> i for 1 <= i < n
spec fn star_arc(n: int, a: int, b: int) -> bool {
    (a == 0 && 1 <= b < n) || (b == 0 && 1 <= a < n)
}
/// the cycle through 1..n-1: cycle(n-1) on the vertices 1, .., n-1
spec fn rim_arc(n: int, a: int, b: int) -> bool {
    1 <= a < n && 1 <= b < n && cycle_arc(n - 1, a - 1, b - 1)
}
/// wheel(n >= 4) is the union of star(n) and the cycle through 1..n-1
spec fn wheel_arc(n: int, a: int, b: int) -> bool {
    star_arc(n, a, b) || rim_arc(n, a, b)
}

/// predecessor / successor of a on the rim 1..n-1, without `%`
spec fn rim_prev(n: int, a: int) -> int { if a == 1 { n - 1 } else { a - 1 } }
spec fn rim_next(n: int, a: int) -> int { if a == n - 1 { 1 } else { a + 1 } }

/// `%`-free form of wheel_arc, by tail a: the hub's row is 1..n-1, a rim vertex has the hub and its two rim neighbours
spec fn wheel_lin(n: int, a: int, b: int) -> bool {
    (a == 0 && 1 <= b < n) || (1 <= a < n && (b == 0 || b == rim_prev(n, a) || b == rim_next(n, a)))
}
spec fn wheel_lin_ok(n: int) -> bool {
    forall|a: int, b: int| #[trigger] wheel_arc(n, a, b) == wheel_lin(n, a, b)
}
proof fn lemma_wheel_lin(n: int)
    requires n >= 4,
    ensures wheel_lin_ok(n),
{
    lemma_cyc_lin(n - 1);
    assert forall|a: int, b: int| #[trigger] wheel_arc(n, a, b) == wheel_lin(n, a, b) by {
        assert(cycle_arc(n - 1, a - 1, b - 1) == cyc_lin(n - 1, a - 1, b - 1));
    }
}

/// sanity of the predicates on small instances (guards against a mis-stated predicate)
proof fn lemma_gen3_predicate_examples()
    ensures
        wheel_arc(4, 0, 3) && wheel_arc(4, 1, 2) && wheel_arc(4, 2, 3) && wheel_arc(4, 3, 1) && wheel_arc(4, 1, 3) && wheel_arc(4, 2, 0) && !wheel_arc(4, 1, 1) && !wheel_arc(4, 0, 0),
        wheel_arc(5, 1, 4) && wheel_arc(5, 4, 1) && !wheel_arc(5, 1, 3) && !wheel_arc(5, 2, 4) && !wheel_arc(5, 0, 5),
        cycle_arc(3, 0, 2) && cycle_arc(3, 2, 0) && cycle_arc(2, 0, 1) && cycle_arc(2, 1, 0) && !cycle_arc(4, 0, 2) && !cycle_arc(1, 0, 0),
{
    lemma_wheel_lin(4);
    lemma_wheel_lin(5);
    lemma_cyc_lin(1); lemma_cyc_lin(2); lemma_cyc_lin(3); lemma_cyc_lin(4);
    assert(wheel_arc(4, 0, 3) == wheel_lin(4, 0, 3)); assert(wheel_arc(4, 1, 2) == wheel_lin(4, 1, 2));
    assert(wheel_arc(4, 2, 3) == wheel_lin(4, 2, 3)); assert(wheel_arc(4, 3, 1) == wheel_lin(4, 3, 1));
    assert(wheel_arc(4, 1, 3) == wheel_lin(4, 1, 3)); assert(wheel_arc(4, 2, 0) == wheel_lin(4, 2, 0));
    assert(wheel_arc(4, 1, 1) == wheel_lin(4, 1, 1)); assert(wheel_arc(4, 0, 0) == wheel_lin(4, 0, 0));
    assert(wheel_arc(5, 1, 4) == wheel_lin(5, 1, 4)); assert(wheel_arc(5, 4, 1) == wheel_lin(5, 4, 1));
    assert(wheel_arc(5, 1, 3) == wheel_lin(5, 1, 3)); assert(wheel_arc(5, 2, 4) == wheel_lin(5, 2, 4));
    assert(wheel_arc(5, 0, 5) == wheel_lin(5, 0, 5));
    assert(cycle_arc(3, 0, 2) == cyc_lin(3, 0, 2)); assert(cycle_arc(3, 2, 0) == cyc_lin(3, 2, 0));
    assert(cycle_arc(2, 0, 1) == cyc_lin(2, 0, 1)); assert(cycle_arc(2, 1, 0) == cyc_lin(2, 1, 0));
    assert(cycle_arc(4, 0, 2) == cyc_lin(4, 0, 2)); assert(cycle_arc(1, 0, 0) == cyc_lin(1, 0, 0));
}

impl EdgeList {
    // OBSERVATION (reported): `u + order - 1` is evaluated in usize; for order > usize::MAX / 2 + 1 it overflows (u = order - 1
    // at the latest; for order == usize::MAX already at u == 1).  The precondition below is the WEAKEST one under which no
    // iteration overflows (u + order <= usize::MAX for every u < order  <=>  2 * order - 1 <= usize::MAX).
    /*@fn impl=EdgeList trait=Cycle name=cycle loopify=BTreeSet noisolation wrap=fn:once,chain props=C14,C13
    requires
        order <= usize::MAX / 2 + 1,
    ensures
        order >= 1,
        r.wf(),
        r.ord() == order,
        forall|a: int, b: int| #![trigger r.has(a, b)] r.has(a, b) == cycle_arc(order as int, a, b),
    @closure 2 |v: usize| -> (p: (usize, usize))
    ensures
        p == (u, v),
    @fn_start
        broadcast use vstd::std_specs::iter::group_iter_axioms;
        proof { lemma_cyc_lin(order as int); }
    @loop 1
    invariant
        2 <= order <= usize::MAX / 2 + 1,
        cyc_lin_ok(order as int),
        forall|p: (usize, usize)| #[trigger] vx_acc@.contains(p) == (p.0 < u && cyc_lin(order as int, p.0 as int, p.1 as int)),
    @loop_start 1
        proof { lemma_cyc_mod(order as int, u as int); }
    @loop 2
    invariant
        2 <= order <= usize::MAX / 2 + 1,
        u < order,
        it2.iter.obeys_prophetic_iter_laws(),
        it2.iter.decrease() is Some,
        it2.seq().len() <= 2,
        it2.iter.will_return_none() ==> it2.seq().len() == 2,
        it2.seq().len() >= 1 ==> it2.seq()[0] == (u, cyc_prev(order as int, u as int) as usize),
        it2.seq().len() >= 2 ==> it2.seq()[1] == (u, cyc_next(order as int, u as int) as usize),
        forall|p: (usize, usize)| #[trigger] vx_acc@.contains(p) == ((p.0 < u && cyc_lin(order as int, p.0 as int, p.1 as int))
            || (p.0 == u && ((it2.index() >= 1 && p.1 == cyc_prev(order as int, u as int)) || (it2.index() >= 2 && p.1 == cyc_next(order as int, u as int))))),
    @*/

    /*@fn impl=EdgeList trait=Wheel name=wheel noisolation loopify=BTreeSet noisolation wrap=fn:once,chain props=C14,C13
    ensures
        order >= 4,
        r.wf(),
        r.ord() == order,
        forall|a: int, b: int| #![trigger r.has(a, b)] r.has(a, b) == wheel_arc(order as int, a, b),
    @closure 1 |v: usize| -> (p: (usize, usize))
    ensures
        p == (0usize, v),
    @closure 3 |v: usize| -> (p: (usize, usize))
    ensures
        p == (u, v),
    @fn_start
        broadcast use vstd::std_specs::iter::group_iter_axioms;
        proof { if order >= 4 { lemma_wheel_lin(order as int); } }
    @loop 1
    invariant
        order >= 4,
        it1.iter.obeys_prophetic_iter_laws(),
        it1.iter.decrease() is Some,
        it1.seq().len() <= order - 1,
        it1.iter.will_return_none() ==> it1.seq().len() == order - 1,
        forall|j: int| 0 <= j < it1.seq().len() ==> #[trigger] it1.seq()[j] == (0usize, (1 + j) as usize),
        forall|p: (usize, usize)| #[trigger] vx_acc@.contains(p) == (p.0 == 0 && 1 <= p.1 < 1 + it1.index()),
    @loop 2
    invariant
        order >= 4,
        wheel_lin_ok(order as int),
        forall|p: (usize, usize)| #[trigger] vx_acc@.contains(p) == (p.0 < u && wheel_lin(order as int, p.0 as int, p.1 as int)),
    @loop 3
    invariant
        order >= 4,
        1 <= u < order,
        last == order - 1,
        it3.iter.obeys_prophetic_iter_laws(),
        it3.iter.decrease() is Some,
        it3.seq().len() <= 3,
        it3.iter.will_return_none() ==> it3.seq().len() == 3,
        it3.seq().len() >= 1 ==> it3.seq()[0] == (u, 0usize),
        it3.seq().len() >= 2 ==> it3.seq()[1] == (u, rim_prev(order as int, u as int) as usize),
        it3.seq().len() >= 3 ==> it3.seq()[2] == (u, rim_next(order as int, u as int) as usize),
        forall|p: (usize, usize)| #[trigger] vx_acc@.contains(p) == ((p.0 < u && wheel_lin(order as int, p.0 as int, p.1 as int))
            || (p.0 == u && ((it3.index() >= 1 && p.1 == 0) || (it3.index() >= 2 && p.1 == rim_prev(order as int, u as int))
                || (it3.index() >= 3 && p.1 == rim_next(order as int, u as int))))),
    @*/
}
