//@file src/repr/edge_list/mod.rs
// ---- EdgeList::cycle / EdgeList::wheel: `flat_map(|u| once(..).chain(once(..)).map(..))` chains (rule E14 loopify + E12 wrap) ----
// `circuit_arc`, `cycle_arc`, `circuit_lin`, `lemma_circuit_lin` come from the imported units/inc/edge_list_ops.inc.rs (the
// definitions are identical to units/inc/map_more.inc.rs / matrix_gen.inc.rs).

/// predecessor / successor of a on the n-cycle 0..n-1, without `%`
spec fn cyc_prev(n: int, a: int) -> int { if a == 0 { n - 1 } else { a - 1 } }
spec fn cyc_next(n: int, a: int) -> int { if a == n - 1 { 0 } else { a + 1 } }

/// `%`-free form of cycle_arc: b is the predecessor or the successor of a
spec fn cyc_lin(n: int, a: int, b: int) -> bool {
    n > 1 && 0 <= a < n && (b == cyc_prev(n, a) || b == cyc_next(n, a))
}

spec fn cyc_lin_ok(n: int) -> bool {
    forall|a: int, b: int| #[trigger] cycle_arc(n, a, b) == cyc_lin(n, a, b)
}

proof fn lemma_cyc_lin(n: int)
    ensures cyc_lin_ok(n),
{
    lemma_circuit_lin(n);
    assert forall|a: int, b: int| #[trigger] cycle_arc(n, a, b) == cyc_lin(n, a, b) by {
        assert(circuit_arc(n, a, b) == circuit_lin(n, a, b));
        assert(circuit_arc(n, b, a) == circuit_lin(n, b, a));
    }
}

/// the two `%` expressions of `cycle` are the predecessor and the successor
proof fn lemma_cyc_mod(n: int, u: int)
    requires n > 1, 0 <= u < n,
    ensures (u + n - 1) % n == cyc_prev(n, u), (u + 1) % n == cyc_next(n, u),
{
    if u == 0 {
        vstd::arithmetic::div_mod::lemma_small_mod((n - 1) as nat, n as nat);
    } else {
        vstd::arithmetic::div_mod::lemma_mod_add_multiples_vanish(u - 1, n);
        vstd::arithmetic::div_mod::lemma_small_mod((u - 1) as nat, n as nat);
    }
    if u == n - 1 {
        vstd::arithmetic::div_mod::lemma_mod_self_0(n);
    } else {
        vstd::arithmetic::div_mod::lemma_small_mod((u + 1) as nat, n as nat);
    }
}

impl EdgeList {
    // OBSERVATION (reported): `u + order - 1` is evaluated in usize; for order > usize::MAX / 2 + 1 it overflows (u = order - 1
    // at the latest; for order == usize::MAX already at u == 1).  The precondition below is the WEAKEST one under which no
    // iteration overflows (u + order <= usize::MAX for every u < order  <=>  2 * order - 1 <= usize::MAX).
    /*@fn impl=EdgeList trait=Cycle name=cycle loopify=BTreeSet wrap=fn:once,chain props=C14,C13
    requires
        true,
    ensures
        order >= 1,
        r.wf(),
        r.ord() == order,
        forall|a: int, b: int| #![trigger r.has(a, b)] r.has(a, b) == cycle_arc(order as int, a, b),
    @closure 2 |v: usize| -> (p: (usize, usize))
    ensures
        p == (u, v),
    @fn_start
        broadcast use vstd::std_specs::iter::group_iter_axioms;
        proof { lemma_cyc_lin(order as int); }
    @loop 1
    invariant
        2 <= order,
        cyc_lin_ok(order as int),
        forall|p: (usize, usize)| #[trigger] vx_acc@.contains(p) == (p.0 < u && cyc_lin(order as int, p.0 as int, p.1 as int)),
    @loop_start 1
        proof { lemma_cyc_mod(order as int, u as int); }
    @loop 2
    invariant
        2 <= order,
        u < order,
        it2.iter.obeys_prophetic_iter_laws(),
        it2.iter.decrease() is Some,
        it2.seq().len() <= 2,
        it2.iter.will_return_none() ==> it2.seq().len() == 2,
        it2.seq().len() >= 1 ==> it2.seq()[0] == (u, cyc_prev(order as int, u as int) as usize),
        it2.seq().len() >= 2 ==> it2.seq()[1] == (u, cyc_next(order as int, u as int) as usize),
        forall|p: (usize, usize)| #[trigger] vx_acc@.contains(p) == ((p.0 < u && cyc_lin(order as int, p.0 as int, p.1 as int))
            || (p.0 == u && ((it2.index() >= 1 && p.1 == cyc_prev(order as int, u as int)) || (it2.index() >= 2 && p.1 == cyc_next(order as int, u as int))))),
    @*/
}
