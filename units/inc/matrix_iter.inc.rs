//@file src/repr/adjacency_matrix/mod.rs
// ---- C01: ArcsIterator walks the set cells of the matrix in ascending cell order, each exactly once ----

/*@struct name=ArcsIterator @*/

impl<'a> ArcsIterator<'a> {
    /// abstract state: cell index i has not been produced yet and will be.
    /// (cells of the blocks not loaded yet, plus the bits still held in `current_bits`)
    spec fn pending(&self, i: int) -> bool {
        ||| self.block_index * 64 <= i && self.matrix.cell(i)
        ||| self.current_base <= i < self.current_base + 64 && bit_of(self.current_bits, (i - self.current_base) as usize)
    }

    /// representation invariant of the iterator
    spec fn inv(&self) -> bool {
        &&& self.matrix.wf()
        &&& self.block_index <= self.matrix.blocks@.len()
        &&& self.current_bits != 0 ==> {
            &&& self.block_index > 0
            &&& self.current_base == (self.block_index - 1) * 64
            &&& forall|k: usize| k < 64 && #[trigger] bit_of(self.current_bits, k) ==> bit_of(self.matrix.blocks@[self.block_index - 1], k)
        }
    }

    /*@fn impl=ArcsIterator name=new
    requires
        matrix.wf(),
    ensures
        r.inv(),
        r.matrix == matrix,
        forall|i: int| #[trigger] r.pending(i) == matrix.cell(i),
    @fn_start
        proof { lemma_zero_bits(); }
    @*/

    /*@fn impl=ArcsIterator trait=Iterator name=next subst=Self::Item=>(usize,usize)
    requires
        old(self).inv(),
    ensures
        arcs_step(*old(self), *final(self), r),
    @loop 1
    invariant
        self.inv(),
        self.matrix == old(self).matrix,
        forall|j: int| #[trigger] self.pending(j) == old(self).pending(j),
    decreases
        self.matrix.blocks@.len() - self.block_index, self.current_bits,
    @loop_start 1
        let ghost s0 = *self;
    @after `self.block_index +=`
        proof {
            // loading block b: its 64 cells move from "not loaded yet" to "held in current_bits"
            lemma_zero_bits();
            let b = s0.block_index as int;
            assert forall|j: int| #[trigger] self.pending(j) == s0.pending(j) by {
                if s0.current_base <= j < s0.current_base + 64 { assert(!bit_of(0usize, (j - s0.current_base) as usize)); }
                if b * 64 <= j < b * 64 + 64 { assert(j / 64 == b && j % 64 == j - b * 64); }
            }
        }
    @before `if self.current_bits != 0`
        let ghost s1 = *self;
        assert(s1.inv());
        assert(forall|j: int| #[trigger] s1.pending(j) == s0.pending(j));
    @after `let cell_index =`
        proof {
            // popping the lowest set bit t: exactly cell base + t leaves the pending set, and it is its least element
            lemma_pop_lowest(s1.current_bits, bit);
            let c = cell_index as int;
            assert(s1.pending(c));
            assert(self.matrix.cell(c)) by {
                assert(bit_of(s1.current_bits, bit));
                assert(c / 64 == self.block_index - 1 && c % 64 == bit);
            }
            assert(c < self.matrix.ncells());
            assert forall|j: int| s1.pending(j) implies c <= j by {
                if s1.current_base <= j < s1.current_base + 64 && bit_of(s1.current_bits, (j - s1.current_base) as usize) {
                    assert((j - s1.current_base) as usize >= bit);
                }
            }
            assert forall|j: int| #[trigger] self.pending(j) == (s1.pending(j) && j != c) by {
                if s1.current_base <= j < s1.current_base + 64 {
                    let k = (j - s1.current_base) as usize;
                    assert(bit_of(self.current_bits, k) == (bit_of(s1.current_bits, k) && k != bit));
                }
            }
            assert(self.inv());
        }
    @before `return Some((u, v));`
        proof {
            let n = self.matrix.order as int;
            let c = cell_index as int;
            assert(u * n + v == c && u < n && v < n) by {
                vstd::arithmetic::div_mod::lemma_fundamental_div_mod(c, n);
                assert(n * (c / n) == (c / n) * n) by (nonlinear_arith);
                assert(u < n) by (nonlinear_arith) requires u * n + v == c, c < n * n, v >= 0, n > 0;
            }
            assert(old(self).matrix.has(u as int, v as int));
            assert(old(self).pending(c));
            assert forall|j: int| old(self).pending(j) implies c <= j by { assert(s1.pending(j)); }
            assert forall|j: int| #[trigger] self.pending(j) == (old(self).pending(j) && j != c) by { assert(s1.pending(j) == old(self).pending(j)); }
        }
    @fn_end
        proof {
            lemma_zero_bits();
            assert forall|j: int| !self.pending(j) by {
                if self.current_base <= j < self.current_base + 64 { assert(!bit_of(0usize, (j - self.current_base) as usize)); }
            }
            assert forall|j: int| !old(self).pending(j) by { assert(self.pending(j) == old(self).pending(j)); }
        }
    @*/
}

proof fn lemma_zero_bits()
    ensures forall|k: usize| k < 64 ==> !#[trigger] bit_of(0usize, k),
{
    assert(forall|k: usize| k < 64 ==> !#[trigger] bit_of(0usize, k)) by (bit_vector);
}

/// `b & (b - 1)` clears exactly the lowest set bit t of b (t as characterised by `trailing_zeros`), and gets smaller
proof fn lemma_pop_lowest(b: usize, t: usize)
    requires t < 64, b & (1usize << t) != 0, b & (((1usize << t) - 1) as usize) == 0,
    ensures
        b != 0,
        b & ((b - 1) as usize) < b,
        forall|k: usize| k < 64 ==> #[trigger] bit_of(b & ((b - 1) as usize), k) == (bit_of(b, k) && k != t),
        forall|k: usize| k < 64 && #[trigger] bit_of(b, k) ==> k >= t,
{
    assert(b != 0 && b & ((b - 1) as usize) < b) by (bit_vector)
        requires t < 64, b & (1usize << t) != 0;
    assert(forall|k: usize| k < 64 ==> #[trigger] bit_of(b & ((b - 1) as usize), k) == (bit_of(b, k) && k != t)) by (bit_vector)
        requires t < 64, b & (1usize << t) != 0, b & (((1usize << t) - 1) as usize) == 0;
    assert(forall|k: usize| k < 64 && #[trigger] bit_of(b, k) ==> k >= t) by (bit_vector)
        requires t < 64, b & (1usize << t) != 0, b & (((1usize << t) - 1) as usize) == 0;
}

/// contract of one `next()` call from state s to state t with result r:
/// `Some((u, v))`: u*order+v is the LEAST pending cell, it is an arc, and exactly it leaves the pending set;
/// `None`: nothing was pending (and nothing is: the iterator is fused).
spec fn arcs_step(s: ArcsIterator, t: ArcsIterator, r: Option<(usize, usize)>) -> bool {
    &&& t.inv()
    &&& t.matrix == s.matrix
    &&& r matches Some(p) ==> {
        let c = p.0 * s.matrix.order + p.1;
        &&& p.0 < s.matrix.order && p.1 < s.matrix.order
        &&& s.matrix.has(p.0 as int, p.1 as int)
        &&& s.pending(c)
        &&& forall|j: int| s.pending(j) ==> c <= j
        &&& forall|j: int| #[trigger] t.pending(j) == (s.pending(j) && j != c)
    }
    &&& r is None ==> forall|j: int| !s.pending(j) && !t.pending(j)
}

// ---- C01 as a theorem about any complete run new(); next()*; next() == None ----

spec fn lex_lt(p: (usize, usize), q: (usize, usize)) -> bool {
    p.0 < q.0 || (p.0 == q.0 && p.1 < q.1)
}

/// for pairs inside an n x n matrix the row-major cell order is the lexicographic order
proof fn lemma_lex_cell(n: int, p: (usize, usize), q: (usize, usize))
    requires p.0 < n, p.1 < n, q.0 < n, q.1 < n,
    ensures lex_lt(p, q) == (p.0 * n + p.1 < q.0 * n + q.1),
{
    assert(lex_lt(p, q) == (p.0 * n + p.1 < q.0 * n + q.1)) by (nonlinear_arith)
        requires 0 <= p.0 < n, 0 <= p.1 < n, 0 <= q.0 < n, 0 <= q.1 < n,
            lex_lt(p, q) == (p.0 < q.0 || (p.0 == q.0 && p.1 < q.1));
}

/// a complete run over m: states[0] is `ArcsIterator::new(&m)`, call i (< outs.len()) returns Some(outs[i]),
/// the last call returns None
spec fn arcs_run(m: AdjacencyMatrix, states: Seq<ArcsIterator>, outs: Seq<(usize, usize)>) -> bool {
    &&& states.len() == outs.len() + 2
    &&& states[0].inv()
    &&& *states[0].matrix == m
    &&& forall|j: int| #[trigger] states[0].pending(j) == m.cell(j)
    &&& forall|i: int| 0 <= i < outs.len() ==> #[trigger] arcs_step(states[i], states[i + 1], Some(outs[i]))
    &&& arcs_step(states[outs.len() as int], states[outs.len() as int + 1], None)
}

/// C01: the outputs are arcs, strictly ascending in lexicographic order (hence no repeats), and every arc occurs
spec fn lists_arcs_ascending(m: AdjacencyMatrix, outs: Seq<(usize, usize)>) -> bool {
    &&& forall|i: int| 0 <= i < outs.len() ==> m.has((#[trigger] outs[i]).0 as int, outs[i].1 as int)
    &&& forall|i: int, j: int| 0 <= i < j < outs.len() ==> lex_lt(#[trigger] outs[i], #[trigger] outs[j])
    &&& forall|u: int, v: int| #[trigger] m.has(u, v) ==> exists|i: int| 0 <= i < outs.len() && #[trigger] outs[i] == (u as usize, v as usize)
}

spec fn out_cell(m: AdjacencyMatrix, p: (usize, usize)) -> int { p.0 * m.order + p.1 }

proof fn lemma_run_prefix(m: AdjacencyMatrix, states: Seq<ArcsIterator>, outs: Seq<(usize, usize)>, i: int)
    requires arcs_run(m, states, outs), 0 <= i <= outs.len(),
    ensures
        states[i].inv(),
        *states[i].matrix == m,
        forall|k: int| 0 <= k < i ==> (#[trigger] outs[k]).0 < m.order && outs[k].1 < m.order && m.has(outs[k].0 as int, outs[k].1 as int),
        // every set cell is still pending or has been produced
        forall|j: int| #[trigger] m.cell(j) ==> states[i].pending(j) || exists|k: int| 0 <= k < i && out_cell(m, #[trigger] outs[k]) == j,
        // everything produced lies strictly below everything pending
        forall|k: int, j: int| 0 <= k < i && #[trigger] states[i].pending(j) ==> out_cell(m, #[trigger] outs[k]) < j,
        // produced cells are strictly ascending
        forall|k: int, l: int| 0 <= k < l < i ==> out_cell(m, #[trigger] outs[k]) < out_cell(m, #[trigger] outs[l]),
    decreases i
{
    if i > 0 {
        lemma_run_prefix(m, states, outs, i - 1);
        let i1 = i - 1;
        let s = states[i1];
        let t = states[i1 + 1];
        let c = out_cell(m, outs[i1]);
        assert(arcs_step(states[i1], states[i1 + 1], Some(outs[i1])));
        assert(s.pending(c));
        assert forall|j: int| #[trigger] m.cell(j) implies t.pending(j) || exists|k: int| 0 <= k < i && out_cell(m, #[trigger] outs[k]) == j by {
            if s.pending(j) {
                assert(t.pending(j) == (s.pending(j) && j != c));
                if j == c { assert(out_cell(m, outs[i - 1]) == j); }
            } else {
                let k = choose|k: int| 0 <= k < i - 1 && out_cell(m, #[trigger] outs[k]) == j;
                assert(out_cell(m, outs[k]) == j);
            }
        }
        assert forall|k: int, j: int| 0 <= k < i && #[trigger] t.pending(j) implies out_cell(m, #[trigger] outs[k]) < j by {
            assert(t.pending(j) == (s.pending(j) && j != c));
        }
        assert forall|k: int, l: int| 0 <= k < l < i implies out_cell(m, #[trigger] outs[k]) < out_cell(m, #[trigger] outs[l]) by {
            if l == i - 1 { assert(s.pending(c)); }
        }
    }
}

impl AdjacencyMatrix {
    // `Arcs::arcs` itself: the iterator it returns is the initial state of a run (every cell of the matrix still pending),
    // so lemma_arcs_c01 below applies to the runs started by `arcs()`.
    /*@fn impl=AdjacencyMatrix trait=Arcs name=arcs rettype="ArcsIterator<'_>"
    requires
        self.wf(),
    ensures
        r.inv(),
        r.matrix == self,
        forall|i: int| #[trigger] r.pending(i) == self.cell(i),
    @*/
}

/// C01 for AdjacencyMatrix::arcs(): any complete run lists every arc exactly once in ascending lexicographic order
proof fn lemma_arcs_c01(m: AdjacencyMatrix, states: Seq<ArcsIterator>, outs: Seq<(usize, usize)>)
    requires m.wf(), arcs_run(m, states, outs),
    ensures lists_arcs_ascending(m, outs),
{
    let n = outs.len() as int;
    lemma_run_prefix(m, states, outs, n);
    assert(arcs_step(states[n], states[n + 1], None));
    assert forall|i: int, j: int| 0 <= i < j < outs.len() implies lex_lt(#[trigger] outs[i], #[trigger] outs[j]) by {
        lemma_lex_cell(m.order as int, outs[i], outs[j]);
    }
    assert forall|u: int, v: int| #[trigger] m.has(u, v) implies exists|i: int| 0 <= i < outs.len() && #[trigger] outs[i] == (u as usize, v as usize) by {
        let j = u * m.order + v;
        assert(m.cell(j));
        assert(!states[n].pending(j));
        let k = choose|k: int| 0 <= k < n && out_cell(m, #[trigger] outs[k]) == j;
        lemma_index_inj(outs[k].0 as int, outs[k].1 as int, u, v, m.order as int);
        assert(outs[k] == (u as usize, v as usize));
    }
}
