//@file src/repr/adjacency_map/mod.rs
// ---- Closing trait-contract assumptions, part 5: the opaque digraphs with an ARBITRARY finite vertex set ----
// `Dga` (prelude/dg_any.rs: Tarjan's operand, C09) and `Dgj` (prelude/dg_johnson.rs: Johnson75's operand and the
// sub-digraphs it builds with `filter_vertices`, C10).  The only representation that implements `FilterVertices` is
// AdjacencyMap, and its vertex set is its key set: these two opaque types are the model in which a NON-contiguous
// AdjacencyMap fits (it does not fit V = 0..ord of Dg / Dgo: unit rep_trait_contracts, `lemma_map_noncontiguous_gap`).
//
// Same layout as units/inc/rep_trait_contracts.inc.rs:
//   1. `tcj_*`: every trait-contract clause of Dga / Dgj stated once over the abstract digraph (verts, has) it talks
//      about (out_neighbors re-uses `tc_iter` / `tc_nb_sound` / `tc_nb_cover` of rep_trait_contracts_tc.inc.rs).
//   2. `text_*` lemmas: the `tcj_*` predicates at (d.verts(), d.has) ARE the ensures / requires texts of the opaque
//      type's methods (copied verbatim from the prelude, `self` := d).  `pin_*`: exec functions whose body is the call
//      of the opaque type's method: the contract ACTUALLY carried by the prelude implies the `tcj_*` clauses (so a
//      prelude text that drifts away from the copy - other than by pure strengthening - fails here).
//   3. module map_fv_side: `lemma_map_meets_*`: the postcondition proved for the method of AdjacencyMap (units map_core,
//      map_ctor; restated verbatim in `requires`) implies the `tcj_*` clauses at (g.verts(), g.has); `call_map_*`: exec
//      functions whose body is the call of the real (extracted, re-verified) method, with the trait contract's
//      precondition as `requires` and the `tcj_*` clauses as `ensures`: the same implication, tied mechanically to the
//      contract the extracted function carries in this crate.
//   4. module matrix_arcs_side: `AdjacencyMatrix::arcs()` (under contract in matrix_iter since the other units were
//      written) starts a run to which the whole-run theorem applies.

// ---- 1. the trait contracts of Dga / Dgj over (verts, has) ----

/// `wf` of Dga / Dgj: V is a finite set of usize ids whose size fits a usize, arcs join distinct vertices of V
spec fn tcj_wf(verts: Set<int>, has: spec_fn(int, int) -> bool) -> bool {
    &&& verts.len() <= usize::MAX
    &&& forall|x: int| #[trigger] verts.contains(x) ==> 0 <= x <= usize::MAX
    &&& forall|u: int, v: int| #[trigger] has(u, v) ==> verts.contains(u) && verts.contains(v) && u != v
}

/// `contiguous` of Dgj: V == 0..order
spec fn tcj_contiguous(verts: Set<int>) -> bool {
    forall|x: int| #[trigger] verts.contains(x) <==> 0 <= x < verts.len() as int
}

/// order (Dgj): the number of vertices
spec fn tcj_order(verts: Set<int>, r: usize) -> bool { r == verts.len() }

/// vertices (Dga, Dgj): exactly the members of V, each once, in ascending order
spec fn tcj_vertices(verts: Set<int>, rem: Seq<usize>) -> bool {
    &&& forall|i: int, j: int| 0 <= i < j < rem.len() ==> #[trigger] rem[i] < #[trigger] rem[j]
    &&& forall|i: int| 0 <= i < rem.len() ==> verts.contains(#[trigger] rem[i] as int)
    &&& forall|v: usize| #![trigger verts.contains(v as int)] verts.contains(v as int) ==> rem.contains(v)
}

/// the precondition of out_neighbors (Dga, Dgj): u is a vertex
spec fn tcj_nb_pre(verts: Set<int>, u: usize) -> bool { verts.contains(u as int) }

/// filter_vertices (Dgj): the five ensures clauses; (verts0, has0) the receiver, (verts1, has1) the result
spec fn tcj_fv<P: Fn(usize) -> bool>(verts0: Set<int>, has0: spec_fn(int, int) -> bool, p: P, verts1: Set<int>, has1: spec_fn(int, int) -> bool) -> bool {
    &&& forall|x: int| #[trigger] verts1.contains(x) ==> verts0.contains(x) && fv_yes(p, x)
    &&& forall|x: int| #[trigger] verts0.contains(x) && !verts1.contains(x) ==> fv_no(p, x)
    &&& forall|u: int, v: int| #[trigger] has1(u, v) ==> has0(u, v) && fv_yes(p, u) && fv_yes(p, v)
    &&& forall|u: int, v: int| #[trigger] has0(u, v) && !has1(u, v) ==> fv_no(p, u) || fv_no(p, v)
    &&& verts1.len() >= 1
}

/// the precondition of filter_vertices (Dgj): a valid digraph with at least one vertex (`Dgj::wf` alone does not say
/// |V| >= 1), a predicate callable everywhere and a function of its argument
spec fn tcj_fv_pre<P: Fn(usize) -> bool>(verts0: Set<int>, has0: spec_fn(int, int) -> bool, p: P) -> bool {
    &&& tcj_wf(verts0, has0)
    &&& verts0.len() >= 1
    &&& fv_callable(p)
    &&& fv_det(p)
}

// ---- 2. the tcj_* predicates are the texts of the opaque types ----

spec fn dga_has(d: Dga) -> spec_fn(int, int) -> bool { |a: int, b: int| d.has(a, b) }
spec fn dgj_has(d: Dgj) -> spec_fn(int, int) -> bool { |a: int, b: int| d.has(a, b) }

/// prelude/dg_any.rs: wf, the precondition of out_neighbors
proof fn text_dga_scalars(d: Dga, u: usize)
    ensures
        tcj_wf(d.verts(), dga_has(d)) == d.wf(),
        tcj_nb_pre(d.verts(), u) == d.verts().contains(u as int),
{
    if d.wf() {
        assert forall|x: int, y: int| #[trigger] dga_has(d)(x, y) implies d.verts().contains(x) && d.verts().contains(y) && x != y by { assert(d.has(x, y)); }
    }
    if tcj_wf(d.verts(), dga_has(d)) {
        assert forall|x: int, y: int| #[trigger] d.has(x, y) implies d.verts().contains(x) && d.verts().contains(y) && x != y by { assert(dga_has(d)(x, y)); }
    }
}

/// prelude/dg_any.rs: out_neighbors
proof fn text_dga_out_neighbors<I: Iterator<Item = usize>>(d: Dga, u: usize, r: I)
    ensures
        (tc_iter(r) && tc_nb_sound(dga_has(d), u, r.remaining()) && tc_nb_cover(dga_has(d), u, r.remaining())) == ({
            &&& r.obeys_prophetic_iter_laws()
            &&& r.decrease() is Some
            &&& r.remaining().no_duplicates()
            &&& forall|v: usize| d.has(u as int, v as int) ==> r.remaining().contains(v)
            &&& forall|i: int| 0 <= i < r.remaining().len() ==> d.has(u as int, #[trigger] r.remaining()[i] as int)
        }),
{
    let rem = r.remaining();
    assert(tc_nb_cover(dga_has(d), u, rem) == (forall|v: usize| d.has(u as int, v as int) ==> rem.contains(v))) by {
        if tc_nb_cover(dga_has(d), u, rem) {
            assert forall|v: usize| d.has(u as int, v as int) implies rem.contains(v) by { assert(dga_has(d)(u as int, v as int)); }
        }
    }
    assert((forall|i: int| 0 <= i < rem.len() ==> dga_has(d)(u as int, #[trigger] rem[i] as int))
        == (forall|i: int| 0 <= i < rem.len() ==> d.has(u as int, #[trigger] rem[i] as int)));
}

/// prelude/dg_any.rs: vertices
proof fn text_dga_vertices<I: Iterator<Item = usize>>(d: Dga, r: I)
    ensures
        (tc_iter(r) && tcj_vertices(d.verts(), r.remaining())) == ({
            &&& r.obeys_prophetic_iter_laws()
            &&& r.decrease() is Some
            &&& forall|i: int, j: int| 0 <= i < j < r.remaining().len() ==> #[trigger] r.remaining()[i] < #[trigger] r.remaining()[j]
            &&& forall|i: int| 0 <= i < r.remaining().len() ==> d.verts().contains(#[trigger] r.remaining()[i] as int)
            &&& forall|v: usize| d.verts().contains(v as int) ==> r.remaining().contains(v)
        }),
{
    let rem = r.remaining();
    assert((forall|v: usize| #![trigger d.verts().contains(v as int)] d.verts().contains(v as int) ==> rem.contains(v))
        == (forall|v: usize| d.verts().contains(v as int) ==> rem.contains(v)));
}

/// prelude/dg_johnson.rs: wf, contiguous, order (requires: wf), the precondition of out_neighbors
proof fn text_dgj_scalars(d: Dgj, u: usize, n: usize)
    ensures
        tcj_wf(d.verts(), dgj_has(d)) == d.wf(),
        tcj_contiguous(d.verts()) == d.contiguous(),
        tcj_order(d.verts(), n) == (n == d.verts().len()),
        tcj_nb_pre(d.verts(), u) == d.verts().contains(u as int),
{
    if d.wf() {
        assert forall|x: int, y: int| #[trigger] dgj_has(d)(x, y) implies d.verts().contains(x) && d.verts().contains(y) && x != y by { assert(d.has(x, y)); }
    }
    if tcj_wf(d.verts(), dgj_has(d)) {
        assert forall|x: int, y: int| #[trigger] d.has(x, y) implies d.verts().contains(x) && d.verts().contains(y) && x != y by { assert(dgj_has(d)(x, y)); }
    }
    assert(d.ord() == d.verts().len() as int);
}

/// prelude/dg_johnson.rs: out_neighbors
proof fn text_dgj_out_neighbors<I: Iterator<Item = usize>>(d: Dgj, u: usize, r: I)
    ensures
        (tc_iter(r) && tc_nb_sound(dgj_has(d), u, r.remaining()) && tc_nb_cover(dgj_has(d), u, r.remaining())) == ({
            &&& r.obeys_prophetic_iter_laws()
            &&& r.decrease() is Some
            &&& r.remaining().no_duplicates()
            &&& forall|v: usize| #![trigger d.has(u as int, v as int)] d.has(u as int, v as int) ==> r.remaining().contains(v)
            &&& forall|i: int| 0 <= i < r.remaining().len() ==> d.has(u as int, #[trigger] r.remaining()[i] as int)
        }),
{
    let rem = r.remaining();
    assert(tc_nb_cover(dgj_has(d), u, rem) == (forall|v: usize| #![trigger d.has(u as int, v as int)] d.has(u as int, v as int) ==> rem.contains(v))) by {
        if tc_nb_cover(dgj_has(d), u, rem) {
            assert forall|v: usize| #![trigger d.has(u as int, v as int)] d.has(u as int, v as int) implies rem.contains(v) by { assert(dgj_has(d)(u as int, v as int)); }
        }
        if forall|v: usize| #![trigger d.has(u as int, v as int)] d.has(u as int, v as int) ==> rem.contains(v) {
            assert forall|v: usize| dgj_has(d)(u as int, v as int) implies #[trigger] rem.contains(v) by { assert(d.has(u as int, v as int)); }
        }
    }
    assert((forall|i: int| 0 <= i < rem.len() ==> dgj_has(d)(u as int, #[trigger] rem[i] as int))
        == (forall|i: int| 0 <= i < rem.len() ==> d.has(u as int, #[trigger] rem[i] as int)));
}

/// prelude/dg_johnson.rs: vertices
proof fn text_dgj_vertices<I: Iterator<Item = usize>>(d: Dgj, r: I)
    ensures
        (tc_iter(r) && tcj_vertices(d.verts(), r.remaining())) == ({
            &&& r.obeys_prophetic_iter_laws()
            &&& r.decrease() is Some
            &&& forall|i: int, j: int| 0 <= i < j < r.remaining().len() ==> #[trigger] r.remaining()[i] < #[trigger] r.remaining()[j]
            &&& forall|i: int| 0 <= i < r.remaining().len() ==> d.verts().contains(#[trigger] r.remaining()[i] as int)
            &&& forall|v: usize| #![trigger d.verts().contains(v as int)] d.verts().contains(v as int) ==> r.remaining().contains(v)
        }),
{
}

/// prelude/dg_johnson.rs: filter_vertices, requires and ensures
proof fn text_dgj_filter_vertices<P: Fn(usize) -> bool>(d: Dgj, predicate: P, r: Dgj)
    ensures
        tcj_fv_pre(d.verts(), dgj_has(d), predicate) == ({
            &&& d.wf()
            &&& d.verts().len() >= 1
            &&& fv_callable(predicate)
            &&& fv_det(predicate)
        }),
        tcj_fv(d.verts(), dgj_has(d), predicate, r.verts(), dgj_has(r)) == ({
            &&& forall|x: int| #[trigger] r.verts().contains(x) ==> d.verts().contains(x) && fv_yes(predicate, x)
            &&& forall|x: int| #[trigger] d.verts().contains(x) && !r.verts().contains(x) ==> fv_no(predicate, x)
            &&& forall|u: int, v: int| #[trigger] r.has(u, v) ==> d.has(u, v) && fv_yes(predicate, u) && fv_yes(predicate, v)
            &&& forall|u: int, v: int| #[trigger] d.has(u, v) && !r.has(u, v) ==> fv_no(predicate, u) || fv_no(predicate, v)
            &&& r.verts().len() >= 1
        }),
{
    text_dgj_scalars(d, 0, 0);
    let p = predicate;
    assert((forall|u: int, v: int| #[trigger] dgj_has(r)(u, v) ==> dgj_has(d)(u, v) && fv_yes(p, u) && fv_yes(p, v))
        == (forall|u: int, v: int| #[trigger] r.has(u, v) ==> d.has(u, v) && fv_yes(p, u) && fv_yes(p, v))) by {
        if forall|u: int, v: int| #[trigger] dgj_has(r)(u, v) ==> dgj_has(d)(u, v) && fv_yes(p, u) && fv_yes(p, v) {
            assert forall|u: int, v: int| #[trigger] r.has(u, v) implies d.has(u, v) && fv_yes(p, u) && fv_yes(p, v) by { assert(dgj_has(r)(u, v)); }
        }
        if forall|u: int, v: int| #[trigger] r.has(u, v) ==> d.has(u, v) && fv_yes(p, u) && fv_yes(p, v) {
            assert forall|u: int, v: int| #[trigger] dgj_has(r)(u, v) implies dgj_has(d)(u, v) && fv_yes(p, u) && fv_yes(p, v) by { assert(r.has(u, v)); }
        }
    }
    assert((forall|u: int, v: int| #[trigger] dgj_has(d)(u, v) && !dgj_has(r)(u, v) ==> fv_no(p, u) || fv_no(p, v))
        == (forall|u: int, v: int| #[trigger] d.has(u, v) && !r.has(u, v) ==> fv_no(p, u) || fv_no(p, v))) by {
        if forall|u: int, v: int| #[trigger] dgj_has(d)(u, v) && !dgj_has(r)(u, v) ==> fv_no(p, u) || fv_no(p, v) {
            assert forall|u: int, v: int| #[trigger] d.has(u, v) && !r.has(u, v) implies fv_no(p, u) || fv_no(p, v) by { assert(dgj_has(d)(u, v)); }
        }
        if forall|u: int, v: int| #[trigger] d.has(u, v) && !r.has(u, v) ==> fv_no(p, u) || fv_no(p, v) {
            assert forall|u: int, v: int| #[trigger] dgj_has(d)(u, v) && !dgj_has(r)(u, v) implies fv_no(p, u) || fv_no(p, v) by { assert(d.has(u, v)); }
        }
    }
}

// -- pins: the contract the prelude ACTUALLY gives to the opaque type's method implies the tcj_* clauses (body = the call) --

fn pin_dga_out_neighbors(d: &Dga, u: usize) -> (r: impl Iterator<Item = usize> + use<'_>)
    requires tcj_nb_pre(d.verts(), u),
    ensures tc_iter(r), tc_nb_sound(dga_has(*d), u, r.remaining()), tc_nb_cover(dga_has(*d), u, r.remaining()),
{
    let r = d.out_neighbors(u);
    proof { text_dga_out_neighbors(*d, u, r); }
    r
}

fn pin_dga_vertices(d: &Dga) -> (r: impl Iterator<Item = usize> + use<'_>)
    ensures tc_iter(r), tcj_vertices(d.verts(), r.remaining()),
{
    let r = d.vertices();
    proof { text_dga_vertices(*d, r); }
    r
}

fn pin_dgj_order(d: &Dgj) -> (r: usize)
    requires tcj_wf(d.verts(), dgj_has(*d)),
    ensures tcj_order(d.verts(), r),
{
    proof { text_dgj_scalars(*d, 0, 0); }
    d.order()
}

fn pin_dgj_out_neighbors(d: &Dgj, u: usize) -> (r: impl Iterator<Item = usize> + use<'_>)
    requires tcj_nb_pre(d.verts(), u),
    ensures tc_iter(r), tc_nb_sound(dgj_has(*d), u, r.remaining()), tc_nb_cover(dgj_has(*d), u, r.remaining()),
{
    let r = d.out_neighbors(u);
    proof { text_dgj_out_neighbors(*d, u, r); }
    r
}

fn pin_dgj_vertices(d: &Dgj) -> (r: impl Iterator<Item = usize> + use<'_>)
    ensures tc_iter(r), tcj_vertices(d.verts(), r.remaining()),
{
    let r = d.vertices();
    proof { text_dgj_vertices(*d, r); }
    r
}

fn pin_dgj_filter_vertices<P: Fn(usize) -> bool>(d: &Dgj, predicate: P) -> (r: Dgj)
    requires tcj_fv_pre(d.verts(), dgj_has(*d), predicate),
    ensures tcj_fv(d.verts(), dgj_has(*d), predicate, r.verts(), dgj_has(r)),
{
    proof { text_dgj_scalars(*d, 0, 0); }
    let r = d.filter_vertices(predicate);
    proof { text_dgj_filter_vertices(*d, predicate, r); }
    r
}

// ---- 3. AdjacencyMap (units map_core, map_ctor) against Dga / Dgj ----
// The abstraction is by predicate correspondence: Dgj's uninterpreted `verts()` / `has()` are read as AdjacencyMap's
// `verts()` (the key set, as ints) / `has()`.  NO contiguity hypothesis anywhere except in `lemma_map_meets_contiguous`,
// which says what `Dgj::contiguous()` means for a map.
mod map_fv_side {
use super::*;
//@import units/inc/map_core.inc.rs
//@include prelude/map_ctor_std.rs
//@import units/inc/map_ctor_core.inc.rs
//@import units/inc/map_ctor.inc.rs

/// the arc relation of the map as the `has` of a trait contract (verts := g.verts())
spec fn phas(g: AdjacencyMap) -> spec_fn(int, int) -> bool { |a: int, b: int| g.has(a, b) }

/// the vertex ids are exactly 0..ord (same text as in unit rep_trait_contracts)
spec fn map_contiguous(g: AdjacencyMap) -> bool {
    forall|k: usize| #[trigger] g.arcs@.contains_key(k) == (k < g.ord())
}

/// the representation invariant implies validity of the abstract digraph (Dga::wf / Dgj::wf), for ANY key set.
/// `n == g.ord()`: postcondition of `order()`, the order fits usize
proof fn lemma_map_meets_wf(g: AdjacencyMap, n: usize)
    requires g.wf(), n == g.ord(),
    ensures tcj_wf(g.verts(), phas(g)), g.verts().len() >= 1,
{
    lemma_map_verts_len(g);
    lemma_map_wf_has(g);
    assert forall|x: int| #[trigger] g.verts().contains(x) implies 0 <= x <= usize::MAX by { lemma_map_verts_contains(g, x); }
    assert forall|u: int, v: int| #[trigger] phas(g)(u, v) implies g.verts().contains(u) && g.verts().contains(v) && u != v by {
        assert(g.has(u, v));
    }
}

/// conversely (needed where the trait contract has `self.wf()` as a PRECONDITION, i.e. Dgj::filter_vertices): validity of
/// the abstract digraph plus "at least one vertex" is the representation invariant.  `Dgj::wf` does not say |V| >= 1, which
/// is why Dgj::filter_vertices requires `self.verts().len() >= 1` next to `self.wf()`.
proof fn lemma_map_wf_from_abstract(g: AdjacencyMap)
    requires tcj_wf(g.verts(), phas(g)), g.verts().len() >= 1,
    ensures g.wf(),
{
    lemma_map_wf_has(g);
    assert forall|u: int, v: int| #[trigger] g.has(u, v) implies g.verts().contains(u) && g.verts().contains(v) && u != v by {
        assert(phas(g)(u, v));
    }
}

/// why the clause `self.verts().len() >= 1` of Dgj::filter_vertices' precondition is needed: the abstract validity of
/// Dga / Dgj ALONE does not give the representation invariant (the empty map satisfies `tcj_wf` but not `wf`)
proof fn lemma_map_wf_gap(g: AdjacencyMap)
    requires g.arcs@.len() == 0,
    ensures tcj_wf(g.verts(), phas(g)), !g.wf(),
{
    lemma_map_verts_len(g);
    assert(g.arcs@.dom().len() == 0);
    assert(g.arcs@.dom().finite());
    assert(g.arcs@.dom() =~= Set::<usize>::empty()) by {
        if exists|k: usize| g.arcs@.dom().contains(k) {
            let k = choose|k: usize| g.arcs@.dom().contains(k);
            lemma_set_empty_equivalency_len(g.arcs@.dom());
        }
    }
    assert forall|x: int| !g.verts().contains(x) by { lemma_map_verts_contains(g, x); }
    assert forall|u: int, v: int| !(#[trigger] phas(g)(u, v)) by { assert(!g.arcs@.contains_key(u as usize)); }
}

/// `Dgj::contiguous()` read on a map: the keys are exactly 0..ord
proof fn lemma_map_meets_contiguous(g: AdjacencyMap, n: usize)
    requires n == g.ord(),
    ensures tcj_contiguous(g.verts()) == map_contiguous(g),
{
    lemma_map_verts_len(g);
    if map_contiguous(g) {
        assert forall|x: int| #[trigger] g.verts().contains(x) <==> 0 <= x < g.verts().len() as int by {
            lemma_map_verts_contains(g, x);
            if 0 <= x <= usize::MAX { assert(g.arcs@.contains_key(x as usize) == ((x as usize) < g.ord())); }
        }
    }
    if tcj_contiguous(g.verts()) {
        assert forall|k: usize| #[trigger] g.arcs@.contains_key(k) == (k < g.ord()) by {
            lemma_map_verts_contains(g, k as int);
            assert(g.verts().contains(k as int) <==> 0 <= (k as int) < g.verts().len() as int);
        }
    }
}

/// Order::order (proved in map_core without precondition: `r == self.ord()`, the number of keys)
proof fn lemma_map_meets_order(g: AdjacencyMap, r: usize)
    requires r == g.ord(),
    ensures tcj_order(g.verts(), r),
{
    lemma_map_verts_len(g);
}

/// OutNeighbors::out_neighbors (proved in map_ctor - same contract as in map_more - WITHOUT precondition:
/// `self.verts().contains(u as int)` - u outside V panics -, protocol, every item an out-neighbour, every out-neighbour an
/// item, strictly ascending, no repeats).  All clauses of Dga / Dgj follow, for ANY map.
proof fn lemma_map_meets_out_neighbors<I: Iterator<Item = usize>>(g: AdjacencyMap, u: usize, r: I)
    requires
        g.verts().contains(u as int),
        r.obeys_prophetic_iter_laws(),
        r.decrease() is Some,
        forall|i: int| 0 <= i < r.remaining().len() ==> g.has(u as int, #[trigger] r.remaining()[i] as int),
        forall|v: int| #[trigger] g.has(u as int, v) ==> r.remaining().contains(v as usize),
        forall|i: int, j: int| 0 <= i < j < r.remaining().len() ==> r.remaining()[i] < r.remaining()[j],
        r.remaining().no_duplicates(),
    ensures
        tcj_nb_pre(g.verts(), u),
        tc_iter(r),
        tc_nb_sound(phas(g), u, r.remaining()),
        tc_nb_cover(phas(g), u, r.remaining()),
{
    let rem = r.remaining();
    assert forall|i: int| 0 <= i < rem.len() implies phas(g)(u as int, #[trigger] rem[i] as int) by {
        assert(g.has(u as int, rem[i] as int));
    }
    assert forall|v: usize| phas(g)(u as int, v as int) implies #[trigger] rem.contains(v) by {
        assert(g.has(u as int, v as int));
        assert(rem.contains((v as int) as usize));
    }
}

/// Vertices::vertices (proved in map_ctor - same contract as in map_more - without precondition: protocol,
/// `mc_is_key_seq(self.arcs@.dom(), r.remaining())`, `r.remaining().len() == self.ord()`).  All clauses of Dga / Dgj
/// follow, for ANY map: ascending, every item a vertex, every vertex an item.
proof fn lemma_map_meets_vertices<I: Iterator<Item = usize>>(g: AdjacencyMap, r: I)
    requires
        r.obeys_prophetic_iter_laws(),
        r.decrease() is Some,
        mc_is_key_seq(g.arcs@.dom(), r.remaining()),
        r.remaining().len() == g.ord(),
    ensures
        tc_iter(r),
        tcj_vertices(g.verts(), r.remaining()),
{
    let rem = r.remaining();
    assert forall|i: int| 0 <= i < rem.len() implies g.verts().contains(#[trigger] rem[i] as int) by {
        assert(rem.to_set().contains(rem[i]));
        lemma_map_verts_contains(g, rem[i] as int);
    }
    assert forall|v: usize| #![trigger g.verts().contains(v as int)] g.verts().contains(v as int) implies rem.contains(v) by {
        lemma_map_verts_contains(g, v as int);
        assert(g.arcs@.dom().contains(v));
        assert(rem.to_set().contains(v));
    }
}

/// the rendering of "what the predicate says" is the same text in map_ctor (mc_fv_*) and in prelude/dg_johnson.rs (fv_*)
proof fn lemma_fv_same<P: Fn(usize) -> bool>(p: P)
    ensures
        mc_fv_callable(p) == fv_callable(p),
        mc_fv_det(p) == fv_det(p),
        forall|x: int| #[trigger] mc_fv_yes(p, x) == fv_yes(p, x),
        forall|x: int| #[trigger] mc_fv_no(p, x) == fv_no(p, x),
{
    assert(mc_fv_det(p) == fv_det(p)) by {
        if mc_fv_det(p) {
            assert forall|v: usize, r1: bool, r2: bool| #[trigger] fv_says(p, v, r1) && #[trigger] fv_says(p, v, r2) implies r1 == r2 by {
                assert(mc_fv_says(p, v, r1) && mc_fv_says(p, v, r2));
            }
        }
        if fv_det(p) {
            assert forall|v: usize, r1: bool, r2: bool| #[trigger] mc_fv_says(p, v, r1) && #[trigger] mc_fv_says(p, v, r2) implies r1 == r2 by {
                assert(fv_says(p, v, r1) && fv_says(p, v, r2));
            }
        }
    }
    assert forall|x: int| #[trigger] mc_fv_yes(p, x) == fv_yes(p, x) by {
        if 0 <= x <= usize::MAX { assert(mc_fv_says(p, x as usize, true) == fv_says(p, x as usize, true)); }
    }
    assert forall|x: int| #[trigger] mc_fv_no(p, x) == fv_no(p, x) by {
        if 0 <= x <= usize::MAX { assert(mc_fv_says(p, x as usize, false) == fv_says(p, x as usize, false)); }
    }
}

/// FilterVertices::filter_vertices, preconditions: the precondition of Dgj::filter_vertices (valid, |V| >= 1, predicate
/// callable and deterministic) gives the precondition proved sufficient in map_ctor (`self.wf()`, `mc_fv_callable`,
/// `mc_fv_det`) - unconditionally, for ANY map
proof fn lemma_map_meets_filter_vertices_pre<P: Fn(usize) -> bool>(g: AdjacencyMap, p: P)
    requires tcj_fv_pre(g.verts(), phas(g), p),
    ensures g.wf(), mc_fv_callable(p), mc_fv_det(p),
{
    lemma_map_wf_from_abstract(g);
    lemma_fv_same(p);
}

/// FilterVertices::filter_vertices (proved in map_ctor: `mc_fv_result(*self, predicate, r)`, i.e. r.wf() and the four
/// inclusion clauses): ALL five ensures clauses of Dgj::filter_vertices follow, and the result is a valid abstract digraph
/// (which unit johnson derives from the clauses: `lemma_induced_wf`), for ANY map.
proof fn lemma_map_meets_filter_vertices<P: Fn(usize) -> bool>(g: AdjacencyMap, p: P, r: AdjacencyMap)
    requires
        g.verts().len() <= usize::MAX,   // part of the trait contract's precondition `tcj_wf`
        mc_fv_result(g, p, r),
    ensures
        tcj_fv(g.verts(), phas(g), p, r.verts(), phas(r)),
        tcj_wf(r.verts(), phas(r)),
{
    lemma_fv_same(p);
    lemma_map_verts_len(r);
    lemma_map_verts_len(g);
    assert forall|x: int| #[trigger] r.verts().contains(x) implies g.verts().contains(x) && fv_yes(p, x) by {
        assert(mc_fv_yes(p, x));
    }
    assert forall|x: int| #[trigger] g.verts().contains(x) && !r.verts().contains(x) implies fv_no(p, x) by {
        assert(mc_fv_no(p, x));
    }
    assert forall|u: int, v: int| #[trigger] phas(r)(u, v) implies phas(g)(u, v) && fv_yes(p, u) && fv_yes(p, v) by {
        assert(r.has(u, v));
        assert(g.has(u, v) && mc_fv_yes(p, u) && mc_fv_yes(p, v));
    }
    assert forall|u: int, v: int| #[trigger] phas(g)(u, v) && !phas(r)(u, v) implies fv_no(p, u) || fv_no(p, v) by {
        assert(g.has(u, v) && !r.has(u, v));
        assert(mc_fv_no(p, u) || mc_fv_no(p, v));
    }
    // the result's order fits usize: V' is a subset of V
    assert(g.arcs@.dom().finite());
    assert(r.arcs@.dom().subset_of(g.arcs@.dom())) by {
        assert forall|k: usize| r.arcs@.dom().contains(k) implies g.arcs@.dom().contains(k) by {
            lemma_map_verts_contains(r, k as int);
            lemma_map_verts_contains(g, k as int);
            assert(r.verts().contains(k as int));
        }
    }
    lemma_len_subset(r.arcs@.dom(), g.arcs@.dom());
    lemma_map_wf_has(r);
    assert forall|x: int| #[trigger] r.verts().contains(x) implies 0 <= x <= usize::MAX by { lemma_map_verts_contains(r, x); }
    assert forall|u: int, v: int| #[trigger] phas(r)(u, v) implies r.verts().contains(u) && r.verts().contains(v) && u != v by {
        assert(r.has(u, v));
    }
}

// -- the same implications, tied to the contracts the extracted functions carry in this crate: body = the call of the real
// method, requires = the trait contract's precondition, ensures = the trait contract's clauses --

fn call_map_order(g: &AdjacencyMap) -> (r: usize)
    requires tcj_wf(g.verts(), phas(*g)),
    ensures tcj_order(g.verts(), r),
{
    let r = g.order();
    proof { lemma_map_meets_order(*g, r); }
    r
}

fn call_map_out_neighbors(g: &AdjacencyMap, u: usize) -> (r: impl Iterator<Item = usize> + use<'_>)
    requires tcj_nb_pre(g.verts(), u),
    ensures tc_iter(r), tc_nb_sound(phas(*g), u, r.remaining()), tc_nb_cover(phas(*g), u, r.remaining()),
{
    let r = g.out_neighbors(u);
    proof { lemma_map_meets_out_neighbors(*g, u, r); }
    r
}

fn call_map_vertices(g: &AdjacencyMap) -> (r: impl Iterator<Item = usize> + use<'_>)
    ensures tc_iter(r), tcj_vertices(g.verts(), r.remaining()),
{
    let r = g.vertices();
    proof { lemma_map_meets_vertices(*g, r); }
    r
}

fn call_map_filter_vertices<P: Fn(usize) -> bool>(g: &AdjacencyMap, predicate: P) -> (r: AdjacencyMap)
    requires
        tcj_fv_pre(g.verts(), phas(*g), predicate),
    ensures
        tcj_fv(g.verts(), phas(*g), predicate, r.verts(), phas(r)),
        tcj_wf(r.verts(), phas(r)),
{
    proof { lemma_map_meets_filter_vertices_pre(*g, predicate); }
    let r = g.filter_vertices(predicate);
    proof { lemma_map_meets_filter_vertices(*g, predicate, r); }
    r
}
} // mod map_fv_side

// ---- 4. AdjacencyMatrix::arcs (unit matrix_iter) ----
// When unit rep_trait_contracts was written, only `ArcsIterator::new` / `next` were under contract and the run of
// `lemma_matrix_meets_arcs` started from "states[0] is ArcsIterator::new(&m)".  `Arcs::arcs` itself is now under contract
// (ensures `r.inv()`, `r.matrix == self`, `forall|i| r.pending(i) == self.cell(i)`): the iterator IT returns starts such a
// run, so the data clauses of Dg::arcs / Dgo::arcs hold for the items produced from the value returned by `arcs()`.
// Still not statable: the protocol clauses (`tc_iter`) and the identification of vstd's prophesied `remaining()` with the
// outputs of the run (the extracted ArcsIterator is a plain struct with an inherent `next`, rule E1).
mod matrix_arcs_side {
use super::*;
//@import units/inc/matrix_core.inc.rs
//@import units/inc/matrix_iter.inc.rs

/// the arc relation of the matrix as the `has` of a trait contract (ord := g.order)
spec fn mhas(g: AdjacencyMatrix) -> spec_fn(int, int) -> bool { |a: int, b: int| g.has(a, b) }

/// `states` / `outs` is what driving the iterator `it` with `next()` up to the first `None` goes through and produces
/// (each call as specified by the contract of `ArcsIterator::next`, `arcs_step`)
spec fn driven_from(it: ArcsIterator, states: Seq<ArcsIterator>, outs: Seq<(usize, usize)>) -> bool {
    &&& states.len() == outs.len() + 2
    &&& states[0] == it
    &&& forall|i: int| 0 <= i < outs.len() ==> #[trigger] arcs_step(states[i], states[i + 1], Some(outs[i]))
    &&& arcs_step(states[outs.len() as int], states[outs.len() as int + 1], None)
}

/// Arcs::arcs (proved in matrix_iter under `self.wf()`: `r.inv()`, `r.matrix == self`, every set cell pending): the items
/// produced by driving the returned iterator to its end satisfy the DATA clauses of Dg::arcs / Dgo::arcs.
proof fn lemma_matrix_arcs_meets_arcs(g: AdjacencyMatrix, it: ArcsIterator, states: Seq<ArcsIterator>, outs: Seq<(usize, usize)>)
    requires
        g.wf(),
        it.inv(),
        *it.matrix == g,
        forall|i: int| #[trigger] it.pending(i) == g.cell(i),
        driven_from(it, states, outs),
    ensures
        arcs_run(g, states, outs),
        tc_arcs(mhas(g), outs),
{
    assert(arcs_run(g, states, outs));
    lemma_arcs_c01(g, states, outs);
    assert forall|i: int, j: int| 0 <= i < j < outs.len() implies super::lex_lt(#[trigger] outs[i], #[trigger] outs[j]) by {
        assert(lex_lt(outs[i], outs[j]));
    }
    assert(outs.no_duplicates()) by {
        assert forall|i: int, j: int| 0 <= i < outs.len() && 0 <= j < outs.len() && i != j implies outs[i] != outs[j] by {
            if i < j { assert(lex_lt(outs[i], outs[j])); } else { assert(lex_lt(outs[j], outs[i])); }
        }
    }
    assert forall|u: usize, v: usize| mhas(g)(u as int, v as int) implies #[trigger] outs.contains((u, v)) by {
        assert(g.has(u as int, v as int));
        let i = choose|i: int| 0 <= i < outs.len() && #[trigger] outs[i] == ((u as int) as usize, (v as int) as usize);
        assert(outs[i] == (u, v));
    }
    assert forall|i: int| 0 <= i < outs.len() implies mhas(g)((#[trigger] outs[i]).0 as int, outs[i].1 as int) by {
        assert(g.has(outs[i].0 as int, outs[i].1 as int));
    }
}

/// the same, tied to the contract `AdjacencyMatrix::arcs` carries in this crate (body = the call): the returned iterator
/// satisfies the hypotheses of the lemma above
fn call_matrix_arcs<'a>(g: &'a AdjacencyMatrix) -> (it: ArcsIterator<'a>)
    requires g.wf(),
    ensures
        it.inv(),
        *it.matrix == *g,
        forall|i: int| #[trigger] it.pending(i) == g.cell(i),
        forall|states: Seq<ArcsIterator>, outs: Seq<(usize, usize)>| #[trigger] driven_from(it, states, outs) ==> tc_arcs(mhas(*g), outs),
{
    let it = g.arcs();
    proof {
        assert forall|states: Seq<ArcsIterator>, outs: Seq<(usize, usize)>| #[trigger] driven_from(it, states, outs) implies tc_arcs(mhas(*g), outs) by {
            lemma_matrix_arcs_meets_arcs(*g, it, states, outs);
        }
    }
    it
}
} // mod matrix_arcs_side
