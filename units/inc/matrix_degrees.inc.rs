//@file src/repr/adjacency_matrix/mod.rs
// ---- C02: AdjacencyMatrix::{indegree, outdegree} equal the degrees DEFINED from (V, A) = (0..order, has) as set
// cardinalities (the same definition as `Dgo::indeg` / `Dgo::outdeg` in prelude/dg_ops.rs: this unit discharges those two
// trait contracts for the matrix representation) ----

/// the in-neighbours of v / out-neighbours of u among the vertices below n, as sets
spec fn in_set_below(g: AdjacencyMatrix, v: int, n: int) -> Set<int> { Set::range(0, n).filter(|a: int| g.has(a, v)) }
spec fn out_set_below(g: AdjacencyMatrix, u: int, n: int) -> Set<int> { Set::range(0, n).filter(|b: int| g.has(u, b)) }

impl AdjacencyMatrix {
    /// indegree / outdegree defined from (V, A): the number of vertices a with (a, v) in A / b with (u, b) in A
    spec fn indeg(&self, v: int) -> nat { in_set_below(*self, v, self.order as int).len() }
    spec fn outdeg(&self, u: int) -> nat { out_set_below(*self, u, self.order as int).len() }
}

/// faithfulness of the neighbour sets: exactly the in- / out-neighbours
proof fn lemma_deg_sets(g: AdjacencyMatrix, x: int)
    ensures
        forall|a: int| #[trigger] in_set_below(g, x, g.order as int).contains(a) == g.has(a, x),
        forall|b: int| #[trigger] out_set_below(g, x, g.order as int).contains(b) == g.has(x, b),
{
    range_set_properties::<int>(0, g.order as int);
}

/// the in-neighbours of v among the vertices below k, ascending (the items of `vertices().filter(|&u| has_arc(u, v))`)
spec fn col_below(g: AdjacencyMatrix, v: int, k: int) -> Seq<usize>
    decreases k
{
    if k <= 0 { Seq::empty() }
    else if g.has(k - 1, v) { col_below(g, v, k - 1).push((k - 1) as usize) }
    else { col_below(g, v, k - 1) }
}

/// the ascending neighbour sequences have as many items as the neighbour sets have elements
proof fn lemma_col_count(g: AdjacencyMatrix, v: int, n: int)
    requires 0 <= n,
    ensures col_below(g, v, n).len() == in_set_below(g, v, n).len(), col_below(g, v, n).len() <= n,
    decreases n
{
    range_set_properties::<int>(0, n);
    if n > 0 {
        lemma_col_count(g, v, n - 1);
        range_set_properties::<int>(0, n - 1);
        let p = in_set_below(g, v, n - 1);
        if g.has(n - 1, v) { assert(in_set_below(g, v, n) =~= p.insert(n - 1)); } else { assert(in_set_below(g, v, n) =~= p); }
    } else {
        assert(in_set_below(g, v, n) =~= Set::<int>::empty());
    }
}
proof fn lemma_row_count(g: AdjacencyMatrix, u: int, n: int)
    requires 0 <= n,
    ensures row_below(g, u, n).len() == out_set_below(g, u, n).len(), row_below(g, u, n).len() <= n,
    decreases n
{
    range_set_properties::<int>(0, n);
    if n > 0 {
        lemma_row_count(g, u, n - 1);
        range_set_properties::<int>(0, n - 1);
        let p = out_set_below(g, u, n - 1);
        if g.has(u, n - 1) { assert(out_set_below(g, u, n) =~= p.insert(n - 1)); } else { assert(out_set_below(g, u, n) =~= p); }
    } else {
        assert(out_set_below(g, u, n) =~= Set::<int>::empty());
    }
}

/// trigger tag: names the pair (g, v) for `lemma_filter_col`
spec fn col_tag(g: AdjacencyMatrix, v: int) -> bool { true }

/// vstd's model of `Filter` over the vertex range with a predicate that decides `has(., v)`: the items are `col_below`
/// (as `lemma_filter_row` in matrix_queries; broadcast because the filter iterator is consumed in the tail expression)
broadcast proof fn lemma_filter_col(g: AdjacencyMatrix, v: int, n: int, pred: spec_fn(int) -> bool)
    requires
        0 <= n <= g.order,
        forall|j: int| 0 <= j < n ==> pred(j) == g.has(j, v),
    ensures
        #![trigger vseq(g.order as nat).take(n).filter_index(pred), col_tag(g, v)]
        vseq(g.order as nat).take(n).filter_index(pred) == col_below(g, v, n),
    decreases n
{
    let rem = vseq(g.order as nat);
    if n > 0 {
        lemma_filter_col(g, v, n - 1, pred);
        assert(rem.take(n).drop_last() =~= rem.take(n - 1));
        reveal_with_fuel(Seq::filter_index, 2);
    }
}

impl AdjacencyMatrix {
    /*@fn impl=AdjacencyMatrix trait=Indegree name=indegree wrap=count
    requires
        self.wf(),
    ensures
        v < self.order,
        r == self.indeg(v as int),
    @closure 1 |u__r: &usize| -> (b: bool)
    ensures
        b == self.has(*u__r as int, v as int),
    @fn_start
        broadcast use vstd::std_specs::iter::group_iter_axioms;
        broadcast use lemma_filter_col;
        proof {
            assert(col_tag(*self, v as int));
            lemma_col_count(*self, v as int, self.order as int);
        }
    @*/

    /*@fn impl=AdjacencyMatrix trait=Outdegree name=outdegree wrap=count
    requires
        self.wf(),
    ensures
        u < self.order,
        r == self.outdeg(u as int),
    @closure 1 |v__r: &usize| -> (b: bool)
    ensures
        b == self.has(u as int, *v__r as int),
    @fn_start
        broadcast use vstd::std_specs::iter::group_iter_axioms;
        broadcast use lemma_filter_row;
        proof {
            assert(nb_tag(*self, u as int));
            lemma_row_count(*self, u as int, self.order as int);
        }
    @*/
}

// ---- C02: AdjacencyMatrix::size is the number of set cells (cell index = u * order + v, one cell per arc) ----

/// the set cells with index below m; `set_cells` (all of them) is textually matrix_ops' `arc_cells`
spec fn cells_below(g: AdjacencyMatrix, m: int) -> Set<int> { Set::range(0, m).filter(|j: int| g.cell(j)) }
spec fn set_cells(g: AdjacencyMatrix) -> Set<int> { cells_below(g, g.ncells()) }

/// s lists the population counts of the blocks
spec fn pop_seq(g: AdjacencyMatrix, s: Seq<usize>) -> bool {
    s.len() == g.blocks@.len() && forall|k: int| 0 <= k < s.len() ==> #[trigger] s[k] == ones_below(g.blocks@[k], 64)
}

/// the b lowest bits of block k account for the cells 64k .. 64k + b
proof fn lemma_block_bits(g: AdjacencyMatrix, k: int, b: int)
    requires 0 <= k < g.blocks@.len(), 0 <= b <= 64,
    ensures cells_below(g, 64 * k + b).len() == cells_below(g, 64 * k).len() + ones_below(g.blocks@[k], b as nat),
    decreases b
{
    if b > 0 {
        lemma_block_bits(g, k, b - 1);
        let j = 64 * k + b - 1;
        range_set_properties::<int>(0, j);
        range_set_properties::<int>(0, j + 1);
        assert(j / 64 == k && j % 64 == b - 1);
        assert(g.cell(j) == bit_at(g.blocks@[k], (b - 1) as usize));
        if g.cell(j) { assert(cells_below(g, j + 1) =~= cells_below(g, j).insert(j)); } else { assert(cells_below(g, j + 1) =~= cells_below(g, j)); }
    }
}

proof fn lemma_blocks_sum(g: AdjacencyMatrix, s: Seq<usize>, k: int)
    requires pop_seq(g, s), 0 <= k <= s.len(),
    ensures seq_sum(s.take(k)) == cells_below(g, 64 * k).len(),
    decreases k
{
    if k > 0 {
        lemma_blocks_sum(g, s, k - 1);
        lemma_block_bits(g, k - 1, 64);
        assert(s.take(k).drop_last() =~= s.take(k - 1));
        assert(s.take(k).last() == s[k - 1]);
    } else {
        range_set_properties::<int>(0, 0);
        assert(cells_below(g, 0) =~= Set::<int>::empty());
    }
}

/// the sum of the blocks' population counts is the number of set cells (cells at and above order^2 are clear)
proof fn lemma_size(g: AdjacencyMatrix, s: Seq<usize>)
    requires g.wf(), pop_seq(g, s),
    ensures seq_sum(s) == set_cells(g).len(), seq_sum(s) <= usize::MAX,
{
    let n = g.blocks@.len() as int;
    lemma_blocks_sum(g, s, n);
    assert(s.take(n) =~= s);
    range_set_properties::<int>(0, 64 * n);
    range_set_properties::<int>(0, g.ncells());
    assert(cells_below(g, 64 * n) =~= cells_below(g, g.ncells()));
    lemma_len_subset(set_cells(g), Set::<int>::range(0, g.ncells()));
}

/// faithfulness of `set_cells`: its elements are exactly the cell indices u * order + v of the arcs (u, v), one per arc
proof fn lemma_set_cells(g: AdjacencyMatrix)
    requires g.wf(),
    ensures
        forall|j: int| #[trigger] set_cells(g).contains(j) ==> 0 <= j < g.ncells() && g.has(j / (g.order as int), j % (g.order as int))
            && (j / (g.order as int)) * g.order + j % (g.order as int) == j,
        forall|u: int, v: int| #[trigger] g.has(u, v) ==> set_cells(g).contains(u * g.order + v),
        forall|a: int, b: int, u: int, v: int| g.has(a, b) && g.has(u, v) && a * g.order + b == u * g.order + v ==> a == u && b == v,
{
    let n = g.order as int;
    range_set_properties::<int>(0, g.ncells());
    assert forall|j: int| #[trigger] set_cells(g).contains(j) implies 0 <= j < g.ncells() && g.has(j / n, j % n) && (j / n) * n + j % n == j by {
        vstd::arithmetic::div_mod::lemma_fundamental_div_mod(j, n);
        assert(n * (j / n) == (j / n) * n) by (nonlinear_arith);
        assert(0 <= j / n < n) by (nonlinear_arith) requires (j / n) * n + j % n == j, 0 <= j < n * n, 0 <= j % n < n, n > 0;
    }
    assert forall|u: int, v: int| #[trigger] g.has(u, v) implies set_cells(g).contains(u * g.order + v) by {
        lemma_index_bound(u, v, n);
    }
    assert forall|a: int, b: int, u: int, v: int| g.has(a, b) && g.has(u, v) && a * g.order + b == u * g.order + v implies a == u && b == v by {
        lemma_index_inj(a, b, u, v, n);
    }
}

impl AdjacencyMatrix {
    /*@fn impl=AdjacencyMatrix trait=Size name=size wrap=sum
    requires
        self.wf(),
    ensures
        r == set_cells(*self).len(),
    @closure 1 |block__r: &usize| -> (c: usize)
    ensures
        c == ones_below(*block__r, 64),
    @fn_start
        broadcast use vstd::std_specs::iter::group_iter_axioms;
        proof {
            // the Map iterator is consumed in the tail expression: state the meaning of its item sequence for every candidate
            assert forall|s: Seq<usize>| pop_seq(*self, s) implies #[trigger] seq_sum(s) == set_cells(*self).len() && seq_sum(s) <= usize::MAX by {
                lemma_size(*self, s);
            }
        }
    @*/
}
