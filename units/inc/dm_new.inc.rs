//@file src/algo/distance_matrix.rs
// `DistanceMatrix::new` (C18: "new(order, infinity) is an order x order matrix filled with infinity"; C13: the
// set_len / ptr::write body).  Needs units/inc/distance_matrix.inc.rs (struct, wf) and prelude/dm_new_std.rs.
impl<W> DistanceMatrix<W> {
    /*@fn impl=DistanceMatrix name=new wrap=fn:with_capacity
    ensures
        order > 0,
        order * order <= usize::MAX,
        r.wf(),
        r.order == order,
        r.infinity == infinity,
        forall|i: int| 0 <= i < r.dist@.len() ==> #[trigger] r.dist@[i] == infinity,
    @loop 1
    invariant
        size == order * order,
        dist@.len() == size,
        forall|k: int| 0 <= k < i ==> #[trigger] dist@[k] == infinity,
    @*/
}
