//@file src/algo/distance_matrix.rs
// the remaining Index / IndexMut impls (flat index, full range, range): safe std indexing, in range => the addressed cells
impl<W> DistanceMatrix<W> {
    // no precondition: an index outside the buffer panics (rule E4b), it is never read
    /*@fn impl=DistanceMatrix trait=Index implhas='Index<usize>' name=index rename=index_flat subst=Self::Output=>W safeindex
    ensures
        index < self.dist@.len(),
        *r == self.dist@[index as int],
    @*/

    /*@fn impl=DistanceMatrix trait=IndexMut implhas='IndexMut<usize>' name=index_mut rename=index_flat_mut subst=Self::Output=>W safeindex
    ensures
        index < old(self).dist@.len(),
        final(self).order == old(self).order,
        final(self).infinity == old(self).infinity,
        *r == old(self).dist@[index as int],
        final(self).dist@ == old(self).dist@.update(index as int, *final(r)),
    @*/

    /*@fn impl=DistanceMatrix trait=Index implhas='Index<RangeFull>' name=index rename=index_full subst=Self::Output=>[W]
    ensures
        r@ == self.dist@,
    @*/

    /*@fn impl=DistanceMatrix trait=Index implhas='Index<Range<usize>>' name=index rename=index_range subst=Self::Output=>[W]
    requires
        index.start <= index.end <= self.dist@.len(),
    ensures
        r@ == self.dist@.subrange(index.start as int, index.end as int),
    @*/
    /*@fn impl=DistanceMatrix trait=IndexMut implhas='IndexMut<RangeFull>' name=index_mut rename=index_full_mut subst=Self::Output=>[W]
    ensures
        final(self).order == old(self).order,
        final(self).infinity == old(self).infinity,
        r@ == old(self).dist@,
        final(self).dist@ == final(r)@,
    @*/
    // IndexMut<Range<usize>>: vstd gives `&mut v[a..b]` a precondition (the range is in bounds: the std panic condition) but NO
    // postcondition, so only the safety obligation and the frame of the other fields are under contract here; the data clauses
    // (returned slice == the addressed cells, cells outside the range unchanged) cannot be stated without a new assumption
    /*@fn impl=DistanceMatrix trait=IndexMut implhas='IndexMut<Range<usize>>' name=index_mut rename=index_range_mut subst=Self::Output=>[W]
    requires
        index.start <= index.end <= old(self).dist@.len(),
    ensures
        final(self).order == old(self).order,
        final(self).infinity == old(self).infinity,
    @*/
}
