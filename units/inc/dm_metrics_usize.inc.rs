//@file src/algo/distance_matrix.rs
// ---- C18: the metrics of a DistanceMatrix (W = usize) ----
// The two functions that return a lazy adapter (`eccentricities`: Map, `periphery`: FilterMap) state their result on the
// prophesied item sequence `r.remaining()` the way matrix_queries does for `out_neighbors`: vstd's models of Map / Filter give
// the items of a PREFIX of the source (the closure is exec code that vstd does not know to terminate) and the whole source
// under `r.will_return_none()`, which every consumer that runs the iterator to its None provides (`max`, `all` == true,
// a `for` loop, `collect`).  `is_connected`, `diameter` and `center` are such consumers: their contracts are unconditional.
// A second instantiation W = usize is NOT part of the unit: `subst=` renames paths only (not the method calls
// `self.eccentricities()` / `self.diameter()`), and two instantiations under the same method names collide in the harness
// (obligation ids and vacuity twins are keyed by `Type::fn`).  The text below verifies unchanged with usize => usize.

impl DistanceMatrix<usize> {
    /// C18 hypothesis: no entry exceeds the infinity value
    spec fn entries_le_infinity(&self) -> bool {
        forall|i: int| 0 <= i < self.dist@.len() ==> #[trigger] self.dist@[i] <= self.infinity
    }

    /// maximum of the first k entries of row u (k >= 1)
    spec fn row_max_upto(&self, u: int, k: int) -> usize
        decreases k,
    {
        if k <= 1 { self.at(u, 0) } else {
            let m = self.row_max_upto(u, k - 1);
            if self.at(u, k - 1) >= m { self.at(u, k - 1) } else { m }
        }
    }

    /// C18: the eccentricity of u, the maximum entry of row u
    spec fn row_max(&self, u: int) -> usize { self.row_max_upto(u, self.order as int) }

    /// maximum of the eccentricities of the first k vertices (k >= 1)
    spec fn ecc_max_upto(&self, k: int) -> usize
        decreases k,
    {
        if k <= 1 { self.row_max(0) } else {
            let m = self.ecc_max_upto(k - 1);
            if self.row_max(k - 1) >= m { self.row_max(k - 1) } else { m }
        }
    }

    /// C18: the diameter, the maximum eccentricity
    spec fn ecc_max(&self) -> usize { self.ecc_max_upto(self.order as int) }

    /// C18: the eccentricity of u is minimal
    spec fn is_min_ecc(&self, u: int) -> bool {
        forall|w: int| 0 <= w < self.order ==> self.row_max(u) <= #[trigger] self.row_max(w)
    }

    /// C18: the eccentricity of u equals the diameter
    spec fn is_max_ecc(&self, u: int) -> bool { self.row_max(u) == self.ecc_max() }

    /// state of `center` after j vertices: `min` is the least of infinity and the first j eccentricities, `c` lists, in
    /// ascending order, the vertices below j whose eccentricity is `min`
    spec fn center_upto(&self, c: Seq<usize>, min: usize, j: int) -> bool {
        &&& min <= self.infinity
        &&& forall|w: int| 0 <= w < j ==> min <= #[trigger] self.row_max(w)
        &&& min == self.infinity || exists|w: int| 0 <= w < j && #[trigger] self.row_max(w) == min
        &&& ascending_ids(c)
        &&& forall|a: int| 0 <= a < c.len() ==> (#[trigger] c[a]) < j && self.row_max(c[a] as int) == min
        &&& forall|u: usize| u < j && self.row_max(u as int) == min ==> #[trigger] c.contains(u)
    }

    /// C18: s is the ascending list of the vertices below k whose eccentricity equals the diameter
    spec fn is_periphery_upto(&self, s: Seq<usize>, k: int) -> bool {
        &&& ascending_ids(s)
        &&& forall|u: usize| #![trigger s.contains(u)] s.contains(u) == (u < k && self.is_max_ecc(u as int))
    }

    /// the results of `periphery`'s closure on the first outs.len() vertices
    spec fn periphery_outs(&self, outs: Seq<Option<usize>>) -> bool {
        &&& outs.len() <= self.order
        &&& forall|j: int| 0 <= j < outs.len() ==> #[trigger] outs[j] == (if self.is_max_ecc(j) { Some(j as usize) } else { None::<usize> })
    }

    /// what one iteration of `center`'s loop does with vertex j (the three arms of the `match`)
    spec fn center_step(&self, c0: Seq<usize>, min0: usize, j: int, c1: Seq<usize>, min1: usize) -> bool {
        &&& self.row_max(j) < min0 ==> c1 == Seq::<usize>::empty().push(j as usize) && min1 == self.row_max(j)
        &&& self.row_max(j) == min0 ==> c1 == c0.push(j as usize) && min1 == min0
        &&& self.row_max(j) > min0 ==> c1 == c0 && min1 == min0
    }

    /// rem is the complete sequence of eccentricities
    spec fn is_ecc_seq(&self, rem: Seq<&usize>) -> bool {
        &&& rem.len() == self.order
        &&& forall|u: int| #![trigger rem[u]] 0 <= u < self.order ==> *rem[u] == self.row_max(u)
    }

    /*@fn impl=DistanceMatrix name=eccentricities subst=W=>usize wrap=&chunks,max,min
    requires
        self.wf(),
    ensures
        r.obeys_prophetic_iter_laws(),
        r.decrease() is Some,
        r.remaining().len() <= self.order,
        r.will_return_none() ==> r.remaining().len() == self.order,
        forall|u: int| #![trigger r.remaining()[u]] #![trigger self.row_max(u)] 0 <= u < r.remaining().len() ==> *r.remaining()[u] == self.row_max(u),
    @closure 1 |row: &[usize]| -> (m: &usize)
    ensures
        row@.len() == 0 ==> *m == self.infinity,
        row@.len() > 0 ==> seq_is_max(row@, *m),
    @fn_start
        broadcast use vstd::std_specs::iter::group_iter_axioms;
        broadcast use lemma_last_max;
        proof {
            lemma_chunk_count(self.order as int);
            assert forall|u: int, m: usize| 0 <= u < self.order && #[trigger] seq_is_max(chunk_of(self.dist@, self.order as int, u), m)
                implies m == self.row_max(u) by { self.lemma_row_max(u, m); }
            assert forall|u: int| 0 <= u < self.order implies (#[trigger] chunk_of(self.dist@, self.order as int, u)).len() == self.order by {
                self.lemma_row_max_upto(u, self.order as int);
            }
        }
    @*/

    /*@fn impl=DistanceMatrix name=is_connected subst=W=>usize wrap=all
    requires
        self.wf(),
    ensures
        r == (forall|u: int| 0 <= u < self.order ==> #[trigger] self.row_max(u) != self.infinity),
    @closure 1 |e: &usize| -> (b: bool)
    ensures
        b == (*e != self.infinity),
    @*/

    /*@fn impl=DistanceMatrix name=diameter subst=W=>usize wrap=max,min
    requires
        self.wf(),
    ensures
        *r == self.ecc_max(),
        forall|u: int| 0 <= u < self.order ==> #[trigger] self.row_max(u) <= *r,
        exists|u: int| 0 <= u < self.order && #[trigger] self.row_max(u) == *r,
    @fn_start
        proof {
            self.lemma_ecc_max_upto(self.order as int);
            assert forall|rem: Seq<&usize>, o: Option<&usize>| self.is_ecc_seq(rem) && #[trigger] is_last_max(rem, o)
                implies o is Some && *o->0 == self.ecc_max() by { self.lemma_diameter(rem, o); }
        }
    @*/

    /*@fn impl=DistanceMatrix name=center subst=W=>usize wrap=enumerate
    requires
        self.wf(),
        self.entries_le_infinity(),
    ensures
        ascending_ids(r@),
        forall|u: usize| #![trigger r@.contains(u)] r@.contains(u) == (u < self.order && self.is_min_ecc(u as int)),
    @fn_start
        proof { self.lemma_row_max_le_infinity(); }
    @loop 1
    invariant
        it1.iter.obeys_prophetic_iter_laws(),
        it1.iter.decrease() is Some,
        self.wf(),
        it1.seq().len() <= self.order,
        it1.iter.will_return_none() ==> it1.seq().len() == self.order,
        forall|k: int| 0 <= k < it1.seq().len() ==> (#[trigger] it1.seq()[k]).0 == k && *it1.seq()[k].1 == self.row_max(k),
        forall|u: int| 0 <= u < self.order ==> #[trigger] self.row_max(u) <= self.infinity,
        self.center_upto(center@, min, it1.index@ as int),
    @loop_start 1
        let ghost c0 = center@;
        let ghost min0 = min;
    @loop_end 1
        proof { self.lemma_center_step(c0, min0, it1.index@ as int, center@, min); }
    @fn_end
        proof { self.lemma_center(center@, min); }
    @*/

    /*@fn impl=DistanceMatrix name=periphery subst=W=>usize wrap=enumerate,filter_map
    requires
        self.wf(),
    ensures
        r.obeys_prophetic_iter_laws(),
        r.decrease() is Some,
        exists|k: int| 0 <= k <= self.order && #[trigger] self.is_periphery_upto(r.remaining(), k),
        r.will_return_none() ==> self.is_periphery_upto(r.remaining(), self.order as int),
    @closure 1 |p: (usize, &usize)| -> (o: Option<usize>)
    ensures
        o == (if *p.1 == *diameter { Some(p.0) } else { None::<usize> }),
    @after `let diameter = self.diameter();`
        proof {
            assert forall|outs: Seq<Option<usize>>| self.periphery_outs(outs)
                implies self.is_periphery_upto(#[trigger] somes(outs), outs.len() as int) by { self.lemma_periphery(outs); }
        }
    @*/
}

/// strictly ascending vertex list
spec fn ascending_ids(s: Seq<usize>) -> bool {
    forall|i: int, j: int| 0 <= i < j < s.len() ==> #[trigger] s[i] < #[trigger] s[j]
}

/// m is the maximum of the non-empty sequence s
spec fn seq_is_max(s: Seq<usize>, m: usize) -> bool {
    &&& forall|j: int| 0 <= j < s.len() ==> #[trigger] s[j] <= m
    &&& exists|j: int| 0 <= j < s.len() && #[trigger] s[j] == m
}

/// what `Iterator::max` returns over a non-empty sequence of `&usize` items is an upper bound and one of the items
proof fn lemma_last_max_refs(rem: Seq<&usize>, o: Option<&usize>)
    requires is_last_max(rem, o),
    ensures
        rem.len() == 0 ==> o is None,
        rem.len() > 0 ==> o is Some,
        forall|j: int| 0 <= j < rem.len() ==> *(#[trigger] rem[j]) <= *o->0,
        rem.len() > 0 ==> exists|j: int| 0 <= j < rem.len() && *(#[trigger] rem[j]) == *o->0,
{
    if rem.len() > 0 {
        let i = choose|i: int| #[trigger] is_last_max_at(rem, i) && o->0 == rem[i];
        assert(*rem[i] == *o->0);
        assert forall|j: int| 0 <= j < rem.len() implies *(#[trigger] rem[j]) <= *o->0 by {
            assert(!(<usize as vstd::std_specs::cmp::OrdSpec>::cmp_spec(rem[j], rem[i]) is Greater));
        }
    }
}

/// what `Iterator::max` returns over the items of a slice is the maximum of the slice
broadcast proof fn lemma_last_max(s: Seq<usize>, o: Option<&usize>)
    requires #[trigger] is_last_max(s.as_ref(), o),
    ensures s.len() == 0 ==> o is None, s.len() > 0 ==> o is Some && seq_is_max(s, *o->0),
{
    let rem = s.as_ref();
    assert(rem.len() == s.len());
    lemma_last_max_refs(rem, o);
    if s.len() > 0 {
        let i = choose|j: int| 0 <= j < rem.len() && *(#[trigger] rem[j]) == *o->0;
        assert(s[i] == *o->0);
        assert forall|j: int| 0 <= j < s.len() implies #[trigger] s[j] <= *o->0 by { assert(*rem[j] <= *o->0); }
    }
}

/// an n x n matrix has n rows
proof fn lemma_chunk_count(n: int)
    requires n > 0,
    ensures chunk_count(n * n, n) == n,
{
    assert((n * n + n - 1) / n == n) by (nonlinear_arith) requires n > 0;
}

impl DistanceMatrix<usize> {
    /// row u is the u-th chunk; row_max_upto is an upper bound of the first k entries and is attained
    proof fn lemma_row_max_upto(&self, u: int, k: int)
        requires self.wf(), 0 <= u < self.order, 1 <= k <= self.order,
        ensures
            chunk_of(self.dist@, self.order as int, u).len() == self.order,
            forall|v: int| 0 <= v < self.order ==> #[trigger] chunk_of(self.dist@, self.order as int, u)[v] == self.at(u, v),
            forall|v: int| 0 <= v < k ==> #[trigger] self.at(u, v) <= self.row_max_upto(u, k),
            exists|v: int| 0 <= v < k && #[trigger] self.at(u, v) == self.row_max_upto(u, k),
        decreases k,
    {
        let n = self.order as int;
        assert((u + 1) * n <= n * n && 0 <= u * n && (u + 1) * n == u * n + n) by (nonlinear_arith) requires 0 <= u < n;
        if k > 1 {
            self.lemma_row_max_upto(u, k - 1);
            let w = choose|v: int| 0 <= v < k - 1 && #[trigger] self.at(u, v) == self.row_max_upto(u, k - 1);
            if self.at(u, k - 1) >= self.row_max_upto(u, k - 1) {
                assert(self.at(u, k - 1) == self.row_max_upto(u, k));
            } else {
                assert(self.at(u, w) == self.row_max_upto(u, k));
            }
        } else {
            assert(self.at(u, 0) == self.row_max_upto(u, k));
        }
    }

    /// the maximum of row u is row_max(u)
    proof fn lemma_row_max(&self, u: int, m: usize)
        requires self.wf(), 0 <= u < self.order, seq_is_max(chunk_of(self.dist@, self.order as int, u), m),
        ensures m == self.row_max(u),
    {
        self.lemma_row_max_upto(u, self.order as int);
        let row = chunk_of(self.dist@, self.order as int, u);
        let j = choose|j: int| 0 <= j < row.len() && #[trigger] row[j] == m;
        let v = choose|v: int| 0 <= v < self.order && #[trigger] self.at(u, v) == self.row_max(u);
        assert(row[j] == self.at(u, j));
        assert(row[v] == self.at(u, v));
    }

    /// ecc_max_upto is an upper bound of the first k eccentricities and is attained
    proof fn lemma_ecc_max_upto(&self, k: int)
        requires 1 <= k <= self.order,
        ensures
            forall|u: int| 0 <= u < k ==> #[trigger] self.row_max(u) <= self.ecc_max_upto(k),
            exists|u: int| 0 <= u < k && #[trigger] self.row_max(u) == self.ecc_max_upto(k),
        decreases k,
    {
        if k > 1 {
            self.lemma_ecc_max_upto(k - 1);
            let w = choose|u: int| 0 <= u < k - 1 && #[trigger] self.row_max(u) == self.ecc_max_upto(k - 1);
            if self.row_max(k - 1) >= self.ecc_max_upto(k - 1) {
                assert(self.row_max(k - 1) == self.ecc_max_upto(k));
            } else {
                assert(self.row_max(w) == self.ecc_max_upto(k));
            }
        } else {
            assert(self.row_max(0) == self.ecc_max_upto(k));
        }
    }

    /// the maximum of the eccentricity sequence is ecc_max()
    proof fn lemma_diameter(&self, rem: Seq<&usize>, o: Option<&usize>)
        requires self.wf(), self.is_ecc_seq(rem), is_last_max(rem, o),
        ensures o is Some, *o->0 == self.ecc_max(),
    {
        self.lemma_ecc_max_upto(self.order as int);
        lemma_last_max_refs(rem, o);
        let j = choose|j: int| 0 <= j < rem.len() && *(#[trigger] rem[j]) == *o->0;
        let u = choose|u: int| 0 <= u < self.order && #[trigger] self.row_max(u) == self.ecc_max();
        assert(*rem[u] <= *o->0);
        assert(self.row_max(j) <= self.ecc_max());
    }

    /// C18 hypothesis, per row: no eccentricity exceeds infinity
    proof fn lemma_row_max_le_infinity(&self)
        requires self.wf(), self.entries_le_infinity(),
        ensures forall|u: int| 0 <= u < self.order ==> #[trigger] self.row_max(u) <= self.infinity,
    {
        assert forall|u: int| 0 <= u < self.order implies #[trigger] self.row_max(u) <= self.infinity by {
            self.lemma_row_max_upto(u, self.order as int);
            let v = choose|v: int| 0 <= v < self.order && #[trigger] self.at(u, v) == self.row_max(u);
            lemma_cell_bound(u, v, self.order as int);
            assert(self.dist@[u * self.order + v] <= self.infinity);
        }
    }

    /// one iteration of `center`: vertex j with eccentricity e is compared with `min0`
    proof fn lemma_center_step(&self, c0: Seq<usize>, min0: usize, j: int, c1: Seq<usize>, min1: usize)
        requires
            0 <= j < self.order,
            self.center_upto(c0, min0, j),
        ensures
            self.center_step(c0, min0, j, c1, min1) ==> self.center_upto(c1, min1, j + 1),
    {
        let e = self.row_max(j);
        if !self.center_step(c0, min0, j, c1, min1) {
        } else if e < min0 {
            assert(c1[0] == j);
            assert forall|u: usize| u < j + 1 && self.row_max(u as int) == min1 implies #[trigger] c1.contains(u) by {
                assert(u == j);
            }
        } else if e == min0 {
            assert forall|a: int| 0 <= a < c1.len() implies (#[trigger] c1[a]) < j + 1 && self.row_max(c1[a] as int) == min1 by {
                if a < c0.len() { assert(c1[a] == c0[a]); }
            }
            assert forall|u: usize| u < j + 1 && self.row_max(u as int) == min1 implies #[trigger] c1.contains(u) by {
                if u < j {
                    assert(c0.contains(u));
                    let a = choose|a: int| 0 <= a < c0.len() && c0[a] == u;
                    assert(c1[a] == u);
                } else {
                    assert(c1[c0.len() as int] == u);
                }
            }
            assert(ascending_ids(c1)) by {
                assert forall|a: int, b: int| 0 <= a < b < c1.len() implies #[trigger] c1[a] < #[trigger] c1[b] by {
                    assert(c1[a] == c0[a]);
                    if b < c0.len() { assert(c1[b] == c0[b]); }
                }
            }
        } else {
            assert forall|u: usize| u < j + 1 && self.row_max(u as int) == min1 implies #[trigger] c1.contains(u) by {
                assert(u < j);
            }
        }
    }

    /// after all vertices, `c` lists the vertices of minimal eccentricity
    proof fn lemma_center(&self, c: Seq<usize>, min: usize)
        requires
            self.wf(),
            self.center_upto(c, min, self.order as int),
            forall|u: int| 0 <= u < self.order ==> #[trigger] self.row_max(u) <= self.infinity,
        ensures
            forall|u: usize| #![trigger c.contains(u)] c.contains(u) == (u < self.order && self.is_min_ecc(u as int)),
    {
        assert forall|u: usize| #![trigger c.contains(u)] c.contains(u) == (u < self.order && self.is_min_ecc(u as int)) by {
            if c.contains(u) {
                let a = choose|a: int| 0 <= a < c.len() && c[a] == u;
                assert(c[a] < self.order && self.row_max(c[a] as int) == min);
            }
            if u < self.order && self.is_min_ecc(u as int) {
                assert(self.row_max(u as int) <= self.infinity);
                if min != self.infinity {
                    let w = choose|w: int| 0 <= w < self.order && #[trigger] self.row_max(w) == min;
                    assert(self.row_max(u as int) <= self.row_max(w));
                }
                assert(min <= self.row_max(u as int));
                assert(c.contains(u));
            }
        }
    }

    /// the `Some` values of the closure results are the periphery among the vertices seen
    proof fn lemma_periphery(&self, outs: Seq<Option<usize>>)
        requires self.periphery_outs(outs),
        ensures
            self.is_periphery_upto(somes(outs), outs.len() as int),
        decreases outs.len(),
    {
        let s = somes(outs);
        if outs.len() > 0 {
            let o1 = outs.drop_last();
            let k = outs.len() - 1;
            assert forall|j: int| 0 <= j < o1.len() implies #[trigger] o1[j] == (if self.is_max_ecc(j) { Some(j as usize) } else { None::<usize> }) by {
                assert(o1[j] == outs[j]);
            }
            self.lemma_periphery(o1);
            let s1 = somes(o1);
            assert(outs.last() == outs[k]);
            if self.is_max_ecc(k) {
                assert(s == s1.push(k as usize));
                assert forall|u: usize| #![trigger s.contains(u)] s.contains(u) == (u < k + 1 && self.is_max_ecc(u as int)) by {
                    if s.contains(u) {
                        let a = choose|a: int| 0 <= a < s.len() && s[a] == u;
                        if a < s1.len() { assert(s1[a] == u); assert(s1.contains(u)); }
                    }
                    if u < k + 1 && self.is_max_ecc(u as int) {
                        if u < k {
                            assert(s1.contains(u));
                            let a = choose|a: int| 0 <= a < s1.len() && s1[a] == u;
                            assert(s[a] == u);
                        } else {
                            assert(s[s1.len() as int] == u);
                        }
                    }
                }
                assert(ascending_ids(s)) by {
                    assert forall|a: int, b: int| 0 <= a < b < s.len() implies #[trigger] s[a] < #[trigger] s[b] by {
                        assert(s[a] == s1[a]);
                        assert(s1.contains(s1[a]));
                        if b < s1.len() { assert(s[b] == s1[b]); }
                    }
                }
            } else {
                assert(s == s1);
                assert forall|u: usize| #![trigger s.contains(u)] s.contains(u) == (u < k + 1 && self.is_max_ecc(u as int)) by {
                    assert(s1.contains(u) == (u < k && self.is_max_ecc(u as int)));
                }
            }
        } else {
            assert forall|u: usize| #![trigger s.contains(u)] !s.contains(u) by {
                if s.contains(u) { let a = choose|a: int| 0 <= a < s.len() && s[a] == u; }
            }
        }
    }
}
