//@file src/repr/adjacency_matrix/mod.rs
// ---- C15 (Verus half, continued): erdos_renyi and random_recursive_tree of AdjacencyMatrix, for EVERY value stream of the PRNG
// (hence every seed) and whatever the f64 comparison `rng.next_f64() < p` returns (hence every p) ----

impl AdjacencyMatrix {
    /*@fn trait=Empty name=trivial file=src/gen/empty.rs dropwhere=Self
    ensures
        r.wf(),
        r.order == 1,
        forall|a: int, b: int| #![trigger r.has(a, b)] !r.has(a, b),
    @*/

    /// C15: a simple digraph on V = 0..order: every arc joins two distinct vertices of V
    spec fn simple_on(&self, order: int) -> bool {
        &&& self.order == order
        &&& forall|a: int, b: int| #![trigger self.has(a, b)] self.has(a, b) ==> 0 <= a < order && 0 <= b < order && a != b
    }

    /*@fn impl=AdjacencyMatrix trait=ErdosRenyi name=erdos_renyi
    ensures
        order >= 1,
        r.wf(),
        r.simple_on(order as int),
    @closure 1 |x: &usize| -> (b: bool)
    ensures
        b == (u != *x),
    @loop 1
    invariant
        digraph.wf(),
        digraph.order == order,
        digraph.simple_on(order as int),
    @loop 2
    invariant
        u < order,
        // the candidates v are vertices other than u: the documented panics of add_arc (self-loop, id out of range) cannot occur
        forall|i: int| 0 <= i < it2.seq().len() ==> #[trigger] it2.seq()[i] < order && it2.seq()[i] != u,
        digraph.wf(),
        digraph.order == order,
        digraph.simple_on(order as int),
    @before `digraph.add_arc(`
        assert(v == it2.seq()[it2.index@]);
        assert(u != v && u < order && v < order);
    @*/

    /// C15: vertex a has exactly one out-arc, and it goes to a smaller vertex
    spec fn one_parent(&self, a: int) -> bool {
        exists|q: int| 0 <= q < a && #[trigger] self.has(a, q) && self.only_out(a, q)
    }

    /// the only out-neighbour of a is q (if any)
    spec fn only_out(&self, a: int, q: int) -> bool {
        forall|w: int| #![trigger self.has(a, w)] self.has(a, w) ==> w == q
    }

    /// vertex a has no out-arc
    spec fn no_out(&self, a: int) -> bool {
        forall|w: int| #![trigger self.has(a, w)] !self.has(a, w)
    }

    /// loop state: the vertices 1..k have received their parent, the others (0 and k..) have no out-arc
    spec fn tree_upto(&self, k: int) -> bool {
        forall|a: int| #![trigger self.one_parent(a)] #![trigger self.no_out(a)]
            if 1 <= a < k { self.one_parent(a) } else { self.no_out(a) }
    }

    /// C15: a recursive tree on 0..order: vertex 0 has no out-arc, every vertex u >= 1 exactly one, to a vertex smaller than u
    spec fn recursive_tree(&self) -> bool {
        &&& self.no_out(0)
        &&& forall|a: int| 1 <= a < self.order ==> #[trigger] self.one_parent(a)
    }

    /*@fn impl=AdjacencyMatrix trait=RandomRecursiveTree name=random_recursive_tree wrap=zip
    ensures
        order >= 1,
        r.wf(),
        r.order == order,
        r.recursive_tree(),
    @loop 1
    invariant
        order > 1,
        it1.iter.obeys_prophetic_iter_laws(),
        it1.iter.decrease() is Some,
        it1.seq().len() == order - 1,
        forall|i: int| 0 <= i < it1.seq().len() ==> (#[trigger] it1.seq()[i]).0 == i + 1,
        digraph.wf(),
        digraph.order == order,
        digraph.tree_upto(it1.index@ + 1),
    @loop_start 1
        let ghost d0 = digraph;
        assert((u, v) == it1.seq()[it1.index@]);
        // the documented panics of add_arc (self-loop, id out of range) cannot occur, nor a division by zero
        assert(1 <= u < order);
    @loop_end 1
        proof { lemma_matrix_tree_step(d0, digraph, u as int, (v as usize % u) as int); }
    @fn_end
        proof { lemma_matrix_tree_done(digraph); }
    @*/
}

/// giving vertex u (the first one without a parent) an arc to a smaller vertex q extends the tree by u
/// (stated as an implication so that a failing premise surfaces at the loop invariant, not at this hint)
proof fn lemma_matrix_tree_step(d0: AdjacencyMatrix, d1: AdjacencyMatrix, u: int, q: int)
    ensures
        (d1.order == d0.order
            && 1 <= u < d0.order
            && d0.tree_upto(u)
            && 0 <= q < u
            && (forall|a: int, b: int| #![trigger d1.has(a, b)] d1.has(a, b) == (d0.has(a, b) || (a == u && b == q))))
        ==> d1.tree_upto(u + 1),
{
    if d1.order == d0.order && 1 <= u < d0.order && d0.tree_upto(u) && 0 <= q < u
        && (forall|a: int, b: int| #![trigger d1.has(a, b)] d1.has(a, b) == (d0.has(a, b) || (a == u && b == q))) {
        assert forall|a: int| #![trigger d1.one_parent(a)] #![trigger d1.no_out(a)]
            if 1 <= a < u + 1 { d1.one_parent(a) } else { d1.no_out(a) } by {
            if 1 <= a < u {
                assert(d0.one_parent(a));
                let q0 = choose|q0: int| 0 <= q0 < a && #[trigger] d0.has(a, q0) && d0.only_out(a, q0);
                assert(d1.has(a, q0));
                assert(d1.only_out(a, q0)) by {
                    assert forall|w: int| #![trigger d1.has(a, w)] d1.has(a, w) implies w == q0 by { assert(d0.has(a, w)); }
                }
            } else if a == u {
                assert(d0.no_out(u));
                assert(d1.has(u, q));
                assert(d1.only_out(u, q)) by {
                    assert forall|w: int| #![trigger d1.has(u, w)] d1.has(u, w) implies w == q by { assert(!d0.has(u, w)); }
                }
            } else {
                assert(d0.no_out(a));
                assert forall|w: int| #![trigger d1.has(a, w)] !d1.has(a, w) by { assert(!d0.has(a, w)); }
            }
        }
    }
}

proof fn lemma_matrix_tree_done(d: AdjacencyMatrix)
    ensures d.tree_upto(d.order as int) ==> d.recursive_tree(),
{
    if d.tree_upto(d.order as int) {
        assert(d.no_out(0));
        assert forall|a: int| 1 <= a < d.order implies #[trigger] d.one_parent(a) by {}
    }
}
