//@unit props=C09,C13 tier=quick rlimit=40
//@file src/algo/tarjan.rs
// C09 for Tarjan (src/algo/tarjan.rs: `new`, `components`, the recursive `connect`), verified against the opaque digraph `Dga`
// (prelude/dg_any.rs) whose vertex set is ANY finite set of usize ids (not necessarily 0..order).
//
// The concrete state is abstracted to `TS` (speclib/tarjan_lemmas.rs, mathematical integers); the global invariant `tinv`
// and the frame predicates of one `connect(u)` call (`tpre` / `cinv` / `tpost`) live there, all step lemmas are proved.
//   stage 1 (safety): every `low_link[&x]` hits a key, `i += 1` cannot overflow (i = #indexed < |V| <= usize::MAX), the
//            recursion terminates (measure |V| - i), the pop loop terminates and stops at u.
//   stage 2 (partition), stage 3 (soundness), stage 4 (completeness): separate ensures clauses of `components`.
// Proof idea (no ghost "gray" set needed; everything is stated relative to the frame of one connect(u) call, s0 = entry state):
//   tinv: structure + R1 (earlier stack entries reach later ones) + sound (members of a component mutually reachable)
//         + topo (arcs out of component j lead into components 0..=j, i.e. reverse topological emission order);
//   cinv: stack = s0.stack ++ [u] ++ new; F (entries above u reach u); LR (low_link[u] = index of a stack entry not above u
//         that u reaches); E (arcs from the new stack part / processed arcs of u into the old stack bound low_link[u]);
//         W (vertices indexed during the call, except u, have only indexed out-neighbours);
//   tpost: either the stack is as at entry and low_link[u] == index[u] (component emitted) or u stays on the stack with
//         low_link[u] = index of an OLD stack entry reached by u; with an empty stack at entry only the first case remains.
//   completeness = topo + walk induction (lemma_topo_walk, lemma_reach_comp_le).
// Assumptions: prelude/dg_any.rs (trait contracts of Vertices / OutNeighbors for an arbitrary vertex set; |V| <= usize::MAX),
//   prelude/tarjan_std.rs (BTreeMap `Index<&Q>`: allowed when the key is present, returns the stored value; `Ord::min` via the
//   E12 wrapper vx_min). No @manual replacement.
#![feature(allocator_api)]
use vstd::prelude::*;
use vstd::std_specs::iter::IteratorSpec;
use vstd::slice::SliceIndexSpec;
use std::collections::BTreeMap;
use std::collections::BTreeSet;
use std::alloc::Allocator;
use core::borrow::Borrow;
verus! {
global size_of usize == 8;
broadcast use vstd::std_specs::btree::group_btree_axioms;
//@include prelude/std_contracts.rs
//@include prelude/tarjan_std.rs
//@include prelude/dg_any.rs
//@include speclib/graph.rs
//@include speclib/tarjan_lemmas.rs

/*@struct name=Tarjan subst=D=>Dga drop=D @*/

/// arc relation of the digraph as a spec closure (for speclib/graph.rs)
spec fn arcs_of(dg: &Dga) -> ArcRel { |u: int, v: int| dg.has(u, v) }

// ---- abstraction: usize-keyed containers -> integer-keyed mathematical ones ----
spec fn a_seq(s: Seq<usize>) -> Seq<int> { Seq::new(s.len(), |i: int| s[i] as int) }
spec fn a_set(s: Set<usize>) -> Set<int> { s.map(|x: usize| x as int) }
spec fn a_map(m: Map<usize, usize>) -> Map<int, int> { Map::new(a_set(m.dom()), |k: int| m[k as usize] as int) }
spec fn a_comps(c: Seq<BTreeSet<usize>>) -> Seq<Set<int>> { Seq::new(c.len(), |j: int| a_set(c[j]@)) }

broadcast proof fn lemma_a_set_contains(s: Set<usize>, x: int)
    ensures #[trigger] a_set(s).contains(x) == (0 <= x <= usize::MAX && s.contains(x as usize)),
{
    if a_set(s).contains(x) {
        let k = choose|k: usize| s.contains(k) && k as int == x;
        assert(k == x as usize);
    }
    if 0 <= x <= usize::MAX && s.contains(x as usize) {
        assert(s.contains(x as usize) && (x as usize) as int == x);
    }
}

broadcast proof fn lemma_a_map_contains(m: Map<usize, usize>, x: int)
    ensures #[trigger] a_map(m).contains_key(x) == (0 <= x <= usize::MAX && m.contains_key(x as usize)),
{
    lemma_a_set_contains(m.dom(), x);
}

proof fn lemma_a_insert(m: Map<usize, usize>, s: Set<usize>, q: Seq<usize>, k: usize, v: usize)
    ensures
        a_map(m.insert(k, v)) == a_map(m).insert(k as int, v as int),
        a_set(s.insert(k)) == a_set(s).insert(k as int),
        a_set(s.remove(k)) == a_set(s).remove(k as int),
        a_seq(q.push(k)) == a_seq(q).push(k as int),
{
    broadcast use lemma_a_set_contains, lemma_a_map_contains;
    assert(a_map(m.insert(k, v)) =~= a_map(m).insert(k as int, v as int));
    assert(a_set(s.insert(k)) =~= a_set(s).insert(k as int));
    assert(a_set(s.remove(k)) =~= a_set(s).remove(k as int));
    assert(a_seq(q.push(k)) =~= a_seq(q).push(k as int));
}


/// the concrete facts the pop loop starts from
proof fn lemma_pop_facts(has: ArcRel, verts: Set<int>, s0: TS, s: TS, u: int, nb: Seq<int>)
    requires cinv(has, verts, s0, s, u, nb, nb.len() as int),
    ensures s.stk.len() > s0.stk.len(), s.stk[s0.stk.len() as int] == u, s.stk.no_duplicates(),
{
    reveal(cinv); reveal(tinv);
}

/// the iterator of out_neighbors(u) yields every out-neighbour
spec fn nb_complete(dg: &Dga, u: usize, nbu: Seq<usize>) -> bool {
    forall|y: usize| dg.has(u as int, y as int) ==> nbu.contains(y)
}

proof fn lemma_nb_complete(dg: &Dga, u: usize, nbu: Seq<usize>)
    requires dg.wf(), nb_complete(dg, u, nbu),
    ensures forall|y: int| #[trigger] arcs_of(dg)(u as int, y) ==> a_seq(nbu).contains(y),
{
    assert forall|y: int| #[trigger] arcs_of(dg)(u as int, y) implies a_seq(nbu).contains(y) by {
        assert(dg.has(u as int, y));
        let yu = y as usize;
        assert(nbu.contains(yu));
        let j = choose|j: int| 0 <= j < nbu.len() && nbu[j] == yu;
        assert(a_seq(nbu)[j] == y);
    }
}

proof fn lemma_a_seq_nodup(q: Seq<usize>)
    requires a_seq(q).no_duplicates(),
    ensures q.no_duplicates(),
{
    assert forall|i: int, j: int| 0 <= i < q.len() && 0 <= j < q.len() && i != j implies q[i] != q[j] by {
        assert(a_seq(q)[i] != a_seq(q)[j]);
    }
}

impl<'a> Tarjan<'a> {
    /// the abstract state
    spec fn abs(&self) -> TS {
        TS { i: self.i as int, stk: a_seq(self.stack@), ons: a_set(self.on_stack@), idx: a_map(self.index@), low: a_map(self.low_link@), comps: a_comps(self.components@) }
    }

    /// between top-level calls: the invariant holds and the stack is empty
    spec fn ready(&self) -> bool {
        &&& self.digraph.wf()
        &&& tinv(arcs_of(self.digraph), self.digraph.verts(), self.abs())
        &&& self.stack@.len() == 0
    }

    /*@fn impl=Tarjan name=new subst=D=>Dga drop=D dropwhere=D
    requires
        digraph.wf(),
    ensures
        r.digraph == digraph,
        r.abs() == ts_init(),
        r.ready(),
    @fn_start
        proof {
            broadcast use lemma_a_set_contains, lemma_a_map_contains;
            lemma_init(arcs_of(digraph), digraph.verts());
            assert(a_seq(Seq::<usize>::empty()) =~= Seq::<int>::empty());
            assert(a_set(Set::<usize>::empty()) =~= Set::<int>::empty());
            assert(a_map(Map::<usize, usize>::empty()) =~= Map::<int, int>::empty());
            assert(a_comps(Seq::<BTreeSet<usize>>::empty()) =~= Seq::<Set<int>>::empty());
        }
    @*/

    /*@fn impl=Tarjan name=connect subst=D=>Dga drop=D dropwhere=D wrap=min
    requires
        old(self).digraph.wf(),
        tpre(arcs_of(old(self).digraph), old(self).digraph.verts(), old(self).abs(), u as int),
    ensures
        final(self).digraph == old(self).digraph,
        tpost(arcs_of(old(self).digraph), old(self).digraph.verts(), old(self).abs(), final(self).abs(), u as int),
    decreases
        old(self).digraph.verts().len() - old(self).i,
    @fn_start
        broadcast use axiom_btree_map_index_req;
        let ghost s0 = self.abs();
        let ghost has = arcs_of(self.digraph);
        let ghost verts = self.digraph.verts();
        proof {
            broadcast use lemma_a_set_contains, lemma_a_map_contains;
            lemma_pre_facts(has, verts, s0, u as int);
        }
    @before `for v in self.digraph.out_neighbors(u)`
        proof {
            lemma_a_insert(old(self).index@, old(self).on_stack@, old(self).stack@, u, old(self).i);
            lemma_a_insert(old(self).low_link@, old(self).on_stack@, old(self).stack@, u, old(self).i);
            assert(self.abs() == pushed(s0, u as int));
            assert forall|nb: Seq<int>| (forall|j: int| 0 <= j < nb.len() ==> has(u as int, #[trigger] nb[j])) implies #[trigger] cinv(has, verts, s0, pushed(s0, u as int), u as int, nb, 0) by {
                lemma_push(has, verts, s0, u as int, nb);
            }
        }
    @loop 1
    invariant
        it1.iter.obeys_prophetic_iter_laws(),
        it1.iter.decrease() is Some,
        self.digraph == old(self).digraph,
        self.digraph.wf(),
        s0 == old(self).abs(),
        has == arcs_of(self.digraph),
        verts == self.digraph.verts(),
        nb_complete(self.digraph, u, it1.seq()),
        cinv(has, verts, s0, self.abs(), u as int, a_seq(it1.seq()), it1.index() as int),
    @loop_start 1
        broadcast use axiom_btree_map_index_req;
        let ghost sk = self.abs();
        let ghost nb = a_seq(it1.seq());
        let ghost k = it1.index() as int;
        let ghost low_k = self.low_link@;
        proof {
            broadcast use lemma_a_set_contains, lemma_a_map_contains;
            lemma_cinv_facts(has, verts, s0, sk, u as int, nb, k);
            assert(nb[k] == v as int);
            assert(self.low_link@.contains_key(u));
        }
    @after `let _ = self.low_link.insert(u, self.low_link[&u]`
        proof {
            broadcast use lemma_a_set_contains, lemma_a_map_contains;
            lemma_edge_onstack(has, verts, s0, sk, u as int, nb, k);
            lemma_a_insert(low_k, self.on_stack@, self.stack@, u, vx_min_spec(low_k[u], w));
            assert(self.abs() == with_low(sk, u as int, imin(sk.low[u as int], sk.idx[v as int])));
        }
    @before `self.connect(v);`
        proof {
            broadcast use lemma_a_set_contains, lemma_a_map_contains;
            lemma_call_pre(has, verts, s0, sk, u as int, nb, k);
        }
    @after `self.connect(v);`
        let ghost s2 = self.abs();
        let ghost low_2 = self.low_link@;
        proof {
            broadcast use lemma_a_set_contains, lemma_a_map_contains;
            lemma_after_call(has, verts, s0, sk, s2, u as int, nb, k);
            assert(self.low_link@.contains_key(u) && self.low_link@.contains_key(v));
        }
    @after `let _ = self .low_link`
        proof {
            broadcast use lemma_a_set_contains, lemma_a_map_contains;
            lemma_a_insert(low_2, self.on_stack@, self.stack@, u, vx_min_spec(low_2[u], low_2[v]));
            assert(self.abs() == with_low(s2, u as int, imin(s2.low[u as int], s2.low[v as int])));
        }
    @before `if self.index`
        let ghost sm = self.abs();
        let ghost (nbu, kf) = choose|nbu: Seq<usize>, kf: int| #[trigger] cinv(has, verts, s0, sm, u as int, a_seq(nbu), kf) && kf == nbu.len() && nb_complete(self.digraph, u, nbu);
        let ghost nbf = a_seq(nbu);
        let ghost stk_m = self.stack@;
        let ghost ons_m = self.on_stack@;
        let ghost n0 = old(self).stack@.len() as int;
        let ghost pre_m = *self;
        proof {
            broadcast use lemma_a_set_contains, lemma_a_map_contains;
            assert(cinv(has, verts, s0, sm, u as int, a_seq(nbu), kf) && kf == nbu.len() && nb_complete(self.digraph, u, nbu));
            lemma_nb_complete(self.digraph, u, nbu);
            lemma_cinv_facts(has, verts, s0, sm, u as int, nbf, nbf.len() as int);
            assert(self.index@.contains_key(u) && self.low_link@.contains_key(u));
            assert(sm.idx[u as int] == self.index@[u] as int && sm.low[u as int] == self.low_link@[u] as int);
            if sm.low[u as int] != sm.idx[u as int] {
                lemma_no_emit(has, verts, s0, sm, u as int, nbf);
            }
            lemma_pop_facts(has, verts, s0, sm, u as int, nbf);
            lemma_a_seq_nodup(stk_m);
            assert(n0 == s0.stk.len() && sm.stk.len() == stk_m.len());
            assert(sm.stk[n0] == stk_m[n0] as int);
            assert(stk_m.len() > n0 && stk_m[n0] == u && stk_m.no_duplicates());
        }
    @loop 2
    invariant_except_break
        self.stack@.len() > n0,
    invariant
        self.digraph == pre_m.digraph,
        self.i == pre_m.i,
        self.index == pre_m.index,
        self.low_link == pre_m.low_link,
        self.components == pre_m.components,
        stk_m == pre_m.stack@,
        ons_m == pre_m.on_stack@,
        0 <= n0 <= self.stack@.len() <= stk_m.len(),
        n0 < stk_m.len(),
        stk_m[n0] == u,
        stk_m.no_duplicates(),
        self.stack@ == stk_m.take(self.stack@.len() as int),
        forall|x: usize| #![trigger component@.contains(x)] component@.contains(x) <==> exists|p: int| self.stack@.len() <= p < stk_m.len() && #[trigger] stk_m[p] == x,
        forall|x: usize| #[trigger] self.on_stack@.contains(x) <==> ons_m.contains(x) && !component@.contains(x),
    ensures
        self.stack@.len() == n0,
    decreases
        self.stack@.len(),
    @loop_start 2
        let ghost len_before = self.stack@.len() + 1;
        proof {
            assert(v == stk_m[len_before - 1]);
        }
    @loop_end 2
        proof {
            assert forall|x: usize| #![trigger component@.contains(x)] component@.contains(x) <==> exists|p: int| self.stack@.len() <= p < stk_m.len() && #[trigger] stk_m[p] == x by {
                if x == v { assert(stk_m[len_before - 1] == x); }
            }
        }
    @after `self.components.push(component);`
        proof {
            broadcast use lemma_a_set_contains, lemma_a_map_contains;
            lemma_emitted(pre_m, *self, n0, component@);
            lemma_emit(has, verts, s0, sm, self.abs(), u as int, nbf, a_set(component@));
        }
    @loop_end 1
        proof {
            broadcast use lemma_a_set_contains, lemma_a_map_contains;
            if sk.idx.contains_key(v as int) && !sk.ons.contains(v as int) {
                lemma_edge_done(has, verts, s0, sk, u as int, nb, k);
            }
        }
    @*/

    /*@fn impl=Tarjan name=components subst=D=>Dga drop=D dropwhere=D
    requires
        old(self).ready(),
    ensures
        final(self).digraph == old(self).digraph,
        final(self).ready(),
        // ---- stage 2, PARTITION: the returned sets are pairwise disjoint, non-empty, and their union is exactly V
        forall|j: int, k: int, x: usize| 0 <= j < k < r@.len() && #[trigger] r@[j]@.contains(x) ==> !#[trigger] r@[k]@.contains(x),
        forall|j: int| 0 <= j < r@.len() ==> has_member(#[trigger] r@[j]@),
        forall|x: usize| #![trigger old(self).digraph.verts().contains(x as int)] old(self).digraph.verts().contains(x as int) <==> exists|j: int| 0 <= j < r@.len() && (#[trigger] r@[j])@.contains(x),
        // ---- stage 3, SOUNDNESS: two vertices in the same set are reachable from each other
        forall|j: int, a: usize, b: usize| 0 <= j < r@.len() && #[trigger] r@[j]@.contains(a) && #[trigger] r@[j]@.contains(b) ==> reachable(arcs_of(old(self).digraph), set![a as int], b as int),
        // ---- stage 4, COMPLETENESS: two vertices reachable from each other lie in the same set
        forall|j: int, k: int, a: usize, b: usize| 0 <= j < r@.len() && 0 <= k < r@.len() && #[trigger] r@[j]@.contains(a) && #[trigger] r@[k]@.contains(b)
            && reachable(arcs_of(old(self).digraph), set![a as int], b as int) && reachable(arcs_of(old(self).digraph), set![b as int], a as int) ==> j == k,
    @fn_start
        let ghost has = arcs_of(self.digraph);
        let ghost verts = self.digraph.verts();
    @loop 1
    invariant
        it1.iter.obeys_prophetic_iter_laws(),
        it1.iter.decrease() is Some,
        self.digraph == old(self).digraph,
        has == arcs_of(self.digraph),
        verts == self.digraph.verts(),
        self.ready(),
        forall|v: usize| verts.contains(v as int) ==> it1.seq().contains(v),
        forall|i: int| 0 <= i < it1.seq().len() ==> verts.contains(#[trigger] it1.seq()[i] as int),
        forall|i: int| 0 <= i < it1.index() ==> self.index@.contains_key(#[trigger] it1.seq()[i]),
    @loop_start 1
        let ghost sk = self.abs();
        let ghost idx_k = self.index@;
        proof {
            broadcast use lemma_a_set_contains, lemma_a_map_contains;
            if !sk.idx.contains_key(u as int) {
                lemma_top_pre(has, verts, sk, u as int);
            }
        }
    @loop_end 1
        proof {
            broadcast use lemma_a_set_contains, lemma_a_map_contains;
            if !sk.idx.contains_key(u as int) {
                lemma_top_post(has, verts, sk, self.abs(), u as int);
                assert forall|x: usize| idx_k.contains_key(x) implies self.index@.contains_key(x) by {
                    assert(sk.idx.contains_key(x as int));
                }
            }
        }
    @fn_end
        proof {
            broadcast use lemma_a_set_contains, lemma_a_map_contains;
            let ghost s = self.abs();
            assert forall|x: int| #[trigger] verts.contains(x) implies s.idx.contains_key(x) by {
                let xu = x as usize;
                assert(verts.contains(xu as int));
            }
            lemma_final(has, verts, s);
            lemma_result(has, verts, self.components@);
        }
    @*/
}

/// the pop loop and `components.push(component)` perform the abstract emission step
proof fn lemma_emitted(a: Tarjan, b: Tarjan, n0: int, c: Set<usize>)
    requires
        b.i == a.i, b.index == a.index, b.low_link == a.low_link,
        b.components@ == a.components@.push(b.components@.last()),
        b.components@.len() == a.components@.len() + 1,
        b.components@.last()@ == c,
        0 <= n0 < a.stack@.len(),
        b.stack@ == a.stack@.take(n0),
        forall|x: usize| #![trigger c.contains(x)] c.contains(x) <==> exists|p: int| n0 <= p < a.stack@.len() && #[trigger] a.stack@[p] == x,
        forall|x: usize| #[trigger] b.on_stack@.contains(x) <==> a.on_stack@.contains(x) && !c.contains(x),
    ensures
        emitted(a.abs(), b.abs(), n0, a_set(c)),
{
    broadcast use lemma_a_set_contains, lemma_a_map_contains;
    let s = a.abs();
    let s1 = b.abs();
    assert(s1.stk =~= s.stk.take(n0));
    assert(s1.comps =~= s.comps.push(a_set(c)));
    assert forall|x: int| #![trigger a_set(c).contains(x)] #![trigger on_stk_from(s.stk, n0, x)] a_set(c).contains(x) <==> on_stk_from(s.stk, n0, x) by {
        if a_set(c).contains(x) {
            let p = choose|p: int| n0 <= p < a.stack@.len() && #[trigger] a.stack@[p] == x as usize;
            assert(s.stk[p] == x);
        }
        if on_stk_from(s.stk, n0, x) {
            let p = choose|p: int| n0 <= p < s.stk.len() && #[trigger] s.stk[p] == x;
            assert(a.stack@[p] == x as usize);
        }
    }
}

/// the set is not empty
spec fn has_member(s: Set<usize>) -> bool { exists|x: usize| s.contains(x) }

/// the clauses of C09 over the concrete result
proof fn lemma_result(has: ArcRel, verts: Set<int>, r: Seq<BTreeSet<usize>>)
    requires
        forall|x: int| #[trigger] verts.contains(x) ==> 0 <= x <= usize::MAX,
        is_partition(verts, a_comps(r)),
        sound(has, a_comps(r)),
        complete(has, a_comps(r)),
    ensures
        forall|j: int, k: int, x: usize| 0 <= j < k < r.len() && #[trigger] r[j]@.contains(x) ==> !#[trigger] r[k]@.contains(x),
        forall|j: int| 0 <= j < r.len() ==> has_member(#[trigger] r[j]@),
        forall|x: usize| #![trigger verts.contains(x as int)] verts.contains(x as int) <==> exists|j: int| 0 <= j < r.len() && (#[trigger] r[j])@.contains(x),
        forall|j: int, a: usize, b: usize| 0 <= j < r.len() && #[trigger] r[j]@.contains(a) && #[trigger] r[j]@.contains(b) ==> reachable(has, set![a as int], b as int),
        forall|j: int, k: int, a: usize, b: usize| 0 <= j < r.len() && 0 <= k < r.len() && #[trigger] r[j]@.contains(a) && #[trigger] r[k]@.contains(b)
            && reachable(has, set![a as int], b as int) && reachable(has, set![b as int], a as int) ==> j == k,
{
    broadcast use lemma_a_set_contains;
    let c = a_comps(r);
    assert forall|j: int, k: int, x: usize| 0 <= j < k < r.len() && #[trigger] r[j]@.contains(x) implies !#[trigger] r[k]@.contains(x) by {
        assert(c[j].contains(x as int));
        assert(!c[k].contains(x as int));
    }
    assert forall|j: int| 0 <= j < r.len() implies has_member(#[trigger] r[j]@) by {
        assert(nonempty(c[j]));
        let x = choose|x: int| c[j].contains(x);
        assert(r[j]@.contains(x as usize));
    }
    assert forall|x: usize| #![trigger verts.contains(x as int)] verts.contains(x as int) <==> exists|j: int| 0 <= j < r.len() && (#[trigger] r[j])@.contains(x) by {
        if verts.contains(x as int) {
            assert(in_comps(c, x as int));
            let j = choose|j: int| 0 <= j < c.len() && (#[trigger] c[j]).contains(x as int);
            assert(r[j]@.contains(x));
        }
        if exists|j: int| 0 <= j < r.len() && (#[trigger] r[j])@.contains(x) {
            let j = choose|j: int| 0 <= j < r.len() && (#[trigger] r[j])@.contains(x);
            assert(c[j].contains(x as int));
            assert(in_comps(c, x as int));
        }
    }
    assert forall|j: int, a: usize, b: usize| 0 <= j < r.len() && #[trigger] r[j]@.contains(a) && #[trigger] r[j]@.contains(b) implies reachable(has, set![a as int], b as int) by {
        assert(c[j].contains(a as int) && c[j].contains(b as int));
        assert(reach(has, a as int, b as int));
    }
    assert forall|j: int, k: int, a: usize, b: usize| 0 <= j < r.len() && 0 <= k < r.len() && #[trigger] r[j]@.contains(a) && #[trigger] r[k]@.contains(b)
            && reachable(has, set![a as int], b as int) && reachable(has, set![b as int], a as int) implies j == k by {
        assert(c[j].contains(a as int) && c[k].contains(b as int));
        assert(reach(has, a as int, b as int) && reach(has, b as int, a as int));
    }
}
} // verus!
fn main() {}
