//@unit props=C02,C12,C13 tier=quick rlimit=30
//@file src/repr/adjacency_matrix/mod.rs
use vstd::prelude::*;
use vstd::set_lib::*;
use vstd::slice::SliceIndexSpec;
use vstd::std_specs::iter::IteratorSpec;
use std::collections::BTreeSet;
verus! {
global size_of usize == 8;
//@include prelude/std_contracts.rs
//@include prelude/iter_wrappers.rs
//@include prelude/blanket_std.rs
//@include prelude/matrix_more_std.rs

//@import units/inc/matrix_core.inc.rs
//@import units/inc/matrix_queries.inc.rs
//@import units/inc/matrix_degrees.inc.rs
//@import units/inc/matrix_gen.inc.rs

//@include units/inc/matrix_more.inc.rs
} // verus!
fn main() {}
