//@unit props=C01,C16,C13 tier=quick rlimit=30
//@file src/repr/adjacency_list_weighted/mod.rs
use vstd::prelude::*;
use vstd::slice::SliceIndexSpec;
use vstd::std_specs::iter::IteratorSpec;
use std::collections::BTreeMap;
use std::collections::btree_map;
verus! {
global size_of usize == 8;
//@include prelude/std_contracts.rs
//@include prelude/list_core_std.rs
//@include prelude/iter_wrappers.rs
//@import units/inc/weighted_arcs.inc.rs

//@import units/inc/weighted_core.inc.rs

//@include units/inc/weighted_ctor.inc.rs
} // verus!
fn main() {}
