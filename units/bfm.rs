//@unit props=C07,C13 tier=quick rlimit=30
//@file src/algo/bellman_ford_moore.rs
#![feature(allocator_api)]
use vstd::prelude::*;
use vstd::std_specs::iter::IteratorSpec;
use vstd::slice::SliceIndexSpec;
verus! {
global size_of usize == 8;
//@include prelude/std_contracts.rs
//@include prelude/dgw_isize.rs
//@include speclib/graph.rs

/*@struct name=BellmanFordMoore subst=D=>Dgi drop=D @*/

impl<'a> BellmanFordMoore<'a> {
    /*@fn impl=BellmanFordMoore name=new subst=D=>Dgi drop=D dropwhere=D
    requires
        digraph.wf(),
    ensures
        s < digraph.ord(),
        r.digraph == digraph,
        r.dist@.len() == digraph.ord(),
    @*/

    /*@fn impl=BellmanFordMoore name=distances subst=D=>Dgi dropwhere=D
    requires
        old(self).digraph.wf(),
    ensures
        true,
    @*/
}

} // verus!
fn main() {}
