//@unit props=C07,C13 tier=quick rlimit=30
//@file src/algo/bellman_ford_moore.rs
// C07 for BellmanFordMoore (src/algo/bellman_ford_moore.rs), C13 for every index it touches and for `dist_u + w`.
//
// The digraph is the opaque `Dgi` (prelude/dgw_isize.rs): the algorithm is verified against the trait contracts of
// ContiguousOrder::contiguous_order and ArcsWeighted::arcs_weighted (every arc exactly once with its weight, arc ends
// below the order) only.  The source is not stored in the struct; a state built by `new(digraph, s)` is recognised
// by `fresh_at(dist, s)` and `distances` is specified for such states (`src_of` recovers s).
//
// distances: the pass invariant (`pass_inv`, speclib/bfm_lemmas.rs) is stated over the number j = min(i, arcs_len) of
// arcs relaxed so far in the pass, so that it has to hold for every residue of arcs_len modulo 4 of the hand-unrolled
// loop: each of the four blocks is shown to be exactly `relax_result(dist, arcs[j])` and to advance j by one.
// Soundness ("Some(d) ==> d is the table of minimum walk weights, MAX exactly on the unreachable vertices" and
// "reachable negative closed walk ==> None") uses the final check loop only: no relaxable arc = feasible potential,
// every finite label has a witness walk, lemma_certificate.  Completeness ("no reachable negative cycle ==> Some")
// uses the (n-1)-round argument: after k passes every walk of at most k arcs from s weighs at least the label of its
// end (`kbound`), and without negative cycles every walk can be shortened to a duplicate-free path (lemma_shorten).
//
// Arithmetic side condition `sums_fit` ("path sums fit in isize"): there is B >= 1 with |w(a)| <= B for every arc and
// B * order^3 < isize::MAX.  order^3 bounds the number of relaxations (<= order - 1 passes over <= order^2 arcs, plus
// the final check) and every label is a sum of at most that many arc weights.  A bound on duplicate-free path sums
// alone (order * B) is NOT sufficient for this code when a negative circuit is reachable: labels keep falling by up
// to arcs_len * B per pass.  Concrete input (reproduced against the crate): ring 0->1->2->3->4->0, every weight
// -(isize::MAX / 10), source 0: debug build panics `attempt to add with overflow` (line 277), release build wraps
// and returns Some([...]) although a negative circuit is reachable.  Also order 3, arcs 0->1, 1->0, 0->2, 2->0 of
// weight -(isize::MAX / 4): debug panics at line 355, release returns Some.
#![feature(allocator_api)]
use vstd::prelude::*;
use vstd::std_specs::iter::IteratorSpec;
use vstd::slice::SliceIndexSpec;
verus! {
global size_of usize == 8;
//@include prelude/std_contracts.rs
//@include prelude/dgw_isize.rs
//@include speclib/graph.rs
//@include speclib/bfm_lemmas.rs

/*@struct name=BellmanFordMoore subst=D=>Dgi drop=D @*/

impl<'a> BellmanFordMoore<'a> {
    /*@fn impl=BellmanFordMoore name=new subst=D=>Dgi drop=D dropwhere=D
    ensures
        s < digraph.ord(),
        r.digraph == digraph,
        r.dist@.len() == digraph.ord(),
        r.dist@[s as int] == 0,
        forall|v: int| 0 <= v < r.dist@.len() && v != s ==> #[trigger] r.dist@[v] == isize::MAX,
        fresh_at(r.dist@, s as int),
    @*/

    /*@fn impl=BellmanFordMoore name=distances subst=D=>Dgi dropwhere=D
    requires
        old(self).digraph.wf(),
        old(self).dist@.len() == old(self).digraph.ord(),
        is_fresh(old(self).dist@),
        sums_fit(old(self).digraph),
    ensures
        final(self).digraph == old(self).digraph,
        // C07: None whenever a negative-weight circuit is reachable from s
        neg_closed_walk_reachable(has_of(old(self).digraph), wt_of(old(self).digraph), src1(src_of(old(self).dist@))) ==> r is None,
        // C07: Some whenever there is no negative-weight circuit (it suffices that none is reachable from s)
        !neg_cycle_reachable(has_of(old(self).digraph), wt_of(old(self).digraph), src1(src_of(old(self).dist@))) ==> r is Some,
        // C07: Some(d) ==> d[v] is the minimum weight of a walk from s to v, and isize::MAX exactly when v is unreachable
        r matches Some(d) ==> c07_some(old(self).digraph, src_of(old(self).dist@), d@),
    @fn_start
        let ghost dg = self.digraph;
        let ghost s = src_of(self.dist@);
        let ghost b = choose|b: int| fits(dg, b);
        let ghost mut t: int = 0;
        proof {
            assert(fresh_at(self.dist@, s));
            lemma_fresh_inv(dg, self.dist@, s);
            assert(limit(0, b) == 0);
        }
    @after `let arcs_len`
        proof {
            assert(arc_list_ok(dg, arcs@)) by {
                assert forall|u: int, v: int| #[trigger] dg.has(u, v) implies exists|i: int| 0 <= i < arcs@.len() && (#[trigger] arcs@[i]).0 == u && arcs@[i].1 == v by {
                    assert(dg.has(u as usize as int, v as usize as int));
                }
            }
            lemma_arc_count(dg, arcs@);
            lemma_budget(order as int, arcs_len as int, 0, 0);
            lemma_limit_fits(dg, b, cube(order as int));
            assert(arcs_len < isize::MAX) by {
                assert(cube(order as int) <= b * cube(order as int)) by (nonlinear_arith) requires b >= 1, cube(order as int) >= 0;
            }
        }
    @loop 1
    invariant_except_break
        t <= it1.index@ * arcs_len,
        kbound(dg, self.dist@, s, it1.index@ as int),
    invariant
        self.digraph == dg, dg.wf(), order == dg.ord(), fits(dg, b),
        arcs_len == arcs@.len(), arc_list_ok(dg, arcs@), arcs_len <= order * order, arcs_len < isize::MAX,
        it1.seq().len() == order - 1,
        0 <= t,
        base_inv(dg, self.dist@, s, limit(t, b)),
    ensures
        t <= (order - 1) * arcs_len,
        all_tight(self.dist@, arcs@) || kbound(dg, self.dist@, s, order - 1),
    @loop_start 1
        let ghost d0 = self.dist@;
        let ghost t0 = t;
        let ghost mut j: int = 0;
    @loop 2
    invariant
        self.digraph == dg, dg.wf(), order == dg.ord(), fits(dg, b),
        arcs_len == arcs@.len(), arc_list_ok(dg, arcs@), arcs_len <= order * order, arcs_len < isize::MAX,
        0 <= it1.index@ < order - 1,
        0 <= t0 <= it1.index@ * arcs_len,
        kbound(dg, d0, s, it1.index@ as int),
        t == t0 + j,
        // j arcs have been relaxed in this pass: all below i, or all of them once i has run past the end
        j == (if i < arcs_len { i as int } else { arcs_len as int }),
        i <= arcs_len + 3,
        pass_inv(dg, arcs@, s, d0, self.dist@, j, limit(t, b), updated),
    decreases
        arcs_len + 4 - i,
    @before #1 `let (`
        let ghost dpre = self.dist@;
        let ghost upre = updated;
        proof {
            lemma_mul_step(it1.index@ as int, arcs_len as int, order - 1);
            lemma_budget(order as int, arcs_len as int, it1.index@ + 1, t);
            lemma_step_pre(dg, arcs@, s, b, dpre, t, i as int);
        }
    @after #1 `if dist_u != isize::MAX`
        proof {
            lemma_relax_step(dg, arcs@, s, b, d0, dpre, j, limit(t, b), upre, self.dist@, updated);
            lemma_limit_step(t, b);
            j = j + 1;
            t = t + 1;
        }
    @before #2 `let (`
        let ghost dpre = self.dist@;
        let ghost upre = updated;
        proof {
            lemma_mul_step(it1.index@ as int, arcs_len as int, order - 1);
            lemma_budget(order as int, arcs_len as int, it1.index@ + 1, t);
            lemma_step_pre(dg, arcs@, s, b, dpre, t, i as int);
        }
    @after #2 `if dist_u != isize::MAX`
        proof {
            lemma_relax_step(dg, arcs@, s, b, d0, dpre, j, limit(t, b), upre, self.dist@, updated);
            lemma_limit_step(t, b);
            j = j + 1;
            t = t + 1;
        }
    @before #3 `let (`
        let ghost dpre = self.dist@;
        let ghost upre = updated;
        proof {
            lemma_mul_step(it1.index@ as int, arcs_len as int, order - 1);
            lemma_budget(order as int, arcs_len as int, it1.index@ + 1, t);
            lemma_step_pre(dg, arcs@, s, b, dpre, t, i as int);
        }
    @after #3 `if dist_u != isize::MAX`
        proof {
            lemma_relax_step(dg, arcs@, s, b, d0, dpre, j, limit(t, b), upre, self.dist@, updated);
            lemma_limit_step(t, b);
            j = j + 1;
            t = t + 1;
        }
    @before #4 `let (`
        let ghost dpre = self.dist@;
        let ghost upre = updated;
        proof {
            lemma_mul_step(it1.index@ as int, arcs_len as int, order - 1);
            lemma_budget(order as int, arcs_len as int, it1.index@ + 1, t);
            lemma_step_pre(dg, arcs@, s, b, dpre, t, i as int);
        }
    @after #4 `if dist_u != isize::MAX`
        proof {
            lemma_relax_step(dg, arcs@, s, b, d0, dpre, j, limit(t, b), upre, self.dist@, updated);
            lemma_limit_step(t, b);
            j = j + 1;
            t = t + 1;
        }
    @before `if !updated`
        proof {
            lemma_pass_end(dg, arcs@, s, d0, self.dist@, limit(t, b), updated, it1.index@ as int);
            lemma_mul_step(it1.index@ as int, arcs_len as int, order - 1);
        }
    @after `for _ in`
        let ghost dfin = self.dist@;
        proof {
            lemma_budget(order as int, arcs_len as int, order - 1, t);
            if !neg_cycle_reachable(has_of(dg), wt_of(dg), src1(s)) && !all_tight(self.dist@, arcs@) {
                lemma_complete(dg, arcs@, s, self.dist@, limit(t, b));
            }
        }
    @loop 3
    invariant
        self.digraph == dg, dg == old(self).digraph, s == src_of(old(self).dist@), fits(dg, b),
        arcs_len == arcs@.len(), arc_list_ok(dg, arcs@),
        0 <= t, t + 1 <= cube(dg.ord() as int),
        base_inv(dg, self.dist@, s, limit(t, b)),
        it3.seq().len() == arcs_len,
        forall|k: int| 0 <= k < it3.seq().len() ==> #[trigger] it3.seq()[k] == k,
        forall|k: int| 0 <= k < it3.index@ ==> tight(self.dist@, #[trigger] arcs@[k]),
        !neg_cycle_reachable(has_of(dg), wt_of(dg), src1(s)) ==> all_tight(self.dist@, arcs@),
    @before #5 `let (`
        proof {
            lemma_step_pre(dg, arcs@, s, b, self.dist@, t, i as int);
        }
    @before `return None`
        proof {
            assert(!tight(self.dist@, arcs@[i as int]));
        }
    @fn_end
        proof {
            lemma_limit_step(t, b);
            lemma_limit_fits(dg, b, t + 1);
            lemma_sound(dg, arcs@, s, b, self.dist@, limit(t, b));
        }
    @*/
}

/// Composition check (client code, not crate code): C07 as stated, for `new` followed by `distances`.
fn harness_c07(dg: &Dgi, s: usize)
    requires
        dg.wf(),
        sums_fit(dg),
{
    let mut bfm = BellmanFordMoore::new(dg, s);
    proof { lemma_fresh_unique(bfm.dist@, s as int); }
    let r = bfm.distances();
    assert(s < dg.ord());
    assert(neg_closed_walk_reachable(has_of(dg), wt_of(dg), src1(s as int)) ==> r is None);
    assert(!neg_cycle_reachable(has_of(dg), wt_of(dg), src1(s as int)) ==> r is Some);
    assert(r matches Some(d) ==> c07_some(dg, s as int, d@));
}

} // verus!
fn main() {}
