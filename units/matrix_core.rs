//@unit props=C01,C02,C13,C20 tier=quick rlimit=30
//@file src/repr/adjacency_matrix/mod.rs
use vstd::prelude::*;
use vstd::slice::SliceIndexSpec;
verus! {
global size_of usize == 8;
//@include prelude/std_contracts.rs

//@include units/inc/matrix_core.inc.rs
} // verus!
fn main() {}
