//@unit props=C15,C13 tier=quick rlimit=30
//@file src/gen/prng/xoshiro256_star_star.rs
#![feature(allocator_api)]
use vstd::prelude::*;
use vstd::slice::SliceIndexSpec;
// (the names below are only needed by the map_positional part of prelude/c13left_std.rs, which is one file for three units)
use vstd::std_specs::iter::IteratorSpec;
use std::collections::BTreeMap;
use std::collections::BTreeSet;
use std::collections::btree_map;
use std::collections::btree_set;
verus! {
global size_of usize == 8;
//@include prelude/std_contracts.rs
//@include prelude/iter_wrappers.rs
//@include prelude/c13left_std.rs

// ---- SplitMix64 (seeds the xoshiro state) ----
//@file src/gen/prng/split_mix64.rs

/*@struct name=SplitMix64 @*/

/// the SplitMix64 output function applied to the (already advanced) state
#[verifier::opaque]
spec fn splitmix_out(z: u64) -> u64 {
    let s1 = mul64((z ^ (z >> 30)), 0xBF58_476D_1CE4_E5B9);
    let s2 = mul64((s1 ^ (s1 >> 27)), 0x94D0_49BB_1331_11EB);
    s2 ^ (s2 >> 31)
}

/// multiplication / addition modulo 2^64
spec fn mul64(a: u64, b: u64) -> u64 { ((a as int * b as int) % 0x1_0000_0000_0000_0000) as u64 }
spec fn add64(a: u64, b: u64) -> u64 { ((a as int + b as int) % 0x1_0000_0000_0000_0000) as u64 }

/// the SplitMix64 state after k calls of `next` on a generator seeded with `seed`
spec fn splitmix_state(seed: u64, k: int) -> u64
    decreases k
{
    if k <= 0 { seed } else { add64(splitmix_state(seed, k - 1), 0x9E37_79B9_7F4A_7C15) }
}

impl SplitMix64 {
    /*@fn impl=SplitMix64 name=new
    ensures
        r.state == seed,
    @*/

    /*@fn impl=SplitMix64 trait=Iterator name=next subst=Self::Item=>u64
    ensures
        r is Some,
        final(self).state == add64(old(self).state, 0x9E37_79B9_7F4A_7C15),
        r->0 == splitmix_out(final(self).state),
    @fn_start
        reveal(splitmix_out);
    @*/
}

// ---- Xoshiro256StarStar ----
//@file src/gen/prng/xoshiro256_star_star.rs

/*@struct name=Xoshiro256StarStar @*/

/// the xoshiro256** recurrence on the state words (s0, s1, s2, s3)
spec fn xoshiro_step(s: Seq<u64>) -> Seq<u64> {
    let t = s[1] << 17;
    let s2 = s[2] ^ s[0];
    let s3 = s[3] ^ s[1];
    let s1 = s[1] ^ s2;
    let s0 = s[0] ^ s3;
    seq![s0, s1, s2 ^ t, rotl64(s3, 45)]
}

/// the xoshiro256** output function (scrambler) of the state before the step
spec fn xoshiro_out(s: Seq<u64>) -> u64 {
    mul64(rotl64(mul64(s[1], 5), 7), 9)
}

impl Xoshiro256StarStar {
    /*@fn impl=Xoshiro256StarStar name=new
    ensures
        r.state@.len() == 4,
        forall|k: int| 0 <= k < 4 ==> #[trigger] r.state@[k] == splitmix_out(splitmix_state(seed, k + 1)),
    @fn_start
        reveal_with_fuel(splitmix_state, 5);
    @*/

    /*@fn impl=Xoshiro256StarStar trait=Iterator name=next subst=Self::Item=>u64
    ensures
        r is Some,
        r->0 == xoshiro_out(old(self).state@),
        final(self).state@ == xoshiro_step(old(self).state@),
    @*/

    /*@fn impl=Xoshiro256StarStar name=next_bool
    ensures
        final(self).state@ == xoshiro_step(old(self).state@),
        r == (xoshiro_out(old(self).state@) & 1 == 1),
    @*/
}
} // verus!
fn main() {}
