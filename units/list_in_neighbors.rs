//@unit props=C02,C13 tier=quick rlimit=30
//@file src/repr/adjacency_list/mod.rs
#![feature(allocator_api)]
use vstd::prelude::*;
use vstd::set_lib::*;
use vstd::slice::SliceIndexSpec;
use vstd::std_specs::iter::IteratorSpec;
use std::collections::BTreeSet;
use std::collections::btree_set;
use core::marker::PhantomData;
verus! {
global size_of usize == 8;
//@include prelude/std_contracts.rs
//@include prelude/list_core_std.rs

//@import units/inc/list_core.inc.rs

//@include units/inc/list_in_neighbors.inc.rs
} // verus!
fn main() {}
