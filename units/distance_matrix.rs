//@unit props=C18,C13 tier=quick rlimit=30
use vstd::prelude::*;
use vstd::slice::SliceIndexSpec;
use std::ops::{Range, RangeFull};
verus! {
global size_of usize == 8;
//@include prelude/std_contracts.rs
//@include units/inc/distance_matrix.inc.rs
//@include units/inc/distance_matrix_index.inc.rs
} // verus!
fn main() {}
