//@unit props=C03,C13 tier=quick rlimit=30
//@file src/algo/dijkstra_dist.rs
// C03 for Dijkstra / DijkstraDist (src/algo/dijkstra.rs, src/algo/dijkstra_dist.rs), C13 for every index they touch.
//
// State abstraction: (digraph, dist@, heap multiset).  `inv(s)` (= dj_inv in speclib/dijkstra_lemmas.rs) is a
// label-correcting invariant for the source set s: every heap item and every label has a duplicate-free witness
// path of exactly that weight, no heap item occurs twice, and a labelled vertex either still has its current label
// pending in the heap or none of its out-arcs can be relaxed.  The source set is not stored in the struct, so the
// contracts of `next` quantify over it (requires exists s, ensures forall s).
// `next` additionally exposes (a) the relation between its pre- and post-state (`trans` / `ret_rel`: labels only go
// down, which vertices can become done / pending, key monotonicity, the termination measure), (b) that a returned
// key is the exact distance (feasible potential min(dist, key), no settled-set argument), and (c) two derived step
// rules for a client that folds the items into a table (`res_inv`) or records them (`trace_inv`).
// `distances` is verified against those rules only; its postcondition is C03's first sentence, and the ghost trace
// `em` of the items its `for u in self` loop receives is shown to satisfy C03's second sentence (`yields_ok`).
// Arithmetic side condition ("path sums fit in usize"): `paths_fit` - see speclib/dijkstra_lemmas.rs.
#![feature(allocator_api)]
use vstd::prelude::*;
use std::collections::BinaryHeap;
use core::cmp::Reverse;
use vstd::multiset::Multiset;
use vstd::std_specs::iter::IteratorSpec;
use vstd::slice::SliceIndexSpec;
verus! {
global size_of usize == 8;
//@include prelude/std_contracts.rs
//@include prelude/dgw_usize.rs
//@include prelude/binary_heap.rs
//@include speclib/graph.rs
//@include speclib/dijkstra_lemmas.rs

/// x is among the out-neighbours still to come
spec fn later<'b>(nb: Seq<(usize, &'b usize)>, idx: int, x: int) -> bool {
    exists|i: int| idx <= i < nb.len() && (#[trigger] nb[i]).0 == x
}
/// the out_neighbors_weighted contract of vertex u, over the whole item sequence
spec fn nbrs_ok<'b>(dg: &Dgw, u: int, nb: Seq<(usize, &'b usize)>) -> bool {
    forall|i: int| 0 <= i < nb.len() ==> dg.has(u, (#[trigger] nb[i]).0 as int) && *nb[i].1 == dg.wt(u, nb[i].0 as int)
}

/*@type name=Step @*/

/*@struct name=DijkstraDist subst=D=>Dgw drop=D @*/

impl<'a> DijkstraDist<'a> {
    spec fn items(&self) -> Multiset<HItem> { heap_items(&self.heap) }
    /// invariant between calls, for the source set s
    spec fn inv(&self, s: Set<int>) -> bool { dj_inv(self.digraph, self.dist@, self.items(), s) }
    /// state as built by `new`: sources labelled 0 and pending once, everything else unlabelled
    spec fn is_fresh(&self) -> bool { fresh(self.digraph, self.dist@, self.items()) }
    spec fn srcs(&self) -> Set<int> { srcs_of(self.dist@) }

    /*@fn impl=DijkstraDist name=new subst=D=>Dgw drop=D dropwhere=D
    requires
        digraph.wf(),
        sources.obeys_prophetic_iter_laws(),
        sources.decrease() is Some,
        sources.remaining().no_duplicates(),
    ensures
        r.digraph == digraph,
        r.is_fresh(),
        forall|v: int| #[trigger] r.srcs().contains(v) <==> 0 <= v <= usize::MAX && sources.remaining().contains(v as usize),
    @fn_start
        let ghost src0 = sources.remaining();
        let ghost mut done_src: Seq<usize> = Seq::empty();
    @loop 1
    invariant
        it1.iter.obeys_prophetic_iter_laws(),
        it1.iter.decrease() is Some,
        it1.seq() == src0,
        src0.no_duplicates(),
        digraph.wf(),
        order == digraph.ord(),
        dist@.len() == order,
        done_src == src0.take(it1.index@),
        fresh_from(dist@, heap_items(&heap), done_src),
    @loop_start 1
        let ghost d_pre = dist@;
        let ghost h_pre = heap_items(&heap);
    @loop_end 1
        proof {
            assert(!done_src.contains(u)) by {
                if done_src.contains(u) {
                    let i = choose|i: int| 0 <= i < done_src.len() && done_src[i] == u;
                    assert(src0[i] == src0[it1.index@]);
                }
            }
            lemma_fresh_step(d_pre, h_pre, done_src, u);
            assert(src0.take(it1.index@ + 1) =~= done_src.push(u));
            done_src = done_src.push(u);
        }
    @fn_end
        proof {
            assert(done_src =~= src0);
            lemma_fresh_from_fresh(digraph, dist@, heap_items(&heap), src0);
        }
    @*/

    /*@fn impl=DijkstraDist trait=Iterator name=next subst=Self::Item=>(usize,usize)
    requires
        exists|s: Set<int>| old(self).inv(s),
    ensures
        final(self).digraph == old(self).digraph,
        forall|s: Set<int>| #[trigger] old(self).inv(s) ==> final(self).inv(s),
        r is None ==> final(self).items().len() == 0,
        r is None ==> trans(old(self).dist@, old(self).items(), final(self).dist@, final(self).items()),
        r matches Some(st) ==> st.1 < usize::MAX && ret_rel(old(self).dist@, old(self).items(), final(self).dist@, final(self).items(), st.0 as int, st.1 as int),
        r matches Some(st) ==> forall|s: Set<int>| #[trigger] old(self).inv(s) ==> is_min_walk_weight(has_of(old(self).digraph), wt_of(old(self).digraph), s, st.0 as int, st.1 as int),
        forall|res: Seq<usize>| #[trigger] res_inv(old(self).dist@, old(self).items(), res) ==> res_inv(final(self).dist@, final(self).items(), match r { Some(st) => res.update(st.0 as int, st.1), None => res }),
        forall|s: Set<int>, em: Seq<(usize, usize)>| old(self).inv(s) && #[trigger] trace_inv(old(self).digraph, old(self).dist@, old(self).items(), s, em)
            ==> trace_inv(old(self).digraph, final(self).dist@, final(self).items(), s, match r { Some(st) => em.push(st), None => em }),
    @fn_start
        let ghost s0 = choose|s: Set<int>| old(self).inv(s);
        let ghost dg = self.digraph;
        let ghost d0 = self.dist@;
        let ghost h0 = self.items();
        proof { lemma_trans_refl(d0, h0); }
    @loop 1
    invariant
        self.digraph == dg,
        d0 == old(self).dist@, h0 == old(self).items(), dg == old(self).digraph,
        old(self).inv(s0),
        forall|s: Set<int>| #[trigger] old(self).inv(s) ==> self.inv(s),
        trans(d0, h0, self.dist@, self.items()),
    decreases
        dsum(self.dist@), self.items().len(),
    @loop_start 1
        let ghost dm = self.dist@;
        let ghost hm = self.items();
        proof {
            lemma_res_none(d0, h0, dm, hm);
            lemma_dsum_nonneg(dm);
            assert forall|s: Set<int>, em: Seq<(usize, usize)>| old(self).inv(s) && #[trigger] trace_inv(dg, d0, h0, s, em) implies trace_inv(dg, dm, hm, s, em) by {
                lemma_trace_none(dg, d0, h0, dm, hm, s, em);
            }
        }
    @after `let (Reverse(w_prev), u)`
        let ghost it0: HItem = (Reverse(w_prev), u);
        let ghost ha = self.items();
        let ghost um: int = if dm[u as int] == w_prev { u as int } else { -1 };
        let ghost mut seen: Set<int> = Set::empty();
        proof {
            broadcast use axiom_ord_le_reverse_key;
            assert(hm.count(it0) > 0 && ha == hm.remove(it0));
            assert(dj_inv(dg, dm, hm, s0));
            lemma_pop(dg, dm, hm, s0, it0);
            assert(keys_ge(hm, w_prev as int)) by {
                assert forall|j: HItem| #[trigger] hm.count(j) > 0 implies j.0.0 >= w_prev by { assert(ord_le(j, it0)); }
            }
            assert forall|s: Set<int>| #[trigger] old(self).inv(s) implies dj_inv_x(dg, self.dist@, self.items(), s, um, seen)
                && has_pwit(dg, self.dist@, s, u as int, w_prev as int) by {
                lemma_pop(dg, dm, hm, s, it0);
            }
            lemma_relax_rel_refl(dm, ha, w_prev as int);
        }
    @loop 2
    invariant
        it2.iter.obeys_prophetic_iter_laws(),
        it2.iter.decrease() is Some,
        self.digraph == dg, dg.wf(),
        d0 == old(self).dist@, h0 == old(self).items(), dg == old(self).digraph,
        old(self).inv(s0),
        dm.len() == dg.ord(), self.dist@.len() == dg.ord(), u < dg.ord(),
        it0 == (Reverse(w_prev), u),
        trans(d0, h0, dm, hm), hm.count(it0) > 0, ha == hm.remove(it0), keys_ge(hm, w_prev as int),
        forall|j: HItem| #[trigger] hm.count(j) <= 1,
        dm[u as int] <= w_prev, self.dist@[u as int] <= w_prev,
        um == -1 || (um == u && self.dist@[u as int] == w_prev),
        nbrs_ok(dg, u as int, it2.seq()),
        forall|x: int| #[trigger] dg.has(u as int, x) ==> seen.contains(x) || later(it2.seq(), it2.index@, x),
        forall|s: Set<int>| #[trigger] old(self).inv(s) ==> dj_inv_x(dg, self.dist@, self.items(), s, um, seen)
            && has_pwit(dg, self.dist@, s, u as int, w_prev as int),
        relax_rel(dm, ha, self.dist@, self.items(), w_prev as int),
    @before `let w_next`
        let ghost dpre = self.dist@;
        let ghost hpre = self.items();
        proof {
            assert((v, w) == it2.seq()[it2.index@]);
            assert(dg.has(u as int, v as int) && *w == dg.wt(u as int, v as int));
            lemma_extend_pwit(dg, dpre, s0, u as int, w_prev as int, v as int);
        }
    @loop_end 2
        proof {
            if w_next < dpre[v as int] {
                assert forall|s: Set<int>| #[trigger] old(self).inv(s) implies dj_inv_x(dg, self.dist@, self.items(), s, um, seen.insert(v as int))
                    && has_pwit(dg, self.dist@, s, u as int, w_prev as int) by {
                    lemma_relax_update(dg, dpre, hpre, s, um, seen, u as int, w_prev, v as int, w_next);
                }
                lemma_relax_rel_step(dm, ha, dpre, hpre, w_prev as int, v as int, w_next);
            } else {
                assert forall|s: Set<int>| #[trigger] old(self).inv(s) implies dj_inv_x(dg, self.dist@, self.items(), s, um, seen.insert(v as int)) by {
                    lemma_relax_skip(dg, dpre, hpre, s, um, seen, u as int, w_prev, v as int);
                }
            }
            assert forall|x: int| #[trigger] dg.has(u as int, x) implies seen.insert(v as int).contains(x) || later(it2.seq(), it2.index@ + 1, x) by {
                if x != v && !seen.contains(x) {
                    let i = choose|i: int| it2.index@ <= i < it2.seq().len() && (#[trigger] it2.seq()[i]).0 == x;
                    assert(i != it2.index@);
                }
            }
            seen = seen.insert(v as int);
        }
    @before `if w_prev`
        proof {
            assert forall|x: int| dg.has(um, x) implies seen.contains(x) by {
                if um == u as int { assert(dg.has(u as int, x)); }
            }
            assert forall|s: Set<int>| #[trigger] old(self).inv(s) implies self.inv(s) by {
                lemma_relax_done(dg, self.dist@, self.items(), s, um, seen);
            }
            lemma_compose(d0, h0, dm, hm, it0, self.dist@, self.items());
            lemma_dsum_nonneg(self.dist@);
            if w_prev == self.dist@[u as int] {
                lemma_pwit_fits(dg, self.dist@, s0, u as int, w_prev as int);
                lemma_res_ret(d0, h0, self.dist@, self.items(), u as int, w_prev);
                assert forall|s: Set<int>| #[trigger] old(self).inv(s) implies is_min_walk_weight(has_of(dg), wt_of(dg), s, u as int, w_prev as int) by {
                    lemma_settled(dg, self.dist@, self.items(), s, u as int, w_prev as int);
                }
                assert forall|s: Set<int>, em: Seq<(usize, usize)>| old(self).inv(s) && #[trigger] trace_inv(dg, d0, h0, s, em) implies trace_inv(dg, self.dist@, self.items(), s, em.push((u, w_prev))) by {
                    lemma_trace_ret(dg, d0, h0, self.dist@, self.items(), s, em, u, w_prev);
                }
            }
        }
    @*/

    /*@fn impl=DijkstraDist name=distances subst=D=>Dgw dropwhere=D
    requires
        old(self).is_fresh(),
        paths_fit(old(self).digraph, old(self).srcs()),
    ensures
        r.len() == old(self).digraph.ord(),
        forall|v: int| 0 <= v < r.len() ==> (r[v] == usize::MAX <==> !#[trigger] reachable(has_of(old(self).digraph), old(self).srcs(), v)),
        forall|v: int| 0 <= v < r.len() && r[v] != usize::MAX ==> #[trigger] is_min_walk_weight(has_of(old(self).digraph), wt_of(old(self).digraph), old(self).srcs(), v, r[v] as int),
    @fn_start
        let ghost s = self.srcs();
        let ghost dg = self.digraph;
        let ghost mut em: Seq<(usize, usize)> = Seq::empty();
        proof { lemma_fresh_inv(dg, self.dist@, self.items()); }
    @after `let mut dist`
        proof { lemma_res_fresh(self.dist@, self.items(), dist@); }
    @loop 1
    invariant
        self.digraph == dg, dg == old(self).digraph, s == old(self).srcs(),
        self.inv(s),
        res_inv(self.dist@, self.items(), dist@),
        trace_inv(dg, self.dist@, self.items(), s, em),
    ensures
        self.items().len() == 0,
    decreases
        dsum(self.dist@), self.items().len(),
    @loop_start 1
        proof { lemma_dsum_nonneg(self.dist@); em = em.push(u); }
    @fn_end
        proof {
            lemma_distances_final(dg, self.dist@, self.items(), s, dist@);
            // C03, iteration clause: em is the sequence of items the `for u in self` loop above received
            lemma_trace_final(dg, self.dist@, self.items(), s, em);
            assert(yields_ok(dg, s, em));
        }
    @*/
}

//@file src/algo/dijkstra.rs
/*@struct name=Dijkstra subst=D=>Dgw drop=D @*/

impl<'a> Dijkstra<'a> {
    spec fn items(&self) -> Multiset<HItem> { heap_items(&self.heap) }
    spec fn inv(&self, s: Set<int>) -> bool { dj_inv(self.digraph, self.dist@, self.items(), s) }
    spec fn is_fresh(&self) -> bool { fresh(self.digraph, self.dist@, self.items()) }
    spec fn srcs(&self) -> Set<int> { srcs_of(self.dist@) }

    /*@fn impl=Dijkstra name=new subst=D=>Dgw drop=D dropwhere=D
    requires
        digraph.wf(),
        sources.obeys_prophetic_iter_laws(),
        sources.decrease() is Some,
        sources.remaining().no_duplicates(),
    ensures
        r.digraph == digraph,
        r.is_fresh(),
        forall|v: int| #[trigger] r.srcs().contains(v) <==> 0 <= v <= usize::MAX && sources.remaining().contains(v as usize),
    @fn_start
        let ghost src0 = sources.remaining();
        let ghost mut done_src: Seq<usize> = Seq::empty();
    @loop 1
    invariant
        it1.iter.obeys_prophetic_iter_laws(),
        it1.iter.decrease() is Some,
        it1.seq() == src0,
        src0.no_duplicates(),
        digraph.wf(),
        order == digraph.ord(),
        dist@.len() == order,
        done_src == src0.take(it1.index@),
        fresh_from(dist@, heap_items(&heap), done_src),
    @loop_start 1
        let ghost d_pre = dist@;
        let ghost h_pre = heap_items(&heap);
    @loop_end 1
        proof {
            assert(!done_src.contains(u)) by {
                if done_src.contains(u) {
                    let i = choose|i: int| 0 <= i < done_src.len() && done_src[i] == u;
                    assert(src0[i] == src0[it1.index@]);
                }
            }
            lemma_fresh_step(d_pre, h_pre, done_src, u);
            assert(src0.take(it1.index@ + 1) =~= done_src.push(u));
            done_src = done_src.push(u);
        }
    @fn_end
        proof {
            assert(done_src =~= src0);
            lemma_fresh_from_fresh(digraph, dist@, heap_items(&heap), src0);
        }
    @*/
    /*@fn impl=Dijkstra trait=Iterator name=next subst=Self::Item=>usize
    requires
        exists|s: Set<int>| old(self).inv(s),
    ensures
        final(self).digraph == old(self).digraph,
        forall|s: Set<int>| #[trigger] old(self).inv(s) ==> final(self).inv(s),
        r is None ==> final(self).items().len() == 0,
        r is None ==> trans(old(self).dist@, old(self).items(), final(self).dist@, final(self).items()),
        r matches Some(y) ==> y < final(self).dist@.len() && final(self).dist@[y as int] < usize::MAX && ret_rel(old(self).dist@, old(self).items(), final(self).dist@, final(self).items(), y as int, final(self).dist@[y as int] as int),
        r matches Some(y) ==> forall|s: Set<int>| #[trigger] old(self).inv(s) ==> is_min_walk_weight(has_of(old(self).digraph), wt_of(old(self).digraph), s, y as int, final(self).dist@[y as int] as int),
        forall|s: Set<int>, em: Seq<(usize, usize)>| old(self).inv(s) && #[trigger] trace_inv(old(self).digraph, old(self).dist@, old(self).items(), s, em)
            ==> trace_inv(old(self).digraph, final(self).dist@, final(self).items(), s, match r { Some(y) => em.push((y, final(self).dist@[y as int])), None => em }),
    @fn_start
        let ghost s0 = choose|s: Set<int>| old(self).inv(s);
        let ghost dg = self.digraph;
        let ghost d0 = self.dist@;
        let ghost h0 = self.items();
        proof { lemma_trans_refl(d0, h0); }
    @loop 1
    invariant
        self.digraph == dg,
        d0 == old(self).dist@, h0 == old(self).items(), dg == old(self).digraph,
        old(self).inv(s0),
        forall|s: Set<int>| #[trigger] old(self).inv(s) ==> self.inv(s),
        trans(d0, h0, self.dist@, self.items()),
    decreases
        dsum(self.dist@), self.items().len(),
    @loop_start 1
        let ghost dm = self.dist@;
        let ghost hm = self.items();
        proof {
            lemma_dsum_nonneg(dm);
            assert forall|s: Set<int>, em: Seq<(usize, usize)>| old(self).inv(s) && #[trigger] trace_inv(dg, d0, h0, s, em) implies trace_inv(dg, dm, hm, s, em) by {
                lemma_trace_none(dg, d0, h0, dm, hm, s, em);
            }
        }
    @after `let (Reverse(w_prev), u)`
        let ghost it0: HItem = (Reverse(w_prev), u);
        let ghost ha = self.items();
        let ghost um: int = if dm[u as int] == w_prev { u as int } else { -1 };
        let ghost mut seen: Set<int> = Set::empty();
        proof {
            broadcast use axiom_ord_le_reverse_key;
            assert(hm.count(it0) > 0 && ha == hm.remove(it0));
            assert(dj_inv(dg, dm, hm, s0));
            lemma_pop(dg, dm, hm, s0, it0);
            assert(keys_ge(hm, w_prev as int)) by {
                assert forall|j: HItem| #[trigger] hm.count(j) > 0 implies j.0.0 >= w_prev by { assert(ord_le(j, it0)); }
            }
            assert forall|s: Set<int>| #[trigger] old(self).inv(s) implies dj_inv_x(dg, self.dist@, self.items(), s, um, seen)
                && has_pwit(dg, self.dist@, s, u as int, w_prev as int) by {
                lemma_pop(dg, dm, hm, s, it0);
            }
            lemma_relax_rel_refl(dm, ha, w_prev as int);
        }
    @loop 2
    invariant
        it2.iter.obeys_prophetic_iter_laws(),
        it2.iter.decrease() is Some,
        self.digraph == dg, dg.wf(),
        d0 == old(self).dist@, h0 == old(self).items(), dg == old(self).digraph,
        old(self).inv(s0),
        dm.len() == dg.ord(), self.dist@.len() == dg.ord(), u < dg.ord(),
        it0 == (Reverse(w_prev), u),
        trans(d0, h0, dm, hm), hm.count(it0) > 0, ha == hm.remove(it0), keys_ge(hm, w_prev as int),
        forall|j: HItem| #[trigger] hm.count(j) <= 1,
        dm[u as int] <= w_prev, self.dist@[u as int] <= w_prev,
        um == -1 || (um == u && self.dist@[u as int] == w_prev),
        nbrs_ok(dg, u as int, it2.seq()),
        forall|x: int| #[trigger] dg.has(u as int, x) ==> seen.contains(x) || later(it2.seq(), it2.index@, x),
        forall|s: Set<int>| #[trigger] old(self).inv(s) ==> dj_inv_x(dg, self.dist@, self.items(), s, um, seen)
            && has_pwit(dg, self.dist@, s, u as int, w_prev as int),
        relax_rel(dm, ha, self.dist@, self.items(), w_prev as int),
    @before `let w_next`
        let ghost dpre = self.dist@;
        let ghost hpre = self.items();
        proof {
            assert((v, w) == it2.seq()[it2.index@]);
            assert(dg.has(u as int, v as int) && *w == dg.wt(u as int, v as int));
            lemma_extend_pwit(dg, dpre, s0, u as int, w_prev as int, v as int);
        }
    @loop_end 2
        proof {
            if w_next < dpre[v as int] {
                assert forall|s: Set<int>| #[trigger] old(self).inv(s) implies dj_inv_x(dg, self.dist@, self.items(), s, um, seen.insert(v as int))
                    && has_pwit(dg, self.dist@, s, u as int, w_prev as int) by {
                    lemma_relax_update(dg, dpre, hpre, s, um, seen, u as int, w_prev, v as int, w_next);
                }
                lemma_relax_rel_step(dm, ha, dpre, hpre, w_prev as int, v as int, w_next);
            } else {
                assert forall|s: Set<int>| #[trigger] old(self).inv(s) implies dj_inv_x(dg, self.dist@, self.items(), s, um, seen.insert(v as int)) by {
                    lemma_relax_skip(dg, dpre, hpre, s, um, seen, u as int, w_prev, v as int);
                }
            }
            assert forall|x: int| #[trigger] dg.has(u as int, x) implies seen.insert(v as int).contains(x) || later(it2.seq(), it2.index@ + 1, x) by {
                if x != v && !seen.contains(x) {
                    let i = choose|i: int| it2.index@ <= i < it2.seq().len() && (#[trigger] it2.seq()[i]).0 == x;
                    assert(i != it2.index@);
                }
            }
            seen = seen.insert(v as int);
        }
    @before `if unsafe`
        proof {
            assert forall|x: int| dg.has(um, x) implies seen.contains(x) by {
                if um == u as int { assert(dg.has(u as int, x)); }
            }
            assert forall|s: Set<int>| #[trigger] old(self).inv(s) implies self.inv(s) by {
                lemma_relax_done(dg, self.dist@, self.items(), s, um, seen);
            }
            lemma_compose(d0, h0, dm, hm, it0, self.dist@, self.items());
            lemma_dsum_nonneg(self.dist@);
            if w_prev == self.dist@[u as int] {
                lemma_pwit_fits(dg, self.dist@, s0, u as int, w_prev as int);
                assert forall|s: Set<int>| #[trigger] old(self).inv(s) implies is_min_walk_weight(has_of(dg), wt_of(dg), s, u as int, w_prev as int) by {
                    lemma_settled(dg, self.dist@, self.items(), s, u as int, w_prev as int);
                }
                assert forall|s: Set<int>, em: Seq<(usize, usize)>| old(self).inv(s) && #[trigger] trace_inv(dg, d0, h0, s, em) implies trace_inv(dg, self.dist@, self.items(), s, em.push((u, w_prev))) by {
                    lemma_trace_ret(dg, d0, h0, self.dist@, self.items(), s, em, u, w_prev);
                }
            }
        }
    @*/
}

/// Composition check for the plain `Dijkstra` iterator (client code, not crate code: the crate has no driver for it):
/// draining a fresh iterator with `next` produces exactly the sequence C03 describes.
fn harness_drain<'a>(it: &mut Dijkstra<'a>) -> (out: Vec<usize>)
    requires
        old(it).is_fresh(),
        paths_fit(old(it).digraph, old(it).srcs()),
    ensures
        exists|em: Seq<(usize, usize)>| yields_ok(old(it).digraph, old(it).srcs(), em) && em.len() == out.len()
            && forall|i: int| 0 <= i < out.len() ==> out[i] == (#[trigger] em[i]).0,
{
    let ghost s = it.srcs();
    let ghost dg = it.digraph;
    let ghost mut em: Seq<(usize, usize)> = Seq::empty();
    let mut out: Vec<usize> = Vec::new();
    proof { lemma_fresh_inv(dg, it.dist@, it.items()); }
    loop
        invariant
            it.digraph == dg, dg == old(it).digraph, s == old(it).srcs(),
            it.inv(s),
            trace_inv(dg, it.dist@, it.items(), s, em),
            em.len() == out.len(),
            forall|i: int| 0 <= i < out.len() ==> out[i] == (#[trigger] em[i]).0,
        ensures
            it.items().len() == 0,
        decreases
            dsum(it.dist@), it.items().len(),
    {
        match it.next() {
            Some(y) => {
                proof { lemma_dsum_nonneg(it.dist@); em = em.push((y, it.dist@[y as int])); }
                out.push(y);
            }
            None => { break; }
        }
    }
    proof { lemma_trace_final(dg, it.dist@, it.items(), s, em); }
    out
}

} // verus!
fn main() {}
