//@unit props=C03,C13 tier=quick rlimit=30
//@file src/algo/dijkstra_dist.rs
#![feature(allocator_api)]
use vstd::prelude::*;
use std::collections::BinaryHeap;
use core::cmp::Reverse;
use vstd::multiset::Multiset;
use vstd::std_specs::iter::IteratorSpec;
verus! {
global size_of usize == 8;
//@include prelude/std_contracts.rs
//@include prelude/dgw_usize.rs
//@include prelude/binary_heap.rs
//@include speclib/graph.rs

/*@type name=Step @*/

/*@struct name=DijkstraDist subst=D=>Dgw drop=D @*/

impl<'a> DijkstraDist<'a> {
    spec fn inv0(&self) -> bool {
        &&& self.digraph.wf()
        &&& self.dist.len() == self.digraph.ord()
        &&& forall|it: (Reverse<usize>, usize)| #[trigger] heap_items(&self.heap).count(it) > 0 ==> it.1 < self.dist.len()
    }

    /*@fn impl=DijkstraDist name=new subst=D=>Dgw drop=D dropwhere=D
    requires
        digraph.wf(),
        sources.obeys_prophetic_iter_laws(),
        sources.decrease() is Some,
    ensures
        r.inv0(),
    @loop 1
    invariant
        true,
    @*/

    /*@fn impl=DijkstraDist trait=Iterator name=next subst=Self::Item=>(usize,usize)
    requires
        old(self).inv0(),
    ensures
        final(self).inv0(),
    @loop 1
    invariant
        true,
    @loop 2
    invariant
        true,
    @*/

    /*@fn impl=DijkstraDist name=distances subst=D=>Dgw dropwhere=D
    requires
        old(self).inv0(),
    ensures
        true,
    @loop 1
    invariant
        true,
    @*/
}

} // verus!
fn main() {}
