//@unit props=C11,C13 tier=quick rlimit=30
//@file src/repr/edge_list/mod.rs
#![feature(allocator_api)]
use vstd::prelude::*;
use vstd::slice::SliceIndexSpec;
use vstd::std_specs::iter::IteratorSpec;
use std::collections::BTreeSet;
use std::collections::btree_set;
verus! {
global size_of usize == 8;
//@include prelude/std_contracts.rs
//@include prelude/iter_wrappers.rs
//@include prelude/list_core_std.rs
//@include prelude/edge_list_compl_std.rs

//@import units/inc/edge_list_core.inc.rs

//@include units/inc/edge_list_compl.inc.rs
} // verus!
fn main() {}
