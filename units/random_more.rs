//@unit props=C14,C15,C13 tier=quick rlimit=30
//@file src/repr/adjacency_matrix/mod.rs
use vstd::prelude::*;
use vstd::slice::SliceIndexSpec;
use vstd::std_specs::iter::IteratorSpec;
verus! {
global size_of usize == 8;
//@include prelude/std_contracts.rs
//@include prelude/conversions_std.rs
//@include prelude/random_more_std.rs

//@import units/inc/matrix_core.inc.rs

//@include units/inc/random_more.inc.rs
} // verus!
fn main() {}
