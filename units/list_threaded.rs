//@unit props=C17,C14,C13 tier=quick rlimit=40
//@file src/repr/adjacency_list/mod.rs
// C17: the thread-parallel functions of AdjacencyList equal their single-threaded definitions for EVERY thread count.
// The number of workers is `available_parallelism().map_or(1, NonZero::get)`: `available_parallelism` has no postcondition
// here (an arbitrary io::Result<NonZero<usize>>), so all that is known about t is t >= 1.  Threads: prelude/threads_std.rs
// (the trusted concurrency contract: joining a spawned `move` closure yields a value satisfying the closure's postcondition).
#![feature(allocator_api)]
use vstd::prelude::*;
use vstd::slice::SliceIndexSpec;
use vstd::std_specs::iter::IteratorSpec;
use std::collections::BTreeSet;
use std::collections::btree_set;
use core::cmp::Ordering;
use core::num::NonZero;
use std::thread::{JoinHandle, spawn, available_parallelism};
verus! {
global size_of usize == 8;
//@include prelude/std_contracts.rs
//@include prelude/iter_wrappers.rs
//@include prelude/list_core_std.rs
//@include prelude/list_ops_std.rs
//@include prelude/threads_std.rs

//@import units/inc/list_core.inc.rs
//@import units/inc/list_ops.inc.rs

//@include units/inc/list_threaded.inc.rs
} // verus!
fn main() {}
